#!/usr/bin/env python3
"""Regenerate MANIFEST.json from the table below (run by hand when a property's status changes)."""
import json, os
ROOT = os.path.dirname(os.path.dirname(os.path.abspath(__file__)))
PROOF_NOTE = ("Trusted: Coq 8.16.1 kernel + vm_compute (no native_compute); no axioms (Print Assumptions: closed under the global context); "
              "the hand-written Gallina model (coq/Model) and the assumed pandas/numpy primitive semantics (coq/Base/Series.v), tied to /repo's working tree only by the "
              "correspondence check (harness/: programs run on the implementation, on the model by coqc+vm_compute, and on an independent rational oracle); "
              "floats are compared exactly on dyadic data and with 1e-9 relative tolerance where stated; IEEE rounding, dtypes and pandas view semantics are not modelled.")
CLAIMED = {
 "C01": ("proof", "arith_pointwise / negate_pointwise: for every ordered domain, every well-formed internal state (either or both internal forms), scalars on either side: both one-sided limits of the result equal the pointwise operation (None iff an argument is None or x/0). Correspondence: ~3k generated programs per quick run agree with the model and the oracle.", "5 (C01)"),
 "C04": ("proof", "rel_pointwise + rel_indicator + rel_result_minimal: relational results are the 0/1 indicator on the common domain, undefined exactly where an operand is, and are well-formed minimal step functions; follow-up operations are exercised by the correspondence programs.", "5 (C04)"),
 "C05": ("proof", "logic_pointwise + truth table + invert/make_boolean theorems, incl. the repaired scalar short-cuts (m | 1, m & 0).", "5 (C05)"),
}
PENDING = {}
def main():
    props = [json.loads(l) for l in open(os.path.join(ROOT, "properties.jsonl"))]
    checks, na = [], []
    for p in props:
        pid = p["id"]
        if pid in CLAIMED:
            cat, text, ref = CLAIMED[pid]
            checks.append({
                "property_id": pid,
                "quick_cmd": f"./check {pid} --tier quick",
                "thorough_cmd": f"./check {pid} --tier thorough",
                "evidence_file": f"/verif/evidence/{pid}.json",
                "replay_cmd_template": f"./check {pid} --replay {{path}}",
                "engine": "coq-model+correspondence",
                "level_claimed": {"category": cat, "text": text, "design_ref": f"DESIGN.md section {ref}"},
                "level_note": PROOF_NOTE,
                "technique": "machine-checked proof in Coq 8.16 about a Gallina model + correspondence check (model vs implementation on generated programs)" if cat == "proof"
                             else "partial machine-checked proof in Coq 8.16 + correspondence check (model vs implementation on generated programs)",
            })
        else:
            na.append({"property_id": pid, "reason": PENDING.get(pid, "not claimed yet: the check for this property is still being built (model and theorems in progress); see DESIGN.md section 5")})
    m = {
        "version": 1,
        "setup_cmd": "cd /verif/coq && coq_makefile -f _CoqProject -o Makefile && timeout 3000 make -j16",
        "hooks": {"guard": "STAIRCASE_VERIF_HOOKS", "enable": "no source hooks are needed: everything is observed through the public API of the staircase imported from /repo's working tree (PYTHONPATH=/repo)",
                  "baseline_off_cmd": "cd /repo && /venv/bin/python -m pytest -ra -q -p no:cacheprovider --timeout=900 --continue-on-collection-errors",
                  "source_commits": [], "add_only": True},
        "engines": [{"name": "coq-model+correspondence", "path": "/verif/coq, /verif/harness", "serves_properties": sorted(CLAIMED),
                     "kind_free_text": "Gallina model + theorems (coq/), correspondence runner (harness/): implementation vs model (vm_compute) vs rational oracle"}],
        "checks": checks,
        "not_applicable": na,
        "notes": "Genuine defects of the pinned tree were repaired by separate 'fix:' commits in /repo (listed in /verif/known_findings.json as fixed: lines).",
    }
    json.dump(m, open(os.path.join(ROOT, "MANIFEST.json"), "w"), indent=1)
if __name__ == "__main__":
    main()
