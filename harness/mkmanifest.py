#!/usr/bin/env python3
"""Regenerate MANIFEST.json from the table below (run by hand when a property's status changes)."""
import json, os
ROOT = os.path.dirname(os.path.dirname(os.path.abspath(__file__)))
PROOF_NOTE = ("Trusted: Coq 8.16.1 kernel + vm_compute (no native_compute); no axioms (Print Assumptions: closed under the global context); "
              "the hand-written Gallina model (coq/Model) and the assumed pandas/numpy primitive semantics (coq/Base/Series.v), tied to /repo's working tree only by the "
              "correspondence check (harness/: programs run on the implementation, on the model by coqc+vm_compute, and on an independent rational oracle); "
              "floats are compared exactly on dyadic data and with 1e-9 relative tolerance where stated; IEEE rounding, dtypes and pandas view semantics are not modelled.")
LEVELS = json.load(open(os.path.join(ROOT, "levels.json")))
TEXT = {
 "C01": "arith_pointwise / negate_pointwise: for every ordered domain, every well-formed internal state (either or both internal forms), scalars on either side: both one-sided limits of the result equal the pointwise operation (None iff an argument is None or x/0).",
 "C02": "layer_adds_its_triples, layer_history (any finite history, scalar and vector calls, receivers with undefined regions, either internal form), layer_order_irrelevant, scalar_and_vector_forms_agree. Argument routes (Series with any index, frames, padding of shorter vectors) and 'layer returns the receiver' are Python glue covered by the correspondence flavours.",
 "C03": "limit_is_lim, lim_is_one_sided_limit (dense domains), limits coincide off step points, views_agree, changes_sum_to_values.",
 "C04": "rel_pointwise + rel_indicator + rel_result_minimal; follow-up operations are exercised by the correspondence programs.",
 "C05": "logic_pointwise + truth table + invert/make_boolean theorems, incl. the repaired scalar short-cuts.",
 "C06": "clip_restricts_exactly (bisect/iloc model proved against the window predicate on both limits), mask_where_pointwise, where_tuple_is_clip, mask_tuple_masks_the_interval, isna_notna_indicators.",
 "C07": "fillna_scalar_pointwise, fillna_function_pointwise (the repaired fillna(0) + g.fillna(0)*isna pipeline), ffill_fills_from_the_left, bfill_fills_from_the_right (defined points unchanged; undefined points take the last / next defined value).",
 "C08": "listed_pieces_are_pieces_of_the_function (the finite pieces denote f, unbounded pieces excluded), value_sums_maps_each_value_to_its_total_length, integral_and_mean_are_length_weighted, var_is_the_weighted_mean_squared_deviation (proved through the pipeline the code uses: value sums -> ecdf -> percentile table -> squared deviation -> clip to [0, 100] -> integral / 100, for every well-formed function with a finite defined piece). std = numpy.sqrt(var) is irrational-valued and outside the rational model: tied to var by the correspondence check only (std^2 vs var, 1e-9). Timedelta-valued results on datetime domains: correspondence (domain flavours).",
 "C09": "ecdf_is_the_fraction_of_length_at_or_below (left limit: strictly below), hist_probability_and_sum + bin_difference_is_the_length_of_values_in_the_bin, mode_is_a_value_of_maximal_total_length, percentile_is_the_midpoint_of_the_lower_and_upper_quantiles (minimum at 0, maximum at 100), quantiles_are_least_values_reaching_the_share + the_cumulative_share_is_the_ecdf, fractile_is_percentile_of_100p, median_is_percentile_50 - all for every well-formed function with a finite defined piece, through the pipeline the code uses (value sums -> ecdf -> quantile table -> one-sided limits). hist 'frequency' / 'density' (quotients of the proved sums), quantiles(q) (fractiles at i/q) and describe (a table of these statistics) are Python glue over the proved functions: correspondence + oracle (exact on power-of-two totals, 1e-9 otherwise). hist_frequency_is_sum_over_width, hist_density_is_sum_over_area, densities_integrate_to_one, describe_is_the_statistics_of_the_restriction (unfoldings that tie 'frequency', 'density' and describe to the proved quantities), describe_unique_is_the_number_of_distinct_values.",
 "C10": "values_in_range_is_exactly_the_value_set (iff, for all 8 rows of the bisect-side table, bounded / half-bounded / unbounded windows, using density of the rational domain), sorted without duplicates, min / max are the least / greatest element. Windows need lower < upper (the code rejects others in clip/agg). Correspondence puts window end points on every step point for every row.",
 "C11": "a_slice_is_the_restriction, slicer statistics = statistics of the slice (the slicer maps over the intervals), slicer max / min = greatest / least value f takes at a defined point of the interval with the interval's own closedness (via C10 and one-sided limits), resample_is_piecewise_the_statistic (increasing non-overlapping slices; a slice whose statistic is undefined stays undefined). What mean / integral / median / mode of a slice are is C08 / C09; hist over slices, agg([...]) and apply are Python glue covered by the slicecall flavours.",
 "C12": "every_operation_returns_a_minimal_result, minimal_form_is_canonical, identical_decides_equality (iff), bool_is_true_exactly_for_the_constant_one, algebraic_identities_up_to_identical (7 identities). Minimality of scalar-path layering results is covered by the correspondence (raw step tables compared) rather than by a theorem. from_values refuses an index that is not strictly increasing (model, oracle and programs); integer labels beyond 2**53 (`bigint` domain flavour) are exercised for identical().",
 "C13": "partial: frame rule on the model (a statement changes only its target register; reads and queries change no function; any program) is a theorem, but a functional model cannot exhibit numpy/pandas aliasing: 'results never share mutable state' is decided by mutate-then-observe programs (incl. in-place scalar layers at existing step points) and an object-identity check in the correspondence run.",
 "C14": "the model carries both caches; every_statement_keeps_the_caches_valid (invariant, for every statement), caches_valid_after_any_history, answers_never_stale (a cached answer equals the one computed from the current function alone, after any program), queries_change_no_function. Correspondence: histories interleaving scalar/vector layers (incl. undo, step-free and partly undefined receivers) with the 12 query kinds.",
 "C15": "side rule and mismatch-iff theorems for all binary operators (scalars on either side), mask/where/fillna by a function, one-operand operations, clip, layering, tuple shorthands (never a mismatch). Collection aggregation, cov/corr, shift and resample are covered by the complete shapes x sides grid of the correspondence check.",
 "C16": "binary_operators_respect_denotation, one_operand_operations_respect_denotation, materialisation_is_invisible: results depend only on the denoted functions and closed sides (for the minimal, well-formed objects the public API produces). Construction routes, scalar types and compositions are exercised by programs run in four provenance / materialisation / scalar-type variants each against the one model result.",
 "C17": "every theorem of C01-C07, C12, C15, C16 is stated for an arbitrary ordered domain (Ord D); relabelling by a strictly increasing map preserves well-formedness and commutes with evaluation and the binary operators; a change of unit / origin k -> a k + b (a > 0) is such a relabelling under which the integral and value sums scale by a while mean, the value distribution (ecdf, percentiles, median, hist probabilities) and var do not change. That pandas' int64 / datetime64 / tz-aware / Timedelta indexes are such images of one another (and that results come back as Timedeltas) is replayed on every run: each program is run in 7 domain flavours (int, float, naive datetime, tz-aware fixed / DST / UTC, timedelta) against the one model run.",
 "C18": "aggregation_is_pointwise (wf, minimal, side rule, pointwise reduce incl. NaN propagation), sum_is_folding_plus, aggregation_rejects_exactly_mixed_sides; the collection layer of Model/Arrays.v: array_operator_is_the_stairs_operator_pair_by_pair (+ broadcast scalar / Stairs, the r-forms, first failing member decides), sample / limit tables agree with per-member calls, matrices_are_square_and_symmetric, cov / corr matrix entries are the pairwise Stairs results in either order (via cov_symmetric / corr_symmetric of C19), corr diagonal one or undefined (= the self-correlation, which is one wherever defined). The table and matrix definitions are evaluated by the correspondence check against the real sc.sample / sc.limit / sc.cov / sc.corr calls; the element-wise operators are compared member by member (the theorem says that is arr_binop). Container types and the Series accessor: correspondence flavours.",
 "C19": "operands_are_restricted_to_the_common_defined_region (pointwise), cov_is_mean_of_product_minus_product_of_means (the composition the model mirrors from the code; its means are the length-weighted ones of C08), the model follows the repaired code (centred product, explicit closed-side check) and the_centred_form_is_the_formula: over every finite window it equals mean(f'g') - mean(f') mean(g') (four clipped tables as Riemann sums over a common refinement); cov_of_opposite_sides_is_rejected; a_lag_is_a_shift_of_g_with_the_window_rule (clip='pre' / 'post'), cov_is_symmetric, corr_is_symmetric (via canonical minimal forms), corr_of_opposite_sides_is_rejected, cov_of_f_with_itself_is_var over finite windows (weighted_sums_depend_only_on_the_represented_function: the integral of a step table is a Riemann sum over any refinement of its step points) corr_lies_between_minus_one_and_one (Cauchy-Schwarz over the common refinement of the three clipped tables), var_over_a_window_is_non_negative and corr_of_f_with_itself_is_one. corr involves a square root: the model returns the signed square sign(cov) cov^2 / (var_f var_g) and the theorems are stated for it; numpy's sqrt, and datetime windows with Timedelta lags, are tied by the correspondence check + the rational oracle.",
 "C20": "shift_translates and diff_is_f_minus_shifted_f; rolling_mean_returns_the_window_means_at_the_knots (the rows are exactly the x at which a window edge x+l / x+r meets a step point of f restricted to `where`, inside [lower-l, upper-r], each with the slicer mean over its window), the_window_mean_is_the_mean_of_the_restriction (that mean is the C08 length-weighted mean), and linear_interpolation_reproduces_the_rolling_mean (with no other sample point strictly between x1 and x2 and f defined throughout the windows, the window mean at every x in [x1, x2] is the linear interpolation of the means at x1 and x2; via a window integral that is additive and constant where no step point is crossed). Timedelta shifts and windows on datetime domains: correspondence (domain flavours).",
}
def main():
    props = [json.loads(l) for l in open(os.path.join(ROOT, "properties.jsonl"))]
    checks, na = [], []
    for p in props:
        pid = p["id"]
        if pid in TEXT:
            cat, text, ref = LEVELS[pid], TEXT[pid], f"5 ({pid})"
            if cat == "other":
                text = "partial proof + correspondence: " + text
            checks.append({
                "property_id": pid,
                "quick_cmd": f"./check {pid} --tier quick",
                "thorough_cmd": f"./check {pid} --tier thorough",
                "evidence_file": f"/verif/evidence/{pid}.json",
                "replay_cmd_template": f"./check {pid} --replay {{path}}",
                "engine": "coq-model+correspondence",
                "level_claimed": {"category": cat, "text": text, "design_ref": f"DESIGN.md section {ref}"},
                "level_note": PROOF_NOTE,
                "technique": "machine-checked proof in Coq 8.16 about a Gallina model + correspondence check (model vs implementation on generated programs)" if cat == "proof"
                             else "partial machine-checked proof in Coq 8.16 + correspondence check (model vs implementation on generated programs)",
            })
        else:
            na.append({"property_id": pid, "reason": PENDING.get(pid, "not claimed yet: the check for this property is still being built (model and theorems in progress); see DESIGN.md section 5")})
    m = {
        "version": 1,
        "setup_cmd": "cd /verif/coq && coq_makefile -f _CoqProject -o Makefile && timeout 3000 make -j16",
        "hooks": {"guard": "STAIRCASE_VERIF_HOOKS", "enable": "no source hooks are needed: everything is observed through the public API of the staircase imported from /repo's working tree (PYTHONPATH=/repo)",
                  "baseline_off_cmd": "cd /repo && /venv/bin/python -m pytest -ra -q -p no:cacheprovider --timeout=900 --continue-on-collection-errors",
                  "source_commits": [], "add_only": True},
        "engines": [{"name": "coq-model+correspondence", "path": "/verif/coq, /verif/harness", "serves_properties": sorted(TEXT),
                     "kind_free_text": "Gallina model + theorems (coq/), correspondence runner (harness/): implementation vs model (vm_compute) vs rational oracle"}],
        "checks": checks,
        "not_applicable": na,
        "notes": "Genuine defects of the pinned tree were repaired by separate 'fix:' commits in /repo (listed in /verif/known_findings.json as fixed: lines).",
    }
    json.dump(m, open(os.path.join(ROOT, "MANIFEST.json"), "w"), indent=1)
if __name__ == "__main__":
    main()
