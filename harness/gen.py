"""Case generators, one per property. Every random choice derives from the one PRNG passed in.
Each generator returns a list of cases {id, prog, flav, mode, tags}."""
import itertools
import random
from fractions import Fraction as F

from harness import core as C
from harness.oracle import PF

LEFT, RIGHT = "left", "right"
SIDES = [LEFT, RIGHT]
MATS = ["none", "values", "deltas", "both"]
ROUTES_ANY = ["from_values", "maskroute"]
ROUTES_DEF = ["from_values", "layer", "layer_vec", "frame", "series", "tuple", "ndarray", "arith"]
SCALARS = ["py", "int", "np64", "npi64"]


# ----------------------------------------------------------------------------- leaves
def canonical_leaves(points, values):
    """all minimal piece functions with step points in `points` and values in `values` (init included)"""
    out = []
    for n in range(len(points) + 1):
        for pts in itertools.combinations(points, n):
            for vals in itertools.product(values, repeat=n + 1):
                if all(vals[i] != vals[i + 1] for i in range(n)):
                    out.append((list(pts), list(vals)))
    return out


def leaf_stmt(r, leaf, closed):
    pts, vals = leaf
    return C.from_values(r, vals[0], list(zip(pts, vals[1:])), closed)


def rand_leaf(rng, maxn=5, nan=0.3, grid=4, span=6, vals=None):
    n = rng.choice([0, 1, 1, 2, 2, 3, 3, 4, maxn])
    cand = [F(k, grid) for k in range(0, span * grid + 1)]
    pts = sorted(rng.sample(cand, n))
    pool = vals or [F(k, 4) for k in range(-8, 9)]
    out = []
    usenan = rng.random() < nan
    for _ in range(n + 1):
        while True:
            v = None if (usenan and rng.random() < 0.3) else rng.choice(pool)
            if rng.random() < 0.25:
                v = rng.choice([F(0), F(1), None if usenan else F(0)])
            if not out or v != out[-1]:
                break
        out.append(v)
    return pts, out


def leaf_points(leaf, extra=()):
    """query points: every step point, every midpoint, one point beyond each end"""
    pts = sorted(set(leaf[0]) | set(extra))
    if not pts:
        return [F(0), F(1)]
    xs = list(pts) + [(a + b) / 2 for a, b in zip(pts, pts[1:])] + [pts[0] - 1, pts[-1] + 1]
    return sorted(set(xs))


def flav(rng, leafs_have_nan=False, dom="float"):
    return {"dom": dom,
            "route": rng.choice(ROUTES_ANY if leafs_have_nan else ROUTES_DEF + ROUTES_ANY),
            "mat": rng.choice(MATS), "scalar": rng.choice(SCALARS),
            "vec": rng.choice(["list", "ndarray", "series", "tuple"]),
            "lroute": rng.choice(["list", "frame", "series", "tuple", "ndarray", "short"])}


def has_nan(leaf):
    return any(v is None for v in leaf[1])


def mk(cid, prog, fl, mode="exact", tags=()):
    return {"id": cid, "prog": prog, "flav": fl, "mode": mode, "tags": list(tags)}


def sample_scope(rng, items, n):
    items = list(items)
    if len(items) <= n:
        return items
    return rng.sample(items, n)


SMALL_PTS = [F(0), F(1), F(2)]
SMALL_VALS = [None, F(-1), F(0), F(1), F(2)]
SCALAR_POOL = [None, F(0), F(1), F(-1), F(2), F(1, 2), F(-2), F(4)]   # all 0, NaN or +-2^k
POW2 = [None, F(0), F(1), F(-1), F(2)]
POW2V = [F(1), F(-1), F(2), F(-2), F(1, 2), F(4), F(0), F(-1, 4)]


def closed_pair(rng, same=0.9):
    a = rng.choice(SIDES)
    return (a, a) if rng.random() < same else (a, RIGHT if a == LEFT else LEFT)


def observe_all(r, pts):
    return [C.query(r, "limit", side="left", xs=pts), C.query(r, "limit", side="right", xs=pts),
            C.query(r, "sample", xs=pts), C.query(r, "nsteps")]


# ----------------------------------------------------------------------------- binary-operator families
def binop_cases(rng, prefix, ops, n_small, n_rand, followup=False, scalars=SCALAR_POOL):
    cases = []
    small = canonical_leaves(SMALL_PTS, SMALL_VALS)
    k = 0

    def add(f, g, op, shape, ca, cb, tag):
        nonlocal k
        prog = []
        anynan = False
        if shape == "ss":
            prog += [leaf_stmt(0, f, ca), leaf_stmt(1, g, cb), C.bin_(2, op, C.reg(0), C.reg(1))]
            anynan = has_nan(f) or has_nan(g)
            pts = leaf_points(f, g[0])
        elif shape == "sc":
            c = rng.choice(scalars)
            prog += [leaf_stmt(0, f, ca), C.bin_(2, op, C.reg(0), C.cst(c))]
            anynan = has_nan(f)
            pts = leaf_points(f)
        else:
            c = rng.choice(scalars)
            prog += [leaf_stmt(0, f, ca), C.bin_(2, op, C.cst(c), C.reg(0))]
            anynan = has_nan(f)
            pts = leaf_points(f)
        prog += observe_all(2, pts)
        if followup:
            fu = rng.choice(["add1", "layer", "ident", "neg"])
            if fu == "add1":
                prog.append(C.bin_(3, "add", C.reg(2), C.cst(1)))
            elif fu == "layer":
                prog.append(C.layer_s(2, pts[0], pts[-1], 1))
            elif fu == "neg":
                prog.append(C.un(3, "neg", 2))
            else:
                prog.append(C.query(2, "identical", a=C.reg(2)))
        cases.append(mk(f"{prefix}/{tag}/{k}", prog, flav(rng, anynan), tags=[tag, op, shape]))
        k += 1

    # exactness discipline: a divisor only takes values 0, NaN or +-2^k, so that every quotient is exact in binary64
    pow2_small = [x for x in small if all(v in POW2 for v in x[1])]
    for i in range(n_small + n_rand):
        op = rng.choice(ops)
        shape = rng.choice(["ss", "ss", "sc", "cs"])
        if i < n_small:
            f = rng.choice(small)
            g = rng.choice(pow2_small if op == "div" else small)
            if op == "div" and shape == "cs":
                f = rng.choice(pow2_small)
        else:
            f = rand_leaf(rng)
            g = rand_leaf(rng, vals=POW2V if op == "div" else None)
            if op == "div" and shape == "cs":
                f = rand_leaf(rng, vals=POW2V)
        ca, cb = closed_pair(rng)
        add(f, g, op, shape, ca, cb, "small" if i < n_small else "rand")
    return cases


def gen_C01(rng, tier):
    n = 1500 if tier == "quick" else 12000
    cases = binop_cases(rng, "C01", C.ARITH, n, n)
    small = canonical_leaves(SMALL_PTS, SMALL_VALS)
    for k in range(n // 5):
        f = rng.choice(small) if k % 2 else rand_leaf(rng)
        c = rng.choice(SIDES)
        prog = [leaf_stmt(0, f, c), C.un(1, "neg", 0)] + observe_all(1, leaf_points(f))
        cases.append(mk(f"C01/neg/{k}", prog, flav(rng, has_nan(f)), tags=["neg"]))
    return cases


def gen_C04(rng, tier):
    n = 1500 if tier == "quick" else 12000
    return binop_cases(rng, "C04", C.REL, n, n, followup=True)


def gen_C05(rng, tier):
    n = 1200 if tier == "quick" else 10000
    cases = binop_cases(rng, "C05", C.LOG, n, n)
    small = canonical_leaves(SMALL_PTS, SMALL_VALS)
    for k in range(n // 3):
        f = rng.choice(small) if k % 2 else rand_leaf(rng)
        c = rng.choice(SIDES)
        op = rng.choice(["invert", "make_boolean"])
        prog = [leaf_stmt(0, f, c), C.un(1, op, 0)] + observe_all(1, leaf_points(f))
        cases.append(mk(f"C05/{op}/{k}", prog, flav(rng, has_nan(f)), tags=[op]))
    return cases


# ----------------------------------------------------------------------------- C03 evaluation and views
def gen_C03(rng, tier):
    n = 1200 if tier == "quick" else 10000
    small = canonical_leaves(SMALL_PTS, SMALL_VALS)
    cases = []
    for k in range(2 * n):
        f = rng.choice(small) if k < n else rand_leaf(rng)
        c = rng.choice(SIDES)
        pts = leaf_points(f)
        qs = list(pts)
        rng.shuffle(qs)
        qs = qs + qs[:2]          # unsorted, repeated
        reads = [C.read(0, "values"), C.read(0, "deltas"), C.read(0, "frame")]
        rng.shuffle(reads)
        prog = [leaf_stmt(0, f, c)] + reads[: rng.randint(0, 3)] + [
            C.query(0, "limit", side="left", xs=qs), C.query(0, "limit", side="right", xs=qs),
            C.query(0, "sample", xs=qs), C.query(0, "nsteps"), C.query(0, "points"), C.query(0, "closed"),
            C.read(0, "values"), C.read(0, "deltas"), C.read(0, "frame")]
        dom = "float"
        cases.append(mk(f"C03/{'small' if k < n else 'rand'}/{k}", prog, flav(rng, has_nan(f), dom), tags=["views"]))
    return cases


# ----------------------------------------------------------------------------- C06 / C07 masking and filling
def bounds(rng, leaf):
    pts = leaf_points(leaf)
    lo = rng.choice([None] + pts)
    hi_c = [p for p in pts if lo is None or p > lo] + ([pts[-1] + 2] if pts else [F(3)])
    hi = rng.choice([None] + hi_c)
    return lo, hi


def gen_C06(rng, tier):
    n = 1000 if tier == "quick" else 9000
    small = canonical_leaves(SMALL_PTS, SMALL_VALS)
    cases = []
    for k in range(3 * n):
        pick = (lambda: rng.choice(small)) if k % 2 else (lambda: rand_leaf(rng))
        f, g = pick(), pick()
        ca, cb = closed_pair(rng, 0.93)
        kind = rng.choice(["clip", "mask", "where", "maskt", "wheret", "isna", "notna"])
        prog = [leaf_stmt(0, f, ca)]
        pts = leaf_points(f, g[0])
        nanleaf = has_nan(f)
        if kind == "clip":
            lo, hi = bounds(rng, f)
            prog.append(C.clip(2, 0, lo, hi))
            pts = leaf_points(f, [x for x in (lo, hi) if x is not None])
        elif kind in ("mask", "where"):
            prog += [leaf_stmt(1, g, cb), C.mask(2, 0, 1, inverse=(kind == "where"))]
            nanleaf = nanleaf or has_nan(g)
        elif kind in ("maskt", "wheret"):
            lo, hi = bounds(rng, f)
            prog.append(C.maskt(2, 0, lo, hi, inverse=(kind == "wheret")))
            pts = leaf_points(f, [x for x in (lo, hi) if x is not None])
        else:
            prog.append(C.un(2, kind, 0))
        prog += observe_all(2, pts)
        if rng.random() < 0.3:   # receivers already restricted
            lo, hi = bounds(rng, f)
            prog.append(C.clip(3, 2, lo, hi))
        cases.append(mk(f"C06/{kind}/{k}", prog, flav(rng, nanleaf), tags=[kind]))
    return cases


def gen_C07(rng, tier):
    n = 1000 if tier == "quick" else 9000
    small = canonical_leaves(SMALL_PTS, SMALL_VALS)
    cases = []
    for k in range(3 * n):
        pick = (lambda: rng.choice(small)) if k % 2 else (lambda: rand_leaf(rng, nan=0.8))
        f, g = pick(), pick()
        ca, cb = closed_pair(rng, 0.93)
        kind = rng.choice(["scalar", "ffill", "bfill", "stairs", "stairs"])
        prog = [leaf_stmt(0, f, ca)]
        nanleaf = has_nan(f)
        pts = leaf_points(f, g[0])
        if kind == "scalar":
            prog.append(C.fills(2, 0, rng.choice([F(0), F(1), F(7), F(-1, 2)])))
        elif kind in ("ffill", "bfill"):
            prog.append(C.un(2, kind, 0))
        else:
            prog += [leaf_stmt(1, g, cb), C.fillg(2, 0, 1)]
            nanleaf = nanleaf or has_nan(g)
        prog += observe_all(2, pts)
        cases.append(mk(f"C07/{kind}/{k}", prog, flav(rng, nanleaf), tags=[kind]))
    return cases


# ----------------------------------------------------------------------------- C02 layering
LAY_PTS = [None, F(0), F(1), F(2)]
LAY_VALS = [None, F(1), F(-1), F(2)]


def rand_layer_call(rng, r, pts=None, vec=None):
    pts = pts or [None, F(0), F(1), F(2), F(3), F(1, 2), F(5, 2)]
    if vec is None:
        vec = rng.random() < 0.5
    if not vec:
        return C.layer_s(r, rng.choice(pts), rng.choice(pts), rng.choice(LAY_VALS))
    m = rng.randint(1, 3)
    return C.layer_v(r, [(rng.choice(pts), rng.choice(pts), rng.choice([F(1), F(-1), F(2), F(1, 2)])) for _ in range(m)])


def gen_C02(rng, tier):
    n = 2500 if tier == "quick" else 20000
    cases = []
    small = canonical_leaves(SMALL_PTS, [None, F(0), F(1)])
    # bounded-exhaustive 2-call histories (sampled in the quick tier)
    calls = [(a, b, v) for a in LAY_PTS for b in LAY_PTS for v in LAY_VALS]
    pairs = [(x, y) for x in calls for y in calls]
    chosen = sample_scope(rng, pairs, n) if tier == "quick" else sample_scope(rng, pairs, 4 * n // 5)
    for k, (x, y) in enumerate(chosen):
        recv = rng.choice([([], [F(0)]), ([], [F(0)]), ([], [F(2)]), rng.choice(small)])
        c = rng.choice(SIDES)
        prog = [leaf_stmt(0, recv, c)]
        allpts = [F(0), F(1), F(2)] + recv[0]
        for (a, b, v) in (x, y):
            if rng.random() < 0.5:
                prog.append(C.layer_s(0, a, b, v))
            else:
                prog.append(C.layer_v(0, [(a, b, F(1) if v is None else v)]))
            if rng.random() < 0.3:
                prog.append(C.read(0, rng.choice(["values", "deltas"])))
        prog += observe_all(0, leaf_points((sorted(set(allpts)), None)))
        cases.append(mk(f"C02/two/{k}", prog, flav(rng, has_nan(recv)), tags=["two-call"]))
    for k in range(n // 2):
        recv = rand_leaf(rng) if rng.random() < 0.6 else ([], [rng.choice([F(0), F(1), None])])
        c = rng.choice(SIDES)
        prog = [leaf_stmt(0, recv, c)]
        for _ in range(rng.randint(1, 6)):
            prog.append(rand_layer_call(rng, 0))
            if rng.random() < 0.2:
                prog.append(C.read(0, rng.choice(["values", "deltas", "frame"])))
        prog += observe_all(0, leaf_points(recv, [F(0), F(1), F(2), F(3), F(1, 2), F(5, 2)]))
        cases.append(mk(f"C02/rand/{k}", prog, flav(rng, has_nan(recv)), tags=["history"]))
    return cases


GENS = {"C01": gen_C01, "C02": gen_C02, "C03": gen_C03, "C04": gen_C04, "C05": gen_C05, "C06": gen_C06, "C07": gen_C07}
