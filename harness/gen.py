"""Case generators, one per property. Every random choice derives from the one PRNG passed in.
Each generator returns a list of cases {id, prog, flav, mode, tags}."""
import itertools
import random
from fractions import Fraction as F

from harness import core as C
from harness.oracle import PF
from harness import oracle as O

LEFT, RIGHT = "left", "right"
SIDES = [LEFT, RIGHT]
MATS = ["none", "values", "deltas", "both"]
ROUTES_ANY = ["from_values", "maskroute"]
ROUTES_DEF = ["from_values", "layer", "layer_vec", "frame", "series", "tuple", "ndarray", "arith"]
SCALARS = ["py", "int", "np64", "npi64"]


# ----------------------------------------------------------------------------- leaves
def canonical_leaves(points, values):
    """all minimal piece functions with step points in `points` and values in `values` (init included)"""
    out = []
    for n in range(len(points) + 1):
        for pts in itertools.combinations(points, n):
            for vals in itertools.product(values, repeat=n + 1):
                if all(vals[i] != vals[i + 1] for i in range(n)):
                    out.append((list(pts), list(vals)))
    return out


def leaf_stmt(r, leaf, closed):
    pts, vals = leaf
    return C.from_values(r, vals[0], list(zip(pts, vals[1:])), closed)


def rand_leaf(rng, maxn=5, nan=0.3, grid=4, span=6, vals=None):
    n = rng.choice([0, 1, 1, 2, 2, 3, 3, 4, maxn])
    cand = [F(k, grid) for k in range(0, span * grid + 1)]
    pts = sorted(rng.sample(cand, n))
    pool = vals or [F(k, 4) for k in range(-8, 9)]
    out = []
    usenan = rng.random() < nan
    for _ in range(n + 1):
        while True:
            v = None if (usenan and rng.random() < 0.3) else rng.choice(pool)
            if rng.random() < 0.25:
                v = rng.choice([F(0), F(1), None if usenan else F(0)])
            if not out or v != out[-1]:
                break
        out.append(v)
    return pts, out


def leaf_points(leaf, extra=()):
    """query points: every step point, every midpoint, one point beyond each end"""
    pts = sorted(set(leaf[0]) | set(extra))
    if not pts:
        return [F(0), F(1)]
    xs = list(pts) + [(a + b) / 2 for a, b in zip(pts, pts[1:])] + [pts[0] - 1, pts[-1] + 1]
    return sorted(set(xs))


def flav(rng, leafs_have_nan=False, dom="float"):
    return {"dom": dom,
            "route": rng.choice(ROUTES_ANY if leafs_have_nan else ROUTES_DEF + ROUTES_ANY),
            "mat": rng.choice(MATS), "scalar": rng.choice(SCALARS),
            "vec": rng.choice(["list", "ndarray", "series", "tuple", "coarse_index", "coarse_array"]),
            "lroute": rng.choice(["list", "frame", "series", "series_offset", "tuple", "ndarray", "short"]),
            # the closed side as an equal-but-distinct string object / operands that went through pickle; windows as tuple,
            # list, or one list object reused by every call; collection containers kept across aggregations
            "closedobj": rng.choice(["literal", "literal", "built", "pickle"]),
            "wherearg": rng.choice(["tuple", "list", "reuse"]),
            "persist": rng.random() < 0.5,
            # operators, or the named methods (add, rsubtract, logical_rxor, negate, quantiles ...) they are aliases of
            "opform": rng.choice(["operator", "operator", "method"]),
            # dtype of the step values handed to from_values (integers stay int64 when every value is integral)
            "valdtype": rng.choice(["float", "float", "int"])}


NEAR_VALS = [F(2 ** 20), F(2 ** 20 + 1), F(2 ** 20 + 2), F(1, 2 ** 30), F(0), F(-1, 2 ** 30), F(2 ** 20) + F(1, 2 ** 10)]


def has_nan(leaf):
    return any(v is None for v in leaf[1])


def _step_points(prog):
    pts = []
    for st in prog:
        k = st["s"]
        if k == "from_values":
            pts += [a for a, _ in st["rows"]]
        elif k == "layer":
            if st["mode"] == "scalar":
                pts += [st["start"], st["end"]]
            else:
                for a, b, _ in st["triples"]:
                    pts += [a, b]
        elif k in ("shift", "diff"):
            pts.append(st["d"])
    return [F(p) for p in pts if p is not None]


# statement / query kinds the domain flavours are known to carry (lengths come back as Timedeltas, labels as Timestamps)
DOM_OK_STMTS = {"new", "from_values", "layer", "read", "un", "bin", "clip", "mask", "maskt", "fills", "fillg", "shift", "diff", "agg", "query", "slicehist"}
DOM_OK_Q = {"limit", "sample", "nsteps", "points", "closed", "integral", "mean", "value_sums", "agg", "vir", "min", "max", "slicer",
            "cov", "corr", "rolling", "identical", "bool", "var", "median", "mode", "ecdf", "percentile", "fractile", "hist"}


def lift_domain(rng, prog, fl):
    """a quarter of the float-domain cases are replayed in another domain type instead (the per-property quantifiers
    include int, naive / tz-aware Timestamp and Timedelta domains): integer labels when every step point is an
    integer, datetime-like ones when every step point is a multiple of a quarter of the unit"""
    if fl.get("dom", "float") != "float" or rng.random() > 0.25:
        return
    if any(st["s"] not in DOM_OK_STMTS or (st["s"] == "query" and st["q"] not in DOM_OK_Q) for st in prog):
        return
    pts = _step_points(prog)
    if any((4 * p).denominator != 1 for p in pts):
        return
    cands = ["dt", "tz", "dst", "utc", "td"]
    if all(p.denominator == 1 for p in pts):
        cands += ["int", "int", "int", "dts", "dts"]       # integer labels; datetimes at second resolution (unit 1 s)
    fl["dom"] = rng.choice(cands)


def mk(cid, prog, fl, mode="exact", tags=()):
    if not any(t in DOMS for t in tags) and "nolift" not in tags:          # (the C17 cases name their domain themselves)
        lift_domain(random.Random(C.prog_hash(prog)), prog, fl)
        if fl.get("dom", "float") not in ("float", "int"):
            mode = "tol"                          # lengths and integrals travel through nanosecond Timedeltas there
            tags = list(tags) + ["dom-" + fl["dom"]]
        elif fl.get("dom") == "int":
            tags = list(tags) + ["dom-int"]
    return {"id": cid, "prog": prog, "flav": fl, "mode": mode, "tags": list(tags)}


def sample_scope(rng, items, n):
    items = list(items)
    if len(items) <= n:
        return items
    return rng.sample(items, n)


SMALL_PTS = [F(0), F(1), F(2)]
SMALL_VALS = [None, F(-1), F(0), F(1), F(2)]
SCALAR_POOL = [None, F(0), F(1), F(-1), F(2), F(1, 2), F(-2), F(4)]   # all 0, NaN or +-2^k
POW2 = [None, F(0), F(1), F(-1), F(2)]
POW2V = [F(1), F(-1), F(2), F(-2), F(1, 2), F(4), F(0), F(-1, 4)]


def closed_pair(rng, same=0.9):
    a = rng.choice(SIDES)
    return (a, a) if rng.random() < same else (a, RIGHT if a == LEFT else LEFT)


def observe_all(r, pts):
    return [C.query(r, "limit", side="left", xs=pts), C.query(r, "limit", side="right", xs=pts),
            C.query(r, "sample", xs=pts), C.query(r, "nsteps")]


def derive(rng, prog, r, nxt):
    """provenance: the operand as the result of earlier operations (which changes which internal forms it
    carries: values only, step changes only, both) and with reads interposed; returns (register, next free)"""
    for _ in range(rng.choice([0, 0, 1, 1, 2, 3])):
        k = rng.choice(["addc", "subc", "rsubc", "raddc", "mulc", "neg", "copy", "readv", "readd", "readf", "clipnone", "selfadd"])
        c = rng.choice([F(1), F(-1), F(2), F(1, 2), F(0), F(10)])
        if k == "readv":
            prog.append(C.read(r, "values")); continue
        if k == "readd":
            prog.append(C.read(r, "deltas")); continue
        if k == "readf":
            prog.append(C.read(r, "frame")); continue
        if k == "addc":
            prog.append(C.bin_(nxt, "add", C.reg(r), C.cst(c)))
        elif k == "subc":
            prog.append(C.bin_(nxt, "sub", C.reg(r), C.cst(c)))
        elif k == "rsubc":
            prog.append(C.bin_(nxt, "sub", C.cst(c), C.reg(r)))
        elif k == "raddc":
            prog.append(C.bin_(nxt, "add", C.cst(c), C.reg(r)))
        elif k == "mulc":
            prog.append(C.bin_(nxt, "mul", C.reg(r), C.cst(rng.choice([F(1), F(-1), F(2)]))))
        elif k == "neg":
            prog.append(C.un(nxt, "neg", r))
        elif k == "copy":
            prog.append(C.un(nxt, "copy", r))
        elif k == "clipnone":
            prog.append(C.clip(nxt, r, None, None))
        elif k == "selfadd":
            prog.append(C.bin_(nxt, "add", C.reg(r), C.reg(r)))
        r, nxt = nxt, nxt + 1
    return r, nxt


# ----------------------------------------------------------------------------- binary-operator families
def binop_cases(rng, prefix, ops, n_small, n_rand, followup=False, scalars=SCALAR_POOL):
    cases = []
    small = canonical_leaves(SMALL_PTS, SMALL_VALS)
    k = 0

    def add(f, g, op, shape, ca, cb, tag):
        nonlocal k
        prog = []
        anynan = False
        nxt = 10
        # exactness: derived operands of a division keep their values (only reads / copies)
        dv = (lambda prog, r, nxt: derive(rng, prog, r, nxt)) if (op != "div" and rng.random() < 0.5) else (lambda prog, r, nxt: (r, nxt))
        if shape == "ss":
            prog += [leaf_stmt(0, f, ca), leaf_stmt(1, g, cb)]
            ra, nxt = dv(prog, 0, nxt)
            rb, nxt = dv(prog, 1, nxt)
            prog.append(C.bin_(2, op, C.reg(ra), C.reg(rb)))
            anynan = has_nan(f) or has_nan(g)
            pts = leaf_points(f, g[0])
        elif shape == "sc":
            c = rng.choice(scalars)
            prog += [leaf_stmt(0, f, ca)]
            ra, nxt = dv(prog, 0, nxt)
            prog.append(C.bin_(2, op, C.reg(ra), C.cst(c)))
            anynan = has_nan(f)
            pts = leaf_points(f)
        else:
            c = rng.choice(scalars)
            prog += [leaf_stmt(0, f, ca)]
            ra, nxt = dv(prog, 0, nxt)
            prog.append(C.bin_(2, op, C.cst(c), C.reg(ra)))
            anynan = has_nan(f)
            pts = leaf_points(f)
        prog += observe_all(2, pts)
        if followup:
            fu = rng.choice(["add1", "layer", "ident", "neg"])
            if fu == "add1":
                prog.append(C.bin_(3, "add", C.reg(2), C.cst(1)))
            elif fu == "layer":
                prog.append(C.layer_s(2, pts[0], pts[-1], 1))
            elif fu == "neg":
                prog.append(C.un(3, "neg", 2))
            else:
                prog.append(C.query(2, "identical", a=C.reg(2)))
        cases.append(mk(f"{prefix}/{tag}/{k}", prog, flav(rng, anynan), tags=[tag, op, shape]))
        k += 1

    # exactness discipline: a divisor only takes values 0, NaN or +-2^k, so that every quotient is exact in binary64
    pow2_small = [x for x in small if all(v in POW2 for v in x[1])]
    for i in range(n_small + n_rand):
        op = rng.choice(ops)
        shape = rng.choice(["ss", "ss", "sc", "cs"])
        if i < n_small:
            f = rng.choice(small)
            g = rng.choice(pow2_small if op == "div" else small)
            if op == "div" and shape == "cs":
                f = rng.choice(pow2_small)
        else:
            f = rand_leaf(rng)
            g = rand_leaf(rng, vals=POW2V if op == "div" else None)
            if op == "div" and shape == "cs":
                f = rand_leaf(rng, vals=POW2V)
            if op != "div" and i % 10 == 7:      # neighbouring values that are nearly equal (relative 1e-6) or tiny (2^-30): genuine steps
                f = rand_leaf(rng, vals=NEAR_VALS)
                if rng.random() < 0.5:
                    g = rand_leaf(rng, vals=NEAR_VALS)
        ca, cb = closed_pair(rng)
        add(f, g, op, shape, ca, cb, "small" if i < n_small else "rand")
    return cases


def gen_C01(rng, tier):
    n = 1500 if tier == "quick" else 12000
    cases = binop_cases(rng, "C01", C.ARITH, n, n)
    small = canonical_leaves(SMALL_PTS, SMALL_VALS)
    for k in range(n // 5):
        f = rng.choice(small) if k % 2 else rand_leaf(rng)
        c = rng.choice(SIDES)
        prog = [leaf_stmt(0, f, c), C.un(1, "neg", 0)] + observe_all(1, leaf_points(f))
        cases.append(mk(f"C01/neg/{k}", prog, flav(rng, has_nan(f)), tags=["neg"]))
    return cases


def gen_C04(rng, tier):
    n = 1500 if tier == "quick" else 12000
    cases = binop_cases(rng, "C04", C.REL, n, n, followup=True)
    # operands of very different magnitude (multiples of 2^53 against small integers): the comparison is of the values, not of
    # the sign of a difference that binary64 cannot hold
    huge = [F(2 ** 53), F(2 ** 54), F(-(2 ** 53)), F(0), F(3 * 2 ** 53)]
    for k in range(n // 8):
        f = rand_leaf(rng, maxn=4, vals=huge)
        # (every value of the huge operand a multiple of 2^53, so that the construction routes that add layers up stay exact)
        hv = []
        for v in f[1]:
            v = F(2 ** 53) if v == 1 else v
            if hv and v == hv[-1]:
                v = F(2 ** 54) if v != F(2 ** 54) else F(3 * 2 ** 53)
            hv.append(v)
        f = (f[0], hv)
        g = rand_leaf(rng, maxn=4, vals=[F(j) for j in range(-2, 3)])
        if rng.random() < 0.5:
            f, g = g, f
        ca, cb = closed_pair(rng)
        op = rng.choice(C.REL)
        pts = leaf_points(f, g[0])
        prog = [leaf_stmt(0, f, ca), leaf_stmt(1, g, cb)]
        if rng.random() < 0.5:
            prog.append(C.read(rng.choice([0, 1]), rng.choice(["values", "deltas"])))
        prog += [C.bin_(2, op, C.reg(0), C.reg(1))] + observe_all(2, pts)
        cases.append(mk(f"C04/magnitudes/{k}", prog, flav(rng, has_nan(f) or has_nan(g)), tags=["magnitudes", op]))
    return cases


def gen_C05(rng, tier):
    n = 1200 if tier == "quick" else 10000
    cases = binop_cases(rng, "C05", C.LOG, n, n)
    small = canonical_leaves(SMALL_PTS, SMALL_VALS)
    for k in range(n // 3):
        f = rng.choice(small) if k % 2 else rand_leaf(rng)
        c = rng.choice(SIDES)
        op = rng.choice(["invert", "make_boolean"])
        prog = [leaf_stmt(0, f, c), C.un(1, op, 0)] + observe_all(1, leaf_points(f))
        cases.append(mk(f"C05/{op}/{k}", prog, flav(rng, has_nan(f)), tags=[op]))
    # truthiness is about being non-zero, however small or large: values whose product or sum leaves the binary64 range
    # (2^-600 * 2^-600 underflows to zero, 2^600 * 2^600 overflows) or cancels (x, -x)
    ext = [F(1, 2 ** 600), F(-3, 2 ** 600), F(2 ** 600), F(-(2 ** 600)), F(0), F(1), F(-1)]
    for k in range(n // 8):
        f, g = rand_leaf(rng, maxn=4, vals=ext), rand_leaf(rng, maxn=4, vals=ext)
        c = rng.choice(SIDES)
        op = rng.choice(C.LOG)
        prog = [leaf_stmt(0, f, c), leaf_stmt(1, g, c), C.bin_(2, op, C.reg(0), C.reg(1))] + observe_all(2, leaf_points(f, g[0]))
        if rng.random() < 0.5:
            prog += [C.un(3, rng.choice(["invert", "make_boolean"]), rng.choice([0, 1]))] + observe_all(3, leaf_points(f, g[0]))
        fl = flav(rng, has_nan(f) or has_nan(g))
        fl["route"], fl["valdtype"] = "from_values", "float"      # (the layering routes would add 2^600 and 2^-600 up themselves)
        cases.append(mk(f"C05/extreme/{k}", prog, fl, tags=["extreme", op]))
    return cases


# ----------------------------------------------------------------------------- C03 evaluation and views
def gen_C03(rng, tier):
    n = 1200 if tier == "quick" else 10000
    small = canonical_leaves(SMALL_PTS, SMALL_VALS)
    cases = []
    for k in range(2 * n):
        f = rng.choice(small) if k < n else rand_leaf(rng)
        if k % 10 == 3:      # genuine steps between values that are nearly equal (relative 1e-6) or tiny (2^-30): still steps
            f = rand_leaf(rng, vals=NEAR_VALS)
        c = rng.choice(SIDES)
        pts = leaf_points(f)
        qs = list(pts)
        rng.shuffle(qs)
        qs = qs + qs[:2]          # unsorted, repeated
        reads = [C.read(0, "values"), C.read(0, "deltas"), C.read(0, "frame")]
        rng.shuffle(reads)
        prog = [leaf_stmt(0, f, c)] + reads[: rng.randint(0, 3)]
        r = 0
        if rng.random() < 0.3:      # the function after a history of queries, uses and in-place layering
            warmup(rng, prog, 0, pts)
        if rng.random() < 0.4:      # the function as the result of earlier operations (views must still agree)
            r, _ = derive(rng, prog, 0, 10)
        prog += [C.query(r, "limit", side="left", xs=qs), C.query(r, "limit", side="right", xs=qs),
                 C.query(r, "sample", xs=qs), C.query(r, "nsteps"), C.query(r, "points"), C.query(r, "closed"),
                 C.read(r, "values"), C.read(r, "deltas"), C.read(r, "frame")]
        dom = "float"
        cases.append(mk(f"C03/{'small' if k < n else 'rand'}/{k}", prog, flav(rng, has_nan(f), dom), tags=["views"]))
    return cases


# ----------------------------------------------------------------------------- C06 / C07 masking and filling
def bounds(rng, leaf):
    pts = leaf_points(leaf)
    lo = rng.choice([None] + pts)
    hi_c = [p for p in pts if lo is None or p > lo] + ([pts[-1] + 2] if pts else [F(3)])
    hi = rng.choice([None] + hi_c)
    return lo, hi


def gen_C06(rng, tier):
    n = 1000 if tier == "quick" else 9000
    small = canonical_leaves(SMALL_PTS, SMALL_VALS)
    cases = []
    for k in range(3 * n):
        pick = (lambda: rng.choice(small)) if k % 2 else (lambda: rand_leaf(rng))
        f, g = pick(), pick()
        ca, cb = closed_pair(rng, 0.93)
        kind = rng.choice(["clip", "mask", "where", "maskt", "wheret", "isna", "notna"])
        prog = [leaf_stmt(0, f, ca)]
        pts = leaf_points(f, g[0])
        nanleaf = has_nan(f)
        if rng.random() < 0.3:
            warmup(rng, prog, 0, leaf_points(f))
        if kind == "clip":
            lo, hi = bounds(rng, f)
            prog.append(C.clip(2, 0, lo, hi))
            pts = leaf_points(f, [x for x in (lo, hi) if x is not None])
        elif kind in ("mask", "where"):
            prog += [leaf_stmt(1, g, cb), C.mask(2, 0, 1, inverse=(kind == "where"))]
            nanleaf = nanleaf or has_nan(g)
            if rng.random() < 0.3:       # the masker is used, extended in place, and used again
                gp = leaf_points(g) or [F(0), F(1)]
                a_, b_ = rng.choice(gp), rng.choice(gp + [None])
                prog += observe_all(2, pts) + [C.layer_s(1, a_, b_, rng.choice([F(1), F(-1), F(2)])),
                                               C.mask(2, 0, 1, inverse=(kind == "where"))]
        elif kind in ("maskt", "wheret"):
            lo, hi = bounds(rng, f)
            prog.append(C.maskt(2, 0, lo, hi, inverse=(kind == "wheret")))
            pts = leaf_points(f, [x for x in (lo, hi) if x is not None])
        else:
            prog.append(C.un(2, kind, 0))
        prog += observe_all(2, pts)
        if rng.random() < 0.3:
            poststats(rng, prog, 2)
        if rng.random() < 0.3:   # the operand is still what it was
            prog += observe_all(0, pts)
        if rng.random() < 0.3:   # receivers already restricted
            lo, hi = bounds(rng, f)
            prog.append(C.clip(3, 2, lo, hi))
        cases.append(mk(f"C06/{kind}/{k}", prog, flav(rng, nanleaf), tags=[kind]))
    return cases


def gen_C07(rng, tier):
    n = 1000 if tier == "quick" else 9000
    small = canonical_leaves(SMALL_PTS, SMALL_VALS)
    cases = []
    for k in range(3 * n):
        pick = (lambda: rng.choice(small)) if k % 2 else (lambda: rand_leaf(rng, nan=0.8))
        f, g = pick(), pick()
        ca, cb = closed_pair(rng, 0.93)
        kind = rng.choice(["scalar", "ffill", "bfill", "stairs", "stairs"])
        prog = [leaf_stmt(0, f, ca)]
        nanleaf = has_nan(f)
        pts = leaf_points(f, g[0])
        if rng.random() < 0.3:
            warmup(rng, prog, 0, leaf_points(f))
        if kind == "scalar":
            prog.append(C.fills(2, 0, rng.choice([F(0), F(1), F(7), F(-1, 2)])))
        elif kind in ("ffill", "bfill"):
            prog.append(C.un(2, kind, 0))
        else:
            if rng.random() < 0.2:      # a filler of a very different magnitude: defined points of f must come through untouched
                big = F(2 ** 57)
                g = (g[0], [None if v is None else v * big for v in g[1]])
            prog += [leaf_stmt(1, g, cb), C.fillg(2, 0, 1)]
            nanleaf = nanleaf or has_nan(g)
        prog += observe_all(2, pts)
        if rng.random() < 0.3:
            poststats(rng, prog, 2)
        if rng.random() < 0.3:   # the operand is still what it was
            prog += observe_all(0, pts)
        cases.append(mk(f"C07/{kind}/{k}", prog, flav(rng, nanleaf), tags=[kind]))
    return cases


# ----------------------------------------------------------------------------- C02 layering
LAY_PTS = [None, F(0), F(1), F(2)]
LAY_VALS = [None, F(1), F(-1), F(2), F(1, 2), F(-3, 2), F(1, 2 ** 30), F(0)]


def rand_layer_call(rng, r, pts=None, vec=None):
    pts = pts or [None, F(0), F(1), F(2), F(3), F(1, 2), F(5, 2)]
    if vec is None:
        vec = rng.random() < 0.5
    if not vec:
        return C.layer_s(r, rng.choice(pts), rng.choice(pts), rng.choice(LAY_VALS))
    m = rng.randint(1, 3)
    return C.layer_v(r, [(rng.choice(pts), rng.choice(pts), rng.choice([F(1), F(-1), F(2), F(1, 2), F(0)])) for _ in range(m)])


def gen_C02(rng, tier):
    n = 2500 if tier == "quick" else 20000
    cases = []
    small = canonical_leaves(SMALL_PTS, [None, F(0), F(1)])
    # bounded-exhaustive 2-call histories (sampled in the quick tier)
    calls = [(a, b, v) for a in LAY_PTS for b in LAY_PTS for v in LAY_VALS]
    pairs = [(x, y) for x in calls for y in calls]
    chosen = sample_scope(rng, pairs, n) if tier == "quick" else sample_scope(rng, pairs, 4 * n // 5)
    for k, (x, y) in enumerate(chosen):
        recv = rng.choice([([], [F(0)]), ([], [F(0)]), ([], [F(2)]), rng.choice(small)])
        c = rng.choice(SIDES)
        prog = [leaf_stmt(0, recv, c)]
        allpts = [F(0), F(1), F(2)] + recv[0]
        for (a, b, v) in (x, y):
            if rng.random() < 0.5:
                prog.append(C.layer_s(0, a, b, v))
            else:
                prog.append(C.layer_v(0, [(a, b, F(1) if v is None else v)]))
            if rng.random() < 0.3:
                prog.append(C.read(0, rng.choice(["values", "deltas"])))
        prog += observe_all(0, leaf_points((sorted(set(allpts)), None)))
        cases.append(mk(f"C02/two/{k}", prog, flav(rng, has_nan(recv)), tags=["two-call"]))
    for k in range(n // 2):
        recv = rand_leaf(rng) if rng.random() < 0.6 else ([], [rng.choice([F(0), F(1), None])])
        c = rng.choice(SIDES)
        prog = [leaf_stmt(0, recv, c)]
        qpts = leaf_points(recv, [F(0), F(1), F(2), F(3), F(1, 2), F(5, 2)])
        for _ in range(rng.randint(1, 6)):
            if rng.random() < 0.35:          # evaluation before and between the calls, not only at the end
                prog.append(rng.choice([C.query(0, "sample", xs=qpts), C.query(0, "limit", side=rng.choice(["left", "right"]), xs=qpts)]))
            prog.append(rand_layer_call(rng, 0))
            if rng.random() < 0.2:
                prog.append(C.read(0, rng.choice(["values", "deltas", "frame"])))
        prog += observe_all(0, qpts)
        cases.append(mk(f"C02/rand/{k}", prog, flav(rng, has_nan(recv)), tags=["history"]))
    return cases


# ----------------------------------------------------------------------------- C08 / C09 / C10 statistics
def rand_leaf_pow2(rng, nan=0.3):
    """a leaf whose finite span is a power of two (so that length shares are exact in binary64)"""
    span = rng.choice([1, 2, 4, 8])
    start = F(rng.randint(-4, 4), 2)
    n_inner = rng.choice([0, 1, 2, 3, 4])
    inner = sorted(rng.sample([start + F(k * span, 8) for k in range(1, 8)], min(n_inner, 7)))
    pts = [start] + inner + [start + span]
    pool = [F(k, 2) for k in range(-4, 7)]
    vals, usenan = [], rng.random() < nan
    for _ in range(len(pts) + 1):
        while True:
            v = None if (usenan and rng.random() < 0.3) else rng.choice(pool)
            if not vals or v != vals[-1]:
                break
        vals.append(v)
    if all(v is None for v in vals[1:-1]):
        vals[1] = F(1)
        if vals[0] == vals[1]:
            vals[0] = F(0)
        if len(vals) > 2 and vals[2] == vals[1]:
            vals[2] = F(3)
    return pts, vals


def has_finite_defined(leaf):
    pts, vals = leaf
    return any(v is not None for v in vals[1:-1])


def gen_C08(rng, tier):
    n = 1500 if tier == "quick" else 12000
    small = [x for x in canonical_leaves([F(0), F(1), F(2), F(4)], [None, F(-1), F(0), F(2)]) if has_finite_defined(x)]
    cases = []
    for k in range(2 * n):
        exact = k % 3 == 0
        if k < n // 2:
            f = rng.choice(small)
        else:
            f = rand_leaf_pow2(rng) if exact else rand_leaf(rng, maxn=7)
        big_offset = k % 9 == 4
        if big_offset:        # values that are large compared with their spread (amounts in cents, epoch seconds): var must not cancel
            off = F(2 ** rng.choice([27, 30]))       # (numeric domains only: value x Timedelta would overflow by design)
            f = (f[0], [None if v is None else v + off for v in f[1]])
        c = rng.choice(SIDES)
        prog = [leaf_stmt(0, f, c)]
        if rng.random() < 0.3:
            warmup(rng, prog, 0, leaf_points(f), qset=TOL_WARM)
        if k % 8 == 0:        # directed history: statistics, in-place layering, statistics again
            lp = leaf_points(f) or [F(0), F(1)]
            prog += [C.query(0, q) for q in rng.sample(["var", "mean", "integral", "value_sums"], 2)]
            a, b = rng.choice(lp), rng.choice(lp + [lp[-1] + 1])
            prog.append(rng.choice([C.layer_s(0, a, b, F(1)), C.layer_v(0, [(a, b, F(2))]), C.layer_s(0, None, None, F(1)),
                                    C.layer_s(0, a, None, F(-1))]))
        if k % 8 == 1:        # directed history: a copy and its original are layered apart, each keeps its own statistics
            lp = leaf_points(f) or [F(0), F(1)]
            if rng.random() < 0.5:
                prog += [C.query(0, q) for q in rng.sample(["var", "mean", "integral"], 1)]
            prog.append(rng.choice([C.un(1, "copy", 0), C.clip(1, 0, None, None), C.shift(1, 0, F(0))]))
            a, b = rng.choice(lp), rng.choice(lp + [lp[-1] + 1])
            prog.append(C.layer_s(rng.choice([0, 1]), a, b, rng.choice([F(1), F(2), F(-1)])))
            prog += [C.query(1, "var"), C.query(1, "mean"), C.query(1, "value_sums"), C.query(1, "integral")]
        if rng.random() < 0.3:
            lo, hi = bounds(rng, f)
            prog.append(C.clip(0, 0, lo, hi))       # clipped functions
        qs = [C.query(0, "value_sums"), C.query(0, "integral"), C.query(0, "mean"), C.query(0, "var"),
              C.query(0, "agg", name="integral"), C.query(0, "agg", name="mean")]
        rng.shuffle(qs)
        prog += qs[: rng.randint(3, 6)]
        if not has_finite_defined(f):
            prog = [s for s in prog if not (s["s"] == "query" and s["q"] == "var")]
        cases.append(mk(f"C08/{'exact' if exact else 'tol'}/{k}", prog, flav(rng, has_nan(f)), mode="tol",
                        tags=["stats"] + (["nolift", "offset"] if big_offset else [])))
    return cases


def gen_C09(rng, tier):
    n = 1500 if tier == "quick" else 12000
    cases = []
    for k in range(2 * n):
        f = rand_leaf_pow2(rng)
        c = rng.choice(SIDES)
        pts, vals = f
        dvals = sorted({v for v in vals[1:-1] if v is not None})
        ys = sorted(set(dvals + [v + F(1, 4) for v in dvals] + [dvals[0] - 1]))
        # cumulative shares are exact: total span is a power of two
        total = sum((pts[i + 1] - pts[i] for i in range(len(pts) - 1) if vals[i + 1] is not None), F(0))
        shares, cum = [], F(0)
        sums = {}
        for i in range(len(pts) - 1):
            if vals[i + 1] is not None:
                sums[vals[i + 1]] = sums.get(vals[i + 1], F(0)) + pts[i + 1] - pts[i]
        for v in sorted(sums):
            cum += sums[v]
            shares.append(cum / total)
        pow2 = (total.numerator & (total.numerator - 1)) == 0
        ps = {F(0), F(100), F(50), F(25), F(75)}
        if pow2:
            ps |= {sh * 100 for sh in shares}
            ps |= {(a + b) * 50 for a, b in zip([F(0)] + shares, shares)}
        else:       # stay away from share boundaries, where binary64 rounding decides
            ps = {p for p in ps if all(abs(p - sh * 100) > F(1, 1000) for sh in shares)} | {F(0), F(100)}
        ps = sorted(ps)
        edges = sorted(set([dvals[0] - 1] + dvals + [dvals[-1] + 1] + [dvals[0] + F(1, 2)]))
        bins = list(zip(edges, edges[1:]))
        if len(bins) > 2 and rng.random() < 0.35:       # an IntervalIndex need not be contiguous: bins with gaps between them
            del bins[rng.randrange(1, len(bins) - 1)]
        hstat = rng.choice(["sum", "frequency", "density", "probability"])
        if hstat in ("frequency", "density"):
            pow2 = False      # quotients by bin widths are not exact: tolerant comparison
        import math
        ucl = rng.choice(SIDES)
        if ucl == "left":
            ue = list(range(math.floor(dvals[0]), math.floor(dvals[-1]) + 2))
        else:
            ue = list(range(math.ceil(dvals[0]) - 1, math.ceil(dvals[-1]) + 1))
        unitq = C.query(0, "hist", bins=[(F(a), F(a + 1)) for a in ue[:-1]], closed=ucl, stat=rng.choice(["sum", "probability"]), unit=True)
        qs = [unitq, C.query(0, "ecdf", side="right", ys=ys), C.query(0, "ecdf", side="left", ys=ys),
              C.query(0, "percentile", ps=ps), C.query(0, "fractile", ps=[p / 100 for p in ps]),
              C.query(0, "median"), C.query(0, "mode"), C.query(0, "value_sums"),
              C.query(0, "fractile", ps=[F(i, 4) for i in range(1, 4)]) if pow2 else C.query(0, "mode"),
              C.query(0, "describe", lo=None, hi=None, ps=[F(25), F(50), F(75)]) if pow2 else C.query(0, "median"),
              C.query(0, "describe", lo=pts[0], hi=pts[-1], ps=[F(0), F(100)]) if pow2 else C.query(0, "mode"),
              C.query(0, "hist", bins=bins, closed=rng.choice(SIDES), stat=hstat)]
        rng.shuffle(qs)
        prog = [leaf_stmt(0, f, c)]
        if rng.random() < 0.3:      # queried and used before (no in-place layering: the total length stays a power of two)
            warmup(rng, prog, 0, pts, inplace=False, qset=POW2_WARM if pow2 else TOL_WARM)
        prog += qs[: rng.randint(4, 9)]
        if rng.random() < 0.3:      # another function's distribution is asked for in between: each keeps its own total length
            prog += [leaf_stmt(7, ([F(0), F(8)], [F(0), F(3), F(0)]), c),
                     C.query(7, "hist", bins=[(F(2), F(4))], closed="left", stat="sum"), C.query(7, "ecdf", side="right", ys=[F(3)]),
                     C.query(0, "hist", bins=bins, closed=rng.choice(SIDES), stat="sum"),
                     C.query(7, "hist", bins=[(F(2), F(4))], closed="left", stat="sum")]
        exact = pow2 and not any(q.get("q") == "describe" for q in prog[1:])      # describe reports std: sqrt, then squared again
        cases.append(mk(f"C09/{'pow2' if pow2 else 'gen'}/{k}", prog, flav(rng, has_nan(f)), mode="exact" if exact else "tol", tags=["dist"]))
    return cases


IVC = ["left", "right", "both", "neither"]


def gen_C10(rng, tier):
    n = 1500 if tier == "quick" else 12000
    small = canonical_leaves(SMALL_PTS, SMALL_VALS)
    cases = []
    for k in range(2 * n):
        f = rng.choice(small) if k % 2 else rand_leaf(rng)
        c = rng.choice(SIDES)
        pts = leaf_points(f)
        prog = [leaf_stmt(0, f, c)]
        if rng.random() < 0.35:
            warmup(rng, prog, 0, pts)
        wpts = pts if rng.random() < 0.6 else leaf_points(f)      # window ends on step points, or also between / beyond them
        for _ in range(rng.randint(2, 5)):
            lo = rng.choice([None] + wpts)
            hi = rng.choice([None] + [p for p in wpts if lo is None or p > lo])      # a window has lower < upper
            cl = rng.choice(IVC + [None])
            kind = rng.choice(["vir", "min", "max", "aggmin", "aggmax"])
            if kind in ("vir", "min", "max"):
                prog.append(C.query(0, kind, lo=lo, hi=hi, closed=cl))
            else:
                prog.append(C.query(0, "agg", name=kind[3:], lo=lo, hi=hi, closed=cl))
        prog += [C.query(0, "min"), C.query(0, "max"), C.query(0, "vir")]
        cases.append(mk(f"C10/{k}", prog, flav(rng, has_nan(f)), tags=["range"]))
    return cases


# ----------------------------------------------------------------------------- random programs
EXACT_SCAL = [F(0), F(1), F(-1), F(2), F(1, 2), F(-2), None]


def rand_program(rng, n_ops, closed_same=0.95, kinds=None, n_leaves=None, reads=0.15, div=True):
    """a straight-line program: leaves, then n_ops operations each binding a new register; returns
    (prog, registers bound to step functions)"""
    kinds = kinds or ["bin", "bin", "bin", "scal", "un", "clip", "mask", "where", "maskt", "fills", "fillm", "fillg",
                      "shift", "layer"]
    n_leaves = n_leaves or rng.randint(1, 3)
    base = rng.choice(SIDES)
    prog, regs = [], []
    anynan = False
    for i in range(n_leaves):
        lf = rand_leaf(rng, maxn=4, vals=[F(k, 2) for k in range(-4, 5)]) if rng.random() < 0.8 else ([], [rng.choice(EXACT_SCAL)])
        c = base if rng.random() < closed_same else rng.choice(SIDES)
        prog.append(leaf_stmt(i, lf, c))
        regs.append(i)
        anynan = anynan or has_nan(lf)
    nxt = n_leaves
    for i in range(n_leaves):       # provenance: leaves as results of earlier operations, with reads interposed
        if rng.random() < 0.4:
            r, nxt = derive(rng, prog, i, nxt)
            if r != i:
                regs.append(r)
    pts_pool = [F(k, 2) for k in range(-2, 14)]
    for _ in range(n_ops):
        k = rng.choice(kinds)
        a = rng.choice(regs)
        if rng.random() < reads:
            prog.append(C.read(a, rng.choice(["values", "deltas", "frame"])))
        if k == "bin":
            ops = C.BINOPS if div else [o for o in C.BINOPS if o != "div"]
            op = rng.choice(ops)
            b = rng.choice(regs)
            if op == "div":      # exactness: divide only by 0/1-valued or power-of-two data
                prog.append(C.bin_(nxt, rng.choice(["ne", "lt"]), C.reg(b), C.cst(rng.choice([F(0), F(1)]))))
                b = nxt
                nxt += 1
            prog.append(C.bin_(nxt, op, C.reg(a), C.reg(b)))
        elif k == "scal":
            op = rng.choice(C.BINOPS)
            c = rng.choice(EXACT_SCAL)
            if op == "div" and rng.random() < 0.5:
                prog.append(C.bin_(nxt, op, C.reg(a), C.cst(c)))
            elif op == "div":
                prog.append(C.bin_(nxt, "ne", C.reg(a), C.cst(0)))
                nxt += 1
                prog.append(C.bin_(nxt, op, C.cst(c), C.reg(nxt - 1)))
            elif rng.random() < 0.5:
                prog.append(C.bin_(nxt, op, C.reg(a), C.cst(c)))
            else:
                prog.append(C.bin_(nxt, op, C.cst(c), C.reg(a)))
        elif k == "un":
            prog.append(C.un(nxt, rng.choice(["neg", "invert", "make_boolean", "isna", "notna", "copy"]), a))
        elif k == "fillm":
            prog.append(C.un(nxt, rng.choice(["ffill", "bfill"]), a))
        elif k == "clip":
            lo = rng.choice([None] + pts_pool)
            hi = rng.choice([None] + [x for x in pts_pool if lo is None or x > lo])
            prog.append(C.clip(nxt, a, lo, hi))
        elif k in ("mask", "where"):
            prog.append(C.mask(nxt, a, rng.choice(regs), inverse=(k == "where")))
        elif k == "maskt":
            lo = rng.choice([None] + pts_pool)
            hi = rng.choice([None] + [x for x in pts_pool if lo is None or x > lo])
            prog.append(C.maskt(nxt, a, lo, hi, inverse=rng.random() < 0.5))
        elif k == "fills":
            prog.append(C.fills(nxt, a, rng.choice([F(0), F(1), F(3), F(-1, 2)])))
        elif k == "fillg":
            prog.append(C.fillg(nxt, a, rng.choice(regs)))
        elif k == "shift":
            prog.append(C.shift(nxt, a, rng.choice([F(-1), F(1, 2), F(2), F(0)])))
        elif k == "layer":
            prog.append(C.un(nxt, "copy", a))
            prog.append(rand_layer_call(rng, nxt))
        regs.append(nxt)
        nxt += 1
    return prog, regs, anynan


def gen_C16(rng, tier):
    n = 700 if tier == "quick" else 6000
    cases = []
    for k in range(n):
        prog, regs, anynan = rand_program(rng, rng.randint(2, 4 if tier == "quick" else 6))
        last = regs[-1]
        prog = prog + [C.read(last, "frame"), C.query(last, "nsteps")]
        if rng.random() < 0.35:      # ... and a collection aggregate of some of its functions, with a step-free member among them
            ms = rng.sample(regs, min(len(regs), rng.randint(1, 3)))
            side = next((s_["closed"] for s_ in prog if s_["s"] in ("new", "from_values")), LEFT)
            prog = prog + [C.new(80, rng.choice([F(5), F(0), F(-1), None]), side)]
            ms.insert(rng.randrange(len(ms) + 1), 80)
            prog = prog + [C.agg(81, rng.choice(["sum", "mean", "max", "min", "median", "logical_or", "logical_and"]), ms),
                           C.read(81, "frame"), C.query(81, "nsteps")]
        # the same program under several provenance / materialisation / scalar-type variants
        for v in range(4):
            cases.append(mk(f"C16/{k}/v{v}", prog, flav(rng, anynan), tags=["program"]))
    return cases


IDENTITIES = ["add_comm", "mul_comm", "add_assoc", "mul_assoc", "distrib", "demorgan", "sub_self", "double_neg",
              "mask_where", "and_comm", "or_assoc", "clip_masks", "clip_masks"]


def gen_C12(rng, tier):
    n = 700 if tier == "quick" else 6000
    cases = []
    # (a) every result of every operation is minimal: raw step tables are compared with the model and the oracle
    for k in range(n):
        prog, regs, anynan = rand_program(rng, rng.randint(1, 3))
        extra = []
        if rng.random() < 0.3:       # a result with a history (queried, used, layered in place) is still minimal and comparable
            r = rng.choice(regs)
            warmup(rng, prog, r, [F(0), F(1), F(2), F(3)])
            extra += [C.read(r, "frame"), C.bin_(90, "add", C.reg(r), C.cst(0)), C.query(r, "identical", a=C.reg(90)),
                      C.query(90, "identical", a=C.reg(r))]
        for r in regs[-2:]:
            extra += [C.query(r, "nsteps"), C.query(r, "points"), C.query(r, "identical", a=C.reg(r)), C.query(r, "bool")]
        r1, r2 = rng.choice(regs), rng.choice(regs)
        extra += [C.query(r1, "identical", a=C.reg(r2)), C.query(r2, "identical", a=C.reg(r1))]
        cases.append(mk(f"C12/min/{k}", prog + extra, flav(rng, anynan), tags=["minimal"]))
    # (b) value coincidences that make results constant on adjacent pieces
    small = canonical_leaves(SMALL_PTS, [None, F(0), F(1), F(2)])
    for k in range(n):
        f, g = rng.choice(small), rng.choice(small)
        c = rng.choice(SIDES)
        kind = rng.choice(["mul0", "zerodiv", "cdiv", "constmask", "cancel", "fromvals", "f-f", "scal_ident", "dupvals"])
        prog = [leaf_stmt(0, f, c), leaf_stmt(1, g, c)]
        if kind == "dupvals":       # from_values with a repeated or decreasing index label is refused (nothing is bound)
            ks = sorted(rng.sample(range(0, 6), rng.randint(2, 4)))
            m = rng.randrange(1, len(ks))
            ks[m] = ks[m - 1] if rng.random() < 0.7 else ks[m - 1] - 1
            rows = [(F(k_), rng.choice([F(1), F(2), F(3)])) for k_ in ks]
            fl = flav(rng, False)
            fl["route"] = "from_values"
            prog = [C.from_values(0, F(0), rows, c), C.from_values(1, F(0), [(F(0), F(1)), (F(2), F(0))], c),
                    C.query(1, "nsteps"), C.query(1, "points")]
            cases.append(mk(f"C12/{kind}/{k}", prog, fl, tags=[kind, "nolift"]))
            continue
        if kind == "mul0":
            prog.append(C.bin_(2, "mul", C.reg(0), C.cst(0)))
        elif kind == "zerodiv":
            prog.append(C.bin_(2, "div", C.cst(0), C.reg(0)))
        elif kind == "cdiv":
            prog += [C.bin_(3, "ne", C.reg(0), C.cst(0)), C.bin_(2, "div", C.cst(rng.choice([F(1), F(-1), F(2)])), C.reg(3))]
        elif kind == "constmask":
            prog += [C.new(3, rng.choice([F(0), F(1), None]), c), C.mask(2, 3, 1, inverse=rng.random() < 0.5)]
        elif kind == "cancel":
            a, b, v = rng.choice(SMALL_PTS), rng.choice(SMALL_PTS), rng.choice([F(1), F(2)])
            prog += [C.new(2, rng.choice([F(0), F(1)]), c), C.layer_s(2, a, b, v), C.layer_s(2, a, b, -v)]
        elif kind == "fromvals":
            pool = [F(0), F(0), F(1), None] if rng.random() < 0.7 else NEAR_VALS + [None]
            rows = [(F(i), rng.choice(pool)) for i in range(rng.randint(1, 4))]
            prog += [C.from_values(2, rng.choice([F(0), None]), rows, c)]
        elif kind == "f-f":
            prog += [C.bin_(2, "sub", C.reg(0), C.reg(0)), C.bin_(3, "mul", C.reg(0), C.cst(0)), C.query(2, "identical", a=C.reg(3))]
        else:
            prog += [C.new(2, rng.choice([F(0), F(1), F(2)]), c), C.query(2, "identical", a=C.cst(rng.choice([F(0), F(1), F(2)]))),
                     C.query(2, "bool")]
        prog += [C.query(2, "nsteps"), C.query(2, "points"), C.query(2, "bool"), C.query(2, "identical", a=C.reg(0)),
                 C.query(0, "identical", a=C.reg(2))]
        cases.append(mk(f"C12/{kind}/{k}", prog, flav(rng, has_nan(f) or has_nan(g)), tags=[kind]))
    # (c) identities of pointwise algebra, up to identical(), in both directions
    vals = [None, F(0), F(1), F(-1), F(2)]
    leaves3 = canonical_leaves(SMALL_PTS, vals)
    for k in range(n):
        f, g, h = (rng.choice(leaves3) if rng.random() < 0.5 else rand_leaf(rng, maxn=3, vals=[F(-1), F(0), F(1), F(2), F(1, 2)]) for _ in range(3))
        c = rng.choice(SIDES)
        ident = rng.choice(IDENTITIES)
        P = [leaf_stmt(0, f, c), leaf_stmt(1, g, c), leaf_stmt(2, h, c)]
        R = C.reg
        if rng.random() < 0.25:
            warmup(rng, P, rng.choice([0, 1]), leaf_points(f, g[0]))
        if ident == "add_comm":
            P += [C.bin_(3, "add", R(0), R(1)), C.bin_(4, "add", R(1), R(0))]
        elif ident == "mul_comm":
            P += [C.bin_(3, "mul", R(0), R(1)), C.bin_(4, "mul", R(1), R(0))]
        elif ident == "and_comm":
            P += [C.bin_(3, "and", R(0), R(1)), C.bin_(4, "and", R(1), R(0))]
        elif ident == "add_assoc":
            P += [C.bin_(5, "add", R(0), R(1)), C.bin_(3, "add", R(5), R(2)), C.bin_(6, "add", R(1), R(2)), C.bin_(4, "add", R(0), R(6))]
        elif ident == "mul_assoc":
            P += [C.bin_(5, "mul", R(0), R(1)), C.bin_(3, "mul", R(5), R(2)), C.bin_(6, "mul", R(1), R(2)), C.bin_(4, "mul", R(0), R(6))]
        elif ident == "or_assoc":
            P += [C.bin_(5, "or", R(0), R(1)), C.bin_(3, "or", R(5), R(2)), C.bin_(6, "or", R(1), R(2)), C.bin_(4, "or", R(0), R(6))]
        elif ident == "distrib":
            P += [C.bin_(5, "add", R(1), R(2)), C.bin_(3, "mul", R(0), R(5)), C.bin_(6, "mul", R(0), R(1)), C.bin_(7, "mul", R(0), R(2)),
                  C.bin_(4, "add", R(6), R(7))]
        elif ident == "demorgan":
            P += [C.bin_(5, "and", R(0), R(1)), C.un(3, "invert", 5), C.un(6, "invert", 0), C.un(7, "invert", 1), C.bin_(4, "or", R(6), R(7))]
        elif ident == "sub_self":
            P += [C.bin_(3, "sub", R(0), R(0)), C.bin_(4, "mul", R(0), C.cst(0))]
        elif ident == "double_neg":
            P += [C.un(5, "invert", 0), C.un(3, "invert", 5), C.un(4, "make_boolean", 0)]
        elif ident == "mask_where":
            P += [C.mask(3, 0, 1), C.un(5, "invert", 1), C.mask(4, 0, 5, inverse=True)]
        elif ident == "clip_masks":     # clip to a window = masking what lies outside it; window ends between the step points too
            lo = rng.choice([None, F(1, 2), F(3, 2), F(5, 2), F(-1, 2), F(1), F(2)])
            hi = rng.choice([None] + [x for x in (F(2), F(3), F(7, 2), F(4)) if lo is None or x > lo])
            P += [C.clip(3, 0, lo, hi), C.maskt(5, 0, None, lo) if lo is not None else C.un(5, "copy", 0),
                  C.maskt(4, 5, hi, None) if hi is not None else C.un(4, "copy", 5), C.read(3, "frame")]
        P += [C.query(3, "identical", a=R(4)), C.query(4, "identical", a=R(3)), C.query(3, "nsteps"), C.query(4, "nsteps")]
        cases.append(mk(f"C12/{ident}/{k}", P, flav(rng, any(has_nan(x) for x in (f, g, h))), tags=[ident]))
    # (d) integer step points beyond 2**53 (distinct labels that no float can tell apart): identical() tells neighbouring
    # functions apart, leaves its operands usable, and the tables stay exact
    for k in range(n // 6):
        c = rng.choice(SIDES)
        pts = sorted(rng.sample(range(0, 7), rng.randint(2, 4)))
        vs = [rng.choice([F(1), F(2), F(3)]) for _ in pts]
        rows = [(F(p), v) for p, v in zip(pts, vs)]
        rows = [r for i_, r in enumerate(rows) if i_ == 0 or r[1] != rows[i_ - 1][1]] + []
        rows2 = list(rows)
        m = rng.randrange(len(rows2))
        how = rng.choice(["same", "shift1", "shift1", "value"])
        if how == "shift1":
            p2 = rows2[m][0] + rng.choice([1, -1])
            if all(p2 != q_ for q_, _ in rows2) and (m == 0 or rows2[m - 1][0] < p2) and (m == len(rows2) - 1 or p2 < rows2[m + 1][0]):
                rows2[m] = (p2, rows2[m][1])
        elif how == "value":
            rows2[m] = (rows2[m][0], rows2[m][1] + 4)
        prog = [C.from_values(0, F(0), rows, c), C.from_values(1, F(0), rows2, c)]
        if rng.random() < 0.5:
            prog.append(C.read(rng.choice([0, 1]), rng.choice(["values", "deltas", "frame"])))
        prog += [C.query(0, "identical", a=C.reg(1)), C.query(1, "identical", a=C.reg(0)), C.bin_(2, "eq", C.reg(0), C.reg(1)),
                 C.query(2, "bool"), C.bin_(3, "sub", C.reg(0), C.reg(1)), C.query(3, "nsteps"), C.query(3, "points")]
        # the operands are still what they were, and can be layered onto
        a = F(rng.choice(range(0, 7))) + F(1, 2)
        prog += [C.layer_s(1, a, None, F(5)), C.read(1, "frame"), C.read(0, "frame"), C.query(1, "nsteps"),
                 C.query(1, "sample", xs=[F(x_) for x_ in range(-1, 8)])]
        fl = flav(rng, False)
        fl["dom"] = "bigint"
        fl["route"] = "from_values"
        cases.append(mk(f"C12/bigint/{k}", prog, fl, tags=["bigint", "nolift"]))
    return cases


def gen_C13_directed(rng, k):
    """operand with known step points; one operation; scalar layers that start / end exactly at existing step points
    of the operand or of the result (the in-place write path of layering), then everything is re-inspected"""
    f = rand_leaf(rng, maxn=4, nan=0.15, grid=1, span=6, vals=[F(j) for j in range(-2, 4)])
    while not f[0]:
        f = rand_leaf(rng, maxn=4, nan=0.15, grid=1, span=6, vals=[F(j) for j in range(-2, 4)])
    c = rng.choice(SIDES)
    P = [leaf_stmt(0, f, c)]
    if rng.random() < 0.5:
        P.append(C.read(0, rng.choice(["deltas", "values", "frame"])))
    distq = rng.random() < 0.3      # statistics / distribution of the operand queried first (cached), of everything afterwards
    if distq:
        P += [C.query(0, q) for q in rng.sample(["var", "mean", "integral", "value_sums", "max"], 2)]
    d = F(0)
    kind = rng.choice(["shift", "shift", "copy", "neg", "addc", "mulc", "rmulc", "clipnone", "wherenone", "fills", "mask1", "sub0",
                       "diff", "addself", "agg", "agg", "agg1", "cliphi_at", "cliphi_at", "wherehi_at", "aggwin_at",
                       "rdivc", "rdivc", "rdivs", "divc", "rsubc", "relc", "identq", "identq", "constrhs", "constrhs"])
    if kind in ("agg", "agg1"):       # collection aggregates (their initial value comes out of a numpy reduction)
        g2 = rand_leaf(rng, maxn=3, nan=0.0, grid=1, span=6, vals=[F(j) for j in range(-1, 3)])
        P.append(leaf_stmt(2, g2, c))
        P.append(C.agg(1, rng.choice(["sum", "mean", "median", "min", "max", "logical_or", "logical_and"]), [0, 2] if kind == "agg" else [0]))
    elif kind == "rmulc":
        P.append(C.bin_(1, "mul", C.cst(1), C.reg(0)))
    elif kind == "constrhs":      # a step-free Stairs of the OTHER closed side as right operand / masker / receiver: it never
        # mismatches, and it keeps its own side (and stays layerable on that side) afterwards
        oc = RIGHT if c == LEFT else LEFT
        P.append(C.new(2, rng.choice([F(2), F(0), F(1), F(-1)]), oc))
        how = rng.choice(["bin", "bin", "rbin", "mask", "recv"])
        if how == "bin":
            P.append(C.bin_(1, rng.choice(["add", "sub", "mul", "lt", "ge", "eq", "and", "or", "xor"]), C.reg(0), C.reg(2)))
        elif how == "rbin":
            P.append(C.bin_(1, rng.choice(["add", "sub", "mul", "gt", "ne", "or"]), C.reg(2), C.reg(0)))
        elif how == "mask":
            P.append(C.mask(1, 0, 2, inverse=rng.random() < 0.5))
        else:
            P.append(C.mask(1, 2, 0, inverse=rng.random() < 0.5))
    elif kind == "identq":        # identical() is an operation too: both operands are what they were, and usable, afterwards
        P += [leaf_stmt(2, f, c), C.query(0, "identical", a=C.reg(2)), C.un(1, "copy", 0)]
    elif kind == "rdivc":         # scalar / f where f takes the value zero (6 and 12 divide exactly by every value of f)
        P.append(C.bin_(1, "div", C.cst(rng.choice([F(6), F(12), F(-6)])), C.reg(0)))
    elif kind == "rdivs":         # the same with a step-free Stairs on the left
        P += [C.new(2, rng.choice([F(6), F(12)]), c), C.bin_(1, "div", C.reg(2), C.reg(0))]
    elif kind == "divc":
        P.append(C.bin_(1, "div", C.reg(0), C.cst(rng.choice([F(2), F(-1), F(1, 2)]))))
    elif kind == "rsubc":
        P.append(C.bin_(1, rng.choice(["sub", "add", "mul"]), C.cst(rng.choice([F(0), F(1), F(2)])), C.reg(0)))
    elif kind == "relc":
        P.append(C.bin_(1, rng.choice(C.REL + C.LOG), C.cst(rng.choice([F(0), F(1)])), C.reg(0)))
    elif kind in ("cliphi_at", "wherehi_at", "aggwin_at"):      # one-sided windows ending exactly on a step point of the operand
        pt = rng.choice(f[0])
        if kind == "cliphi_at":
            P.append(C.clip(1, 0, None, pt))
        elif kind == "wherehi_at":
            P.append(C.maskt(1, 0, None, pt, inverse=True))
        else:
            P += [C.query(0, "agg", name=rng.choice(["max", "integral", "min"]), lo=None, hi=pt), C.un(1, "copy", 0)]
    elif kind == "shift":
        d = rng.choice([F(1), F(-1), F(2), F(10)])
        P.append(C.shift(1, 0, d))
    elif kind == "copy":
        P.append(C.un(1, "copy", 0))
    elif kind == "neg":
        P.append(C.un(1, "neg", 0))
    elif kind == "addc":
        P.append(C.bin_(1, rng.choice(["add", "sub"]), C.reg(0), C.cst(rng.choice([F(0), F(1)]))))
    elif kind == "mulc":
        P.append(C.bin_(1, "mul", C.reg(0), C.cst(1)))
    elif kind == "clipnone":
        P.append(C.clip(1, 0, None, None))
    elif kind == "wherenone":
        P.append(C.maskt(1, 0, None, None, inverse=True))
    elif kind == "fills":
        P.append(C.fills(1, 0, 0))
    elif kind == "mask1":
        P += [C.new(2, 0, c), C.mask(1, 0, 2)]
    elif kind == "sub0":
        P += [C.new(2, 0, c), C.bin_(1, "add", C.reg(0), C.reg(2))]
    elif kind == "diff":
        d = F(1)
        P.append(C.diff(1, 0, d))
    else:
        P.append(C.bin_(1, "add", C.reg(0), C.reg(0)))
    pts0 = f[0]
    pts1 = [p + d for p in pts0]
    regs = [0, 1] + ([2] if kind in ("identq", "constrhs") else [])
    if rng.random() < 0.4:        # a function derived from the result: siblings and grand-children share nothing either
        k2 = rng.choice(["copy", "copy", "clipnone", "shift0", "fills", "neg"])
        P.append({"copy": C.un(3, "copy", 1), "clipnone": C.clip(3, 1, None, None), "shift0": C.shift(3, 1, F(0)),
                  "fills": C.fills(3, 1, 0), "neg": C.un(3, "neg", 1)}[k2])
        regs.append(3)
    P += [C.read(r_, "frame") for r_ in regs]
    for _ in range(rng.randint(1, 3)):
        tgt = rng.choice(regs)
        pts = pts0 if tgt == 0 else pts1
        a = rng.choice(pts + [None])        # None: the unbounded-left path bumps the initial value in place
        b = rng.choice(pts + [None, (a if a is not None else pts[0]) + F(1, 2)])
        P.append(C.layer_s(tgt, a, b, rng.choice([F(1), F(5), F(-1)])))
        P += [C.read(r_, "frame") for r_ in regs] + [C.read(r_, "deltas") for r_ in regs]
        if distq:
            for r_ in regs:
                P += [C.query(r_, q) for q in rng.sample(["var", "mean", "integral", "value_sums", "max"], 2)]
    fl = flav(rng, has_nan(f))
    if kind == "identq" and rng.random() < 0.6:
        fl["dom"] = "bigint"        # integer labels beyond 2**53
        if fl.get("route") not in ("from_values", "layer", "maskroute"):
            # (a start / end VECTOR with a missing entry is a float array in numpy / pandas: it cannot carry such labels)
            fl["route"] = rng.choice(["from_values", "layer"])
    return mk(f"C13/directed/{kind}/{k}", P, fl, mode="tol" if distq else "exact", tags=["directed-" + kind])


def gen_C13(rng, tier):
    n = 2500 if tier == "quick" else 20000
    cases = [gen_C13_directed(rng, k) for k in range(n // 2)]
    for k in range(n // 2):
        prog, regs, anynan = rand_program(rng, rng.randint(1, 2), kinds=["bin", "scal", "un", "clip", "mask", "where", "maskt",
                                                                         "fills", "fillm", "fillg", "shift"], reads=0.3)
        res = regs[-1]
        # every object bound so far is an operand to re-inspect, the intermediate ones (e.g. the 0/1-valued divisors) included
        bound = sorted({s_["r"] for s_ in prog if s_["s"] not in ("layer", "read", "query") and "r" in s_})
        ops = [r for r in bound if r != res]
        # unbounded clip / where((None, None)) / mask by a constant hand back copies, not operands
        if rng.random() < 0.25:
            a = rng.choice(regs)
            prog.append(rng.choice([C.clip(res + 1, a, None, None), C.maskt(res + 1, a, None, None, inverse=True),
                                    C.bin_(res + 1, "add", C.reg(a), C.cst(0))]))
            ops.append(res)
            res = res + 1
        snapshot = [C.read(r, "frame") for r in ops + [res]]
        # mutate the result (scalar layer at an existing point, at a new point, vector layer) and re-inspect everything
        target = res if rng.random() < 0.6 else rng.choice(ops + [res])
        muts = []
        for _ in range(rng.randint(1, 2)):
            muts.append(rand_layer_call(rng, target, pts=[None, F(0), F(1), F(2), F(1, 2), F(3), F(5, 2), F(9, 2)]))
        after = [C.read(r, "frame") for r in ops + [res]] + [C.query(r, "closed") for r in ops + [res]]
        cases.append(mk(f"C13/{k}", prog + snapshot + muts + after, flav(rng, anynan), tags=["mutate-then-observe"]))
    return cases


STAT_Q = ["integral", "mean", "var", "min", "max", "value_sums", "ecdf", "percentile", "fractile", "median", "mode", "hist", "hist",
          "sample", "limit", "aggvar", "aggvar"]


def stat_query(rng, r, kind):
    if kind == "sample":
        return C.query(r, "sample", xs=[F(-1), F(0), F(1, 2), F(1), F(2), F(3), F(4), F(5)])
    if kind == "limit":
        return C.query(r, "limit", side=rng.choice(["left", "right"]), xs=[F(-1), F(0), F(1, 2), F(1), F(2), F(3), F(4), F(5)])
    if kind == "ecdf":
        return C.query(r, "ecdf", side=rng.choice(["left", "right"]), ys=[F(0), F(1), F(2), F(1, 2)])
    if kind == "percentile":
        return C.query(r, "percentile", ps=[F(0), F(50), F(100)])
    if kind == "fractile":
        return C.query(r, "fractile", ps=[F(0), F(1, 2), F(1)])
    if kind == "hist":
        return C.query(r, "hist", bins=[(F(-2), F(0)), (F(0), F(1)), (F(1), F(4))], closed=rng.choice(SIDES), stat=rng.choice(["sum", "probability"]))
    if kind == "aggvar":      # a distribution statistic over a window: builds the distribution of another (clipped) function
        lo = rng.choice([F(0), F(1), F(1, 2)])
        return C.query(r, "agg", name=rng.choice(["var", "mean"]), lo=lo, hi=lo + rng.choice([F(1), F(2), F(3)]))
    return C.query(r, kind)


# statistics whose binary64 result is exact on dyadic data / within the relative tolerance / exact when the total length is
# a power of two as well (cumulative shares)
EXACT_WARM = ["integral", "min", "max", "vir", "value_sums", "sample", "limit", "mode"]
TOL_WARM = EXACT_WARM + ["mean", "var"]
POW2_WARM = TOL_WARM + ["median", "percentile", "fractile"]


def warmup(rng, prog, r, pts, inplace=True, scratch=60, qset=EXACT_WARM):
    """history of the operand before the statement under test: it has been queried (so that materialised internal forms
    and cached statistics exist), used as the receiver of other operations whose results are dropped (an operation that
    writes into its operand then shows in what follows), and - when `inplace` - extended in place by layer calls
    (ordinary, unbounded, empty, exactly cancelling) after that (anything kept from before the mutation then shows)."""
    pts = sorted({p for p in pts if p is not None}) or [F(0), F(1)]
    grid = pts + [pts[-1] + 1]
    for _ in range(rng.choice([1, 1, 2, 3])):
        k = rng.choice(["q", "q", "use", "use", "layer"] if inplace else ["q", "q", "use"])
        if k == "q":
            for name in rng.sample(qset, rng.randint(1, 3)):
                prog.append(stat_query(rng, r, name))
        elif k == "use":
            u = rng.choice(["cliphi", "cliphi", "cliplo", "clip", "maskt", "fill0", "neg", "addc", "isna", "copy", "slicer", "bfill", "ffill", "ffill"])
            a, b = rng.choice(pts), rng.choice(grid)
            if u == "cliphi":
                prog.append(C.clip(scratch, r, None, a))
            elif u == "cliplo":
                prog.append(C.clip(scratch, r, a, None))
            elif u == "clip" and a < b:
                prog.append(C.clip(scratch, r, a, b))
            elif u == "maskt" and a < b:
                prog.append(C.maskt(scratch, r, a, b, inverse=rng.random() < 0.5))
            elif u == "fill0":
                prog.append(C.fills(scratch, r, F(0)))
            elif u == "addc":
                prog.append(C.bin_(scratch, "add", C.reg(r), C.cst(F(1))))
            elif u == "slicer" and a < b:
                prog.append(C.query(r, "slicer", stat=rng.choice(["mean", "max", "integral"] if qset is TOL_WARM else ["min", "max", "integral"]), icl=rng.choice(IVC), ivs=[(a, b)]))
                continue
            elif u in ("neg", "isna", "copy", "bfill", "ffill"):
                prog.append(C.un(scratch, u, r))
            else:
                continue
            if rng.random() < 0.5:      # the dropped result is itself looked at (a stale statistic carried over shows here)
                prog.append(stat_query(rng, scratch, rng.choice([q for q in qset if q in ("integral", "max", "min", "sample") or (q == "mean" and qset is TOL_WARM)])))
            scratch += 1
        else:
            form = rng.choice(["plain", "plain", "unbounded", "empty", "cancel"])
            v = rng.choice([F(1), F(-1), F(2)])
            a, b = rng.choice(grid), rng.choice(grid)
            if form == "plain":
                prog.append(C.layer_s(r, a, b, v) if rng.random() < 0.5 else C.layer_v(r, [(a, b, v)]))
            elif form == "unbounded":
                prog.append(C.layer_s(r, None, None, rng.choice([v, None])))
            elif form == "empty":
                prog.append(C.layer_s(r, a, a, v))
            else:
                prog.append(C.layer_v(r, [(a, b, v), (a, b, -v)]))
    return scratch


def poststats(rng, prog, r, qset=EXACT_WARM):
    """statistics of a derived function (a statistic cached on an operand must not travel to the result)"""
    for name in rng.sample([q for q in qset if q not in ("sample", "limit")], rng.randint(1, 2)):
        prog.append(stat_query(rng, r, name))


def gen_C14(rng, tier):
    n = 2500 if tier == "quick" else 20000
    cases = []
    for k in range(n):
        c = rng.choice(SIDES)
        # a function with finite pieces of total length a power of two, so that every answer is exact
        r0 = rng.random()
        if r0 < 0.25:       # step-free receivers: queried, then layered
            base = ([], [rng.choice([F(0), F(1), F(2)])])
        elif r0 < 0.75:
            base = ([F(0), F(4)], [F(0), rng.choice([F(1), F(2)]), F(0)])
        elif r0 < 0.85:
            base = rand_leaf_pow2(rng, nan=0)
        else:               # receivers with undefined regions (layering goes through addition there)
            base = ([F(0), F(1), F(2), F(4)], [rng.choice([F(0), None]), F(1), None, rng.choice([F(2), F(3)]), F(0)])
        prog = [leaf_stmt(0, base, c)]
        if r0 < 0.25:
            prog += [stat_query(rng, 0, q) for q in rng.sample(["integral", "mean", "min", "max"], 2)]
        lay_pts = [None, F(0), F(1), F(2), F(4)] if base[0] in ([F(0), F(4)], [], [F(0), F(1), F(2), F(4)]) else [None] + base[0]
        undo = None
        for _ in range(rng.randint(2, 6)):
            r = rng.random()
            if r < 0.45:
                prog.append(stat_query(rng, 0, rng.choice(STAT_Q)))
            elif r < 0.8:
                a, b = rng.choice(lay_pts), rng.choice(lay_pts)
                v = rng.choice([F(1), F(-1), F(2), F(0)])
                if rng.random() < 0.5:
                    prog.append(C.layer_s(0, a, b, v))
                else:
                    prog.append(C.layer_v(0, [(a, b, v)]))
                undo = (a, b, -v)
            elif undo is not None:
                prog.append(C.layer_s(0, *undo))     # a mutation that returns the function to an earlier state
                undo = None
            elif rng.random() < 0.5:                 # a function derived from the queried one has its own statistics
                d = rng.choice(["copy", "clip", "neg"])
                prog.append(C.clip(70 + k % 5, 0, F(0), F(2)) if d == "clip" else C.un(70 + k % 5, d, 0))
                prog.append(stat_query(rng, 70 + k % 5, rng.choice(["integral", "mean", "max", "min", "value_sums"])))
            if rng.random() < 0.5:
                prog.append(stat_query(rng, 0, rng.choice(STAT_Q)))
        prog += [stat_query(rng, 0, q) for q in rng.sample(STAT_Q, 4)] + [C.read(0, "frame")]
        if rng.random() < 0.3:      # a copy has its own caches and its own distribution: layer one of the two, then ask both
            how = rng.choice(["copy", "copy", "clipnone"])
            prog.append(C.un(75, "copy", 0) if how == "copy" else C.clip(75, 0, None, None))
            tgt = rng.choice([75, 75, 0])
            a, b = rng.choice(lay_pts), rng.choice(lay_pts)
            prog.append(C.layer_s(tgt, a, b, rng.choice([F(1), F(2), F(-1)])))
            for r_ in (75, 0):
                prog += [stat_query(rng, r_, q) for q in rng.sample(STAT_Q, 3)]
            prog += [C.read(75, "frame"), C.read(0, "frame")]
        cases.append(mk(f"C14/{k}", prog, flav(rng, has_nan(base)), mode="tol", tags=["history"]))
    # integrals beyond the range of a Timedelta (datetime domain, huge values): integral() refuses every time it is asked -
    # not only the first -, and mean() is unaffected, before and after a layer call
    for k in range(n // 40):
        c = rng.choice(SIDES)
        big = F(2) ** rng.choice([40, 44, 50])
        pts = sorted(rng.sample(range(0, 8), 3))
        prog = [C.from_values(0, F(0), [(F(pts[0]), big), (F(pts[1]), big * rng.choice([2, 3])), (F(pts[2]), F(0))], c)]
        qs = [C.query(0, "integral"), C.query(0, "mean"), C.query(0, "integral"), C.query(0, "max")]
        rng.shuffle(qs)
        prog += qs + [C.query(0, "integral")]
        prog += [C.layer_s(0, F(pts[0]), F(pts[2]) + 1, big), C.query(0, "mean"), C.query(0, "integral"), C.query(0, "integral")]
        fl = flav(rng, False)
        fl["dom"] = rng.choice(["dt", "tz", "td"])
        fl["valdtype"] = "float"
        cases.append(mk(f"C14/overflow/{k}", prog, fl, mode="tol", tags=["overflow", "nolift"]))
    return cases


SHAPES = ["steps", "steps_nan_left", "const1", "const0", "constnan"]


def shape_leaf(rng, shape):
    if shape == "steps":
        return ([F(1), F(3)], [F(0), rng.choice([F(1), F(2)]), F(0)])
    if shape == "steps_nan_left":
        return ([F(1), F(3)], [None, F(1), rng.choice([F(0), F(2)])])
    return ([], [{"const1": F(1), "const0": F(0), "constnan": None}[shape]])


def gen_C15(rng, tier):
    """the complete grid: operand shapes^2 x closed^2 x every operation"""
    cases = []
    k = 0
    unary = ["neg", "invert", "make_boolean", "isna", "notna", "copy", "ffill", "bfill"]
    for sa in SHAPES:
        for ca in SIDES:
            fa = shape_leaf(rng, sa)
            # unary operations, clip, tuple shorthands, scalar fill, shift, diff, scalar operators
            P = [leaf_stmt(0, fa, ca)]
            r = 1
            for u in unary:
                P.append(C.un(r, u, 0)); r += 1
            for lo, hi in [(None, None), (F(0), F(2)), (F(2), None), (None, F(2)), (F(5), F(6))]:
                P.append(C.clip(r, 0, lo, hi)); r += 1
                P.append(C.maskt(r, 0, lo, hi)); r += 1
                P.append(C.maskt(r, 0, lo, hi, inverse=True)); r += 1
            P.append(C.fills(r, 0, 1)); r += 1
            P.append(C.shift(r, 0, 1)); r += 1
            P.append(C.diff(r, 0, 1)); r += 1
            for op in C.BINOPS:
                for c in (F(0), F(2), None):
                    P.append(C.bin_(r, op, C.reg(0), C.cst(c))); r += 1
                    P.append(C.bin_(r, op, C.cst(c), C.reg(0))); r += 1
            cases.append(mk(f"C15/unary/{sa}/{ca}", P, flav(rng, has_nan(fa)), tags=["grid-unary"]))
            for sb in SHAPES:
                for cb in SIDES:
                    fb = shape_leaf(rng, sb)
                    P = [leaf_stmt(0, fa, ca), leaf_stmt(1, fb, cb)]
                    r = 2
                    for op in C.BINOPS:
                        P.append(C.bin_(r, op, C.reg(0), C.reg(1))); r += 1
                    P.append(C.mask(r, 0, 1)); r += 1
                    P.append(C.mask(r, 0, 1, inverse=True)); r += 1
                    P.append(C.fillg(r, 0, 1)); r += 1
                    fl = flav(rng, has_nan(fa) or has_nan(fb))
                    cases.append(mk(f"C15/binary/{sa}/{ca}/{sb}/{cb}", P, fl, tags=["grid-binary"]))
                    k += 1
    # collection aggregation: every arrangement of three members (shapes x sides), plus cov / corr / resample / slicing
    trip = [(sa, ca) for sa in ("steps", "const1", "constnan", "steps_nan_left") for ca in SIDES]
    combos = [(x, y, z) for x in trip for y in trip for z in trip]
    for i, (x, y, z) in enumerate(sample_scope(rng, combos, 250 if tier == "quick" else len(combos))):
        P = [leaf_stmt(j, shape_leaf(rng, sh), cl) for j, (sh, cl) in enumerate((x, y, z))]
        P.append(C.agg(3, rng.choice(GFUNCS), [0, 1, 2]))
        P.append(C.agg(4, rng.choice(GFUNCS), [1, 0]))
        P.append(C.query(0, "cov", b=1, lo=F(0), hi=F(4)))
        P.append(C.query(2, "corr", b=0, lo=F(0), hi=F(4)))
        # windows on which the operands are constant (zero variance): a mismatch must still be reported
        P.append(C.query(0, "corr", b=1, lo=F(5), hi=F(9)))
        P.append(C.query(1, "corr", b=2, lo=F(-4), hi=F(0)))
        P.append(C.query(0, "cov", b=2, lo=F(5), hi=F(9)))
        P.append(C.resample(5, 0, "mean", rng.choice(["left", "right"]), [(F(0), F(2)), (F(2), F(4))]))
        # the cov / corr MATRIX of the three: members with steps and opposite sides anywhere in it must be refused, not
        # turned into an undefined entry
        P.append(C.arrcov([0, 1, 2], rng.choice(["cov", "corr"]), F(0), F(4)))
        fl = flav(rng, True)
        fl["coll"] = rng.choice(COLLS)
        cases.append(mk(f"C15/agg/{i}", P, fl, mode="tol", tags=["grid-agg"]))
    # random operands on the same grid of operations (results that are step-free or everywhere undefined included)
    n = 300 if tier == "quick" else 4000
    for i in range(n):
        f, g = rand_leaf(rng, maxn=3), rand_leaf(rng, maxn=3)
        ca, cb = rng.choice(SIDES), rng.choice(SIDES)
        P = [leaf_stmt(0, f, ca), leaf_stmt(1, g, cb)]
        r = 2
        for op in rng.sample([o for o in C.BINOPS if o != "div"], 4):
            P.append(C.bin_(r, op, C.reg(0), C.reg(1))); r += 1
        P += [C.mask(r, 0, 1), C.mask(r + 1, 0, 1, inverse=True), C.fillg(r + 2, 0, 1), C.shift(r + 3, 0, 1), C.clip(r + 4, 1, None, F(2))]
        cases.append(mk(f"C15/rand/{i}", P, flav(rng, has_nan(f) or has_nan(g)), tags=["grid-random"]))
    return cases


# ----------------------------------------------------------------------------- C11 slicing
def rand_intervals(rng, leaf, tiling=False):
    pts = leaf_points(leaf)
    grid = sorted(set(pts + [p + F(1, 4) for p in pts]))
    if tiling:
        k = rng.randint(2, min(5, len(grid)))
        cuts = sorted(rng.sample(grid, k))
        return list(zip(cuts, cuts[1:]))
    out = []
    for _ in range(rng.randint(1, 4)):
        a, b = sorted(rng.sample(grid, 2))
        out.append((a, b))
    if rng.random() < 0.25:      # the same interval more than once: one row each
        out.insert(rng.randrange(len(out) + 1), rng.choice(out))
    if rng.random() < 0.5:
        out.sort()       # sorted by left end: nested / overlapping intervals then count as 'monotonic increasing' for pandas
    return out       # overlapping, gapped, unordered, repeated alike


SSTATS = ["mean", "integral", "median", "mode", "min", "max"]


def median_is_float_safe(leaf, closed, ivs):
    """False when, on some slice, 50% is exactly a cumulative-share boundary while the slice's total length is not a power
    of two: binary64 cannot represent the shares there and rounding - not the property - decides which neighbour the code
    returns (section 3.4 of DESIGN.md)"""
    f = PF(list(leaf[0]), list(leaf[1]), closed)
    for a, b in ivs:
        if not a < b:
            continue
        g = O.restrict(f, a, b)
        if not O.finite_defined(g):
            continue
        t = O.total_len(g)
        if t.numerator & (t.numerator - 1) == 0 and t.denominator & (t.denominator - 1) == 0:
            continue
        cum = F(0)
        for _, ln in O.value_sums(g):
            cum += ln
            if cum * 2 == t:
                return False
    return True


def gen_C11(rng, tier):
    n = 1200 if tier == "quick" else 10000
    small = canonical_leaves([F(0), F(1), F(2)], [None, F(0), F(1), F(2)])
    cases = []
    for k in range(2 * n):
        f = rng.choice(small) if k % 3 == 0 else rand_leaf(rng, maxn=5)
        c = rng.choice(SIDES)
        icl = rng.choice(IVC)
        prog = [leaf_stmt(0, f, c)]
        if rng.random() < 0.4:
            warmup(rng, prog, 0, leaf_points(f), qset=TOL_WARM)
        if k % 2 == 0:
            ivs = rand_intervals(rng, f, tiling=rng.random() < 0.4)
            if rng.random() < 0.3:      # one histogram per slice
                dv = sorted({v for v in f[1] if v is not None}) or [F(0)]
                edges = sorted(set([dv[0] - 1] + dv + [dv[-1] + 1]))
                prog.append(C.slicehist(0, list(range(40, 40 + len(ivs))), ivs, icl, list(zip(edges, edges[1:])), rng.choice(SIDES),
                                        rng.choice(["sum", "probability"])))
            safe = median_is_float_safe(f, c, ivs) and not any(st_["s"] == "layer" for st_ in prog)
            for st in rng.sample(SSTATS, 3):
                if st == "median" and not safe:
                    st = "mode"
                prog.append(C.query(0, "slicer", stat=st, icl=icl, ivs=ivs))
            tag = "stat"
        else:
            ivs = rand_intervals(rng, f, tiling=True)
            st = rng.choice(["mean", "max", "min", "median", "integral"])
            if st == "median" and (not median_is_float_safe(f, c, ivs) or any(st_["s"] == "layer" for st_ in prog)):
                st = "mean"
            prog.append(C.resample(1, 0, st, rng.choice(["left", "right", "neither"]), ivs))
            prog += observe_all(1, leaf_points(f, [a for a, _ in ivs] + [b for _, b in ivs]))
            tag = "resample"
        fl = flav(rng, has_nan(f))
        fl["cuts"] = rng.choice(["index", "breaks"])
        fl["slicecall"] = rng.choice(["direct", "agg", "apply", "applyargs"])
        cases.append(mk(f"C11/{tag}/{k}", prog, fl, mode="tol", tags=[tag]))
    # PeriodIndex slicing on a naive datetime domain: hourly periods (unit intervals at integer points), consecutive or with
    # gaps, in any order
    for k in range(n // 6):
        f = rand_leaf(rng, maxn=5, grid=2, span=6)
        c = rng.choice(SIDES)
        starts = rng.sample(range(-1, 7), rng.randint(1, 4))
        if rng.random() < 0.5:
            starts.sort()
        ivs = [(F(a), F(a + 1)) for a in starts]
        prog = [leaf_stmt(0, f, c)]
        for st in rng.sample(["mean", "integral", "mode", "min", "max"], 3):
            prog.append(C.query(0, "slicer", stat=st, icl=rng.choice(IVC), ivs=ivs))
        fl = flav(rng, has_nan(f))
        fl["dom"] = "dt"
        fl["cuts"] = "period"
        fl["slicecall"] = rng.choice(["direct", "agg", "apply", "applyargs"])
        cases.append(mk(f"C11/period/{k}", prog, fl, mode="tol", tags=["period", "dt"]))
    return cases


# ----------------------------------------------------------------------------- C18 collections
GFUNCS = ["sum", "mean", "median", "min", "max", "logical_or", "logical_and"]
COLLS = ["list", "tuple", "dict", "ndarray", "series", "array", "method", "accessor"]


def gen_C18(rng, tier):
    n = 1500 if tier == "quick" else 12000
    small = canonical_leaves([F(0), F(1), F(2)], [None, F(0), F(1), F(2)])
    cases = []
    for k in range(2 * n):
        m = rng.choice([1, 2, 2, 3, 4, 4, 5])
        base = rng.choice(SIDES)
        leaves, prog = [], []
        for i in range(m):
            lf = rng.choice(small) if k % 2 else rand_leaf(rng, maxn=3, vals=[F(j, 2) for j in range(-4, 5)])
            if rng.random() < 0.15:
                lf = ([], [rng.choice([F(0), F(1), F(3), None])])      # step-free member
            if i > 0 and rng.random() < 0.1:
                lf = leaves[0]                                         # duplicates
            leaves.append(lf)
            prog.append(leaf_stmt(i, lf, base if rng.random() < 0.93 else rng.choice(SIDES)))
        g = rng.choice(GFUNCS)
        prog.append(C.agg(m, g, list(range(m))))
        allpts = sorted(set().union(*[set(l[0]) for l in leaves]))
        prog += observe_all(m, leaf_points((allpts, None)))
        if g == "sum" and m >= 2:      # sum equals folding +
            acc = 0
            r = m + 1
            for i in range(1, m):
                prog.append(C.bin_(r, "add", C.reg(acc), C.reg(i)))
                acc = r
                r += 1
            prog.append(C.query(m, "identical", a=C.reg(acc)))
        if rng.random() < 0.25:         # the same collection is aggregated again after a member gained step points
            i = rng.randrange(m)
            top = (allpts[-1] if allpts else F(0)) + 1
            prog.append(C.layer_s(i, top, top + rng.choice([F(1), F(2)]), rng.choice([F(1), F(2)])))
            prog.append(C.agg(80, g if rng.random() < 0.6 else rng.choice(GFUNCS), list(range(m))))
            prog += observe_all(80, leaf_points((allpts + [top, top + 1, top + 2], None)))
        fl = flav(rng, any(has_nan(l) for l in leaves))
        fl["coll"] = rng.choice(COLLS)
        exact = (g not in ("mean",) or m in (1, 2, 4)) and not any(st.get("g") == "mean" and m not in (1, 2, 4) for st in prog if st["s"] == "agg")
        extra_kind = rng.choice(["none", "arrbin_arr", "arrbin_one", "arrbin_const", "table", "cov"])
        nxt = 3 * m + 5
        allp = leaf_points((allpts, None))
        if extra_kind == "arrbin_arr" and m >= 1:
            perm = list(range(m))
            rng.shuffle(perm)
            prog.append(C.arrbin(list(range(nxt, nxt + m)), rng.choice(["add", "sub", "mul", "lt", "ge", "eq", "ne"]), list(range(m)), {"regs": perm}))
        elif extra_kind == "arrbin_one":
            prog.append(C.arrbin(list(range(nxt, nxt + m)), rng.choice(["add", "sub", "mul", "gt", "le"]), list(range(m)), {"reg": rng.randrange(m)}))
        elif extra_kind == "arrbin_const":
            prog.append(C.arrbin(list(range(nxt, nxt + m)), rng.choice(["add", "sub", "mul", "div", "lt", "ge"]), list(range(m)),
                                 {"const": rng.choice([F(0), F(1), F(2), F(-1), F(1, 2)])}))
        elif extra_kind == "table":
            prog.append(C.arrtable(list(range(m)), rng.choice(["sample", "limit"]), allp, rng.choice(["left", "right"])))
        elif extra_kind == "cov" and m >= 2:
            prog.append(C.arrcov(list(range(m)), rng.choice(["cov", "corr"]), allp[0], allp[-1]))
            exact = False
        cases.append(mk(f"C18/{g}/{k}", prog, fl, mode="exact" if exact else "tol", tags=[g, extra_kind]))
    return cases


# ----------------------------------------------------------------------------- C19 cov / corr
def gen_C19(rng, tier):
    n = 1500 if tier == "quick" else 12000
    cases = []
    for k in range(2 * n):
        # values of order one; or (k % 10 == 3) a large offset with unit spread - mean(f*g) - mean(f)*mean(g) would cancel
        # catastrophically there -; or (k % 10 == 7) tiny values, where cov and the variances are far below any absolute epsilon
        off, scale = (F(2) ** 27, F(1)) if k % 10 == 3 else ((F(0), F(1, 2 ** 20)) if k % 10 == 7 else (F(0), F(1)))
        vals_ = [off + scale * F(j, 2) for j in range(-4, 5)]
        f, g = rand_leaf(rng, maxn=4, vals=vals_), rand_leaf(rng, maxn=4, vals=vals_)
        if off:      # every value near the offset (also the ones towards -inf / +inf): a function that is 0 here and 2^27 there has
            # a covariance of order 10^7 made of terms of order 10^16 - ill-conditioned in binary64 whatever the formula
            f = (f[0], [None if v is None else (v if v >= off / 2 else off + v) for v in f[1]])
            g = (g[0], [None if v is None else (v if v >= off / 2 else off + v) for v in g[1]])
        c = rng.choice(SIDES)
        pts = leaf_points(f, g[0])
        lo = rng.choice(pts)
        hi = rng.choice([p for p in pts if p > lo] + [pts[-1] + 2])
        if rng.random() < 0.1 and not off:
            # (unbounded window: outside the property's quantifier; the three means are then taken over different ranges - the
            # finite pieces of each function -, so with a large offset the rounding of one mean no longer cancels)
            lo, hi = None, None
        prog = [leaf_stmt(0, f, c), leaf_stmt(1, g, c if rng.random() < 0.92 else rng.choice(SIDES))]
        lag = rng.choice([F(0), F(0), F(1), F(-1), F(1, 2)])
        clip = rng.choice(["pre", "post"])
        kind = rng.choice(["cov", "corr"])
        prog.append(C.query(0, kind, b=1, lo=lo, hi=hi, lag=lag, clip=clip))
        prog.append(C.query(1, kind, b=0, lo=lo, hi=hi))          # symmetry partner (no lag)
        prog.append(C.query(0, kind, b=1, lo=lo, hi=hi))
        prog.append(C.query(0, "cov", b=0, lo=lo, hi=hi))          # cov(f, f) = var(f)
        prog.append(C.query(0, "agg", name="var", lo=lo, hi=hi))
        if lag != 0:                                                # lag equivalent to shifting g by -lag
            prog.append(C.shift(2, 1, -lag))
            hi2 = hi - lag if (clip == "pre" and hi is not None) else hi
            if lo is None or hi2 is None or lo < hi2:
                prog.append(C.query(0, kind, b=2, lo=lo, hi=hi2))
        cases.append(mk(f"C19/{kind}/{k}", prog, flav(rng, has_nan(f) or has_nan(g)), mode="tol",
                        tags=[kind] + (["big-offset", "nolift"] if off else []) + (["tiny", "nolift"] if scale != 1 else [])))      # (on datetime domains value x length is a Timedelta: whole nanoseconds)
    return cases


# ----------------------------------------------------------------------------- C20 shift / diff / rolling_mean
def gen_C20(rng, tier):
    n = 1200 if tier == "quick" else 10000
    small = canonical_leaves(SMALL_PTS, SMALL_VALS)
    cases = []
    for k in range(3 * n):
        f = rng.choice(small) if k % 2 else rand_leaf(rng)
        c = rng.choice(SIDES)
        prog = [leaf_stmt(0, f, c)]
        kind = k % 3
        if kind == 0:
            d = rng.choice([F(0), F(1), F(-1), F(1, 2), F(-5, 2), F(3)])
            prog.append(C.shift(1, 0, d))
            prog += observe_all(1, leaf_points(f, [p + d for p in f[0]]))
            if f[0] and rng.random() < 0.35:     # an exact translation shares nothing with the operand: layer either in place
                tgt = rng.choice([0, 1])
                pts_t = [p + (d if tgt == 1 else 0) for p in f[0]]
                a = rng.choice(pts_t)
                prog.append(C.layer_s(tgt, a, rng.choice(pts_t + [None]), rng.choice([F(1), F(-2)])))
                prog += observe_all(1 - tgt, leaf_points(f, [p + d for p in f[0]])) + [C.read(0, "deltas"), C.read(1, "deltas")]
                if rng.random() < 0.5:
                    prog += [C.diff(5, 0, F(1)), C.query(0, "rolling", l=F(-1), rr=F(1), lo=f[0][0], hi=f[0][-1] + 2)]
            tag = "shift"
        elif kind == 1:
            d = rng.choice([F(1), F(-1), F(1, 2), F(2), F(0)])
            prog.append(C.diff(1, 0, d))
            prog += [C.shift(2, 0, d), C.bin_(3, "sub", C.reg(0), C.reg(2)), C.query(1, "identical", a=C.reg(3))]
            prog += observe_all(1, leaf_points(f, [p + d for p in f[0]]))
            tag = "diff"
        else:
            l, r = rng.choice([(F(-1), F(0)), (F(0), F(1)), (F(-1, 2), F(1, 2)), (F(-2), F(1)), (F(-1), F(-1, 2)), (F(1, 2), F(2))])
            pts = leaf_points(f)
            lo = rng.choice([None] + pts)
            hi = rng.choice([None] + [p for p in pts if lo is None or p > lo])
            prog.append(C.query(0, "rolling", l=l, rr=r, lo=lo, hi=hi))
            tag = "rolling"
        tol = tag == "rolling" or any(st.get("q") == "rolling" for st in prog)
        cases.append(mk(f"C20/{tag}/{k}", prog, flav(rng, has_nan(f)), mode="tol" if tol else "exact", tags=[tag]))
    # window offsets that are not binary fractions (0.1, 0.3, 0.7): the sample points x - l, x - r and the trimming bounds
    # lower - l, upper - r are then rounded numbers. Integer step points and bounds, and r - l not an integer, so that two
    # sample points never coincide except as the same expression (no row can appear or vanish through rounding alone).
    decs = [F(-7, 10), F(-3, 10), F(-1, 10), F(0), F(1, 10), F(3, 10), F(7, 10), F(6, 5)]
    # The functions are defined everywhere: where the defined part of a window vanishes the window mean is not continuous
    # in the window's edges, and a rounded edge may legitimately see a sliver of the neighbouring piece.
    for k in range(n // 3):
        f = rand_leaf(rng, maxn=4, nan=0, grid=1, span=7, vals=[F(j, 2) for j in range(-2, 5)])
        while not f[0]:
            f = rand_leaf(rng, maxn=4, nan=0, grid=1, span=7, vals=[F(j, 2) for j in range(-2, 5)])
        c = rng.choice(SIDES)
        l, r = sorted(rng.sample(decs, 2))
        while (r - l).denominator == 1:
            l, r = sorted(rng.sample(decs, 2))
        pts = sorted(set(f[0]) | {f[0][0] - 1, f[0][-1] + 1})
        lo = rng.choice([None] + pts)
        hi = rng.choice([None] + [p for p in pts if lo is None or p > lo])
        prog = [leaf_stmt(0, f, c), C.query(0, "rolling", l=l, rr=r, lo=lo, hi=hi)]
        cases.append(mk(f"C20/rolling-dec/{k}", prog, flav(rng, has_nan(f)), mode="tol", tags=["rolling-dec", "nolift"]))
    return cases


# ----------------------------------------------------------------------------- C17 domains
DOMS = ["int", "float", "dt", "tz", "dst", "utc", "td", "dts"]


def int_leaf(rng, nan=0.3):
    lf = rand_leaf(rng, maxn=4, nan=nan, grid=1, span=8, vals=[F(j, 2) for j in range(-4, 5)])
    return lf


def gen_C17(rng, tier):
    """programs over C01-C11, C18-C20 operations with integer step points, replayed in every domain type"""
    n = 110 if tier == "quick" else 1000
    cases = []
    for k in range(n):
        f, g = int_leaf(rng), int_leaf(rng)
        c = rng.choice(SIDES)
        pts = leaf_points(f, g[0])
        ipts = [p for p in pts if p.denominator == 1]
        lo = rng.choice(ipts)
        hi = rng.choice([p for p in ipts if p > lo] + [ipts[-1] + 2])
        P = [leaf_stmt(0, f, c), leaf_stmt(1, g, c)]
        r = 2
        for op in rng.sample(["add", "sub", "mul", "lt", "ge", "eq", "and", "or"], 3):
            P.append(C.bin_(r, op, C.reg(0), C.reg(1))); r += 1
        # bounds and query points between the (integer) step points as well
        hlo = lo + rng.choice([F(0), F(1, 2), F(-1, 2)])
        hhi = hi + rng.choice([F(0), F(1, 2)])
        P += [C.clip(r, 0, hlo, hhi), C.maskt(r + 1, 0, hlo, hhi, inverse=rng.random() < 0.5), C.query(0, "agg", name="mean", lo=hlo, hi=hhi),
              C.query(0, "limit", side=rng.choice(["left", "right"]), xs=[p + F(1, 2) for p in ipts]),
              C.query(r, "points"), C.query(r, "integral")]
        r += 2
        P += [C.clip(r, 0, lo, hi), C.maskt(r + 1, 0, lo, hi), C.mask(r + 2, 0, 1), C.fillg(r + 3, 0, 1), C.un(r + 4, "ffill", 0),
              C.shift(r + 5, 0, rng.choice([F(1), F(-2)])), C.diff(r + 6, 0, F(1)), C.agg(r + 7, rng.choice(["sum", "max", "logical_or"]), [0, 1])]
        r += 8
        P.append(C.un(r, "copy", 0))
        P.append(rand_layer_call(rng, r, pts=[None] + ipts))
        P += [C.query(0, "limit", side="left", xs=ipts), C.query(0, "limit", side="right", xs=ipts), C.query(0, "sample", xs=ipts),
              C.query(0, "points"), C.read(0, "values"), C.read(0, "deltas"),
              C.query(0, "integral"), C.query(0, "mean"), C.query(0, "value_sums"), C.query(0, "agg", name="mean", lo=lo, hi=hi),
              C.query(0, "vir", lo=lo, hi=hi, closed=rng.choice(IVC)), C.query(0, "max", lo=lo, hi=hi, closed=rng.choice(IVC)),
              C.query(0, "slicer", stat=rng.choice(["mean", "max", "integral"]), icl=rng.choice(IVC), ivs=[(lo, hi), (lo, hi + 1)]),
              C.query(0, "cov", b=1, lo=lo, hi=hi + 1), C.query(0, "rolling", l=F(-1), rr=F(1), lo=lo, hi=hi + 2)]
        base_fl = flav(rng, has_nan(f) or has_nan(g))
        for dom in DOMS:
            fl = dict(base_fl)
            fl["dom"] = dom
            cases.append(mk(f"C17/{k}/{dom}", P, fl, mode="tol", tags=[dom]))
    # values so large that value x length overflows a Timedelta on the datetime-like domains: the mean (computed by the
    # fall-back path there) must still be the one of the numeric domains; the integral is not queried (it raises
    # OverflowError on those domains by design)
    for k in range(max(4, n // 5)):
        big = F(2 ** rng.choice([34, 36, 40, 60, 60]))      # 2^60 x a length of a few units exceeds int64
        pts = sorted(rng.sample([F(j) for j in range(0, 12)], rng.randint(3, 5)))
        gaps = k % 2 == 0         # with undefined gaps (float values), or everywhere defined (values may be integer-typed)
        if not gaps:
            big = F(2 ** 60)
        vals = ([rng.choice([F(0), None] if gaps else [F(0), big])]      # (everything a multiple of `big`: exact in binary64)
                + [rng.choice([big, 2 * big, 3 * big, None, F(0)] if gaps else [big, 2 * big, 3 * big, F(0)]) for _ in pts[:-1]] + [F(0)])
        vals = [v for i, v in enumerate(vals) if i == 0 or True]
        for i in range(1, len(vals)):          # keep the table minimal
            if vals[i] == vals[i - 1]:
                vals[i] = big if vals[i] != big else 2 * big
        if all(v is None or v == 0 for v in vals[1:-1]):
            vals[1] = big
        f = (pts, vals)
        c = rng.choice(SIDES)
        P = [leaf_stmt(0, f, c), C.query(0, "mean"), C.query(0, "agg", name="mean", lo=pts[0], hi=pts[-1]),
             C.query(0, "slicer", stat="mean", icl="left", ivs=[(pts[0], pts[-1])]), C.query(0, "value_sums"),
             C.query(0, "max"), C.query(0, "sample", xs=pts)]
        base_fl = flav(rng, has_nan(f))
        if not gaps:      # integer-typed values and labels: products beyond int64
            base_fl["route"], base_fl["valdtype"] = "from_values", "int"
        for dom in DOMS:
            fl = dict(base_fl)
            fl["dom"] = dom
            cases.append(mk(f"C17/big/{k}/{dom}", P, fl, mode="tol", tags=[dom, "big"]))
    return cases


GENS = {"C11": gen_C11, "C17": gen_C17, "C18": gen_C18, "C19": gen_C19, "C20": gen_C20, "C12": gen_C12, "C13": gen_C13, "C14": gen_C14, "C15": gen_C15, "C16": gen_C16, "C08": gen_C08, "C09": gen_C09, "C10": gen_C10, "C01": gen_C01, "C02": gen_C02, "C03": gen_C03, "C04": gen_C04, "C05": gen_C05, "C06": gen_C06, "C07": gen_C07}
