"""Independent Python-side statement of the properties: a piece-table semantics in exact rationals
(fractions.Fraction) giving, for each statement of a program, the observation the properties
prescribe. It shares no code with the Coq model or with staircase. It is used (a) to turn a
model/implementation disagreement into a concrete failing input for the VIOLATION line, and (b) as a
second detector on every case. `None` means: the properties do not prescribe this observation."""
from fractions import Fraction as F

LEFT, RIGHT = "left", "right"


class PF:
    """piece function: vals[0] on (-inf, pts[0]), vals[i+1] on [pts[i], pts[i+1]) (the closed side only
    decides the value exactly at a step point)"""

    def __init__(self, pts, vals, closed):
        self.pts = list(pts)
        self.vals = list(vals)
        self.closed = closed
        assert len(self.vals) == len(self.pts) + 1

    def canon(self):
        pts, vals = [], [self.vals[0]]
        for p, v in zip(self.pts, self.vals[1:]):
            if v != vals[-1]:
                pts.append(p)
                vals.append(v)
        return PF(pts, vals, self.closed)

    def has_steps(self):
        return bool(self.canon().pts)

    def piece_at(self, i, pts):
        """value of self on the i-th piece of the partition pts (piece 0 is before pts[0])"""
        if i == 0:
            return self.vals[0]
        lb = pts[i - 1]
        k = sum(1 for p in self.pts if p <= lb)
        return self.vals[k]

    def rlim(self, x):
        return self.vals[sum(1 for p in self.pts if p <= x)]

    def llim(self, x):
        return self.vals[sum(1 for p in self.pts if p < x)]

    def at(self, x):
        return self.rlim(x) if self.closed == LEFT else self.llim(x)

    def pieces(self):
        """finite pieces (start, end, value)"""
        return [(self.pts[i], self.pts[i + 1], self.vals[i + 1]) for i in range(len(self.pts) - 1)]

    def obs(self):
        c = self.canon()
        return {"t": "frame", "closed": c.closed, "init": c.vals[0], "rows": list(zip(c.pts, c.vals[1:]))}


def merge(a, b, op, closed):
    pts = sorted(set(a.pts) | set(b.pts))
    vals = [op(a.piece_at(i, pts), b.piece_at(i, pts)) for i in range(len(pts) + 1)]
    return PF(pts, vals, closed).canon()


def pw(a, fn, closed=None):
    return PF(a.pts, [fn(v) for v in a.vals], closed or a.closed).canon()


def lift(f):
    return lambda x, y: None if x is None or y is None else f(x, y)


def _div(x, y):
    return None if x is None or y is None or y == 0 else x / y


def _b(t):
    return F(1) if t else F(0)


OPS = {
    "add": lift(lambda x, y: x + y), "sub": lift(lambda x, y: x - y), "mul": lift(lambda x, y: x * y), "div": _div,
    "lt": lift(lambda x, y: _b(x < y)), "le": lift(lambda x, y: _b(x <= y)), "gt": lift(lambda x, y: _b(x > y)),
    "ge": lift(lambda x, y: _b(x >= y)), "eq": lift(lambda x, y: _b(x == y)), "ne": lift(lambda x, y: _b(x != y)),
    "and": lift(lambda x, y: _b(x != 0 and y != 0)), "or": lift(lambda x, y: _b(x != 0 or y != 0)),
    "xor": lift(lambda x, y: _b((x != 0) != (y != 0))),
}
UN = {
    "neg": lambda v: None if v is None else -v,
    "invert": lambda v: None if v is None else _b(v == 0),
    "make_boolean": lambda v: None if v is None else _b(v != 0),
    "isna": lambda v: _b(v is None),
    "notna": lambda v: _b(v is not None),
    "copy": lambda v: v,
}


class Mismatch(Exception):
    pass


def side_of(f, g):
    """C15: the closed side of the operand(s) that have steps, the receiver's when none has; opposite sides
    on two operands that both have steps is an error"""
    fs, gs = f.has_steps(), g.has_steps()
    if fs and gs and f.closed != g.closed:
        raise Mismatch()
    if fs:
        return f.closed
    if gs:
        return g.closed
    return f.closed


def restrict(f, lo, hi):
    pts = sorted(set(f.pts) | ({lo} if lo is not None else set()) | ({hi} if hi is not None else set()))
    vals = []
    for i in range(len(pts) + 1):
        a = pts[i - 1] if i > 0 else None      # piece is [a, b)
        b = pts[i] if i < len(pts) else None
        inside = (lo is None or (a is not None and a >= lo)) and (hi is None or (b is not None and b <= hi))
        vals.append(f.piece_at(i, pts) if inside else None)
    return PF(pts, vals, f.closed).canon()


def indicator(lo, hi, v, closed):
    """v on [lo, hi) (None = unbounded); reversed interval: -v on [hi, lo); empty: zero"""
    if lo is not None and hi is not None:
        if lo == hi:
            return PF([], [F(0)], closed)
        if lo < hi:
            return PF([lo, hi], [F(0), v, F(0)], closed)
        return PF([hi, lo], [F(0), -v, F(0)], closed)
    if lo is None and hi is None:
        return PF([], [v], closed)
    if lo is None:
        return PF([hi], [v, F(0)], closed)
    return PF([lo], [F(0), v], closed)


def ffill(f):
    vals, last = [], None
    for v in f.vals:
        if v is not None:
            last = v
        vals.append(v if v is not None else last)
    return PF(f.pts, vals, f.closed).canon()


def bfill(f):
    vals, nxt = [], None
    for v in reversed(f.vals):
        if v is not None:
            nxt = v
        vals.append(v if v is not None else nxt)
    return PF(f.pts, list(reversed(vals)), f.closed).canon()


# ----------------------------------------------------------------------------- statistics by definition
def finite_defined(f):
    return [(a, b, v) for a, b, v in f.pieces() if v is not None]


def value_sums(f):
    d = {}
    for a, b, v in finite_defined(f):
        d[v] = d.get(v, F(0)) + (b - a)
    return sorted(d.items())


def total_len(f):
    return sum((b - a for a, b, _ in finite_defined(f)), F(0))


def integral(f):
    return sum(((b - a) * v for a, b, v in finite_defined(f)), F(0))


def mean(f):
    t = total_len(f)
    return None if t == 0 else integral(f) / t


def var(f):
    m, t = mean(f), total_len(f)
    return None if m is None else sum(((b - a) * (v - m) ** 2 for a, b, v in finite_defined(f)), F(0)) / t


def ecdf(f, y, strict):
    t = total_len(f)
    return sum((ln for v, ln in value_sums(f) if (v < y if strict else v <= y)), F(0)) / t


def quantile_mid(f, p):
    """midpoint of the lower and upper p-quantile (p in [0, 1]) of the value distribution"""
    vs, t = value_sums(f), total_len(f)
    cum, lo, hi = F(0), None, None
    # lower quantile: least v with share(<= v) >= p ; upper quantile: least v with share(<= v) > p (max at p = 1)
    for v, ln in vs:
        cum += ln
        if lo is None and cum / t >= p and (p > 0 or True):
            lo = v
        if hi is None and cum / t > p:
            hi = v
    if p == 0:
        lo = vs[0][0]
    if hi is None:
        hi = vs[-1][0]
    return (lo + hi) / 2


def mode_set(f):
    vs = value_sums(f)
    m = max(ln for _, ln in vs)
    return [v for v, ln in vs if ln == m]


def in_interval(x, lo, hi, incl_l, incl_r):
    if lo is not None and (x < lo or (x == lo and not incl_l)):
        return False
    if hi is not None and (x > hi or (x == hi and not incl_r)):
        return False
    return True


def values_in_range(f, lo, hi, closed):
    """the set of values f takes at defined points of the interval (endpoint closedness `closed`)"""
    incl_l = closed in ("left", "both")
    incl_r = closed in ("right", "both")
    c = f.canon()
    cand = set(c.pts)
    for x in (lo, hi):
        if x is not None:
            cand.add(x)
    pts = sorted(cand)
    probes = list(pts)
    for a, b in zip(pts, pts[1:]):
        probes.append((a + b) / 2)
    if pts:
        probes += [pts[0] - 1, pts[-1] + 1]
    else:
        probes += [F(0)]
    out = set()
    for x in probes:
        if in_interval(x, lo, hi, incl_l, incl_r):
            v = c.at(x)
            if v is not None:
                out.add(v)
    # degenerate interval with both endpoints excluded / open pieces between probes are covered by midpoints
    return sorted(out)


class _Any:
    def __repr__(self):
        return "ANY"


ANY = _Any()      # an element on which the properties are silent


def slice_stat(f, stat, a, b, icl):
    g = restrict(f, a, b)
    has = bool(finite_defined(g))
    if stat == "mean":
        return mean(g) if has else ANY
    if stat == "integral":
        return integral(g) if has else ANY
    if stat == "median":
        return quantile_mid(g, F(1, 2)) if has else ANY
    if stat == "mode":
        return ("oneof", mode_set(g)) if has else ANY
    vals = values_in_range(f, a, b, icl)
    if not vals:
        return None
    return min(vals) if stat == "min" else max(vals)


def reduce_vals(g, col):
    if any(v is None for v in col):
        return None
    if g == "sum":
        return sum(col, F(0))
    if g == "mean":
        return sum(col, F(0)) / len(col)
    if g == "min":
        return min(col)
    if g == "max":
        return max(col)
    if g == "median":
        sv = sorted(col)
        n = len(sv)
        return sv[n // 2] if n % 2 else (sv[n // 2 - 1] + sv[n // 2]) / 2
    if g == "logical_or":
        return _b(any(v != 0 for v in col))
    if g == "logical_and":
        return _b(all(v != 0 for v in col))
    raise ValueError(g)


# ----------------------------------------------------------------------------- program semantics
class Oracle:
    def __init__(self):
        self.regs = {}

    def arg(self, a, other_closed=LEFT):
        if "reg" in a:
            return self.regs[a["reg"]], True
        return PF([], [a["const"]], other_closed), False

    def step(self, s):
        k = s["s"]
        R = self.regs
        try:
            r = self._step(s)
        except Mismatch:
            return {"t": "err", "e": "closed"}
        except KeyError:
            return None
        if isinstance(r, PF):
            R[s["r"]] = r.canon()
            return r.obs()
        return r

    def _step(self, s):
        k = s["s"]
        R = self.regs
        if k == "new":
            return PF([], [s["init"]], s["closed"])
        if k == "from_values":
            ks = [p for p, _ in s["rows"]]
            if any(not (a < b) for a, b in zip(ks, ks[1:])):       # the index must be strictly increasing
                return {"t": "err", "e": "value"}
            return PF([p for p, _ in s["rows"]], [s["init"]] + [v for _, v in s["rows"]], s["closed"])
        if k == "layer":
            f = R[s["r"]]
            ts = [(s["start"], s["end"], F(1) if s["value"] is None else s["value"])] if s["mode"] == "scalar" else s["triples"]
            for a, b, v in ts:
                g = indicator(a, b, v, f.closed)
                f = merge(f, g, OPS["add"], f.closed)
            return f
        if k == "read":
            f = R[s["r"]]
            if s["kind"] == "frame":
                return f.obs()
            if s["kind"] == "values":
                return {"t": "ser", "rows": list(zip(f.pts, f.vals[1:]))}
            # step changes: only prescribed for an everywhere-defined function
            if any(v is None for v in f.vals):
                return None
            return {"t": "ser", "rows": [(p, f.vals[i + 1] - f.vals[i]) for i, p in enumerate(f.pts)]}
        if k == "un":
            f = R[s["a"]]
            if s["op"] == "ffill":
                return ffill(f)
            if s["op"] == "bfill":
                return bfill(f)
            return pw(f, UN[s["op"]])
        if k == "bin":
            if "reg" in s["a"]:
                f = R[s["a"]["reg"]]
                g, _ = self.arg(s["b"], f.closed)
            else:
                g = R[s["b"]["reg"]]
                f = PF([], [s["a"]["const"]], g.closed)
            return merge(f, g, OPS[s["op"]], side_of(f, g))
        if k == "clip":
            lo, hi = s["lo"], s["hi"]
            if lo is not None and hi is not None and not lo < hi:
                return {"t": "err", "e": "value"}
            return restrict(R[s["a"]], lo, hi)
        if k == "mask":
            f, g = R[s["a"]], R[s["m"]]
            if s["inverse"]:
                op = lambda x, y: None if (y is None or y == 0) else x
            else:
                op = lambda x, y: None if (y is None or y != 0) else x
            return merge(f, g, op, side_of(f, g))
        if k == "maskt":
            f = R[s["a"]]
            lo, hi = s["lo"], s["hi"]
            if s["inverse"]:
                if lo is not None and hi is not None and not lo < hi:
                    return None
                return restrict(f, lo, hi)
            if lo is not None and hi is not None and not lo < hi:
                return None
            g = indicator(lo, hi, F(1), f.closed)
            return merge(f, g, lambda x, y: None if (y is None or y != 0) else x, f.closed)
        if k == "fills":
            c = s["c"]
            return pw(R[s["a"]], lambda v: c if v is None else v)
        if k == "fillg":
            f, g = R[s["a"]], R[s["g"]]
            return merge(f, g, lambda x, y: y if x is None else x, side_of(f, g))
        if k == "shift":
            f = R[s["a"]]
            return PF([p + s["d"] for p in f.pts], f.vals, f.closed)
        if k == "diff":
            f = R[s["a"]]
            g = PF([p + s["d"] for p in f.pts], f.vals, f.closed)
            return merge(f, g, OPS["sub"], f.closed)
        if k == "resample":
            f = R[s["a"]]
            ivs, icl = s["ivs"], s["icl"]
            for (a, b), (c, d) in zip(ivs, ivs[1:]):
                if b > c or (icl == "both" and b == c) or not a < b or not c < d:
                    return None
            if any(b != c for (_, b), (c, _) in zip(ivs, ivs[1:])):
                return None          # the property speaks about slices that tile their span
            vals = []
            for a, b in ivs:
                v = slice_stat(f, s["stat"], a, b, icl)
                if isinstance(v, tuple):
                    if len(v[1]) != 1:
                        return None
                    v = v[1][0]
                if v is ANY:
                    return None      # the statistic of this slice is outside its precondition
                vals.append(v)
            g = PF([a for a, _ in ivs] + [ivs[-1][1]], [None] + vals + [None], f.closed)
            lb, rb = ivs[0][0], ivs[-1][1]
            pts = sorted(set(f.pts) | set(g.pts))
            out = []
            for i in range(len(pts) + 1):
                left = pts[i - 1] if i > 0 else None
                inside = left is not None and lb <= left < rb
                out.append(g.piece_at(i, pts) if inside else f.piece_at(i, pts))
            return PF(pts, out, f.closed)
        if k == "agg":
            ms = [R[m] for m in s["ms"]]
            withsteps = [m for m in ms if m.has_steps()]
            if any(m.closed != withsteps[0].closed for m in withsteps):
                raise Mismatch()
            closed = withsteps[0].closed if withsteps else ms[0].closed
            pts = sorted(set().union(*[set(m.pts) for m in ms]))
            vals = [reduce_vals(s["g"], [m.piece_at(i, pts) for m in ms]) for i in range(len(pts) + 1)]
            return PF(pts, vals, closed)
        if k == "query":
            return self.query(s)
        return None

    def query(self, s):
        f = self.regs[s["r"]]
        q = s["q"]
        if q == "slicer":
            out = [slice_stat(f, s["stat"], a, b, s["icl"]) for a, b in s["ivs"]]
            if any(not a < b for a, b in s["ivs"]):
                return None
            if s["stat"] in ("median", "mode") and any(v is ANY for v in out):
                return None          # the code raises for a slice without a finite defined piece
            return {"t": "vals", "vals": out}
        if q in ("cov", "corr"):
            g = self.regs[s["b"]]
            lo, hi, lag = s.get("lo"), s.get("hi"), s.get("lag", F(0))
            if f.has_steps() and g.has_steps() and f.closed != g.closed:
                return {"t": "err", "e": "closed"}
            if lag != 0:
                g = PF([p - lag for p in g.pts], g.vals, g.closed)
                if s.get("clip", "pre") == "pre" and hi is not None:
                    hi = hi - lag
            if lo is None or hi is None or not lo < hi:
                return None          # the property speaks about finite windows
            both = merge(f, g, lambda x, y: None if x is None or y is None else F(1), f.closed)
            f2 = restrict(merge(f, both, lambda x, y: x if y is not None else None, f.closed), lo, hi)
            g2 = restrict(merge(g, both, lambda x, y: x if y is not None else None, f.closed), lo, hi)
            fg = merge(f2, g2, OPS["mul"], f.closed)
            if not finite_defined(fg):
                return None
            c = mean(fg) - mean(f2) * mean(g2)
            if q == "cov":
                return {"t": "val", "val": c}
            vf, vg = var(f2), var(g2)
            if vf * vg == 0:
                return {"t": "val", "val": None}
            return {"t": "val", "val": c * abs(c) / (vf * vg)}
        if q == "rolling":
            lo, hi, l, r = s.get("lo"), s.get("hi"), s["l"], s["rr"]
            if not l < r:
                return None
            cl = restrict(f, lo, hi)
            if not cl.pts:
                return None
            knots = sorted({p - l for p in cl.pts} | {p - r for p in cl.pts})
            if lo is not None:
                knots = [k for k in knots if k >= lo - l]
            if hi is not None:
                knots = [k for k in knots if k <= hi - r]
            return {"t": "rows", "rows": [(k, mean(restrict(cl, k + l, k + r))) for k in knots]}
        if q == "describe":
            lo, hi = s.get("lo"), s.get("hi")
            if lo is not None and hi is not None and not lo < hi:
                return None
            g = restrict(f, lo, hi)
            if not finite_defined(g):
                return None
            allv = sorted(v for v in g.canon().vals if v is not None)
            # min / max: the values the restricted function takes (its unbounded pieces included)
            return {"t": "vals", "vals": [F(len(value_sums(g))), mean(g), var(g), allv[0]] +
                    [quantile_mid(g, p / 100) for p in s["ps"]] + [allv[-1]]}
        if q == "limit":
            return {"t": "vals", "vals": [f.rlim(x) if s["side"] == "right" else f.llim(x) for x in s["xs"]]}
        if q == "sample":
            return {"t": "vals", "vals": [f.at(x) for x in s["xs"]]}
        if q == "identical":
            g, isreg = self.arg(s["a"], f.closed)
            if isreg and f.has_steps() and g.has_steps() and f.closed != g.closed:
                return None
            a, b = f.canon(), g.canon()
            return {"t": "bool", "b": a.pts == b.pts and a.vals == b.vals}
        if q == "bool":
            c = f.canon()
            return {"t": "bool", "b": (not c.pts) and c.vals[0] == 1}
        if q == "nsteps":
            return {"t": "nat", "n": len(f.canon().pts)}
        if q == "points":
            return {"t": "keys", "keys": f.canon().pts}
        if q == "closed":
            return {"t": "bool", "b": f.closed == LEFT}
        has = bool(finite_defined(f))
        if q == "integral":
            return {"t": "val", "val": integral(f)} if has else None
        if q == "mean":
            return {"t": "val", "val": mean(f)} if has else None
        if q == "var":
            return {"t": "val", "val": var(f)} if has else None
        if q == "value_sums":
            return {"t": "qser", "rows": value_sums(f)} if has else None
        if q == "median":
            return {"t": "val", "val": quantile_mid(f, F(1, 2))} if has else None
        if q == "mode":
            return {"t": "oneof", "vals": mode_set(f)} if has else None
        if q == "ecdf":
            return {"t": "vals", "vals": [ecdf(f, y, s["side"] == "left") for y in s["ys"]]} if has else None
        if q == "percentile":
            ok = has and all(0 <= p <= 100 for p in s["ps"])
            return {"t": "vals", "vals": [quantile_mid(f, p / 100) for p in s["ps"]]} if ok else None
        if q == "fractile":
            ok = has and all(0 <= p <= 1 for p in s["ps"])
            return {"t": "vals", "vals": [quantile_mid(f, p) for p in s["ps"]]} if ok else None
        if q == "hist":
            if not has:
                return None
            vs, t = value_sums(f), total_len(f)
            out = []
            for a, b in s["bins"]:
                if s["closed"] == "left":
                    out.append(sum((ln for v, ln in vs if a <= v < b), F(0)))
                else:
                    out.append(sum((ln for v, ln in vs if a < v <= b), F(0)))
            st = s["stat"]
            if st == "probability":
                out = [x / t for x in out]
            elif st == "frequency":
                out = [x / (b - a) for x, (a, b) in zip(out, s["bins"])]
            elif st == "density":
                dot = sum((x * (b - a) for x, (a, b) in zip(out, s["bins"])), F(0))
                out = [None if dot == 0 else x / dot for x in out]
            return {"t": "vals", "vals": out}
        if q in ("vir", "min", "max") or (q == "agg" and s["name"] in ("min", "max")):
            lo, hi = s.get("lo"), s.get("hi")
            if lo is not None and hi is not None and lo >= hi:
                return None      # not a window (the code requires lower < upper)
            cl = s.get("closed") or f.closed
            vals = values_in_range(f, lo, hi, cl)
            if q == "vir":
                return {"t": "keys", "keys": vals}
            name = q if q != "agg" else s["name"]
            if not vals:
                return {"t": "val", "val": None}
            return {"t": "val", "val": min(vals) if name == "min" else max(vals)}
        if q == "agg":
            lo, hi = s.get("lo"), s.get("hi")
            if lo is not None and hi is not None and not lo < hi:
                return None
            g = restrict(f, lo, hi)
            if not finite_defined(g):
                return None
            name = s["name"]
            if name == "integral":
                return {"t": "val", "val": integral(g)}
            if name == "mean":
                return {"t": "val", "val": mean(g)}
            if name == "median":
                return {"t": "val", "val": quantile_mid(g, F(1, 2))}
            if name == "mode":
                return {"t": "oneof", "vals": mode_set(g)}
            if name == "var":
                return {"t": "val", "val": var(g)}
        return None

    def run(self, prog):
        return [self.step(s) for s in prog]


def run_program(prog):
    return Oracle().run(prog)


# ----------------------------------------------------------------------------- comparison
def _close(a, b, tol):
    if a is ANY:
        return True
    if isinstance(a, tuple) and a and a[0] == "oneof":
        return any(_close(v, b, tol) for v in a[1])
    if a is None or b is None:
        return a is None and b is None
    if isinstance(a, str) or isinstance(b, str):
        return False
    if tol:
        return abs(a - b) <= F(1, 10**9) * (1 + abs(b))
    # 'exact' cases use dyadic data on which binary64 arithmetic is exact; one part in 10^12 is allowed all the same, so
    # that a last-bit rounding inside pandas is never reported as a violation (step points are compared exactly)
    return abs(a - b) <= F(1, 10**12) * (1 + abs(b))


def obs_equal(exp, got, tol=False):
    """does the implementation's observation `got` meet the oracle's `exp` (None: no opinion)"""
    if exp is None:
        return True
    if got is None or got.get("t") == "skip":
        return True
    if exp["t"] == "oneof":
        return got["t"] == "val" and any(_close(got["val"], v, tol) for v in exp["vals"])
    if exp["t"] != got["t"]:
        return False
    t = exp["t"]
    if t == "err":
        return exp["e"] == got["e"]
    if t == "frame":
        return (exp["closed"] == got["closed"] and _close(exp["init"], got["init"], tol)
                and len(exp["rows"]) == len(got["rows"])
                and all(a[0] == b[0] and _close(a[1], b[1], tol) for a, b in zip(exp["rows"], got["rows"])))
    if t == "ser":
        return len(exp["rows"]) == len(got["rows"]) and all(
            a[0] == b[0] and _close(a[1], b[1], tol) for a, b in zip(exp["rows"], got["rows"]))
    if t == "rows":      # computed labels (rolling_mean's sample points): exact in exact cases, tolerant in tolerant ones
        return len(exp["rows"]) == len(got["rows"]) and all(
            _close(a[0], b[0], tol) and _close(a[1], b[1], tol) for a, b in zip(exp["rows"], got["rows"]))
    if t == "vals":
        return len(exp["vals"]) == len(got["vals"]) and all(_close(a, b, tol) for a, b in zip(exp["vals"], got["vals"]))
    if t == "val":
        return _close(exp["val"], got["val"], tol)
    if t == "bool":
        return exp["b"] == got["b"]
    if t == "nat":
        return exp["n"] == got["n"]
    if t == "keys":
        return len(exp["keys"]) == len(got["keys"]) and all(_close(a, b, tol) for a, b in zip(exp["keys"], got["keys"]))
    if t == "qser":
        return len(exp["rows"]) == len(got["rows"]) and all(
            _close(a[0], b[0], tol) and _close(a[1], b[1], tol) for a, b in zip(exp["rows"], got["rows"]))
    return True
