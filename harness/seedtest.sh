#!/bin/sh
# harness/seedtest.sh <seed-id> <property> [more properties]: apply /verif/seeded/<seed-id>/patch.diff to /repo, run the
# demonstration (must fail) and the quick checks of the given properties (should report VIOLATION), then undo the change.
id="$1"; shift
d=/verif/seeded/$id
cd /repo || exit 2
git -C /repo diff --quiet || { echo "/repo has uncommitted changes"; exit 2; }
PYTHONPATH=/repo /venv/bin/python $d/demo.py >/dev/null 2>&1; echo "demo on unchanged tree: exit $?"
git -C /repo apply $d/patch.diff || exit 2
PYTHONPATH=/repo /venv/bin/python $d/demo.py >/dev/null 2>&1; echo "demo with the change:  exit $?"
for p in "$@"; do
  (cd /verif && ./check $p --tier quick 2>&1 | grep -E "VIOLATION|KNOWN|quick:" | cut -c1-220 | head -6)
done
git -C /repo checkout -- .
