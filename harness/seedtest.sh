#!/bin/sh
# harness/seedtest.sh <seed-id> <property> [more properties]: apply /verif/seeded/<seed-id>/patch.diff to a scratch
# worktree of /repo (so that /repo itself stays untouched for other runs), run the demonstration (must fail there) and
# the quick checks of the given properties against that tree (should report VIOLATION), then remove the worktree.
id="$1"; shift
d=/verif/seeded/$id
wt=/tmp/seedwt_$$
git -C /repo worktree add -q $wt HEAD || exit 2
PYTHONPATH=$wt /venv/bin/python $d/demo.py >/dev/null 2>&1; echo "demo on unchanged tree: exit $?"
git -C $wt apply $d/patch.diff || { git -C /repo worktree remove --force $wt; exit 2; }
PYTHONPATH=$wt /venv/bin/python $d/demo.py >/dev/null 2>&1; echo "demo with the change:  exit $?"
for p in "$@"; do
  (cd /verif && VERIF_REPO=$wt ./check $p --tier quick 2>&1 | grep -E "VIOLATION|KNOWN|quick:" | cut -c1-220 | tail -4)
done
git -C /repo worktree remove --force $wt
