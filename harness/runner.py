"""Correspondence runner: execute cases on the implementation (worker processes importing staircase
from /repo's working tree), on the oracle, and on the Coq model (generated shards + coqc/vm_compute).

A case is a dict {id, prog, flav, mode ('exact'|'tol'), tags}; the result adds
  seen   : the implementation's observations
  oracle : indices of statements whose observation contradicts the oracle (the property predicate)
  model  : True if the Coq model disagrees with the implementation on this case (None: not evaluated)
"""
import multiprocessing as mp
import os
import re
import shutil
import signal
import subprocess
import sys
import time
from concurrent.futures import ThreadPoolExecutor

ROOT = os.path.dirname(os.path.dirname(os.path.abspath(__file__)))
REPO = os.environ.get("VERIF_REPO", "/repo")
COQDIR = os.path.join(ROOT, "coq")
JOBS = int(os.environ.get("VERIF_JOBS", "16"))
SHARD = 300

sys.path.insert(0, ROOT)
from harness import core, oracle  # noqa: E402


def _init_worker():
    sys.path.insert(0, REPO)
    os.environ["PYTHONHASHSEED"] = "0"
    import staircase  # noqa
    assert os.path.realpath(staircase.__file__).startswith(os.path.realpath(REPO)), staircase.__file__


PRECOND_Q = {"integral", "mean", "var", "median", "mode", "ecdf", "percentile", "fractile", "hist", "value_sums", "agg", "describe"}


class _Timeout(Exception):
    pass


def _alarm(*_):
    raise _Timeout()


def _run_one(case):
    from harness import impl
    signal.signal(signal.SIGALRM, _alarm)
    signal.alarm(30)
    src = case.get("src", case["prog"])
    case["prog"] = core.expand(src)
    try:
        seen = impl.run_program(src, case.get("flav"))
        if len(seen) != len(case["prog"]):
            raise RuntimeError("observation count mismatch %d != %d" % (len(seen), len(case["prog"])))
    except _Timeout:
        seen = [{"t": "err", "e": "other", "type": "Timeout", "msg": "case timed out"}] * len(case["prog"])
    except Exception as exc:  # harness error
        seen = [{"t": "err", "e": "other", "type": "Harness:" + type(exc).__name__, "msg": str(exc)[:200]}] * len(case["prog"])
    finally:
        signal.alarm(0)
    try:
        exp = oracle.run_program(case["prog"])
        tol = case.get("mode") == "tol"
        # a statistic queried outside its precondition (no finite piece on which the function is defined): the
        # properties are silent and the code raises from a None / empty sequence or returns a placeholder; such an observation is not compared
        for i, (e, g, st) in enumerate(zip(exp, seen, case["prog"])):
            if e is None and st["s"] == "query" and st["q"] in PRECOND_Q:
                seen[i] = {"t": "skip", "was": g}
            # the same outside the float domain for the window statistics: where the property is silent (unbounded window,
            # no finite piece on which both operands are defined) the datetime-like domains raise from `0.0 / Timedelta(0)`
            # or from comparing a Timedelta with an infinity, where the float domain returns NaN
            elif (e is None and st["s"] == "query" and st["q"] in ("cov", "corr", "rolling") and g.get("t") == "err"
                  and (case.get("flav") or {}).get("dom", "float") != "float"):
                seen[i] = {"t": "skip", "was": g}
        bad = [i for i, (e, g) in enumerate(zip(exp, seen)) if not oracle.obs_equal(e, g, tol)]
    except Exception as exc:
        exp, bad = None, [-1]
        seen = seen + [{"t": "err", "e": "other", "type": "Oracle:" + type(exc).__name__, "msg": str(exc)[:200]}]
    return case["id"], seen, bad, exp, case["prog"], src


def run_impl(cases):
    """run all cases on the implementation and the oracle"""
    ctx = mp.get_context("fork")
    with ctx.Pool(JOBS, initializer=_init_worker) as pool:
        out = pool.map(_run_one, cases, chunksize=max(1, len(cases) // (JOBS * 8) or 1))
    by_id = {c["id"]: c for c in cases}
    for cid, seen, bad, exp, flat, src in out:
        c = by_id[cid]
        c["seen"], c["oracle"], c["expected"], c["prog"], c["src"] = seen, bad, exp, flat, src
    return cases


def _coqc(path):
    t0 = time.time()
    try:
        p = subprocess.run(["coqc", "-Q", COQDIR, "SC", path], capture_output=True, text=True, timeout=900)
        return path, p.returncode, p.stdout, p.stderr, time.time() - t0
    except subprocess.TimeoutExpired:
        return path, 124, "", "coqc timed out", time.time() - t0


def run_model(cases, workdir):
    """evaluate the Coq model on the cases; sets c['model'] = True when it disagrees with c['seen']"""
    os.makedirs(workdir, exist_ok=True)
    todo = []
    for c in cases:
        if any(core.has_inf(o) for o in c["seen"]):
            c["model"] = True        # an infinite value never equals a model value
            c["model_note"] = "implementation returned an infinite value"
        else:
            todo.append(c)
    shards = [todo[i:i + SHARD] for i in range(0, len(todo), SHARD)]
    paths = []
    num = {}
    for k, sh in enumerate(shards):
        lines = []
        for j, c in enumerate(sh):
            n = k * SHARD + j
            num[n] = c
            mprog, mseen = core.with_array_queries(c.get("src", c["prog"]), c["seen"])
            lines.append((n, c.get("mode", "exact"), mprog, mseen))
        path = os.path.join(workdir, f"cases_{k:04d}.v")
        with open(path, "w") as fh:
            fh.write(core.shard_text(lines))
        paths.append(path)
    broken = []
    with ThreadPoolExecutor(max_workers=JOBS) as ex:
        for path, rc, out, err, dt in ex.map(_coqc, paths):
            if rc != 0:
                broken.append((path, err[-2000:]))
                continue
            m = re.search(r"=\s*\[(.*?)\]\s*:\s*list nat", out, re.S)
            if not m:
                broken.append((path, "unparsable coqc output: " + out[-500:]))
                continue
            ids = [int(x) for x in re.findall(r"\d+", m.group(1))]
            k = int(re.search(r"cases_(\d+)\.v", path).group(1))
            for n in range(k * SHARD, min((k + 1) * SHARD, len(todo))):
                num[n]["model"] = n in ids
    for c in todo:
        c.setdefault("model", None)
    return broken


def model_details(case, workdir):
    """the model's own observations for one case (for the replay file)"""
    os.makedirs(workdir, exist_ok=True)
    path = os.path.join(workdir, "detail_%s.v" % case["id"].replace("/", "_").replace(":", "_"))
    mprog, mseen = core.with_array_queries(case.get("src", case["prog"]), case["seen"])
    txt = core.shard_text([(0, case.get("mode", "exact"), mprog, mseen)])
    txt += "Eval vm_compute in details cases.\n"
    with open(path, "w") as fh:
        fh.write(txt)
    _, rc, out, err, _ = _coqc(path)
    txt = out if rc == 0 else err
    txt = re.sub(r"\{\|\s*Qcanon\.this\s*:=\s*\{\|\s*QArith_base\.Qnum\s*:=\s*(-?\d+);\s*QArith_base\.Qden\s*:=\s*(\d+)\s*\|\};"
                 r"\s*Qcanon\.canon\s*:=\s*Qcanon\.Qred_involutive\s*\{\|[^|]*\|\}\s*\|\}", r"\1/\2", txt)
    m = re.search(r"=\s*\[\((\d+),\s*\[([^\]]*)\],(.*)\)\]\s*:\s*list", txt, re.S)
    if m:
        return {"bad_positions": [int(x) for x in re.findall(r"\d+", m.group(2))], "model_obs": " ".join(m.group(3).split())[:6000]}
    return {"raw": txt[-3000:]}


def clean(workdir):
    shutil.rmtree(workdir, ignore_errors=True)
