#!/bin/sh
# harness/promote.sh <seed-id> <property>: run the property's quick check against a scratch worktree carrying the seeded
# change, take the smallest shrunk failing program it reports, and keep it as corpus/<property>/<seed-id>.json (the
# corpus runs first in every later check) - after confirming that it passes on /repo and fails with the change.
id="$1"; p="$2"
d=/verif/seeded/$id
wt=/tmp/promwt_$$; out=/tmp/promout_$$
git -C /repo worktree add -q $wt HEAD || exit 2
git -C $wt apply $d/patch.diff || { git -C /repo worktree remove --force $wt; exit 2; }
(cd /verif && VERIF_REPO=$wt VERIF_OUT=$out ./check $p --tier quick >/dev/null 2>&1)
/venv/bin/python - "$id" "$p" "$out" <<'PY'
import sys, os, glob, json
sid, pid, out = sys.argv[1:4]
best = None
for f in glob.glob(os.path.join(out, "replays", pid + "-*.json")):
    if f.endswith("-proof.json") or f.endswith("-shards.json"):
        continue
    d = json.load(open(f))
    if d.get("kind") not in ("oracle", "property", None) and "oracle" not in str(d.get("kind")):
        pass
    n = len(json.dumps(d.get("src", d["prog"])))
    if best is None or n < best[0]:
        best = (n, d)
if best is None:
    print("promote: no failing program reported for", sid, pid); sys.exit(3)
d = best[1]
doc = {"property": pid, "case_id": f"{pid}/corpus/{sid}", "prog": d.get("src", d["prog"]), "flav": d.get("flav") or {},
       "mode": d.get("mode") or "exact", "tags": [t for t in d.get("tags", []) if t != "corpus"], "from_seeded": sid}
os.makedirs(f"/verif/corpus/{pid}", exist_ok=True)
json.dump(doc, open(f"/verif/corpus/{pid}/{sid}.json", "w"), indent=1)
print("promote: wrote", f"/verif/corpus/{pid}/{sid}.json", "size", best[0])
PY
rc=$?
if [ $rc = 0 ]; then
  (cd /verif && VERIF_OUT=$out ./check $p --replay corpus/$p/$id.json >/dev/null 2>&1); a=$?
  (cd /verif && VERIF_REPO=$wt VERIF_OUT=$out ./check $p --replay corpus/$p/$id.json >/dev/null 2>&1); b=$?
  echo "promote $id $p: on /repo exit $a, with the change exit $b"
  if [ $a != 0 ] || [ $b != 1 ]; then rm -f /verif/corpus/$p/$id.json; echo "promote $id: NOT kept"; fi
fi
git -C /repo worktree remove --force $wt; rm -rf $out
