"""Program representation shared by the generators, the implementation runner, the oracle and the
Coq literal printer. Values are fractions.Fraction or None (NaN); points are Fractions.

A program is a list of statement dicts; registers are small ints. See Model/Prog.v for the
statement set; the field names here are the ones the Coq printer and the runners read."""
from fractions import Fraction as F
import hashlib
import json

LEFT, RIGHT = "left", "right"


def fr(x):
    if x is None:
        return None
    if isinstance(x, F):
        return x
    if isinstance(x, str):
        return F(x)
    return F(x)


# ---------------------------------------------------------------- statement builders
def new(r, init, closed=LEFT):
    return {"s": "new", "r": r, "init": fr(init), "closed": closed}


def from_values(r, init, rows, closed=LEFT):
    return {"s": "from_values", "r": r, "init": fr(init), "rows": [(fr(k), fr(v)) for k, v in rows], "closed": closed}


def layer_s(r, start, end, value=1):
    return {"s": "layer", "r": r, "mode": "scalar", "start": fr(start), "end": fr(end), "value": fr(value)}


def layer_v(r, triples):
    return {"s": "layer", "r": r, "mode": "vector", "triples": [(fr(a), fr(b), fr(v)) for a, b, v in triples]}


def read(r, kind):  # kind in values, deltas, frame
    return {"s": "read", "r": r, "kind": kind}


def un(r, op, a):
    return {"s": "un", "r": r, "op": op, "a": a}


def reg(n):
    return {"reg": n}


def cst(v):
    return {"const": fr(v)}


def bin_(r, op, a, b):
    return {"s": "bin", "r": r, "op": op, "a": a, "b": b}


def clip(r, a, lo, hi):
    return {"s": "clip", "r": r, "a": a, "lo": fr(lo), "hi": fr(hi)}


def mask(r, a, m, inverse=False):
    return {"s": "mask", "r": r, "a": a, "m": m, "inverse": inverse}


def maskt(r, a, lo, hi, inverse=False):
    return {"s": "maskt", "r": r, "a": a, "lo": fr(lo), "hi": fr(hi), "inverse": inverse}


def fills(r, a, c):
    return {"s": "fills", "r": r, "a": a, "c": fr(c)}


def fillg(r, a, g):
    return {"s": "fillg", "r": r, "a": a, "g": g}


def shift(r, a, d):
    return {"s": "shift", "r": r, "a": a, "d": fr(d)}


def diff(r, a, d):
    return {"s": "diff", "r": r, "a": a, "d": fr(d)}


def query(r, kind, **kw):
    d = {"s": "query", "r": r, "q": kind}
    d.update(kw)
    return d


def resample(r, a, stat, icl, ivs):
    return {"s": "resample", "r": r, "a": a, "stat": stat, "icl": icl, "ivs": [(fr(x), fr(y)) for x, y in ivs]}


def agg(r, g, ms):
    return {"s": "agg", "r": r, "g": g, "ms": list(ms)}


def arrbin(rs, op, as_, b):
    """StairsArray(as_) <op> b, b = {"regs": [...]} | {"reg": n} | {"const": v}; results bound to rs"""
    return {"s": "arrbin", "rs": list(rs), "op": op, "as": list(as_), "b": b}


def arrtable(regs, kind, xs, side="right"):
    return {"s": "arrtable", "regs": list(regs), "kind": kind, "xs": [fr(x) for x in xs], "side": side}


def arrcov(regs, kind, lo, hi):
    return {"s": "arrcov", "regs": list(regs), "kind": kind, "lo": fr(lo), "hi": fr(hi)}


def slicehist(r, scratch, ivs, icl, bins, closed, stat):
    """StairsSlicer.hist: one histogram per slice (compound: expands to clip + hist per interval)"""
    return {"s": "slicehist", "r": r, "scratch": list(scratch), "ivs": [(fr(a), fr(b)) for a, b in ivs], "icl": icl,
            "bins": [(fr(a), fr(b)) for a, b in bins], "closed": closed, "stat": stat}


def expand(prog):
    """compound (collection-level) statements as the per-member statements they must equal"""
    out = []
    for s in prog:
        k = s["s"]
        if k == "arrbin":
            for i, (r, a) in enumerate(zip(s["rs"], s["as"])):
                b = s["b"]
                barg = reg(b["regs"][i]) if "regs" in b else (reg(b["reg"]) if "reg" in b else cst(b["const"]))
                out.append(bin_(r, s["op"], reg(a), barg))
        elif k == "arrtable":
            for r in s["regs"]:
                out.append(query(r, "sample", xs=s["xs"]) if s["kind"] == "sample" else query(r, "limit", side=s["side"], xs=s["xs"]))
        elif k == "slicehist":
            for sr, (a, b) in zip(s["scratch"], s["ivs"]):
                out.append(clip(sr, s["r"], a, b))
                out.append(query(sr, "hist", bins=s["bins"], closed=s["closed"], stat=s["stat"]))
        elif k == "arrcov":
            n = len(s["regs"])
            for i in range(n):
                for j in range(n):
                    out.append(query(s["regs"][i], s["kind"], b=s["regs"][j], lo=s["lo"], hi=s["hi"]))
        else:
            out.append(s)
    return out


ARITH = ["add", "sub", "mul", "div"]
REL = ["lt", "le", "gt", "ge", "eq", "ne"]
LOG = ["and", "or", "xor"]
BINOPS = ARITH + REL + LOG
UNOPS = ["neg", "invert", "make_boolean", "isna", "notna", "copy", "ffill", "bfill"]


# ---------------------------------------------------------------- JSON (de)serialisation
def _enc(o):
    if isinstance(o, F):
        return {"$f": f"{o.numerator}/{o.denominator}"}
    if isinstance(o, tuple):
        return [_enc(x) for x in o]
    if isinstance(o, list):
        return [_enc(x) for x in o]
    if isinstance(o, dict):
        return {k: _enc(v) for k, v in o.items()}
    if o is None or isinstance(o, (str, int, float, bool)):
        return o
    return repr(o)


def _dec(o):
    if isinstance(o, dict):
        if set(o) == {"$f"}:
            return F(o["$f"])
        return {k: _dec(v) for k, v in o.items()}
    if isinstance(o, list):
        return [_dec(x) for x in o]
    return o


def dumps(o, **kw):
    return json.dumps(_enc(o), **kw)


def loads(s):
    return _dec(json.loads(s))


def prog_hash(prog, extra=""):
    return hashlib.sha1((dumps(prog, sort_keys=True) + extra).encode()).hexdigest()[:16]


# ---------------------------------------------------------------- Coq literal printer
def cq(x):
    x = F(x)
    n = x.numerator
    return f"(z ({n}) {x.denominator})" if n < 0 else f"(z {n} {x.denominator})"


def cv(v):
    if v is None:
        return "nan"
    v = F(v)
    n = v.numerator
    return f"(sm ({n}) {v.denominator})" if n < 0 else f"(sm {n} {v.denominator})"


def coq_opt(x, f=cq):
    return "None" if x is None else f"(Some {f(x)})"


def cside(c):
    return "CLeft" if c == LEFT else "CRight"


def clist(xs):
    return "[" + "; ".join(xs) + "]"


def cser(rows):
    return clist(f"({cq(k)}, {cv(v)})" for k, v in rows)


def carg(a):
    return f"(AReg {a['reg']})" if "reg" in a else f"(AConst {cv(a['const'])})"


_BIN = {"add": "(BArith OAdd)", "sub": "(BArith OSub)", "mul": "(BArith OMul)", "div": "(BArith ODiv)",
        "lt": "(BRel RLt)", "le": "(BRel RLe)", "gt": "(BRel RGt)", "ge": "(BRel RGe)", "eq": "(BRel REq)",
        "ne": "(BRel RNe)", "and": "(BLog LAnd)", "or": "(BLog LOr)", "xor": "(BLog LXor)"}
_UN = {"neg": "UNeg", "invert": "UInvert", "make_boolean": "UMakeBool", "isna": "UIsna", "notna": "UNotna",
       "copy": "UCopy", "ffill": "UFfill", "bfill": "UBfill"}
_READ = {"values": "RValues", "deltas": "RDeltas", "frame": "RFrame"}
_IVC = {"left": "IvLeft", "right": "IvRight", "both": "IvBoth", "neither": "IvNeither"}
_LS = {"left": "LimLeft", "right": "LimRight"}
_HST = {"sum": "HSum", "frequency": "HFrequency", "density": "HDensity", "probability": "HProbability"}
_SST = {"mean": "SMean", "integral": "SIntegral", "median": "SMedian", "mode": "SMode", "min": "SMin", "max": "SMax"}
_GF = {"sum": "GSum", "mean": "GMean", "median": "GMedian", "min": "GMin", "max": "GMax", "logical_or": "GOr", "logical_and": "GAnd"}
_AGG = {"integral": "AIntegral", "mean": "AMean", "median": "AMedian", "mode": "AMode", "min": "AMin", "max": "AMax",
        "var": "AVar"}


def cbool(b):
    return "true" if b else "false"


def cquery(s):
    q = s["q"]
    if q == "limit":
        return f"(QLimit {_LS[s['side']]} {clist(cq(x) for x in s['xs'])})"
    if q == "sample":
        return f"(QSample {clist(cq(x) for x in s['xs'])})"
    if q == "identical":
        return f"(QIdentical {carg(s['a'])})"
    if q in ("bool", "nsteps", "points", "closed", "integral", "mean", "var", "median", "mode", "value_sums"):
        return {"bool": "QBool", "nsteps": "QNSteps", "points": "QPoints", "closed": "QClosed", "integral": "QIntegral",
                "mean": "QMean", "var": "QVar", "median": "QMedian", "mode": "QMode", "value_sums": "QValueSums"}[q]
    if q == "ecdf":
        return f"(QEcdf {_LS[s['side']]} {clist(cq(x) for x in s['ys'])})"
    if q == "percentile":
        return f"(QPercentile {clist(cq(x) for x in s['ps'])})"
    if q == "fractile":
        return f"(QFractile {clist(cq(x) for x in s['ps'])})"
    if q == "hist":
        bins = clist(f"({cq(a)}, {cq(b)})" for a, b in s["bins"])
        return f"(QHist {bins} {cside(s['closed'])} {_HST[s['stat']]})"
    if q in ("vir", "min", "max"):
        cl = "None" if s.get("closed") is None else f"(Some {_IVC[s['closed']]})"
        return f"({ {'vir': 'QVir', 'min': 'QMin', 'max': 'QMax'}[q]} {coq_opt(s.get('lo'))} {coq_opt(s.get('hi'))} {cl})"
    if q == "agg":
        cl = "None" if s.get("closed") is None else f"(Some {_IVC[s['closed']]})"
        return f"(QAgg {_AGG[s['name']]} {coq_opt(s.get('lo'))} {coq_opt(s.get('hi'))} {cl})"
    if q == "slicer":
        ivs = clist(f"({cq(a)}, {cq(b)})" for a, b in s["ivs"])
        return f"(QSlicer {_SST[s['stat']]} {_IVC[s['icl']]} {ivs})"
    if q in ("cov", "corr"):
        lc = "ClipPre" if s.get("clip", "pre") == "pre" else "ClipPost"
        return f"({'QCov' if q == 'cov' else 'QCorr'} {s['b']} {coq_opt(s.get('lo'))} {coq_opt(s.get('hi'))} {cq(s.get('lag', 0))} {lc})"
    if q == "rolling":
        return f"(QRolling {cq(s['l'])} {cq(s['rr'])} {coq_opt(s.get('lo'))} {coq_opt(s.get('hi'))})"
    if q == "describe":
        return f"(QDescribe {coq_opt(s.get('lo'))} {coq_opt(s.get('hi'))} {clist(cq(x) for x in s['ps'])})"
    if q == "arrsample":
        return f"(QArrSample {clist(str(r) for r in s['others'])} {clist(cq(x) for x in s['xs'])})"
    if q == "arrlimit":
        return f"(QArrLimit {clist(str(r) for r in s['others'])} {_LS[s['side']]} {clist(cq(x) for x in s['xs'])})"
    if q in ("arrcov", "arrcorr"):
        return f"({'QArrCov' if q == 'arrcov' else 'QArrCorr'} {clist(str(r) for r in s['others'])} {coq_opt(s.get('lo'))} {coq_opt(s.get('hi'))})"
    raise ValueError(q)


def cstmt(s):
    k = s["s"]
    if k == "new":
        return f"SNew {s['r']} {cv(s['init'])} {cside(s['closed'])}"
    if k == "from_values":
        return f"SFromValues {s['r']} {cv(s['init'])} {cser(s['rows'])} {cside(s['closed'])}"
    if k == "layer":
        if s["mode"] == "scalar":
            v = F(1) if s["value"] is None else s["value"]
            return f"SLayer {s['r']} (LScalar {coq_opt(s['start'])} {coq_opt(s['end'])} {cq(v)})"
        ts = clist(f"({coq_opt(a)}, {coq_opt(b)}, {cq(v)})" for a, b, v in s["triples"])
        return f"SLayer {s['r']} (LVector {ts})"
    if k == "read":
        return f"SRead {s['r']} {_READ[s['kind']]}"
    if k == "un":
        return f"SUn {s['r']} {_UN[s['op']]} {s['a']}"
    if k == "bin":
        return f"SBin {s['r']} {_BIN[s['op']]} {carg(s['a'])} {carg(s['b'])}"
    if k == "clip":
        return f"SClip {s['r']} {s['a']} {coq_opt(s['lo'])} {coq_opt(s['hi'])}"
    if k == "mask":
        return f"SMask {s['r']} {s['a']} {cbool(s['inverse'])} {s['m']}"
    if k == "maskt":
        return f"SMaskT {s['r']} {s['a']} {cbool(s['inverse'])} {coq_opt(s['lo'])} {coq_opt(s['hi'])}"
    if k == "fills":
        return f"SFillS {s['r']} {s['a']} {cv(s['c'])}"
    if k == "fillg":
        return f"SFillG {s['r']} {s['a']} {s['g']}"
    if k == "shift":
        return f"SShift {s['r']} {s['a']} {cq(s['d'])}"
    if k == "diff":
        return f"SDiff {s['r']} {s['a']} {cq(s['d'])}"
    if k == "resample":
        ivs = clist(f"({cq(a)}, {cq(b)})" for a, b in s["ivs"])
        return f"SResample {s['r']} {s['a']} {_SST[s['stat']]} {_IVC[s['icl']]} {ivs}"
    if k == "agg":
        return f"SAgg {s['r']} {_GF[s['g']]} {clist(str(m) for m in s['ms'])}"
    if k == "query":
        return f"SQuery {s['r']} {cquery(s)}"
    raise ValueError(k)


def cobs(o):
    """an observation (as produced by impl.py) as a Gallina [option obs] literal"""
    if o is None:
        return "None"
    t = o["t"]
    if t == "skip":
        return "None"
    if t == "unit":
        return "(Some OUnit)"
    if t == "none":
        return "(Some ONone)"
    if t == "err":
        e = {"closed": "EClosedMismatch", "value": "EValue"}.get(o["e"], "EOther")
        return f"(Some (OErr {e}))"
    if t == "frame":
        return f"(Some (OFrame {cside(o['closed'])} {cv(o['init'])} {cser(o['rows'])}))"
    if t == "ser":
        return f"(Some (OSer {cser(o['rows'])}))"
    if t == "rows":
        return f"(Some (ORows {cser(o['rows'])}))"
    if t == "vals":
        return f"(Some (OVals {clist(cv(v) for v in o['vals'])}))"
    if t == "val":
        return f"(Some (OVal {cv(o['val'])}))"
    if t == "bool":
        return f"(Some (OBool {cbool(o['b'])}))"
    if t == "nat":
        return f"(Some (ONat {o['n']}))"
    if t == "keys":
        return f"(Some (OKeys {clist(cq(k) for k in o['keys'])}))"
    if t == "qser":
        return f"(Some (OQSer {clist('(%s, %s)' % (cq(a), cq(b)) for a, b in o['rows'])}))"
    raise ValueError(t)


def has_inf(o):
    """does an observation contain an infinite value (never equal to any model value)?"""
    if o is None:
        return False
    s = dumps(o)
    return '"inf"' in s or '"-inf"' in s or '"bad:' in s      # (or a value / label the decoder could not take: never a model value)


def with_array_queries(src, seen):
    """the program and observations handed to the Coq model: the expanded per-member statements (exactly what the oracle
    sees), and after each collection-level table / matrix call one extra query that evaluates Model/Arrays.v's own
    definition of that call (arr_sample, arr_limit, arr_cov, arr_corr) on the same registers, observed as the whole
    table of the implementation's entries. The extra query is added only when every entry was observed as a value."""
    mprog, mseen, pos = [], [], 0
    for s in src:
        ex = expand([s])
        obs = seen[pos:pos + len(ex)]
        pos += len(ex)
        mprog += ex
        mseen += obs
        k = s["s"]
        if len(obs) != len(ex) or not ex:
            continue
        if k == "arrtable" and all(o is not None and o.get("t") == "vals" for o in obs):
            regs = s["regs"]
            q = {"s": "query", "r": regs[0], "others": regs[1:], "xs": s["xs"]}
            q.update({"q": "arrsample"} if s["kind"] == "sample" else {"q": "arrlimit", "side": s["side"]})
            mprog.append(q)
            mseen.append({"t": "vals", "vals": [v for o in obs for v in o["vals"]]})
        elif k == "arrcov" and all(o is not None and o.get("t") == "val" for o in obs):
            regs = s["regs"]
            mprog.append({"s": "query", "r": regs[0], "others": regs[1:], "q": "arr" + s["kind"], "lo": s["lo"], "hi": s["hi"]})
            mseen.append({"t": "vals", "vals": [o["val"] for o in obs]})
    mseen += seen[pos:]
    return mprog, mseen


def ccase(cid, mode, prog, seen):
    return ("  Case %d %s\n    [ %s ]\n    [ %s ]" % (
        cid, "Tol" if mode == "tol" else "Exact",
        ";\n      ".join(cstmt(s) for s in prog),
        ";\n      ".join(cobs(o) for o in seen)))


def shard_text(cases):
    """cases: list of (cid, mode, prog, seen)"""
    body = ";\n".join(ccase(*c) for c in cases)
    return ("Require Import SC.Corr.Check SC.Model.Prog SC.Model.Repr SC.Model.Masking SC.Model.Sampling "
            "SC.Model.Stats SC.Model.Slicing SC.Model.Arrays SC.Base.Val.\n"
            "From Coq Require Import List ZArith.\nImport ListNotations.\n"
            "Set Printing Width 1000000.\nSet Printing Depth 100000.\n"
            "Definition cases : list case := [\n" + body + "\n].\n"
            "Definition bad := Eval vm_compute in failing cases.\n"
            "Eval vm_compute in bad.\n")
