#!/venv/bin/python
"""./check Cnn [--tier quick|thorough] [--replay FILE]

1. proof step      rebuild the Coq development (full .vo build), re-compile Properties/Cnn.v and parse its
                   Print Assumptions output; every theorem must be closed or use only allow-listed axioms
2. correspondence  generate programs, run them on /repo's implementation, on the Coq model (coqc +
                   vm_compute) and on the independent oracle (the property's predicate)
3. verdict         VIOLATION lines (with replay files), KNOWN-FINDING lines, evidence/Cnn.json
"""
import argparse
import fcntl
import json
import os
import random
import re
import subprocess
import sys
import time

ROOT = os.path.dirname(os.path.dirname(os.path.abspath(__file__)))
sys.path.insert(0, ROOT)
from harness import core as C  # noqa: E402
from harness import gen, runner  # noqa: E402

COQ = os.path.join(ROOT, "coq")
# verdict files (replays, evidence) go to /verif, except when the check is pointed at another tree than /repo (seeded
# changes applied to a scratch worktree, harness/seedtest.sh): those runs must not overwrite the evidence of /repo
OUT = os.environ.get("VERIF_OUT") or (ROOT if os.environ.get("VERIF_REPO", "/repo") == "/repo" else "/tmp/verif_seed_out")
LEVELS = json.load(open(os.path.join(ROOT, "levels.json")))
ALLOWED_AXIOMS = set()          # target: every property theorem closed under the global context
TRUSTED_BASE = [
    "Coq 8.16.1 kernel and vm_compute (no native_compute); coqchk re-check in the thorough tier",
    "axioms: none (every property theorem prints 'Closed under the global context')",
    "hand-written Gallina model of staircase (coq/Model/*.v) and the assumed semantics of the pandas/numpy primitives (coq/Base/Series.v), validated - not proved - by the correspondence check",
    "the Python harness: program interpreter over the public API (harness/impl.py), canonicaliser, Gallina literal printer (harness/core.py), shard runner; fractions.Fraction oracle (harness/oracle.py)",
    "CPython 3.12, pandas 2.3.3, numpy 1.26.4 as installed; floats compared exactly on dyadic data, with 1e-9 relative tolerance where stated",
]


def sh(cmd, **kw):
    return subprocess.run(cmd, capture_output=True, text=True, **kw)


def build():
    """full .vo build of the development, serialised across concurrent checks"""
    os.makedirs(os.path.join(ROOT, ".run"), exist_ok=True)
    with open(os.path.join(ROOT, ".run", "build.lock"), "w") as lock:
        fcntl.flock(lock, fcntl.LOCK_EX)
        if not os.path.exists(os.path.join(COQ, "Makefile")):
            p = sh(["coq_makefile", "-f", "_CoqProject", "-o", "Makefile"], cwd=COQ)
            if p.returncode:
                return False, p.stderr
        p = sh(["timeout", "1800", "make", "-j8"], cwd=COQ)
        return p.returncode == 0, (p.stdout + p.stderr)[-3000:]


GATE = re.compile(r"\b(Admitted|admit|Axiom|Parameter|Conjecture|Unset Guard|bypass_check|type-in-type)\b")


def gate():
    bad = []
    for d, _, fs in os.walk(COQ):
        for f in fs:
            if f.endswith(".v") and not f.startswith("cases_"):
                for i, line in enumerate(open(os.path.join(d, f)), 1):
                    code = re.sub(r"\(\*.*?\*\)", "", line)
                    if GATE.search(code):
                        bad.append(f"{os.path.relpath(os.path.join(d, f), ROOT)}:{i}: {line.strip()}")
    return bad


def proof_step(pid):
    """returns dict(obligations, discharged, theorems=[{name, status, axioms}], log)"""
    path = os.path.join(COQ, "Properties", f"{pid}.v")
    res = {"obligations": 0, "discharged": 0, "theorems": [], "ok": True, "log": ""}
    if not os.path.exists(path):
        res["log"] = "no Properties file yet: this property is decided by correspondence + oracle only (claimed as 'other')"
        return res
    src = open(path).read()
    names = re.findall(r"^\s*(?:Theorem|Corollary)\s+(\w+)", src, re.M)
    res["obligations"] = len(names)
    p = sh(["timeout", "600", "coqc", "-Q", COQ, "SC", path])
    res["log"] = (p.stdout + p.stderr)[-4000:]
    if p.returncode != 0:
        res["ok"] = False
        res["theorems"] = [{"name": n, "status": "not-checked"} for n in names]
        return res
    printed = re.findall(r"Print Assumptions\s+(\w+)\s*\.", src)
    blocks = re.split(r"(?=Closed under the global context|Axioms:)", p.stdout)
    blocks = [b for b in blocks if b.startswith("Closed") or b.startswith("Axioms:")]
    status = {}
    for n, b in zip(printed, blocks):
        if b.startswith("Closed"):
            status[n] = ("closed", [])
        else:
            ax = re.findall(r"^(\S+)\s*:", b[len("Axioms:"):], re.M)
            status[n] = ("axioms", ax)
    for n in names:
        st, ax = status.get(n, ("no-print-assumptions", []))
        ok = st == "closed" or (st == "axioms" and set(ax) <= ALLOWED_AXIOMS)
        res["theorems"].append({"name": n, "status": st, "axioms": ax})
        if ok:
            res["discharged"] += 1
        else:
            res["ok"] = False
    return res


def load_known():
    p = os.path.join(ROOT, "known_findings.json")
    if not os.path.exists(p):
        return []
    return json.load(open(p)).get("findings", [])


def signature(pid, case, positions):
    """a short, stable description of what failed: property / generator tag / statement kinds involved"""
    kinds = []
    for i in positions[:3]:
        if 0 <= i < len(case["prog"]):
            s = case["prog"][i]
            kinds.append(s["s"] + (":" + str(s.get("op") or s.get("q") or s.get("kind") or "")))
    return f"{pid}/{'/'.join(case['tags'][:1])}/{'+'.join(kinds)}"


def known_match(known, pid, case, positions):
    for k in known:
        if k.get("status") != "known" or k.get("property") != pid:
            continue
        m = k.get("match", {})
        ok = True
        if "stmt" in m:
            ok = ok and any(0 <= i < len(case["prog"]) and case["prog"][i]["s"] == m["stmt"] and
                            all(case["prog"][i].get(a) == b for a, b in m.get("fields", {}).items()) for i in positions)
        if "tag" in m:
            ok = ok and m["tag"] in case["tags"]
        if ok:
            return k
    return None


def write_replay(pid, case, kind, extra):
    os.makedirs(os.path.join(OUT, "replays"), exist_ok=True)
    h = C.prog_hash(case["prog"], C.dumps(case.get("flav", {})))
    path = os.path.join(OUT, "replays", f"{pid}-{h}.json")
    doc = {"property": pid, "kind": kind, "case_id": case["id"], "flav": case.get("flav"), "mode": case.get("mode"),
           "tags": case["tags"], "prog": case["prog"], "src": case.get("src", case["prog"]),
           "program_text": [C.cstmt(s) for s in case["prog"]],
           "observed": case.get("seen"), "expected_by_property": case.get("expected")}
    doc.update(extra)
    with open(path, "w") as fh:
        fh.write(C.dumps(doc, indent=1))
    return path


def nontrivial(case):
    """a case is non-trivial when some observed function has a step or an undefined piece"""
    for o in case.get("seen", []):
        if o and o.get("t") == "frame" and (o["rows"] or o["init"] is None):
            return True
    return False


def shrink(pid, case, workdir):
    """greedy statement deletion while the oracle still rejects the implementation's observations"""
    from harness import runner as R
    prog = list(case.get("src", case["prog"]))

    def fails(p):
        c = {"id": "shrink", "prog": p, "src": p, "flav": case.get("flav"), "mode": case.get("mode"), "tags": case["tags"]}
        R.run_impl([c])
        return bool(c["oracle"]), c
    best = case
    i = len(prog) - 1
    while i >= 0 and len(prog) > 1:
        cand = prog[:i] + prog[i + 1:]
        try:
            bad, c = fails(cand)
        except Exception:
            bad = False
        if bad:
            prog, best = cand, c
        i -= 1
    return best


def replay(path):
    doc = C.loads(open(path).read())
    case = {"id": doc["case_id"], "prog": doc.get("src", doc["prog"]), "src": doc.get("src", doc["prog"]),
            "flav": doc.get("flav"), "mode": doc.get("mode"), "tags": doc.get("tags", [])}
    runner.run_impl([case])
    work = os.path.join(ROOT, ".run", f"replay-{os.getpid()}")
    broken = runner.run_model([case], work)
    det = runner.model_details(case, work) if case.get("model") else None
    runner.clean(work)
    for s, o, e in zip(case["prog"], case["seen"], case["expected"] or []):
        print(C.cstmt(s))
        print("    implementation:", C.dumps(o))
        print("    property says :", C.dumps(e))
    print("oracle rejects statements:", case["oracle"])
    print("model disagrees:", case.get("model"), det or "", broken or "")
    pid = doc["property"]
    if case["oracle"] or case.get("model"):
        print(f"VIOLATION property={pid} replay={path}")
        return 1
    return 0


def main():
    ap = argparse.ArgumentParser()
    ap.add_argument("pid")
    ap.add_argument("--tier", default=os.environ.get("VERIF_TIER", "quick"))
    ap.add_argument("--replay")
    ap.add_argument("--limit", type=int, default=0)
    a = ap.parse_args()
    if a.replay:
        sys.exit(replay(a.replay))
    pid, tier = a.pid, a.tier
    seed = int(os.environ.get("VERIF_SEED", "20260930"))
    t0 = time.time()
    violations = []     # (line, replay)
    notes = []

    ok_build, blog = build()
    gate_hits = gate()
    pr = proof_step(pid) if ok_build else {"obligations": 0, "discharged": 0, "theorems": [], "ok": False, "log": blog}
    proof_broken = (not ok_build) or (not pr["ok"]) or bool(gate_hits)
    coqchk = None
    if tier == "thorough" and ok_build and pr["obligations"]:
        # independent re-check of the compiled property file and everything it depends on; -o lists the axioms
        pc = sh(["timeout", "1500", "coqchk", "-silent", "-o", "-Q", COQ, "SC", f"SC.Properties.{pid}"])
        tail = (pc.stdout + pc.stderr)[-1500:]
        coqchk = {"exit": pc.returncode, "output_tail": tail}
        if pc.returncode != 0:
            proof_broken = True

    rng = random.Random(f"{seed}/{pid}/{tier}")
    cases = gen.GENS[pid](rng, tier)
    corpus_dir = os.path.join(ROOT, "corpus", pid)
    corpus = []
    if os.path.isdir(corpus_dir):
        for f in sorted(os.listdir(corpus_dir)):
            if f.endswith(".json"):
                d = C.loads(open(os.path.join(corpus_dir, f)).read())
                corpus.append({"id": f"{pid}/corpus/{f[:-5]}", "prog": d["prog"], "flav": d.get("flav", {}),
                               "mode": d.get("mode", "exact"), "tags": ["corpus"] + d.get("tags", [])})
    cases = corpus + cases
    if a.limit:
        cases = cases[: a.limit]
    runner.run_impl(cases)
    work = os.path.join(ROOT, ".run", f"{pid}-{os.getpid()}")
    broken_shards = runner.run_model(cases, work) if ok_build else [("build", blog)]

    known = load_known()
    oracle_fail = [c for c in cases if c["oracle"]]
    model_fail = [c for c in cases if c.get("model") and not c["oracle"]]
    seen_sigs = {}
    known_hits = {}
    for c in sorted(oracle_fail, key=lambda c: len(C.dumps(c["prog"]))):
        k = known_match(known, pid, c, c["oracle"])
        if k:
            known_hits.setdefault(k["what"], 0)
            known_hits[k["what"]] += 1
            continue
        sig = signature(pid, c, c["oracle"])
        if sig in seen_sigs:
            seen_sigs[sig] += 1
            continue
        seen_sigs[sig] = 1
        if len(seen_sigs) <= 8:
            small = shrink(pid, c, work)
            small["tags"] = c["tags"]
            det = None
            path = write_replay(pid, small, "property-predicate-failed",
                                {"failed_statements": small["oracle"], "signature": sig, "original_case": c["id"]})
            violations.append((f"VIOLATION property={pid} replay={path}", path))
    model_sigs = {}
    for c in sorted(model_fail, key=lambda c: len(C.dumps(c["prog"]))):
        sig = signature(pid, c, [])
        model_sigs[sig] = model_sigs.get(sig, 0) + 1
        if model_sigs[sig] == 1 and len(model_sigs) <= 5:
            det = runner.model_details(c, work)
            path = write_replay(pid, c, "correspondence-broken",
                                {"what": "the Coq model (coq/Model/Prog.v: run) and the implementation disagree on this program, "
                                         "but the property's predicate holds on the implementation's observations",
                                 "model": det, "correspondence": "Corr/Check.v: failing"})
            violations.append((f"VIOLATION property={pid} replay={path} no-failing-input-found", path))
    if broken_shards and ok_build:
        path = os.path.join(OUT, "replays", f"{pid}-shards.json")
        os.makedirs(os.path.dirname(path), exist_ok=True)
        json.dump({"property": pid, "kind": "shard-evaluation-failed", "shards": broken_shards}, open(path, "w"), indent=1)
        violations.append((f"VIOLATION property={pid} replay={path} no-failing-input-found", path))
    if proof_broken and not any("no-failing-input-found" not in v[0] for v in violations):
        path = os.path.join(OUT, "replays", f"{pid}-proof.json")
        os.makedirs(os.path.dirname(path), exist_ok=True)
        json.dump({"property": pid, "kind": "proof-obligation-broken",
                   "theorems": pr["theorems"], "gate": gate_hits, "log": pr["log"] if ok_build else blog,
                   "what": "a theorem of coq/Properties/%s.v (or the development it depends on) no longer checks; "
                           "the search over %d programs found no input on which the property fails" % (pid, len(cases))},
                  open(path, "w"), indent=1)
        violations.append((f"VIOLATION property={pid} replay={path} no-failing-input-found", path))
    runner.clean(work)

    # ---------------- evidence
    hashes = {}
    for c in cases:
        hashes.setdefault(C.prog_hash(c["prog"]), c)
    distinct_nt = sum(1 for c in hashes.values() if nontrivial(c))
    tagc, flavc, errc, stmtc = {}, {}, {}, {}
    nan_cases = 0
    for c in cases:
        for t in c["tags"][:1]:
            tagc[t] = tagc.get(t, 0) + 1
        fl = c.get("flav", {})
        for key in ("route", "mat", "scalar", "dom"):
            flavc[f"{key}={fl.get(key)}"] = flavc.get(f"{key}={fl.get(key)}", 0) + 1
        for s, o in zip(c["prog"], c["seen"]):
            stmtc[s["s"]] = stmtc.get(s["s"], 0) + 1
            if o and o.get("t") == "err":
                key = o.get("e") + ":" + o.get("type", "")
                errc[key] = errc.get(key, 0) + 1
        if any(o and o.get("t") == "frame" and (o["init"] is None or any(v is None for _, v in o["rows"])) for o in c["seen"]):
            nan_cases += 1
    arrq = {}
    for c in cases:
        if c.get("model") is not None and any(s_["s"] in ("arrtable", "arrcov") for s_ in c.get("src", [])):
            for s_ in C.with_array_queries(c["src"], c["seen"])[0]:
                if s_["s"] == "query" and s_["q"].startswith("arr"):
                    arrq[s_["q"]] = arrq.get(s_["q"], 0) + 1
    sizes = {}
    for c in cases:
        n = max([len(o["rows"]) for o in c["seen"] if o and o.get("t") == "frame"] or [0])
        sizes[n] = sizes.get(n, 0) + 1
    samples = [{"id": c["id"], "flav": c["flav"], "program": [C.cstmt(s) for s in c["prog"]]} for c in cases[:: max(1, len(cases) // 3)][:3]]
    ev = {
        "property_id": pid, "tier": tier, "seed": seed,
        "level": "proof" if (LEVELS.get(pid) == "proof" and pr["obligations"] and pr["discharged"] == pr["obligations"]) else "other",
        "coverage": {
            "obligations": pr["obligations"], "discharged": pr["discharged"],
            "checker_cmd": f"make -C coq (coq_makefile, full .vo build) && coqc -Q coq SC coq/Properties/{pid}.v  # Print Assumptions parsed",
            "trusted_base": TRUSTED_BASE,
            "theorems": pr["theorems"],
            "coqchk": coqchk,
            "explanation": "machine-checked theorems about the Gallina model (coq/Properties/%s.v) + correspondence check tying the model to /repo's working tree (programs run on the implementation, on the model by vm_compute, and on an independent rational oracle)" % pid,
            "evaluations": len(cases),
            "distinct_nontrivial": distinct_nt,
            "rule": "programs generated from the seed (corpus first, then sampled small-scope enumeration, then random structured); distinct = distinct canonical program text (sha1); non-trivial = some observed function has a step or an undefined piece",
            "samples": json.loads(C.dumps(samples)),
            "traces_validated_against_impl": sum(1 for c in cases if c.get("model") is False),
            "model_disagreements": len(model_fail) + len([c for c in oracle_fail if c.get("model")]),
            "oracle_rejections": len(oracle_fail),
            "distribution": {"generator_tags": tagc, "flavours": flavc, "statements": stmtc, "errors_observed": errc,
                             "cases_with_undefined_region": nan_cases, "max_steps_histogram": {str(k): v for k, v in sorted(sizes.items())},
                             "tolerant_compare_cases": sum(1 for c in cases if c.get("mode") == "tol"),
                             "collection_level_model_queries": arrq},
            "known_findings_hit": known_hits,
            "exhaustive": False,
        },
        "assumptions": TRUSTED_BASE,
        "wall_s": round(time.time() - t0, 2),
        "violations": len(violations),
    }
    os.makedirs(os.path.join(OUT, "evidence"), exist_ok=True)
    with open(os.path.join(OUT, "evidence", f"{pid}.json"), "w") as fh:
        json.dump(ev, fh, indent=1)

    for what, n in known_hits.items():
        print(f"KNOWN-FINDING: property={pid} {what} ({n} cases)")
    for line, _ in violations:
        print(line)
    print(f"{pid} {tier}: {len(cases)} programs, {distinct_nt} distinct non-trivial, proof {pr['discharged']}/{pr['obligations']}, "
          f"oracle rejections {len(oracle_fail)}, model disagreements {len(model_fail)}, {ev['wall_s']} s")
    sys.exit(1 if violations else 0)


def guarded_main():
    """an exception inside the machinery itself (a decoder meeting something it has never seen, a worker dying) means the
    property is no longer shown to hold on this tree: report it as such, with the traceback as the replay, instead of
    leaving a bare traceback and no verdict line"""
    try:
        main()
    except SystemExit:
        raise
    except BaseException as exc:      # noqa
        import traceback
        pid = next((a_ for a_ in sys.argv[1:] if not a_.startswith("-")), "C00")
        os.makedirs(os.path.join(OUT, "replays"), exist_ok=True)
        path = os.path.join(OUT, "replays", f"{pid}-harness-error.json")
        json.dump({"property": pid, "kind": "correspondence-broken",
                   "what": "the correspondence check itself failed to evaluate on this tree (exception below); no failing input "
                           "was found, but the property is not shown to hold",
                   "exception": repr(exc)[:500], "traceback": traceback.format_exc()[-4000:]}, open(path, "w"), indent=1)
        print(f"VIOLATION property={pid} replay={path} no-failing-input-found")
        sys.exit(1)


if __name__ == "__main__":
    guarded_main()
