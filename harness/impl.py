"""Run a program (harness/core.py) on the implementation imported from /repo's working tree, through
the public API only, and return canonicalised observations (one per statement).

Flavours (Python-side only; every flavour must agree with the one model result):
  dom     float | int | dt | tz | dst | td      domain type (x -> origin + x * unit)
  route   from_values | layer | layer_vec | frame | series | tuple | ndarray | arith   leaf construction
  mat     none | values | deltas | both         internal forms read right after construction
  scalar  py | int | np64 | npi64 | npf32       Python/numpy type of scalar operands
  vec     list | ndarray | series               container for vector query arguments
"""
import math
import warnings
from fractions import Fraction as F

import numpy as np
import pandas as pd

import staircase as sc
from staircase.core.exceptions import ClosedMismatchError

warnings.simplefilter("ignore")

UNIT_H = pd.Timedelta(hours=1)
ORIGINS = {
    "dt": pd.Timestamp("2021-03-01"),
    "tz": pd.Timestamp("2021-03-01", tz="Asia/Kolkata"),
    "dst": pd.Timestamp("2021-04-03 20:00", tz="Australia/Sydney"),   # DST ends 2021-04-04 03:00 local
    "utc": pd.Timestamp("2021-03-01", tz="UTC"),
    "dts": pd.Timestamp("2021-03-01"),      # naive datetimes kept at SECOND resolution (datetime64[s] index); unit = 1 s
}
UNIT_NS = {"dts": 10**9}
BIG_ORIGIN = 2**60


class Dom:
    def __init__(self, name):
        self.name = name

    def to(self, x):
        if x is None:
            return None
        n = self.name
        if n == "float":
            return float(x)
        if n == "int":      # integer labels for the step points; bounds / query points may fall between them
            return int(x) if F(x).denominator == 1 else float(x)
        if n == "bigint":   # integer labels beyond 2**53 (not representable as floats): unit 4, origin 2**60; exact or refused
            assert (4 * F(x)).denominator == 1, x
            return BIG_ORIGIN + int(4 * F(x))
        u = UNIT_NS.get(n, 3600 * 10**9)
        if n == "td":
            return pd.Timedelta(int(F(x) * u), unit="ns")
        return ORIGINS[n] + pd.Timedelta(int(F(x) * u), unit="ns")

    def delta(self, d):
        if self.name in ("float",):
            return float(d)
        if self.name == "int":
            return int(d) if F(d).denominator == 1 else float(d)
        if self.name == "bigint":
            assert (4 * F(d)).denominator == 1, d
            return int(4 * F(d))
        return pd.Timedelta(int(F(d) * UNIT_NS.get(self.name, 3600 * 10**9)), unit="ns")

    def back(self, lab):
        n = self.name
        if n in ("float", "int"):
            return F(float(lab)) if not isinstance(lab, (int, np.integer)) else F(int(lab))
        if n == "bigint":
            if not isinstance(lab, (int, np.integer)):
                return "bad:label-" + type(lab).__name__      # a label that is no longer an integer has lost its low bits
            return F(int(lab) - BIG_ORIGIN, 4)
        u = UNIT_NS.get(n, 3600 * 10**9)
        if n == "td":
            return F(pd.Timedelta(lab).as_unit("ns").value, u)
        ts = pd.Timestamp(lab)
        o = ORIGINS[n]
        if ts.tzinfo is None and o.tzinfo is not None:
            ts = ts.tz_localize("UTC")  # numpy datetime64 values are UTC instants
        return F((ts - o).as_unit("ns").value, u)

    def length_back(self, x):
        """a length / integral factor in domain units -> Fraction"""
        if self.name in ("float", "int"):
            return num(x)
        if self.name == "bigint":
            v = num(x)
            return v / 4 if isinstance(v, F) else v
        if x is None or (isinstance(x, float) and math.isnan(x)) or x is pd.NaT:
            return None
        try:
            if pd.isna(x):
                return None
        except (TypeError, ValueError):
            pass
        if isinstance(x, (float, np.floating)):
            return num(x)          # e.g. the 0.0 integral of a function without finite defined piece
        u = UNIT_NS.get(self.name, 3600 * 10**9)
        if isinstance(x, (int, np.integer)):
            return F(int(x), u)      # nanoseconds from timedelta64[ns].tolist()
        return F(pd.Timedelta(x).as_unit("ns").value, u)


def num(x):
    """canonical value: Fraction, None for NaN/NA, 'inf'/'-inf'"""
    if x is None or x is pd.NA or x is pd.NaT:
        return None
    if isinstance(x, (bool, np.bool_)):
        return F(int(x))
    if isinstance(x, (int, np.integer)):
        return F(int(x))
    if isinstance(x, F):
        return x
    try:
        xf = float(x)
    except Exception:
        return "bad:" + type(x).__name__
    if math.isnan(xf):
        return None
    if math.isinf(xf):
        return "inf" if xf > 0 else "-inf"
    return F(xf)


def scalar(v, kind):
    if v is None:       # NaN as the numpy singleton, a fresh Python float, or a numpy scalar (three different objects)
        return {"py": float("nan"), "np64": np.float64("nan"), "npf32": np.float32("nan")}.get(kind, np.nan)
    v = F(v)
    if kind == "int" and v.denominator == 1:
        return int(v)
    if kind == "npi64" and v.denominator == 1:
        return np.int64(int(v))
    if kind == "np64":
        return np.float64(float(v))
    if kind == "npf32":
        return np.float32(float(v))
    if kind == "bool" and v in (0, 1):
        return bool(v)
    return float(v)


def container(xs, kind):
    if kind in ("coarse_index", "coarse_array"):
        # datetime-like points handed over at SECOND resolution (a DatetimeIndex / TimedeltaIndex with unit 's', or the numpy
        # array under it); other points as an ordinary array
        xs = list(xs)
        try:
            if xs and all(isinstance(x, pd.Timestamp) for x in xs) and all(x.nanosecond == 0 and x.microsecond == 0 for x in xs):
                idx = pd.DatetimeIndex(xs).as_unit("s")
                return idx if kind == "coarse_index" or idx.tz is not None else idx.values
            if xs and all(isinstance(x, pd.Timedelta) for x in xs) and all(x.value % 10**9 == 0 for x in xs):
                idx = pd.TimedeltaIndex(xs).as_unit("s")
                return idx if kind == "coarse_index" else idx.values
        except Exception:
            pass
        return np.array(xs)
    if kind == "ndarray":
        return np.array(xs)
    if kind == "series":
        return pd.Series(xs)
    if kind == "tuple":
        return tuple(xs)
    return list(xs)


def err_obs(exc):
    if isinstance(exc, ClosedMismatchError):
        e = "closed"
    elif isinstance(exc, ValueError):
        e = "value"
    else:
        e = "other"
    return {"t": "err", "e": e, "type": type(exc).__name__, "msg": str(exc)[:200]}


class Runner:
    def __init__(self, flav=None):
        fl = dict(dom="float", route="from_values", mat="none", scalar="py", vec="list", lroute="list")
        fl.update(flav or {})
        self.fl = fl
        self.dom = Dom(fl["dom"])
        self.regs = {}
        self.wheres = {}
        self.colls = {}

    # ---- observation helpers
    def frame_obs(self, st):
        c = st.copy()
        fr_ = c.to_frame()
        vals = [num(v) for v in fr_["value"].tolist()]
        starts = fr_["start"].tolist()[1:]
        rows = [(self.dom.back(k), v) for k, v in zip(starts, vals[1:])]
        return {"t": "frame", "closed": st.closed, "init": vals[0], "rows": rows}

    def ser_obs(self, s):
        return {"t": "ser", "rows": [(self.dom.back(k), num(v)) for k, v in zip(s.index.tolist(), s.values.tolist())]}

    def mat(self, st):
        m = self.fl["mat"]
        if m in ("values", "both"):
            st.step_values
        if m in ("deltas", "both"):
            st.step_changes
        return st

    def nanv(self, v):
        return np.nan if v is None else float(v)

    def cl(self, c):
        """the closed side as the literal, or as an equal string that is a different object (built at run time)"""
        if self.fl.get("closedobj", "literal") == "built":
            return "".join([c[:2], c[2:]])
        return c

    def finish(self, st):
        """flavour closedobj='pickle': the operand went through pickle (as one returned from a worker process would)"""
        if self.fl.get("closedobj", "literal") == "pickle":
            import pickle
            return pickle.loads(pickle.dumps(st))
        return st

    # ---- leaf construction routes
    def build(self, s):
        init, rows, closed = s["init"], s["rows"], self.cl(s["closed"])
        route = self.fl["route"]
        anynan = init is None or any(v is None for _, v in rows)
        if not rows:
            return sc.Stairs(initial_value=self.nanv(init), closed=closed)
        if route == "from_values" or (anynan and route not in ("arith", "maskroute")):
            ser = pd.Series([self.nanv(v) for _, v in rows], index=[self.dom.to(k) for k, _ in rows], dtype=float)
            if self.fl.get("valdtype") == "int" and not anynan and all(F(v).denominator == 1 for _, v in rows):
                ser = ser.astype("int64")       # integer-typed step VALUES (the initial value may still be fractional)
            if self.dom.name in ("int", "bigint"):
                ser.index = ser.index.astype("int64")
            if self.dom.name == "dts":
                ser.index = pd.DatetimeIndex(ser.index).as_unit("s")      # a coarser-than-nanosecond index (pandas 2 keeps it)
            st = sc.Stairs.from_values(self.nanv(init), ser, closed=closed)
            ser.iloc[0] = ser.iloc[0] + 1      # the caller reuses its buffer: the function built from it must not follow
            return st
        if route == "maskroute" or (anynan and route == "arith"):
            # defined skeleton (NaN pieces filled with 0) built by layering, undefined pieces masked afterwards
            st = sc.Stairs(initial_value=0.0 if init is None else float(init), closed=closed)
            prev = F(0) if init is None else init
            for k, v in rows:
                vv = F(0) if v is None else v
                if vv != prev:
                    st.layer(self.dom.to(k), None, float(vv - prev))
                prev = vv
            pieces = [(None, rows[0][0], init)] + [(rows[i][0], rows[i + 1][0] if i + 1 < len(rows) else None, rows[i][1])
                                                  for i in range(len(rows))]
            for a, b, v in pieces:
                if v is None:
                    st = st.mask((self.dom.to(a), self.dom.to(b)))
            return st
        # NaN-free: layering routes
        ks = [self.dom.to(k) for k, _ in rows]
        if self.dom.name == "dts":      # second-resolution scalars / arrays / columns
            ks = [k.as_unit("s") for k in ks]
        prev = init
        deltas = []
        for _, v in rows:
            deltas.append(float(v - prev))
            prev = v
        st = sc.Stairs(initial_value=float(init), closed=closed)
        if self.fl.get("valdtype") == "int" and all(F(d).denominator == 1 for d in deltas) and F(init).denominator == 1:
            deltas = [int(d) for d in deltas]       # integer-typed values: the vector routes then build int64 step changes
            st = sc.Stairs(initial_value=int(init), closed=closed)
        if route == "layer":
            for k, d in zip(ks, deltas):
                if d != 0:
                    st.layer(k, None, d)
        elif route == "layer_vec":
            st.layer(ks, None, deltas)
        elif route == "tuple":
            st.layer(tuple(ks), None, tuple(deltas))
        elif route == "ndarray":
            ka, da = (np.array(ks, dtype="datetime64[s]") if self.dom.name == "dts" else np.array(ks)), np.array(deltas)
            st.layer(ka, None, da)
            da += 1                            # the caller reuses its buffers afterwards
            if ka.dtype.kind in "if":
                ka += 1
        elif route == "series":
            idx = list(range(100, 100 + len(ks)))[::-1]
            st.layer(pd.Series(ks, index=idx), None, pd.Series(deltas, index=idx).values)
        elif route == "frame":
            df = pd.DataFrame({"s": ks, "v": deltas})
            st.layer("s", None, "v", frame=df)
        elif route == "arith":
            st2 = sc.Stairs(initial_value=0.0, closed=closed)
            for k, d in zip(ks, deltas):
                if d != 0:
                    st2.layer(k, None, d)
            st = (st2 + float(init)) if init != 0 else (st2 + 0)
        else:
            raise ValueError(route)
        return st

    def container(self, kind, regs, ms):
        """a StairsArray / Series of the members; with flavour persist=True the container built for a member list is kept
        and used again by later aggregations over the same registers (members rebound since then are assigned into it)"""
        mk = (lambda: sc.StairsArray(ms)) if kind == "array" else (lambda: pd.Series(ms, dtype="Stairs"))
        if not self.fl.get("persist"):
            return mk()
        key = (kind, tuple(regs))
        if key not in self.colls:
            self.colls[key] = (mk(), list(ms))
            return self.colls[key][0]
        coll, old = self.colls[key]
        for i, (a, b) in enumerate(zip(old, ms)):
            if a is not b:
                if kind == "array":
                    coll[i] = b
                else:
                    coll.iloc[i] = b
                old[i] = b
        return coll

    def arg(self, a):
        if "reg" in a:
            return self.regs[a["reg"]]
        return scalar(a["const"], self.fl["scalar"])

    def xs(self, xs):
        return [self.dom.to(x) for x in xs]

    def bound(self, x):
        return None if x is None else self.dom.to(x)

    # ---- statements
    def step(self, s):
        k = s["s"]
        R = self.regs
        if k == "new":
            R[s["r"]] = self.finish(sc.Stairs(initial_value=scalar(s["init"], self.fl["scalar"]), closed=self.cl(s["closed"])))
            return self.frame_obs(R[s["r"]])
        if k == "from_values":
            R[s["r"]] = self.mat(self.finish(self.build(s)))
            return self.frame_obs(R[s["r"]])
        if k == "layer":
            st = R[s["r"]]
            if s["mode"] == "scalar":
                v = s["value"]
                args = (self.bound(s["start"]), self.bound(s["end"])) + (() if v is None else (scalar(v, self.fl["scalar"]),))
                ret = st.layer(*args)
            else:
                ts = s["triples"]
                starts = [self.bound(a) for a, _, _ in ts]
                ends = [self.bound(b) for _, b, _ in ts]
                vals = [float(v) for _, _, v in ts]
                if self.fl.get("valdtype") == "int" and all(F(v).denominator == 1 for _, _, v in ts):
                    vals = [int(v) for _, _, v in ts]      # integer-typed values (int64 step changes on a fresh receiver)
                lr = self.fl["lroute"]
                # trailing missing entries of the shorter vector may simply be left out
                if lr == "short":
                    while ends and ends[-1] is None:
                        ends.pop()
                    lr = "list"
                if lr == "frame":
                    df = pd.DataFrame({"a": starts, "b": ends, "v": vals})
                    ret = st.layer("a", "b", "v", frame=df)
                elif lr == "series":
                    idx = list(range(50, 50 + len(ts)))[::-1]
                    ret = st.layer(pd.Series(starts, index=idx), pd.Series(ends, index=idx[::-1]), np.array(vals))
                elif lr == "series_offset":
                    # Series carrying a non-default RangeIndex (slices of longer Series / frames): still positional
                    st_ser = pd.Series([starts[0]] + starts).iloc[1:]
                    if len(ts) % 2:
                        en_arg = ends
                    else:
                        en_arg = pd.DataFrame({"e": ends + ends})["e"].iloc[len(ends):]
                    ret = st.layer(st_ser, en_arg, np.array(vals))
                elif lr == "ndarray" and all(x is not None for x in starts + ends):
                    ret = st.layer(np.array(starts), np.array(ends), np.array(vals))
                elif lr == "tuple":
                    ret = st.layer(tuple(starts), tuple(ends), tuple(vals))
                else:
                    ret = st.layer(starts, ends if ends else None, vals)
            if ret is not st:
                return {"t": "err", "e": "other", "type": "LayerReturn", "msg": "layer did not return the receiver"}
            return self.frame_obs(st)
        if k == "read":
            st = R[s["r"]]
            if s["kind"] == "values":
                return self.ser_obs(st.step_values)
            if s["kind"] == "deltas":
                return self.ser_obs(st.step_changes)
            fr_ = st.to_frame()
            vals = [num(v) for v in fr_["value"].tolist()]
            rows = [(self.dom.back(kk), v) for kk, v in zip(fr_["start"].tolist()[1:], vals[1:])]
            return {"t": "frame", "closed": st.closed, "init": vals[0], "rows": rows}
        if k == "un":
            a = R[s["a"]]
            op = s["op"]
            meth = self.fl.get("opform") == "method"
            r = {"neg": (a.negate if meth else (lambda: -a)), "invert": (a.invert if meth else (lambda: ~a)), "make_boolean": a.make_boolean, "isna": a.isna,
                 "notna": a.notna, "copy": a.copy, "ffill": lambda: a.fillna("ffill"),
                 "bfill": lambda: a.fillna("bfill")}[op]()
            R[s["r"]] = r
            return self.frame_obs(r)
        if k == "bin":
            import operator as o
            a, b = self.arg(s["a"]), self.arg(s["b"])
            f = {"add": o.add, "sub": o.sub, "mul": o.mul, "div": o.truediv, "lt": o.lt, "le": o.le, "gt": o.gt,
                 "ge": o.ge, "eq": o.eq, "ne": o.ne, "and": o.and_, "or": o.or_, "xor": o.xor}[s["op"]]
            if self.fl.get("opform") == "method":      # the named methods and their reflected forms instead of the operators
                fwd, rev = {"add": ("add", "radd"), "sub": ("subtract", "rsubtract"), "mul": ("multiply", "rmultiply"),
                            "div": ("divide", "rdivide"), "lt": ("lt", "gt"), "le": ("le", "ge"), "gt": ("gt", "lt"),
                            "ge": ("ge", "le"), "eq": ("eq", "eq"), "ne": ("ne", "ne"), "and": ("logical_and", "logical_rand"),
                            "or": ("logical_or", "logical_ror"), "xor": ("logical_xor", "logical_rxor")}[s["op"]]
                if isinstance(a, sc.Stairs):
                    r = getattr(a, fwd)(b)
                elif isinstance(b, sc.Stairs):
                    r = getattr(b, rev)(a)
                else:
                    r = f(a, b)
            else:
                r = f(a, b)
            if not isinstance(r, sc.Stairs):
                return {"t": "err", "e": "other", "type": "NotStairs", "msg": f"operator returned {type(r).__name__}"}
            R[s["r"]] = r
            return self.frame_obs(r)
        if k == "clip":
            r = R[s["a"]].clip(self.bound(s["lo"]), self.bound(s["hi"]))
            R[s["r"]] = r
            return self.frame_obs(r)
        if k == "mask":
            f = R[s["a"]]
            r = f.where(R[s["m"]]) if s["inverse"] else f.mask(R[s["m"]])
            R[s["r"]] = r
            return self.frame_obs(r)
        if k == "maskt":
            f = R[s["a"]]
            t = (self.bound(s["lo"]), self.bound(s["hi"]))
            r = f.where(t) if s["inverse"] else f.mask(t)
            R[s["r"]] = r
            return self.frame_obs(r)
        if k == "fills":
            r = R[s["a"]].fillna(scalar(s["c"], self.fl["scalar"]))
            R[s["r"]] = r
            return self.frame_obs(r)
        if k == "fillg":
            r = R[s["a"]].fillna(R[s["g"]])
            R[s["r"]] = r
            return self.frame_obs(r)
        if k == "shift":
            r = R[s["a"]].shift(self.dom.delta(s["d"]))
            R[s["r"]] = r
            return self.frame_obs(r)
        if k == "diff":
            r = R[s["a"]].diff(self.dom.delta(s["d"]))
            R[s["r"]] = r
            return self.frame_obs(r)
        if k == "resample":
            r = self.slicer(R[s["a"]], s).resample(s["stat"])
            R[s["r"]] = r
            return self.frame_obs(r)
        if k == "agg":
            ms = [R[m] for m in s["ms"]]
            cont = self.fl.get("coll", "list")
            if cont == "tuple":
                coll = tuple(ms)
            elif cont == "dict":
                coll = {f"k{i}": m for i, m in enumerate(ms)}
            elif cont == "ndarray":
                coll = np.array(ms, dtype=object)
            elif cont == "series":
                coll = self.container("series", s["ms"], ms)
            elif cont == "array":
                coll = self.container("array", s["ms"], ms)
            else:
                coll = list(ms)
            fn = {"sum": sc.sum, "mean": sc.mean, "median": sc.median, "min": sc.min, "max": sc.max,
                  "logical_or": sc.logical_or, "logical_and": sc.logical_and}[s["g"]]
            if cont == "accessor" and s["g"] in ("logical_or", "logical_and"):
                r = getattr(pd.Series(ms, dtype="Stairs").sc, s["g"])()
            elif cont == "method":
                r = getattr(self.container("array", s["ms"], ms), s["g"])()
            else:
                r = fn(coll)
            R[s["r"]] = r
            return self.frame_obs(r)
        if k == "arrbin":
            import operator as o
            arr = sc.StairsArray([R[a] for a in s["as"]])
            b = s["b"]
            if "regs" in b:
                other = sc.StairsArray([R[x] for x in b["regs"]])
            elif "reg" in b:
                other = R[b["reg"]]
            else:
                other = scalar(b["const"], self.fl["scalar"])
                if isinstance(other, (np.floating, np.integer)):
                    other = other.item()
            f = {"add": o.add, "sub": o.sub, "mul": o.mul, "div": o.truediv, "lt": o.lt, "le": o.le, "gt": o.gt,
                 "ge": o.ge, "eq": o.eq, "ne": o.ne}[s["op"]]
            try:
                res = f(arr, other)
                if not isinstance(res, sc.StairsArray) or len(res) != len(s["rs"]):
                    raise TypeError(f"array operator returned {type(res).__name__}")
                obs = []
                for r, el in zip(s["rs"], list(res.data)):
                    R[r] = el
                    obs.append(self.frame_obs(el))
            except Exception as exc:
                # the whole array operation raises as soon as one pair does: check that some pair, applied on its
                # own, raises the same kind of error; the elements are then not compared
                pair_err = False
                for a_, i_ in zip(s["as"], range(len(s["as"]))):
                    bo = R[b["regs"][i_]] if "regs" in b else other
                    try:
                        f(R[a_], bo)
                    except Exception as exc2:
                        pair_err = pair_err or type(exc2) is type(exc)
                obs = [{"t": "skip"} if pair_err else err_obs(exc) for _ in s["rs"]]
            return {"t": "multi", "obs": obs}
        if k == "arrtable":
            coll = [R[r] for r in s["regs"]]
            cont = self.fl.get("coll", "list")
            if cont == "dict":
                coll = {f"k{i}": m for i, m in enumerate(coll)}
            elif cont == "tuple":
                coll = tuple(coll)
            xs = self.xs(s["xs"])
            if str(self.fl.get("vec", "")).startswith("coarse"):
                xs = container(xs, self.fl["vec"])
            if s["kind"] == "sample":
                df = sc.sample(coll, xs)
            else:
                df = sc.limit(coll, xs, side=s["side"])
            return {"t": "multi", "obs": [{"t": "vals", "vals": [num(v) for v in row]} for row in df.values.tolist()]}
        if k == "slicehist":
            st = R[s["r"]]
            ii = pd.IntervalIndex.from_tuples([(float(a), float(b)) for a, b in s["bins"]], closed=s["closed"])
            conv = (lambda v: num(v)) if (self.dom.name in ("float", "int") or s["stat"] in ("probability", "density")) else self.dom.length_back
            try:
                if self.fl.get("slicecall") == "applyargs":       # bins given positionally, as Stairs.hist accepts them
                    df = self.slicer(st, s).hist(ii, stat=s["stat"])
                else:
                    df = self.slicer(st, s).hist(bins=ii, stat=s["stat"])
                obs = []
                for row in df.values.tolist():
                    obs += [{"t": "skip"}, {"t": "vals", "vals": [conv(v) for v in row]}]
            except Exception as exc:
                # the whole call raises as soon as one slice has no histogram (no finite piece on which the function is
                # defined): check that some slice raises on its own; nothing is compared then
                one_err = False
                for a, b in s["ivs"]:
                    try:
                        st.clip(self.dom.to(a), self.dom.to(b)).hist(bins=ii, stat=s["stat"])
                    except Exception:
                        one_err = True
                obs = []
                for _ in s["ivs"]:
                    obs += [{"t": "skip"}, {"t": "skip"} if one_err else err_obs(exc)]
            return {"t": "multi", "obs": obs}
        if k == "arrcov":
            coll = [R[r] for r in s["regs"]]
            kw = {"where": self.where_arg(s)}
            try:
                df = (sc.cov if s["kind"] == "cov" else sc.corr)(coll, **kw)
            except Exception as exc:
                # the matrix call raises as soon as one pairwise call does: check that some pair raises the same kind
                # of error on its own; the entries are then not compared
                pair_err = False
                for a_ in coll:
                    for b_ in coll:
                        try:
                            getattr(a_, s["kind"])(b_, **kw)
                        except Exception as exc2:
                            pair_err = pair_err or type(exc2) is type(exc)
                n_ = len(coll)
                cnt = n_ * n_
                return {"t": "multi", "obs": [{"t": "skip"} if pair_err else err_obs(exc) for _ in range(cnt)]}
            m = df.values
            if not np.allclose(m, m.T, equal_nan=True):
                return {"t": "multi", "obs": [{"t": "err", "e": "other", "type": "Asymmetric", "msg": "matrix not symmetric"}] * (len(coll) ** 2)}
            obs = []
            n = len(coll)
            for i in range(n):
                for j in range(n):
                    c = num(m[i, j])
                    if s["kind"] == "corr" and c is not None:
                        c = F(float(c) * abs(float(c)))
                    obs.append({"t": "val", "val": c})
            return {"t": "multi", "obs": obs}
        if k == "query":
            return self.query(s)
        raise ValueError(k)

    def slicer(self, st, s):
        ivs = [(self.dom.to(a), self.dom.to(b)) for a, b in s["ivs"]]
        contiguous = all(ivs[i][1] == ivs[i + 1][0] for i in range(len(ivs) - 1))
        how = self.fl.get("cuts", "index")
        if how == "breaks" and contiguous and ivs:
            cuts = [ivs[0][0]] + [b for _, b in ivs]
            if str(self.fl.get("vec", "")).startswith("coarse"):
                cuts = container(cuts, self.fl["vec"])        # break points as a second-resolution array / index
            return st.slice(cuts, closed=s["icl"])
        if (how == "period" and self.dom.name == "dt" and ivs
                and all(F(a).denominator == 1 and F(b) == F(a) + 1 for a, b in s["ivs"])):
            # hourly periods (consecutive or not, in any order): period k is the interval from k to k + 1 of the unit
            return st.slice(pd.PeriodIndex([pd.Period(a, freq="h") for a, _ in ivs]), closed=s["icl"])
        return st.slice(pd.IntervalIndex.from_tuples(ivs, closed=s["icl"]))

    def where_arg(self, s):
        """the window as the documented 'tuple or list of length two'; with flavour wherearg='reuse' the SAME list object is
        handed to every call of the program that names that window (a call that writes into its argument then shows in
        the next one)"""
        t = (self.bound(s.get("lo")), self.bound(s.get("hi")))
        w = self.fl.get("wherearg", "tuple")
        if w == "list":
            return list(t)
        if w == "reuse":
            key = (s.get("lo"), s.get("hi"))
            if key not in self.wheres:
                self.wheres[key] = list(t)
            return self.wheres[key]
        return t

    def query(self, s):
        st = self.regs[s["r"]]
        q = s["q"]
        d = self.dom
        if q in ("limit", "sample"):
            xs = self.xs(s["xs"])
            if q == "limit":
                one = [st.limit(x, s["side"]) for x in xs]
                vec = st.limit(container(xs, self.fl["vec"]), s["side"]) if xs else []
                inc = st.limit(container(xs, self.fl["vec"]), s["side"], include_index=True) if xs else []
            else:
                one = [st.sample(x) for x in xs]
                vec = st(container(xs, self.fl["vec"])) if xs else []
                inc = st.sample(container(xs, self.fl["vec"]), include_index=True) if xs else []
            a = [num(v) for v in one]
            b = [num(v) for v in list(vec)]
            c = [num(v) for v in list(getattr(inc, "values", inc))]
            if not (a == b == c):
                return {"t": "err", "e": "other", "type": "FormsDisagree", "msg": f"scalar {a} vector {b} include_index {c}"}
            return {"t": "vals", "vals": a}
        if q == "identical":
            return {"t": "bool", "b": bool(st.identical(self.arg(s["a"])))}
        if q == "bool":
            return {"t": "bool", "b": bool(st)}
        if q == "nsteps":
            return {"t": "nat", "n": int(st.number_of_steps)}
        if q == "points":
            return {"t": "keys", "keys": [d.back(x) for x in list(st.step_points)]}
        if q == "closed":
            return {"t": "bool", "b": st.closed == "left"}
        if q == "integral":
            try:
                v = st.integral()
            except OverflowError:
                # beyond the range of a Timedelta: a documented limit. The refusal must be repeatable (C14): asked again,
                # the same object refuses again instead of handing out whatever the first attempt left behind
                try:
                    again = st.integral()
                except OverflowError:
                    return {"t": "skip"}
                return {"t": "err", "e": "other", "type": "Inconsistent", "msg": f"integral() raised OverflowError, then returned {again!r}"}
            return {"t": "val", "val": d.length_back(v)}
        if q == "mean":
            return {"t": "val", "val": num(st.mean())}
        if q == "var":
            v, sd = st.var(), st.std()
            if not (num(v) is None and num(sd) is None) and not math.isclose(float(sd) ** 2, float(v), rel_tol=1e-9, abs_tol=1e-12):
                return {"t": "err", "e": "other", "type": "StdVar", "msg": f"std {sd} var {v}"}
            return {"t": "val", "val": num(v)}
        if q == "median":
            return {"t": "val", "val": num(st.median())}
        if q == "mode":
            return {"t": "val", "val": num(st.mode())}
        if q == "value_sums":
            vs = st.value_sums()
            if vs is None:
                return {"t": "none"}
            return {"t": "qser", "rows": [(num(k), d.length_back(v)) for k, v in zip(vs.index.tolist(), vs.values.tolist())]}
        if q == "ecdf":
            ys = [float(y) for y in s["ys"]]
            if s["side"] == "right":
                vals = [st.ecdf(y) for y in ys]
                vals2 = list(st.ecdf.limit(ys, "right"))
                if [num(v) for v in vals] != [num(v) for v in vals2]:
                    return {"t": "err", "e": "other", "type": "FormsDisagree", "msg": "ecdf call vs limit right"}
            else:
                vals = [st.ecdf.limit(y, "left") for y in ys]
            return {"t": "vals", "vals": [num(v) for v in vals]}
        if q == "percentile":
            ps = [float(p) for p in s["ps"]]
            a = [num(st.percentile(p)) for p in ps]
            b = [num(st.fractile(p / 100)) for p in ps]
            return {"t": "vals", "vals": a, "alt": b}
        if q == "fractile":
            ps = [float(p) for p in s["ps"]]
            n_ = len(s["ps"]) + 1
            if self.fl.get("opform") == "method" and n_ >= 2 and list(s["ps"]) == [F(i, n_) for i in range(1, n_)]:
                return {"t": "vals", "vals": [num(v) for v in st.quantiles(n_)]}      # quantiles(q): the fractiles at i/q
            return {"t": "vals", "vals": [num(st.fractile(p)) for p in ps]}
        if q == "hist":
            ii = pd.IntervalIndex.from_tuples([(float(a), float(b)) for a, b in s["bins"]], closed=s["closed"])
            if s.get("unit"):       # the default bins="unit": the generator states which bins that must be
                h = st.hist(bins="unit", closed=s["closed"], stat=s["stat"])
                if not (len(h.index) == len(ii) and all(a.left == b.left and a.right == b.right and a.closed == b.closed for a, b in zip(h.index, ii))):
                    return {"t": "err", "e": "other", "type": "UnitBins", "msg": f"unit bins {list(h.index)[:6]} expected {list(ii)[:6]}"}
            else:
                h = st.hist(bins=ii, stat=s["stat"])
            return {"t": "vals", "vals": [num(v) if d.name in ("float", "int") or s["stat"] in ("probability", "density") else d.length_back(v)
                                           for v in h.values.tolist()]}
        if q == "vir":
            kw = {} if s.get("closed") is None else {"closed": s["closed"]}
            return {"t": "keys", "keys": [num(v) for v in list(st.values_in_range(self.where_arg(s), **kw))]}
        if q in ("min", "max"):
            plain = s.get("lo") is None and s.get("hi") is None and s.get("closed") is None
            if plain:
                v = getattr(st, q)()
                v2 = st.agg(q)
                if num(v) != num(v2):
                    return {"t": "err", "e": "other", "type": "FormsDisagree", "msg": f"{q}() {v} agg {v2}"}
            else:
                kw = {} if s.get("closed") is None else {"closed": s["closed"]}
                v = st.agg(q, self.where_arg(s), **kw)
            return {"t": "val", "val": num(v)}
        if q == "agg":
            kw = {} if s.get("closed") is None else {"closed": s["closed"]}
            name = s["name"]
            if name == "var":
                v = st.agg("var", self.where_arg(s), **kw)
                return {"t": "val", "val": num(v)}
            if self.fl.get("opform") == "method":      # the list form returns a Series indexed by the names
                v = st.agg([name], self.where_arg(s), **kw)[name]
            else:
                v = st.agg(name, self.where_arg(s), **kw)
            return {"t": "val", "val": d.length_back(v) if name == "integral" else num(v)}
        if q == "slicer":
            sl = self.slicer(st, s)
            name = s["stat"]
            how = self.fl.get("slicecall", "direct")
            if how == "agg":
                res = sl.agg([name])[name]
            elif how == "apply" and name in ("mean", "integral", "median", "mode"):
                res = sl.apply(getattr(sc.Stairs, name))
            elif how == "applyargs" and name in ("mean", "integral", "median", "mode"):
                res = sl.apply(sc.Stairs.agg, name)        # extra positional arguments are handed on to the function
            else:
                res = getattr(sl, name)()
            conv = d.length_back if name == "integral" else num
            return {"t": "vals", "vals": [conv(v) for v in list(res.values)]}
        if q in ("cov", "corr"):
            other = self.regs[s["b"]]
            kw = {}
            if s.get("lo") is not None or s.get("hi") is not None:
                kw["where"] = self.where_arg(s)
            lag = s.get("lag", 0)
            if lag != 0:
                kw["lag"] = d.delta(lag)
                kw["clip"] = s.get("clip", "pre")
            v = getattr(st, q)(other, **kw)
            if q == "cov":
                return {"t": "val", "val": num(v)}
            c = num(v)
            return {"t": "val", "val": None if c is None else F(float(c) * abs(float(c)))}
        if q == "rolling":
            kw = {}
            if s.get("lo") is not None or s.get("hi") is not None:
                kw["where"] = self.where_arg(s)
            res = st.rolling_mean(window=(d.delta(s["l"]), d.delta(s["rr"])), **kw)
            return {"t": "rows", "rows": [(d.back(k), num(v)) for k, v in zip(res.index.tolist(), res.values.tolist())]}
        if q == "describe":
            kw = {}
            if s.get("lo") is not None or s.get("hi") is not None:
                kw["where"] = self.where_arg(s)
            res = st.describe(percentiles=[float(p) for p in s["ps"]], **kw)
            vals = list(res.values)
            out = [num(vals[0]), num(vals[1]), None if num(vals[2]) is None else F(float(vals[2]) ** 2)] + [num(v) for v in vals[3:]]
            return {"t": "vals", "vals": out}
        raise ValueError(q)

    def run(self, prog):
        out = []
        for s in prog:
            before = dict(self.regs)
            try:
                o = self.step(s)
                if o.get("t") == "multi":
                    out.extend(o["obs"])
                    continue
                if s["s"] not in ("layer", "read", "query") and s.get("r") in self.regs:
                    new = self.regs[s["r"]]
                    for k, old in before.items():
                        if new is old:      # C13: a result is never one of the operands / existing objects
                            o = {"t": "err", "e": "other", "type": "Alias", "msg": f"result of {s['s']} is the object in register {k}"}
                out.append(o)
            except Exception as exc:  # noqa
                n = len(s["rs"]) if s["s"] == "arrbin" else (len(s["regs"]) if s["s"] == "arrtable" else
                     (len(s["regs"]) ** 2 if s["s"] == "arrcov" else 1))
                out.extend([err_obs(exc)] * n)
        return out


def run_program(prog, flav=None):
    return Runner(flav).run(prog)
