(* Base/Val.v — values of a step function: V := option Qc, None standing for NaN ("undefined").
   There is no infinity in V: x / 0 is None, which is what property C01 demands of the code. *)
From Coq Require Import List Bool ZArith QArith Qcanon.
Import ListNotations.
Open Scope Qc_scope.

Definition V := option Qc.

Definition q (n : Z) (d : positive) : Qc := Q2Qc (n # d).
Definition vq (n : Z) (d : positive) : V := Some (q n d).
Definition VNaN : V := None.

Definition Qceqb (a b : Qc) : bool := Qc_eq_bool a b.
Definition Qcltb (a b : Qc) : bool := match (this a ?= this b)%Q with Lt => true | _ => false end.
Definition Qcleb (a b : Qc) : bool := negb (Qcltb b a).

Lemma Qceqb_eq a b : Qceqb a b = true <-> a = b.
Proof.
  unfold Qceqb. split.
  - apply Qc_eq_bool_correct.
  - intros ->. unfold Qc_eq_bool. destruct (Qc_eq_dec b b); [reflexivity|congruence].
Qed.

Lemma Qcltb_lt a b : Qcltb a b = true <-> a < b.
Proof.
  unfold Qcltb, Qclt, Qlt. rewrite <- Z.compare_lt_iff. unfold Qcompare.
  destruct (_ ?= _)%Z; split; congruence.
Qed.

Lemma Qcltb_irrefl a : Qcltb a a = false.
Proof. destruct (Qcltb a a) eqn:E; auto. apply Qcltb_lt in E. exfalso. eapply Qclt_not_eq; eauto. Qed.

Definition is_nan (a : V) : bool := match a with None => true | Some _ => false end.

Definition veqb (a b : V) : bool :=
  match a, b with
  | None, None => true
  | Some x, Some y => Qceqb x y
  | _, _ => false
  end.

Lemma veqb_eq a b : veqb a b = true <-> a = b.
Proof.
  destruct a as [x|], b as [y|]; simpl; try (split; congruence).
  rewrite Qceqb_eq. split; congruence.
Qed.

Lemma veqb_refl a : veqb a a = true.
Proof. apply veqb_eq. reflexivity. Qed.

Definition vlift2 (f : Qc -> Qc -> Qc) (a b : V) : V :=
  match a, b with Some x, Some y => Some (f x y) | _, _ => None end.

Definition vadd := vlift2 Qcplus.
Definition vsub := vlift2 Qcminus.
Definition vmul := vlift2 Qcmult.
Definition vdiv (a b : V) : V :=
  match a, b with
  | Some x, Some y => if Qceqb y 0 then None else Some (x / y)
  | _, _ => None
  end.
Definition vneg (a : V) : V := match a with Some x => Some (- x) | None => None end.

Definition b2q (b : bool) : Qc := if b then 1 else 0.
Definition vbool (b : bool) : V := Some (b2q b).

Inductive relop := RLt | RLe | RGt | RGe | REq | RNe.
Definition rel_holds (r : relop) (x y : Qc) : bool :=
  match r with
  | RLt => Qcltb x y | RLe => Qcleb x y | RGt => Qcltb y x | RGe => Qcleb y x
  | REq => Qceqb x y | RNe => negb (Qceqb x y)
  end.
Definition vrel (r : relop) (a b : V) : V :=
  match a, b with Some x, Some y => vbool (rel_holds r x y) | _, _ => None end.

Inductive logop := LAnd | LOr | LXor.
Definition truthy (x : Qc) : bool := negb (Qceqb x 0).
Definition log_holds (l : logop) (x y : Qc) : bool :=
  match l with
  | LAnd => truthy x && truthy y | LOr => truthy x || truthy y | LXor => xorb (truthy x) (truthy y)
  end.
Definition vlog (l : logop) (a b : V) : V :=
  match a, b with Some x, Some y => vbool (log_holds l x y) | _, _ => None end.

Definition vtruth (a : V) : V := match a with Some x => vbool (truthy x) | None => None end.   (* make_boolean *)
Definition vnot (a : V) : V := match a with Some x => vbool (negb (truthy x)) | None => None end. (* invert *)
Definition visna (a : V) : V := vbool (is_nan a).
Definition vnotna (a : V) : V := vbool (negb (is_nan a)).

Inductive arith := OAdd | OSub | OMul | ODiv.
Definition varith (o : arith) : V -> V -> V :=
  match o with OAdd => vadd | OSub => vsub | OMul => vmul | ODiv => vdiv end.

(* every binary operator of the public API *)
Inductive binop := BArith (o : arith) | BRel (r : relop) | BLog (l : logop).
Definition vbin (o : binop) : V -> V -> V :=
  match o with BArith a => varith a | BRel r => vrel r | BLog l => vlog l end.

Lemma vbin_nan_l o b : vbin o None b = None.
Proof. destruct o as [[]|r|l]; reflexivity. Qed.
Lemma vbin_nan_r o a : vbin o a None = None.
Proof. destruct o as [[]|r|l]; destruct a; reflexivity. Qed.

(* fillna, mask, where at a point *)
Definition vfill (a b : V) : V := match a with Some _ => a | None => b end.
Definition vmask (a m : V) : V := (* f.mask(g): f where g is defined and zero *)
  match m with Some y => if Qceqb y 0 then a else None | None => None end.
Definition vwhere (a m : V) : V := (* f.where(g): f where g is defined and non-zero *)
  match m with Some y => if Qceqb y 0 then None else a | None => None end.
