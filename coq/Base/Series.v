(* Base/Series.v — a pandas Series with a sorted unique index, as an association list, and the
   pandas / numpy primitives the code uses (assumed semantics; DESIGN.md section 2.4).
   Definitions only; the lemmas are in Proofs/SeriesFacts.v. *)
From Coq Require Import List Bool Arith.
Import ListNotations.
Require Import SC.Base.Ord.
Set Implicit Arguments.

Section Series.
Context {D : Type} `{Ord D}.
Variable A : Type.

Definition series := list (D * A).
Definition keys (l : series) : list D := map fst l.
Definition vals (l : series) : list A := map snd l.
Definition sorted (l : series) : Prop := ksorted (keys l).

(* value of the last step at/before x (right limit: strict = false; left limit: strict = true) *)
Fixpoint lookup (strict : bool) (v0 : A) (l : series) (x : D) : A :=
  match l with
  | [] => v0
  | (p, v) :: t => if before strict p x then lookup strict v t x else v0
  end.

(* np.searchsorted / bisect on a sorted index: number of leading keys before x.
   strict = false : side='right' / bisect_right (keys <= x); strict = true : side='left' / bisect_left *)
Fixpoint count_before (strict : bool) (ks : list D) (x : D) : nat :=
  match ks with
  | [] => 0
  | p :: t => if before strict p x then S (count_before strict t x) else 0
  end.

(* Stairs.limit: amended_values[searchsorted(index, x, side) - 1], the initial value sitting at index -1 *)
Definition limit_idx (strict : bool) (v0 : A) (l : series) (x : D) : A :=
  match count_before strict (keys l) x with
  | 0 => v0
  | S k => nth k (vals l) v0
  end.

(* Index.union of two sorted unique indexes *)
Fixpoint union (a : list D) : list D -> list D :=
  match a with
  | [] => fun b => b
  | x :: a' =>
      fix inner (b : list D) : list D :=
        match b with
        | [] => x :: a'
        | y :: b' =>
            if ltb x y then x :: union a' b
            else if ltb y x then y :: inner b'
            else x :: union a' b'
        end
  end.

(* values.reindex(idx, method="ffill") followed by  loc[idx < first] = initial value *)
Definition reindex_values (idx : list D) (v0 : A) (l : series) : series :=
  map (fun p => (p, lookup false v0 l p)) idx.

Definition map_vals (B : Type) (f : A -> B) (l : series) : list (D * B) :=
  map (fun pv => (fst pv, f (snd pv))) l.

Definition map_keys (E : Type) (f : D -> E) (l : series) : list (E * A) :=
  map (fun pv => (f (fst pv), snd pv)) l.

(* keep the rows whose flag is false (DataFrame.loc[~remove_index]) *)
Fixpoint drop_flagged (m : list bool) (l : series) : series :=
  match m, l with
  | b :: m', r :: l' => if b then drop_flagged m' l' else r :: drop_flagged m' l'
  | _, _ => []
  end.

(* sorted insert-or-update at a key (Series.loc[p] = / += followed by sort_index) *)
Fixpoint upsert (p : D) (ins : A) (upd : A -> A) (l : series) : series :=
  match l with
  | [] => [(p, ins)]
  | (k, a) :: t =>
      if ltb p k then (p, ins) :: l
      else if ltb k p then (k, a) :: upsert p ins upd t
      else (k, upd a) :: t
  end.

Fixpoint find (p : D) (l : series) : option A :=
  match l with
  | [] => None
  | (k, a) :: t => if ltb k p then find p t else if ltb p k then None else Some a
  end.

Fixpoint remove_key (p : D) (l : series) : series :=
  match l with
  | [] => []
  | (k, a) :: t => if deqb k p then t else (k, a) :: remove_key p t
  end.

(* last element *)
Fixpoint last_opt (l : list A) : option A :=
  match l with [] => None | [a] => Some a | _ :: t => last_opt t end.

End Series.

Arguments lookup {D _ A}.
Arguments count_before {D _}.
Arguments limit_idx {D _ A}.
Arguments union {D _}.
Arguments reindex_values {D _ A}.
Arguments keys {D A}.
Arguments vals {D A}.
Arguments sorted {D _ A}.
Arguments map_vals {D A B}.
Arguments map_keys {D A E}.
Arguments drop_flagged {D A}.
Arguments upsert {D _ A}.
Arguments find {D _ A}.
Arguments remove_key {D _ A}.
Arguments last_opt {A}.
