(* Base/Ord.v — the domain of a step function: any type with a boolean strict total order.
   Everything order-only in the model (sampling, operators, masking, layering on step changes,
   aggregation ...) is defined and proved generically over [Ord D]. *)
From Coq Require Import List Bool.
Import ListNotations.
Set Implicit Arguments.

Class Ord (D : Type) := {
  ltb : D -> D -> bool;
  ltb_irrefl : forall x, ltb x x = false;
  ltb_trans : forall x y z, ltb x y = true -> ltb y z = true -> ltb x z = true;
  ltb_total : forall x y, ltb x y = false -> ltb y x = false -> x = y }.

Section OrdFacts.
Context {D : Type} `{Ord D}.

Definition leb (x y : D) := negb (ltb y x).
Definition deqb (x y : D) := negb (ltb x y) && negb (ltb y x).

Lemma ltb_asym x y : ltb x y = true -> ltb y x = false.
Proof.
  intros Hxy. destruct (ltb y x) eqn:E; auto.
  rewrite <- (ltb_irrefl x). symmetry. eapply ltb_trans; eauto.
Qed.

Inductive cmp_spec (x y : D) : Type :=
| CLt : ltb x y = true -> ltb y x = false -> cmp_spec x y
| CEq : x = y -> cmp_spec x y
| CGt : ltb y x = true -> ltb x y = false -> cmp_spec x y.

Lemma cmpP x y : cmp_spec x y.
Proof.
  destruct (ltb x y) eqn:E1. { apply CLt; auto using ltb_asym. }
  destruct (ltb y x) eqn:E2. { apply CGt; auto. }
  apply CEq. apply ltb_total; auto.
Qed.

Lemma deqb_eq x y : deqb x y = true <-> x = y.
Proof.
  unfold deqb. split.
  - intros Hd. apply andb_true_iff in Hd. destruct Hd as [H1 H2].
    apply negb_true_iff in H1, H2. apply ltb_total; auto.
  - intros ->. rewrite ltb_irrefl. reflexivity.
Qed.

Lemma deqb_refl x : deqb x x = true.
Proof. apply deqb_eq; reflexivity. Qed.

Lemma leb_refl x : leb x x = true.
Proof. unfold leb. rewrite ltb_irrefl. reflexivity. Qed.

Lemma ltb_leb x y : ltb x y = true -> leb x y = true.
Proof. intros Hl. unfold leb. rewrite (ltb_asym _ _ Hl). reflexivity. Qed.

Lemma leb_ltb_trans x y z : leb x y = true -> ltb y z = true -> ltb x z = true.
Proof.
  unfold leb. intros Hxy Hyz. apply negb_true_iff in Hxy.
  destruct (cmpP x y) as [Hlt _|Heq|Hgt _].
  - eapply ltb_trans; eauto.
  - subst; auto.
  - congruence.
Qed.

Lemma ltb_leb_trans x y z : ltb x y = true -> leb y z = true -> ltb x z = true.
Proof.
  unfold leb. intros Hxy Hyz. apply negb_true_iff in Hyz.
  destruct (cmpP y z) as [Hlt _|Heq|Hgt _].
  - eapply ltb_trans; eauto.
  - subst; auto.
  - congruence.
Qed.

Lemma leb_trans x y z : leb x y = true -> leb y z = true -> leb x z = true.
Proof.
  intros Hxy Hyz. unfold leb. apply negb_true_iff.
  destruct (ltb z x) eqn:E; auto.
  assert (Hzy : ltb z y = true) by (eapply ltb_leb_trans; eauto).
  unfold leb in Hyz. rewrite Hzy in Hyz. discriminate.
Qed.

(* [before strict p x]: the step at [p] takes effect at or before [x] for the chosen limit side.
   strict = false : right limit (p <= x);  strict = true : left limit (p < x). *)
Definition before (strict : bool) (p x : D) := if strict then ltb p x else leb p x.

Lemma before_mono s lo p x : ltb lo p = true -> before s lo x = false -> before s p x = false.
Proof.
  unfold before, leb. destruct s; intros Hlt Hb.
  - destruct (cmpP p x) as [Hpx _|Heq|_ Hpx]; auto.
    + assert (ltb lo x = true) by (eapply ltb_trans; eauto). congruence.
    + subst x. congruence.
  - apply negb_false_iff in Hb. apply negb_false_iff. eapply ltb_trans; eauto.
Qed.

Lemma before_gt s q x : ltb x q = true -> before s q x = false.
Proof.
  intros Hlt. unfold before, leb. destruct s.
  - apply ltb_asym; auto.
  - rewrite Hlt; auto.
Qed.

Lemma before_lt s q x : ltb q x = true -> before s q x = true.
Proof.
  intros Hlt. unfold before, leb. destruct s; auto.
  rewrite (ltb_asym _ _ Hlt). reflexivity.
Qed.

Lemma before_trans s p q x : ltb p q = true -> before s q x = true -> before s p x = true.
Proof.
  intros Hpq Hb. destruct (before s p x) eqn:E; auto.
  rewrite (@before_mono s p q x Hpq E) in Hb. discriminate.
Qed.

(* strictly increasing key lists *)
Fixpoint ksorted_from (lo : D) (l : list D) : Prop :=
  match l with [] => True | p :: t => ltb lo p = true /\ ksorted_from p t end.
Definition ksorted (l : list D) : Prop :=
  match l with [] => True | p :: t => ksorted_from p t end.

Lemma ksorted_from_lt lo l q : ksorted_from lo l -> In q l -> ltb lo q = true.
Proof.
  revert lo. induction l as [|p t IH]; simpl; intros lo Hs Hin; [tauto|].
  destruct Hs as [Hlt Hs]. destruct Hin as [->|Hin]; auto. eapply ltb_trans; eauto.
Qed.

Lemma ksorted_from_weaken lo lo' l : ltb lo' lo = true -> ksorted_from lo l -> ksorted_from lo' l.
Proof. destruct l as [|p t]; simpl; auto. intros Hl [Hp Ht]. split; auto. eapply ltb_trans; eauto. Qed.

Lemma ksorted_from_ksorted lo l : ksorted_from lo l -> ksorted l.
Proof. destruct l as [|p t]; simpl; tauto. Qed.

Lemma ksorted_tail p l : ksorted (p :: l) -> ksorted l.
Proof. simpl. apply ksorted_from_ksorted. Qed.

Lemma ksorted_cons p l : ksorted (p :: l) <-> ksorted_from p l.
Proof. reflexivity. Qed.

Lemma ksorted_from_notin lo l : ksorted_from lo l -> ~ In lo l.
Proof. intros Hs Hin. pose proof (@ksorted_from_lt lo l lo Hs Hin) as Hlt. rewrite ltb_irrefl in Hlt. discriminate. Qed.

End OrdFacts.

(* Order tactics: case analysis on two keys *)
Ltac cmp_keys x y :=
  let H1 := fresh "Hlt" in let H2 := fresh "Hnlt" in let He := fresh "Heq" in
  destruct (cmpP x y) as [H1 H2|He|H1 H2]; [ | try subst | ].
