(* Base/QcOrd.v — the executable domain instance D := Qc (exact rationals) *)
From Coq Require Import List Bool ZArith QArith Qcanon.
Require Import SC.Base.Ord SC.Base.Val.
Open Scope Qc_scope.

Lemma Qcltb_trans x y z : Qcltb x y = true -> Qcltb y z = true -> Qcltb x z = true.
Proof. rewrite !Qcltb_lt. apply Qclt_trans. Qed.

Lemma Qcltb_total x y : Qcltb x y = false -> Qcltb y x = false -> x = y.
Proof.
  intros H1 H2. destruct (Qc_dec x y) as [[Hlt|Hgt]|Heq]; auto.
  - apply Qcltb_lt in Hlt. congruence.
  - apply Qcltb_lt in Hgt. congruence.
Qed.

#[export] Instance OrdQc : Ord Qc :=
  {| ltb := Qcltb; ltb_irrefl := Qcltb_irrefl; ltb_trans := Qcltb_trans; ltb_total := Qcltb_total |}.
