(* Proofs/QcDense.v — the executable domain Qc is dense and unbounded (non-vacuity of DenseOrd) *)
From Coq Require Import QArith Qcanon Lqa.
Require Import SC.Base.Ord SC.Base.Val SC.Base.QcOrd SC.Proofs.SamplingFacts.
Open Scope Qc_scope.

Lemma Qc_this_plus (a b : Qc) : (this (a + b) == this a + this b)%Q.
Proof. unfold Qcplus, Q2Qc. cbn [this]. apply Qred_correct. Qed.
Lemma Qc_this_opp (a : Qc) : (this (- a) == - this a)%Q.
Proof. unfold Qcopp, Q2Qc. cbn [this]. apply Qred_correct. Qed.
Lemma Qc_this_mult (a b : Qc) : (this (a * b) == this a * this b)%Q.
Proof. unfold Qcmult, Q2Qc. cbn [this]. apply Qred_correct. Qed.
Lemma Qc_this_minus (a b : Qc) : (this (a - b) == this a - this b)%Q.
Proof. unfold Qcminus. rewrite Qc_this_plus, Qc_this_opp. reflexivity. Qed.
Lemma Qc_this_Q2Qc (x : Q) : (this (Q2Qc x) == x)%Q.
Proof. unfold Q2Qc. cbn [this]. apply Qred_correct. Qed.

Definition half : Qc := Q2Qc (1 # 2).

#[export] Instance DenseQc : DenseOrd Qc.
Proof.
  constructor.
  - intros x y Hxy. exists ((x + y) * half). apply Qcltb_lt in Hxy. unfold Qclt in Hxy.
    split; apply Qcltb_lt; unfold Qclt; rewrite Qc_this_mult, Qc_this_plus; unfold half; rewrite Qc_this_Q2Qc; lra.
  - intros x. exists (x + 1). apply Qcltb_lt. unfold Qclt. rewrite Qc_this_plus. simpl. lra.
  - intros x. exists (x - 1). apply Qcltb_lt. unfold Qclt. rewrite Qc_this_minus. simpl. lra.
Defined.
