(* Proofs/InterpFacts.v — the integral of f over a window [u, v], as a function of the window, and the linear-interpolation
   clause of rolling_mean (C20): between two consecutive sample points no window edge crosses a step point, so the
   window integral - hence the window mean of a function defined throughout - is affine in x. *)
From Coq Require Import List Bool Arith Lia QArith Qcanon.
Import ListNotations.
Require Import SC.Base.Ord SC.Base.Val SC.Base.Series SC.Base.QcOrd.
Require Import SC.Model.Repr SC.Model.Ops SC.Model.Masking SC.Model.Sampling SC.Model.Stats SC.Model.Slicing.
Require Import SC.Spec.Den SC.Proofs.SeriesFacts SC.Proofs.SliceFacts SC.Proofs.ReprFacts SC.Proofs.ClipFacts SC.Proofs.AggFacts
               SC.Proofs.StatsFacts SC.Proofs.VarFacts SC.Proofs.RefineFacts SC.Proofs.CovSelfFacts SC.Proofs.CorrBoundFacts SC.Proofs.SlicingFacts SC.Proofs.MapKeysFacts.
Open Scope Qc_scope.

Notation ser := (list (Qc * V)).

(* ---- the step points of a clip to [u, v] are u, v and step points of f strictly between *)
Lemma keys_rr_subset : forall (l : ser) prev k, In k (keys (rr prev l)) -> In k (keys l).
Proof.
  induction l as [|[p v] t IH]; intros prev k H; [exact H|]. cbn [rr] in H. destruct (veqb prev v).
  - right. eapply IH. exact H.
  - destruct H as [E|H]; [left; exact E|right; eapply IH; exact H].
Qed.

Lemma in_firstn (A : Type) (l : list A) n x : In x (firstn n l) -> In x l.
Proof. intros H. rewrite <- (firstn_skipn n l). apply in_or_app. left. exact H. Qed.
Lemma in_skipn (A : Type) (l : list A) n x : In x (skipn n l) -> In x l.
Proof. intros H. rewrite <- (firstn_skipn n l). apply in_or_app. right. exact H. Qed.

Lemma in_keys (l : ser) k : In k (keys l) <-> exists v, In (k, v) l.
Proof.
  unfold keys. rewrite in_map_iff. split.
  - intros ([p v] & E & H). cbn in E. subst p. exists v. exact H.
  - intros (v & H). exists (k, v). split; [reflexivity|exact H].
Qed.

Lemma mid_keys (vs : ser) (a b : Qc) k : sorted vs ->
  In k (keys (firstn (count_before true (keys vs) b - count_before false (keys vs) a) (skipn (count_before false (keys vs) a) vs))) ->
  In k (keys vs) /\ ltb a k = true /\ ltb k b = true.
Proof.
  intros Hs H. set (li := count_before false (keys vs) a) in *. set (ri := count_before true (keys vs) b) in *.
  split; [|split].
  - apply in_keys in H. destruct H as (v & H). apply in_keys. exists v. apply (in_skipn _ vs li). apply (in_firstn _ _ (ri - li)). exact H.
  - pose proof (skipn_count_sorted_from a vs Hs) as S. fold li in S.
    eapply ksorted_from_lt; [exact S|]. apply in_keys in H. destruct H as (v & H). apply in_keys. exists v.
    apply (in_firstn _ _ (ri - li)). exact H.
  - destruct (Nat.le_gt_cases li ri) as [Hle|Hgt].
    + rewrite firstn_skipn_comm in H. apply in_keys in H. destruct H as (v & H). apply in_skipn in H.
      apply (firstn_count_keys_lt b vs (li + (ri - li)) k); [fold ri; lia|]. apply in_keys. exists v. exact H.
    + replace (ri - li)%nat with O in H by lia. destruct H.
Qed.

Lemma clip_keys (f c : stairsQ) (u v : Qc) k : wf f -> clip f (Some u) (Some v) = Ok c ->
  In k (keys (get_values c)) -> k = u \/ k = v \/ (In k (keys (get_values f)) /\ ltb u k = true /\ ltb k v = true).
Proof.
  intros Wf. pose proof (wf_sorted_values f Wf) as Hs. unfold clip.
  destruct (bounds_ok (Some u) (Some v)) eqn:Hb; [|discriminate]. cbn [negb]. cbv iota.
  destruct (clip_rows_lower (init f) (get_values f) u (Some v) Hs Hb) as [Erows _]. cbv zeta in Erows.
  unfold upper_count, clip_tail in Erows.
  intros E. injection E as <-. rewrite get_values_rr_of_values. intros H. apply keys_rr_subset in H.
  rewrite Erows in H. cbn [keys map fst] in H. destruct H as [E|H]; [left; symmetry; exact E|].
  fold (keys (firstn (count_before true (keys (get_values f)) v - count_before false (keys (get_values f)) u)
                      (skipn (count_before false (keys (get_values f)) u) (get_values f)) ++ [(v, None)])) in H.
  unfold keys in H. rewrite map_app in H. apply in_app_or in H. destruct H as [H|H].
  - right. right. apply mid_keys; [exact Hs|exact H].
  - cbn in H. destruct H as [E|[]]. right. left. symmetry. exact E.
Qed.

(* ---- Riemann sums: the value at the last point is never read; sums split at an inner point *)
Lemma rsum_ext_last phi psi : forall P, (forall q, In q (removelast P) -> phi q = psi q) -> rsum phi P = rsum psi P.
Proof.
  induction P as [|p t IH]; intros H; [reflexivity|]. destruct t as [|p' t']; [reflexivity|].
  rewrite !rsum_cons2. rewrite (H p) by (left; reflexivity). f_equal. apply IH. intros q Hq. apply H.
  change (removelast (p :: p' :: t')) with (p :: removelast (p' :: t')). right. exact Hq.
Qed.

Lemma rsum_split phi : forall (X : list Qc) b Y, rsum phi (X ++ b :: Y) = rsum phi (X ++ [b]) + rsum phi (b :: Y).
Proof.
  induction X as [|x X' IH]; intros b Y.
  - cbn [app]. cbn [rsum]. ring.
  - destruct X' as [|x' X''].
    + cbn [app]. rewrite rsum_cons2. cbn [rsum]. ring.
    + change ((x :: x' :: X'') ++ b :: Y) with (x :: (x' :: X'') ++ b :: Y).
      change ((x :: x' :: X'') ++ [b]) with (x :: (x' :: X'') ++ [b]).
      change ((x' :: X'') ++ b :: Y) with (x' :: X'' ++ b :: Y) at 1.
      change ((x' :: X'') ++ [b]) with (x' :: X'' ++ [b]) at 1.
      rewrite !rsum_cons2. change (x' :: X'' ++ b :: Y) with ((x' :: X'') ++ b :: Y).
      change (x' :: X'' ++ [b]) with ((x' :: X'') ++ [b]). rewrite IH. ring.
Qed.

Lemma sorted_inner_lt : forall (M : list Qc) lo v, ksorted_from lo (M ++ [v]) -> forall q, In q M -> ltb q v = true.
Proof.
  induction M as [|m M' IH]; intros lo v H q Hq; [destruct Hq|]. cbn [app ksorted_from] in H. destruct H as [_ H].
  destruct Hq as [<-|Hq].
  - eapply ksorted_from_lt; [exact H|]. apply in_or_app. right. left. reflexivity.
  - eapply IH; eauto.
Qed.

Lemma removelast_snoc (A : Type) (l : list A) x : removelast (l ++ [x]) = l.
Proof. apply removelast_last. Qed.

(* ---- the window formula: any weighted sum over the clip to [u, v] is the Riemann sum of the function's own right
   limits over any partition from u to v that contains its step points in between *)
Lemma window_formula (g : Qc -> Qc) (f c : stairsQ) (u v : Qc) (M : list Qc) :
  wf f -> clip f (Some u) (Some v) = Ok c -> ksorted (u :: M ++ [v]) ->
  (forall k, In k (keys (get_values f)) -> ltb u k = true -> ltb k v = true -> In k M) ->
  wsum_pieces g (get_values c) = rsum (fun x => vmap g (lim LimRight f x)) (u :: M ++ [v]).
Proof.
  intros Wf Ec HP Hin.
  destruct (clip_spec f c (Some u) (Some v) Wf Ec) as (Wc & _ & Lc).
  destruct (clip_window_shape f c u v Ec) as [Ic Tc].
  rewrite (wsum_as_rsum g (get_values c) (u :: M ++ [v]) (wf_sorted_values c Wc) Tc HP).
  - apply rsum_ext_last. intros q Hq.
    change (u :: M ++ [v]) with ((u :: M) ++ [v]) in Hq. rewrite removelast_snoc in Hq.
    rewrite (lookup_is_lim c q Ic), Lc. cbn [strict_of].
    assert (Hins : inside false (Some u) (Some v) q = true).
    { unfold inside, before. apply ksorted_cons in HP. destruct Hq as [<-|Hq].
      - rewrite leb_refl. cbn [andb]. apply negb_true_iff. unfold leb. apply negb_false_iff.
        eapply ksorted_from_lt; [exact HP|]. apply in_or_app. right. left. reflexivity.
      - rewrite (ltb_leb _ _ (ksorted_from_lt _ _ _ HP (in_or_app _ _ _ (or_introl Hq)))). cbn [andb].
        apply negb_true_iff. unfold leb. apply negb_false_iff. eapply sorted_inner_lt; eauto. }
    rewrite Hins. reflexivity.
  - intros k Hk. destruct (clip_keys f c u v k Wf Ec Hk) as [->|[->|(H1 & H2 & H3)]].
    + left. reflexivity.
    + right. apply in_or_app. right. left. reflexivity.
    + right. apply in_or_app. left. apply Hin; assumption.
Qed.

(* ---- the canonical partition of a window: its two ends and the step points strictly between *)
Definition inner (f : stairsQ) (u v : Qc) : list Qc := filter (fun k => ltb u k && ltb k v) (keys (get_values f)).

Lemma filter_sorted_from (Pk : Qc -> bool) : forall ks lo, ksorted_from lo ks -> ksorted_from lo (filter Pk ks).
Proof.
  induction ks as [|k t IH]; intros lo H; [exact I|]. destruct H as [Hlt H]. cbn [filter]. destruct (Pk k).
  - split; [exact Hlt|apply IH; exact H].
  - apply IH. eapply ksorted_from_weaken; [exact Hlt|exact H].
Qed.

Lemma snoc_keys_sorted : forall (L : list Qc) lo b, ksorted_from lo L -> ltb lo b = true -> (forall k, In k L -> ltb k b = true) ->
  ksorted_from lo (L ++ [b]).
Proof.
  induction L as [|k t IH]; intros lo b H Hlo Hall; cbn [app ksorted_from]; [split; [exact Hlo|exact I]|].
  destruct H as [Hlt H]. split; [exact Hlt|]. apply IH; [exact H|apply Hall; left; reflexivity|].
  intros q Hq. apply Hall. right. exact Hq.
Qed.

Lemma window_partition_sorted (f : stairsQ) u v : wf f -> ltb u v = true -> ksorted (u :: inner f u v ++ [v]).
Proof.
  intros Wf Huv. apply ksorted_cons. pose proof (wf_sorted_values f Wf) as Hs. unfold sorted in Hs.
  assert (Hin : forall k, In k (inner f u v) -> ltb u k = true /\ ltb k v = true).
  { intros k Hk. unfold inner in Hk. apply filter_In in Hk. destruct Hk as [_ Hk]. apply andb_true_iff in Hk. exact Hk. }
  apply snoc_keys_sorted; [|exact Huv|intros k Hk; apply (Hin k Hk)].
  unfold inner. destruct (keys (get_values f)) as [|k0 t] eqn:Ek; [exact I|].
  cbn [filter]. destruct (ltb u k0 && ltb k0 v) eqn:E0.
  - apply andb_true_iff in E0. split; [exact (proj1 E0)|]. apply filter_sorted_from. apply ksorted_cons. exact Hs.
  - assert (G : forall ks lo, ksorted_from lo ks -> (forall k, In k (filter (fun k => ltb u k && ltb k v) ks) -> ltb u k = true) ->
                 ksorted_from u (filter (fun k => ltb u k && ltb k v) ks)).
    { induction ks as [|k t' IH]; intros lo H Hall; [exact I|]. destruct H as [Hlt H]. cbn [filter] in *.
      destruct (ltb u k && ltb k v) eqn:E.
      - apply andb_true_iff in E. split; [exact (proj1 E)|]. apply filter_sorted_from. exact H.
      - eapply IH; [exact H|exact Hall]. }
    apply ksorted_cons in Hs. eapply G; [exact Hs|].
    intros k Hk. apply filter_In in Hk. destruct Hk as [_ Hk]. apply andb_true_iff in Hk. exact (proj1 Hk).
Qed.

Definition W (g : Qc -> Qc) (f : stairsQ) (u v : Qc) : Qc :=
  rsum (fun x => vmap g (lim LimRight f x)) (u :: inner f u v ++ [v]).

Lemma inner_complete (f : stairsQ) u v k : In k (keys (get_values f)) -> ltb u k = true -> ltb k v = true -> In k (inner f u v).
Proof. intros H1 H2 H3. unfold inner. apply filter_In. split; [exact H1|]. rewrite H2, H3. reflexivity. Qed.

Theorem W_spec (g : Qc -> Qc) (f c : stairsQ) u v : wf f -> ltb u v = true -> clip f (Some u) (Some v) = Ok c ->
  wsum_pieces g (get_values c) = W g f u v.
Proof.
  intros Wf Huv Ec. apply (window_formula g f c u v (inner f u v) Wf Ec (window_partition_sorted f u v Wf Huv)).
  apply inner_complete.
Qed.

Lemma W_const (g : Qc -> Qc) (f : stairsQ) u v :
  (forall k, In k (keys (get_values f)) -> ltb u k = true -> ltb k v = true -> False) ->
  W g f u v = pc_contrib (vmap g (lim LimRight f u)) u v.
Proof.
  intros Hno. unfold W. assert (E : inner f u v = []).
  { unfold inner. destruct (filter _ _) as [|k t] eqn:Ef; [reflexivity|]. exfalso.
    assert (Hk : In k (filter (fun k => ltb u k && ltb k v) (keys (get_values f)))) by (rewrite Ef; left; reflexivity).
    apply filter_In in Hk. destruct Hk as [H1 H2]. apply andb_true_iff in H2. exact (Hno k H1 (proj1 H2) (proj2 H2)). }
  rewrite E. cbn [app rsum]. ring.
Qed.

Lemma glue_sorted : forall (L : list Qc) lo m Y, ksorted_from lo (L ++ [m]) -> ksorted_from m Y -> ksorted_from lo (L ++ m :: Y).
Proof.
  induction L as [|k t IH]; intros lo m Y H1 H2; cbn [app ksorted_from] in *.
  - split; [exact (proj1 H1)|exact H2].
  - destruct H1 as [Hlt H1]. split; [exact Hlt|apply IH; assumption].
Qed.

Theorem W_add (g : Qc -> Qc) (f : stairsQ) u m v : wf f -> ltb u m = true -> ltb m v = true ->
  W g f u v = W g f u m + W g f m v.
Proof.
  intros Wf Hum Hmv. assert (Huv : ltb u v = true) by (eapply ltb_trans; eauto).
  destruct (slice_is_restriction f u v Wf Huv) as (c & Ec & _).
  rewrite <- (W_spec g f c u v Wf Huv Ec).
  pose proof (window_partition_sorted f u m Wf Hum) as S1. pose proof (window_partition_sorted f m v Wf Hmv) as S2.
  assert (HP : ksorted (u :: (inner f u m ++ m :: inner f m v) ++ [v])).
  { rewrite <- app_assoc. cbn [app]. apply ksorted_cons. apply ksorted_cons in S1. apply ksorted_cons in S2.
    apply glue_sorted; assumption. }
  rewrite (window_formula g f c u v (inner f u m ++ m :: inner f m v) Wf Ec HP).
  - unfold W. rewrite <- app_assoc. cbn [app].
    change (u :: inner f u m ++ m :: inner f m v ++ [v]) with ((u :: inner f u m) ++ m :: (inner f m v ++ [v])).
    rewrite rsum_split. reflexivity.
  - intros k H1 H2 H3. apply in_or_app. destruct (cmpP k m) as [Hkm _|Ekm|Hmk _]; [| subst k |].
    + left. apply inner_complete; assumption.
    + right. left. reflexivity.
    + right. right. apply inner_complete; assumption.
Qed.

(* ---- sliding the window: no step point is crossed by either edge *)
Lemma contrib_zero c a : pc_contrib c a a = 0.
Proof. destruct c; cbn [pc_contrib]; ring. Qed.

Lemma ltb_plus (a b d : Qc) : ltb (a + d) (b + d) = ltb a b.
Proof. apply Qcltb_plus. Qed.

Theorem window_slides (g : Qc -> Qc) (f : stairsQ) (l r k1 x k2 : Qc) :
  wf f -> ltb l r = true -> leb k1 x = true -> leb x k2 = true ->
  (forall k, In k (keys (get_values f)) -> ltb (k1 + l) k = true -> ltb k (k2 + l) = true -> False) ->
  (forall k, In k (keys (get_values f)) -> ltb (k1 + r) k = true -> ltb k (k2 + r) = true -> False) ->
  W g f (x + l) (x + r) =
  W g f (k1 + l) (k1 + r) - pc_contrib (vmap g (lim LimRight f (k1 + l))) (k1 + l) (x + l)
                          + pc_contrib (vmap g (lim LimRight f (k1 + r))) (k1 + r) (x + r).
Proof.
  intros Wf Hlr Hk1x Hxk2 N1 N2.
  destruct (cmpP k1 x) as [Hlt _|Heq|Hgt _].
  2:{ subst x. rewrite !contrib_zero. ring. }
  2:{ unfold leb in Hk1x. rewrite Hgt in Hk1x. discriminate. }
  assert (HL : ltb (k1 + l) (x + l) = true) by (rewrite ltb_plus; exact Hlt).
  assert (HR : ltb (k1 + r) (x + r) = true) by (rewrite ltb_plus; exact Hlt).
  assert (Hw1 : ltb (k1 + l) (k1 + r) = true) by (rewrite (Qcplus_comm k1 l), (Qcplus_comm k1 r), ltb_plus; exact Hlr).
  assert (Hwx : ltb (x + l) (x + r) = true) by (rewrite (Qcplus_comm x l), (Qcplus_comm x r), ltb_plus; exact Hlr).
  assert (CL : W g f (k1 + l) (x + l) = pc_contrib (vmap g (lim LimRight f (k1 + l))) (k1 + l) (x + l)).
  { apply W_const. intros k Hk H1 H2. apply (N1 k Hk H1). eapply ltb_leb_trans; [exact H2|].
    unfold leb. rewrite ltb_plus. exact Hxk2. }
  assert (CR : W g f (k1 + r) (x + r) = pc_contrib (vmap g (lim LimRight f (k1 + r))) (k1 + r) (x + r)).
  { apply W_const. intros k Hk H1 H2. apply (N2 k Hk H1). eapply ltb_leb_trans; [exact H2|].
    unfold leb. rewrite ltb_plus. exact Hxk2. }
  rewrite <- CL, <- CR.
  destruct (cmpP (x + l) (k1 + r)) as [Hov _|Hto|Hdis _].
  - (* the two windows overlap *)
    rewrite (W_add g f (k1 + l) (x + l) (k1 + r) Wf HL Hov), (W_add g f (x + l) (k1 + r) (x + r) Wf Hov HR). ring.
  - rewrite Hto. ring.
  - (* the windows are disjoint *)
    rewrite (W_add g f (k1 + l) (k1 + r) (x + l) Wf Hw1 Hdis), (W_add g f (k1 + r) (x + l) (x + r) Wf Hdis Hwx). ring.
Qed.

(* ---- the total length of a window on which the function is defined throughout *)
Lemma rsum_ones (phi : Qc -> V) : forall (P : list Qc) a, (forall q, In q (removelast (a :: P)) -> phi q = Some 1) ->
  rsum phi (a :: P) = last P a - a.
Proof.
  induction P as [|p t IH]; intros a H; [cbn [rsum last]; ring|].
  rewrite rsum_cons2, (H a) by (left; reflexivity). cbn [pc_contrib].
  rewrite (IH p); [|intros q Hq; apply H; change (removelast (a :: p :: t)) with (a :: removelast (p :: t)); right; exact Hq].
  change (last (p :: t) a) with (match t with [] => p | _ => last t a end).
  destruct t as [|p' t']; [cbn [last]; ring|]. change (last (p' :: t') p) with (last (p' :: t') a) || idtac.
  assert (E : forall d, last (p' :: t') d = last (p' :: t') a).
  { clear. revert p'. induction t' as [|q t'' IH]; intros p' d; [reflexivity|]. change (last (p' :: q :: t'') d) with (last (q :: t'') d).
    change (last (p' :: q :: t'') a) with (last (q :: t'') a). apply IH. }
  rewrite (E p). ring.
Qed.

Lemma last_snoc (M : list Qc) v d : last (M ++ [v]) d = v.
Proof. apply last_last. Qed.

Theorem window_total (f : stairsQ) u v : wf f -> ltb u v = true ->
  (forall t, leb u t = true -> ltb t v = true -> lim LimRight f t <> None) ->
  W (fun _ => 1) f u v = v - u.
Proof.
  intros Wf Huv Hdef. unfold W. pose proof (window_partition_sorted f u v Wf Huv) as HP.
  rewrite (rsum_ones _ (inner f u v ++ [v]) u).
  - rewrite last_snoc. reflexivity.
  - intros q Hq. change (u :: inner f u v ++ [v]) with ((u :: inner f u v) ++ [v]) in Hq. rewrite removelast_snoc in Hq.
    assert (Hq' : leb u q = true /\ ltb q v = true).
    { apply ksorted_cons in HP. destruct Hq as [<-|Hq].
      - split; [apply leb_refl|exact Huv].
      - split; [apply ltb_leb; eapply ksorted_from_lt; [exact HP|apply in_or_app; left; exact Hq]|eapply sorted_inner_lt; eauto]. }
    destruct (lim LimRight f q) eqn:E; [reflexivity|]. exfalso. exact (Hdef q (proj1 Hq') (proj2 Hq') E).
Qed.

(* ---- the window mean of a function defined throughout the window *)
Lemma lt_minus_ne (u v : Qc) : ltb u v = true -> v - u <> 0.
Proof.
  intros H E. apply ltb_lt in H. apply Qclt_minus_iff in H. replace (v + - u) with (v - u) in H by ring. rewrite E in H. discriminate H.
Qed.

Theorem window_mean_value (f : stairsQ) (u v : Qc) : wf f -> ltb u v = true ->
  (forall t, leb u t = true -> ltb t v = true -> lim LimRight f t <> None) ->
  slice_stat SMean f IvRight (u, v) = Some (Some (W (fun y => y) f u v / (v - u))).
Proof.
  intros Wf Huv Hdef. destruct (slice_is_restriction f u v Wf Huv) as (c & Ec & Wc & _ & _).
  rewrite (slice_stat_unfold SMean f IvRight u v c Ec). f_equal.
  pose proof (W_spec (fun y => y) f c u v Wf Huv Ec) as EI. rewrite <- integral_as_wsum in EI.
  pose proof (W_spec (fun _ => 1) f c u v Wf Huv Ec) as ET. rewrite <- total_as_wsum, (window_total f u v Wf Huv Hdef) in ET.
  pose proof (lt_minus_ne u v Huv) as Tne.
  assert (Hlen : (2 <= length (get_values c))%nat).
  { destruct (get_values c) as [|[k1 w1] [|r2 rest]] eqn:Eg; cbn [length]; try lia; exfalso; apply Tne; rewrite <- ET; reflexivity. }
  destruct (data c) as [fr|] eqn:Dc.
  - rewrite (integral_mean_spec c fr Dc Hlen). cbn [snd]. rewrite ET, EI. unfold vdiv.
    destruct (Qceqb (v - u) 0) eqn:E0; [apply Qc_eq_bool_correct in E0; congruence|reflexivity].
  - exfalso. unfold get_values in Hlen. rewrite Dc in Hlen. cbn in Hlen. lia.
Qed.

(* ---- linear interpolation between two sample points reproduces the rolling mean *)
Theorem rolling_mean_is_affine_between_sample_points (f : stairsQ) (l r k1 k2 x : Qc) :
  wf f -> ltb l r = true -> ltb k1 k2 = true -> leb k1 x = true -> leb x k2 = true ->
  (forall k, In k (keys (get_values f)) -> ltb (k1 + l) k = true -> ltb k (k2 + l) = true -> False) ->
  (forall k, In k (keys (get_values f)) -> ltb (k1 + r) k = true -> ltb k (k2 + r) = true -> False) ->
  (forall t, leb (k1 + l) t = true -> ltb t (k2 + r) = true -> lim LimRight f t <> None) ->
  exists y1 y2,
    slice_stat SMean f IvRight (k1 + l, k1 + r) = Some (Some y1) /\
    slice_stat SMean f IvRight (k2 + l, k2 + r) = Some (Some y2) /\
    slice_stat SMean f IvRight (x + l, x + r) = Some (Some (y1 + (x - k1) * (y2 - y1) / (k2 - k1))).
Proof.
  intros Wf Hlr H12 H1x Hx2 N1 N2 Hdef.
  assert (Hw : forall t, ltb (t + l) (t + r) = true) by (intros t; rewrite (Qcplus_comm t l), (Qcplus_comm t r), ltb_plus; exact Hlr).
  assert (Hsub : forall t, leb k1 t = true -> leb t k2 = true ->
                 forall s, leb (t + l) s = true -> ltb s (t + r) = true -> lim LimRight f s <> None).
  { intros t Ht1 Ht2 s Hs1 Hs2. apply Hdef.
    - eapply leb_trans; [|exact Hs1]. unfold leb. rewrite ltb_plus. exact Ht1.
    - eapply ltb_leb_trans; [exact Hs2|]. unfold leb. rewrite ltb_plus. exact Ht2. }
  assert (H12' : leb k1 k2 = true) by (apply ltb_leb; exact H12).
  exists (W (fun y => y) f (k1 + l) (k1 + r) / (k1 + r - (k1 + l))), (W (fun y => y) f (k2 + l) (k2 + r) / (k2 + r - (k2 + l))).
  split; [apply (window_mean_value f _ _ Wf (Hw k1) (Hsub k1 (leb_refl k1) H12'))|].
  split; [apply (window_mean_value f _ _ Wf (Hw k2) (Hsub k2 H12' (leb_refl k2)))|].
  rewrite (window_mean_value f _ _ Wf (Hw x) (Hsub x H1x Hx2)). f_equal. f_equal.
  pose proof (window_slides (fun y => y) f l r k1 x k2 Wf Hlr H1x Hx2 N1 N2) as Sx.
  pose proof (window_slides (fun y => y) f l r k1 k2 k2 Wf Hlr H12' (leb_refl k2) N1 N2) as S2.
  assert (DL : exists cl, lim LimRight f (k1 + l) = Some cl).
  { destruct (lim LimRight f (k1 + l)) eqn:E; [eexists; reflexivity|]. exfalso. apply (Hdef (k1 + l)); [apply leb_refl| |exact E].
    eapply ltb_trans; [apply (Hw k1)|]. rewrite ltb_plus. exact H12. }
  assert (DR : exists cr, lim LimRight f (k1 + r) = Some cr).
  { destruct (lim LimRight f (k1 + r)) eqn:E; [eexists; reflexivity|]. exfalso. apply (Hdef (k1 + r)); [apply ltb_leb; apply (Hw k1)| |exact E].
    rewrite ltb_plus. exact H12. }
  destruct DL as [cl El]. destruct DR as [cr Er]. rewrite El, Er in Sx, S2. cbn [vmap pc_contrib] in Sx, S2.
  rewrite Sx, S2. pose proof (lt_minus_ne l r Hlr) as Rne. pose proof (lt_minus_ne k1 k2 H12) as Kne.
  replace (x + r - (x + l)) with (r - l) by ring. replace (k1 + r - (k1 + l)) with (r - l) by ring. replace (k2 + r - (k2 + l)) with (r - l) by ring.
  set (I1 := W (fun y => y) f (k1 + l) (k1 + r)). clearbody I1. clear -Rne Kne. field. split; assumption.
Qed.

(* between two sample points with no other knot in between, no window edge crosses a step point *)
Require Import SC.Proofs.RollingFacts.

Theorem interpolation_between_consecutive_knots (cl : stairsQ) (l r k1 k2 x : Qc) :
  wf cl -> ltb l r = true -> ltb k1 k2 = true -> leb k1 x = true -> leb x k2 = true ->
  (forall k, In k (rolling_knots cl l r) -> ltb k1 k = true -> ltb k k2 = true -> False) ->
  (forall t, leb (k1 + l) t = true -> ltb t (k2 + r) = true -> lim LimRight cl t <> None) ->
  exists y1 y2,
    slice_stat SMean cl IvRight (k1 + l, k1 + r) = Some (Some y1) /\
    slice_stat SMean cl IvRight (k2 + l, k2 + r) = Some (Some y2) /\
    slice_stat SMean cl IvRight (x + l, x + r) = Some (Some (y1 + (x - k1) * (y2 - y1) / (k2 - k1))).
Proof.
  intros Wf Hlr H12 H1x Hx2 Hno Hdef.
  apply rolling_mean_is_affine_between_sample_points; try assumption.
  - intros p Hp H1 H2. apply (Hno (p - l)).
    + apply knot_meets_a_step_point. left. replace (p - l + l) with p by ring. exact Hp.
    + replace k1 with (k1 + l - l) by ring. unfold Qcminus. rewrite ltb_plus. exact H1.
    + replace k2 with (k2 + l - l) by ring. unfold Qcminus. rewrite ltb_plus. exact H2.
  - intros p Hp H1 H2. apply (Hno (p - r)).
    + apply knot_meets_a_step_point. right. replace (p - r + r) with p by ring. exact Hp.
    + replace k1 with (k1 + r - r) by ring. unfold Qcminus. rewrite ltb_plus. exact H1.
    + replace k2 with (k2 + r - r) by ring. unfold Qcminus. rewrite ltb_plus. exact H2.
Qed.
