(* Proofs/IdentityFacts.v — minimality of every operation's result, and algebraic identities up to identical() *)
From Coq Require Import List Bool QArith Qcanon.
Require Import SC.Base.Ord SC.Base.Val SC.Base.Series SC.Model.Repr SC.Model.Ops SC.Model.Masking SC.Model.Sampling.
Require Import SC.Spec.Den SC.Proofs.ReprFacts SC.Proofs.OpsFacts SC.Proofs.MaskFacts SC.Proofs.ClipFacts SC.Proofs.CanonFacts
               SC.Proofs.MinimalFacts.
Open Scope Qc_scope.

Section IdentityFacts.
Context {D : Type} `{Ord D}.
Notation stairs := (stairs D).

Lemma all_minimal (f g : stairs) : wf f -> wf g -> minimal f -> minimal g ->
  (forall o, minimal (apply_binop o f g)) /\
  minimal (negate f) /\ minimal (invert f) /\ minimal (make_boolean f) /\ minimal (isna f) /\ minimal (notna f) /\
  (forall c, minimal (fillna_scalar f c)) /\ (forall m, minimal (fillna_method m f)) /\
  (forall lo hi r, clip f lo hi = Ok r -> minimal r) /\
  (forall inverse r, mask_stairs inverse f g = Ok r -> minimal r) /\
  (forall i v c, sorted v -> minimal (from_values i v c)).
Proof.
  intros Wf Wg Mf Mg. repeat split.
  - intros o. apply apply_binop_minimal; auto.
  - apply negate_minimal; auto.
  - exact (proj2 (boolean_like_spec vnot f Wf)).
  - exact (proj2 (boolean_like_spec vtruth f Wf)).
  - exact (proj2 (null_comparison_spec visna f Wf)).
  - exact (proj2 (null_comparison_spec vnotna f Wf)).
  - intros c. exact (proj2 (fillna_scalar_spec f c Wf)).
  - intros [|]; [exact (proj1 (proj2 (proj2 (ffill_spec f Wf))))|exact (proj1 (proj2 (proj2 (bfill_spec f Wf))))].
  - intros lo hi r. apply clip_minimal; auto.
  - intros inverse r. apply mask_stairs_minimal; auto.
  - intros i v c Sv. exact (proj1 (proj2 (canon_values i v c Sv))).
Qed.

Ltac use_spec H := destruct H as (?W & _ & ?L).

Lemma vadd_comm a b : vadd a b = vadd b a.
Proof. destruct a, b; simpl; auto. f_equal. ring. Qed.
Lemma vmul_comm a b : vmul a b = vmul b a.
Proof. destruct a, b; simpl; auto. f_equal. ring. Qed.
Lemma vadd_assoc a b c : vadd (vadd a b) c = vadd a (vadd b c).
Proof. destruct a, b, c; simpl; auto. f_equal. ring. Qed.
Lemma vmul_distr a b c : vmul a (vadd b c) = vadd (vmul a b) (vmul a c).
Proof. destruct a, b, c; simpl; auto. f_equal. ring. Qed.
Lemma v_demorgan a b : vnot (vlog LAnd a b) = vlog LOr (vnot a) (vnot b).
Proof.
  destruct a as [x|], b as [y|]; simpl; auto. unfold vbool, b2q, truthy. f_equal.
  destruct (Qceqb x 0), (Qceqb y 0); reflexivity.
Qed.
Lemma v_sub_self a : vsub a a = vmul a (Some 0).
Proof. destruct a; simpl; auto. f_equal. ring. Qed.
Lemma v_not_not a : vnot (vnot a) = vtruth a.
Proof. destruct a as [x|]; simpl; auto. unfold vbool, b2q, truthy. destruct (Qceqb x 0); reflexivity. Qed.

Lemma identities (x0 : D) (f g h : stairs) :
  wf f -> wf g -> wf h -> minimal f -> minimal g -> minimal h ->
  identical (add_or_sub false f g) (add_or_sub false g f) = true /\
  identical (mul_or_div false f g) (mul_or_div false g f) = true /\
  identical (add_or_sub false (add_or_sub false f g) h) (add_or_sub false f (add_or_sub false g h)) = true /\
  identical (mul_or_div false f (add_or_sub false g h)) (add_or_sub false (mul_or_div false f g) (mul_or_div false f h)) = true /\
  identical (invert (logical LAnd f g)) (logical LOr (invert f) (invert g)) = true /\
  identical (add_or_sub true f f) (mul_or_div false f (const (Some 0) (closed f))) = true /\
  identical (invert (invert f)) (make_boolean f) = true.
Proof.
  intros Wf Wg Wh Mf Mg Mh.
  pose proof (add_or_sub_spec false f g Wf Wg) as (Wfg & _ & Lfg).
  pose proof (add_or_sub_spec false g f Wg Wf) as (Wgf & _ & Lgf).
  pose proof (add_or_sub_spec false g h Wg Wh) as (Wgh & _ & Lgh).
  pose proof (add_or_sub_minimal false f g Wf Wg Mf Mg) as Mfg.
  pose proof (add_or_sub_minimal false g h Wg Wh Mg Mh) as Mgh.
  pose proof (mul_or_div_spec false f g Wf Wg) as [(Wmfg & _ & Lmfg) Mmfg].
  pose proof (mul_or_div_spec false g f Wg Wf) as [(Wmgf & _ & Lmgf) Mmgf].
  pose proof (mul_or_div_spec false f h Wf Wh) as [(Wmfh & _ & Lmfh) Mmfh].
  repeat split.
  - apply (identical_complete x0); auto using add_or_sub_minimal.
    intros sd x. rewrite Lfg, Lgf. apply vadd_comm.
  - apply (identical_complete x0); auto.
    intros sd x. rewrite Lmfg, Lmgf. apply vmul_comm.
  - pose proof (add_or_sub_spec false _ h Wfg Wh) as (W1 & _ & L1).
    pose proof (add_or_sub_spec false f _ Wf Wgh) as (W2 & _ & L2).
    apply (identical_complete x0); auto using add_or_sub_minimal.
    intros sd x. rewrite L1, L2, Lfg, Lgh. apply vadd_assoc.
  - pose proof (mul_or_div_spec false f _ Wf Wgh) as [(W1 & _ & L1) M1].
    pose proof (add_or_sub_spec false _ _ Wmfg Wmfh) as (W2 & _ & L2).
    apply (identical_complete x0); auto using add_or_sub_minimal.
    intros sd x. rewrite L1, L2, Lgh, Lmfg, Lmfh. apply vmul_distr.
  - pose proof (logical_spec LAnd f g Wf Wg) as (Wa & _ & La).
    pose proof (boolean_like_spec vnot _ Wa) as [(W1 & _ & L1) M1].
    pose proof (boolean_like_spec vnot f Wf) as [(Wnf & _ & Lnf) Mnf].
    pose proof (boolean_like_spec vnot g Wg) as [(Wng & _ & Lng) Mng].
    pose proof (logical_spec LOr _ _ Wnf Wng) as (W2 & _ & L2).
    apply (identical_complete x0); auto.
    + exact (apply_binop_minimal (BLog LOr) _ _ Wnf Wng Mnf Mng).
    + intros sd x. unfold invert in *. rewrite L1, L2, La, Lnf, Lng. apply v_demorgan.
  - pose proof (add_or_sub_spec true f f Wf Wf) as (W1 & _ & L1).
    assert (Wc : wf (@const D (Some 0) (closed f))) by exact I.
    pose proof (mul_or_div_spec false f _ Wf Wc) as [(W2 & _ & L2) M2].
    apply (identical_complete x0); auto using add_or_sub_minimal.
    intros sd x. rewrite L1, L2, lim_const. apply v_sub_self.
  - pose proof (boolean_like_spec vnot f Wf) as [(Wnf & _ & Lnf) Mnf].
    pose proof (boolean_like_spec vnot _ Wnf) as [(W1 & _ & L1) M1].
    pose proof (boolean_like_spec vtruth f Wf) as [(W2 & _ & L2) M2].
    apply (identical_complete x0); auto.
    intros sd x. unfold invert, make_boolean in *. rewrite L1, L2, Lnf. apply v_not_not.
Qed.

End IdentityFacts.
