(* Proofs/AggFacts.v — collection aggregation is pointwise over the members (C18) *)
From Coq Require Import List Bool Arith Lia QArith Qcanon.
Import ListNotations.
Require Import SC.Base.Ord SC.Base.Val SC.Base.Series SC.Base.QcOrd.
Require Import SC.Model.Repr SC.Model.Ops SC.Model.Masking SC.Model.Sampling SC.Model.Stats SC.Model.Slicing.
Require Import SC.Spec.Den SC.Proofs.SeriesFacts SC.Proofs.ReprFacts SC.Proofs.OpsFacts SC.Proofs.SamplingFacts SC.Proofs.ClosedFacts.
Open Scope Qc_scope.

(* np.unique: sorted, duplicates collapsed *)
Lemma qinsert_in x : forall l q, In q (qinsert x l) <-> q = x \/ In q l.
Proof.
  induction l as [|y t IH]; intros q; simpl.
  - intuition.
  - destruct (Qcltb x y) eqn:E1; [simpl; intuition|]. destruct (Qcltb y x) eqn:E2.
    + simpl. rewrite IH. intuition.
    + assert (x = y) by (apply Qcltb_total; auto). subst. simpl. intuition.
Qed.

Lemma qinsert_sorted_from lo x : forall l, Qcltb lo x = true -> ksorted_from lo l -> ksorted_from lo (qinsert x l).
Proof.
  intros l. revert lo. induction l as [|y t IH]; intros lo Hlo Hs; simpl.
  - auto.
  - destruct Hs as [Hy Hs]. destruct (Qcltb x y) eqn:E1; [simpl; auto|]. destruct (Qcltb y x) eqn:E2.
    + simpl. split; auto.
    + simpl. auto.
Qed.

Lemma qinsert_sorted x l : ksorted l -> ksorted (qinsert x l).
Proof.
  destruct l as [|y t]; simpl; auto. intros Hs.
  destruct (Qcltb x y) eqn:E1; [simpl; auto|]. destruct (Qcltb y x) eqn:E2.
  - simpl. apply qinsert_sorted_from; auto.
  - simpl. auto.
Qed.

Lemma usort_spec (l : list Qc) : ksorted (usort l) /\ forall q, In q (usort l) <-> In q l.
Proof.
  unfold usort. assert (G : forall acc, ksorted acc ->
     ksorted (fold_left (fun a x => qinsert x a) l acc) /\
     forall q, In q (fold_left (fun a x => qinsert x a) l acc) <-> In q l \/ In q acc).
  { induction l as [|x t IH]; intros acc Ha; simpl.
    - split; auto. intuition.
    - destruct (IH (qinsert x acc) (qinsert_sorted x acc Ha)) as [S1 M1]. split; auto.
      intros q. rewrite M1, qinsert_in. intuition.
  }
  destruct (G [] I) as [S M]. split; auto. intros q. rewrite M. simpl. intuition.
Qed.

Section Agg.
Notation ser := (list (Qc * V)).

(* n-ary version of lookup_zip_index *)
Lemma if_map (A B : Type) (b : bool) (f g : A -> B) (l : list A) :
  map (fun a => if b then f a else g a) l = if b then map f l else map g l.
Proof. destruct b; reflexivity. Qed.

Lemma lookup_reduce (A : Type) (red : list V -> V) s (F : A -> Qc -> V) (ms : list A) :
  forall (idx : list Qc) (ini : A -> V) x,
  lookup s (red (map ini ms)) (map (fun p => (p, red (map (fun m => F m p) ms))) idx) x =
  red (map (fun m => lookup s (ini m) (map (fun p => (p, F m p)) idx) x) ms).
Proof.
  induction idx as [|i idx IH]; intros ini x; simpl.
  - reflexivity.
  - rewrite if_map. destruct (before s i x); auto.
Qed.

Lemma member_keys_in_index (ms : list stairsQ) m q : In m ms -> wf m -> In q (keys (get_values m)) ->
  In q (usort (flat_map step_points (filter has_steps ms))).
Proof.
  intros Hm Wm Hq. apply (proj2 (usort_spec _)). apply in_flat_map. exists m. split.
  - apply filter_In. split; auto. rewrite (has_steps_values m Wm). destruct (get_values m); [destruct Hq|reflexivity].
  - rewrite step_points_keys; auto.
Qed.

Lemma no_steps_lim (m : stairsQ) sd x : has_steps m = false -> lim sd m x = init m.
Proof. unfold has_steps. destruct (data m) eqn:E; [discriminate|]. intros _. apply lim_no_data. exact E. Qed.

Definition agg_side (ms : list stairsQ) : side :=
  match filter has_steps ms with
  | w0 :: _ => closed w0
  | [] => match ms with m0 :: _ => closed m0 | [] => CLeft end
  end.

Theorem array_agg_spec (g : aggf) (ms : list stairsQ) (r : stairsQ) :
  (forall m, In m ms -> wf m) -> array_agg g ms = Ok r ->
  wf r /\ minimal r /\ closed r = agg_side ms /\
  forall sd x, lim sd r x = reduce g (map (fun m => lim sd m x) ms).
Proof.
  intros Wms. unfold array_agg, agg_side. destruct ms as [|m0 ms']; [discriminate|].
  set (ms := m0 :: ms') in *. destruct (filter has_steps ms) as [|w0 ws'] eqn:Ef.
  - intros E. injection E as <-. split; [exact I|]. split; [exact I|]. split; [reflexivity|].
    intros sd x. rewrite lim_const. change (init m0 :: map (@init Qc) ms') with (map (@init Qc) ms).
    f_equal. apply map_ext_in. intros m Hm. symmetry. apply no_steps_lim.
    destruct (has_steps m) eqn:Hs; auto. exfalso.
    assert (Hin : In m (filter has_steps ms)) by (apply filter_In; auto). rewrite Ef in Hin. destruct Hin.
  - destruct (forallb _ _); [|discriminate]. simpl negb. cbv iota. intros E. injection E as <-.
    set (index := usort (flat_map step_points (w0 :: ws'))).
    destruct (usort_spec (flat_map step_points (w0 :: ws'))) as [Sidx Midx]. fold index in Sidx, Midx.
    set (vals := map (fun p => (p, reduce g (map (fun m => limit m LimRight p) ms))) index).
    assert (Sv : sorted vals).
    { unfold sorted, vals, keys. rewrite map_map. simpl. rewrite map_id. exact Sidx. }
    destruct (canon_values (reduce g (map init ms)) vals (closed w0) Sv) as (C1 & C2 & C3 & _ & C5).
    split; [exact C1|]. split; [exact C2|]. split; [exact C3|].
    intros sd x. rewrite C5. unfold vals.
    rewrite (lookup_reduce stairsQ (reduce g) (strict_of sd) (fun m p => limit m LimRight p) ms index (@init Qc) x).
    f_equal. apply map_ext_in. intros m Hm.
    assert (Wm : wf m) by (apply Wms; exact Hm).
    transitivity (lookup (strict_of sd) (init m) (reindex_values index (init m) (get_values m)) x).
    + unfold reindex_values. f_equal. apply map_ext. intros p. f_equal. rewrite limit_is_lim. reflexivity.
    + unfold lim. apply lookup_reindex; auto using wf_sorted_values.
      intros q Hq. unfold index. rewrite <- Ef. eapply member_keys_in_index; eauto.
Qed.

(* mixed sides among members that have steps are rejected, and only those *)
Theorem array_agg_mismatch_iff (g : aggf) (ms : list stairsQ) :
  array_agg g ms = Err EClosedMismatch <->
  exists w0 ws, filter has_steps ms = w0 :: ws /\ exists w, In w (w0 :: ws) /\ closed w <> closed w0.
Proof.
  unfold array_agg. destruct ms as [|m0 ms']; [split; [discriminate|intros (w0 & ws & E & _); discriminate]|].
  destruct (filter has_steps (m0 :: ms')) as [|w0 ws'] eqn:Ef.
  - split; [discriminate|]. intros (w0 & ws & E & _). discriminate.
  - destruct (forallb (fun w => side_eqb (closed w) (closed w0)) (w0 :: ws')) eqn:Ea; simpl negb; cbv iota; split.
    + discriminate.
    + intros (w0' & ws & E & w & Hw & Hne). injection E as <- <-. exfalso.
      rewrite forallb_forall in Ea. specialize (Ea w Hw). destruct (closed w), (closed w0); simpl in Ea; congruence.
    + intros _. exists w0, ws'. split; auto.
      assert (Hex : exists w, In w (w0 :: ws') /\ side_eqb (closed w) (closed w0) = false).
      { clear - Ea. induction (w0 :: ws') as [|a l IH]; simpl in Ea; [discriminate|].
        apply andb_false_iff in Ea. destruct Ea as [Ea|Ea].
        - exists a. split; simpl; auto.
        - destruct (IH Ea) as (w & Hw & Hs). exists w. split; simpl; auto. }
      destruct Hex as (w & Hw & Hs). exists w. split; auto. intro Hc. rewrite Hc in Hs. destruct (closed w0); discriminate.
    + intros _. reflexivity.
Qed.

End Agg.

(* sum over the members is folding + *)
Lemma qsum_acc (l : list Qc) acc : fold_left Qcplus l acc = acc + qsum l.
Proof.
  unfold qsum. revert acc. induction l as [|x t IH]; intros acc; simpl; [ring|].
  rewrite IH, (IH (0 + x)). ring.
Qed.

Lemma fold_vadd_def : forall col : list V, existsb is_nan col = false ->
  fold_right vadd (Some 0) col = Some (qsum (defined_vals col)).
Proof.
  induction col as [|[x|] t IH]; simpl; intros E.
  - reflexivity.
  - rewrite (IH E). simpl. f_equal. unfold qsum. simpl. rewrite !qsum_acc. ring.
  - discriminate.
Qed.

Lemma fold_vadd_nan : forall col : list V, existsb is_nan col = true -> fold_right vadd (Some 0) col = None.
Proof.
  induction col as [|[x|] t IH]; simpl; intros E; try discriminate.
  - rewrite (IH E). reflexivity.
  - destruct (fold_right vadd (Some 0) t); reflexivity.
Qed.

Lemma reduce_sum_is_fold (col : list V) : col <> [] -> reduce GSum col = fold_right vadd (Some 0) col.
Proof.
  intros Hne. unfold reduce. destruct (existsb is_nan col) eqn:E.
  - symmetry. apply fold_vadd_nan. exact E.
  - rewrite (fold_vadd_def col E). unfold reduce_defined.
    destruct (defined_vals col) eqn:Ed; auto.
    destruct col as [|[x|] t]; [congruence|simpl in Ed; discriminate|simpl in E; discriminate].
Qed.
