(* Proofs/ArrayFacts.v — the element-wise StairsArray operators, the sample / limit tables and the cov / corr
   matrices of Model/Arrays.v are, entry by entry, the Stairs methods applied to the members. *)
From Coq Require Import List Bool Arith Lia QArith Qcanon.
Import ListNotations.
Require Import SC.Base.Ord SC.Base.Val SC.Base.Series SC.Base.QcOrd.
Require Import SC.Model.Repr SC.Model.Ops SC.Model.Masking SC.Model.Sampling SC.Model.Stats SC.Model.Slicing SC.Model.Arrays.
Require Import SC.Spec.Den SC.Proofs.CovFacts.
Local Open Scope nat_scope.

(* ---- all_ok *)
Lemma all_ok_length {A} (l : list (res A)) r : all_ok l = Ok r -> length r = length l.
Proof.
  revert r. induction l as [|[a|e] t IH]; intros r H; cbn [all_ok] in H.
  - injection H as <-. reflexivity.
  - destruct (all_ok t) as [r'|e]; [|discriminate]. injection H as <-. cbn [length]. f_equal. apply IH. reflexivity.
  - discriminate.
Qed.

Lemma all_ok_nth {A} (l : list (res A)) r i x :
  all_ok l = Ok r -> nth_error l i = Some x -> exists a, x = Ok a /\ nth_error r i = Some a.
Proof.
  revert r i. induction l as [|[a|e] t IH]; intros r i H Hn; cbn [all_ok] in H.
  - destruct i; discriminate.
  - destruct (all_ok t) as [r'|e]; [|discriminate]. injection H as <-.
    destruct i as [|i]; cbn [nth_error] in *.
    + injection Hn as <-. exists a. split; reflexivity.
    + apply (IH r' i eq_refl Hn).
  - discriminate.
Qed.

Lemma all_ok_map_nth {A B} (f : A -> res B) (l : list A) r i a :
  all_ok (map f l) = Ok r -> nth_error l i = Some a -> exists b, f a = Ok b /\ nth_error r i = Some b.
Proof.
  intros H Hn.
  assert (Hm : nth_error (map f l) i = Some (f a)) by (rewrite nth_error_map, Hn; reflexivity).
  destruct (all_ok_nth _ _ _ _ H Hm) as (b & E & Hb). exists b. split; [exact E|exact Hb].
Qed.

Lemma all_ok_map_length {A B} (f : A -> res B) (l : list A) r : all_ok (map f l) = Ok r -> length r = length l.
Proof. intros H. rewrite (all_ok_length _ _ H). apply map_length. Qed.

(* the first failing member decides: an error is the error of some member, and every member before it succeeded *)
Lemma all_ok_err {A} (l : list (res A)) e :
  all_ok l = Err e -> exists i, nth_error l i = Some (Err e) /\ forall k, k < i -> exists a, nth_error l k = Some (Ok a).
Proof.
  induction l as [|[a|e'] t IH]; intros H; cbn [all_ok] in H.
  - discriminate.
  - destruct (all_ok t) as [r'|e''] eqn:E; [discriminate|]. injection H as ->.
    destruct (IH eq_refl) as (i & Hi & Hk). exists (S i). split; [exact Hi|].
    intros k Hlt. destruct k as [|k]; [exists a; reflexivity|]. apply Hk. lia.
  - injection H as ->. exists 0%nat. split; [reflexivity|]. intros k Hk. lia.
Qed.

(* ---- element-wise operators *)
Theorem arr_binop_scalar (o : binop) (rf : bool) xs c rs :
  arr_binop o rf xs (AoScalar c) = Ok rs ->
  length rs = length xs /\
  forall i x, nth_error xs i = Some x -> exists r, nth_error rs i = Some r /\ member_op o rf x (OpC c) = Ok r.
Proof.
  unfold arr_binop. intros H. split; [apply (all_ok_map_length _ _ _ H)|].
  intros i x Hx. destruct (all_ok_map_nth _ _ _ _ _ H Hx) as (b & E & Hb). exists b. split; assumption.
Qed.

Theorem arr_binop_stairs (o : binop) (rf : bool) xs g rs :
  arr_binop o rf xs (AoStairs g) = Ok rs ->
  length rs = length xs /\
  forall i x, nth_error xs i = Some x -> exists r, nth_error rs i = Some r /\ member_op o rf x (OpS g) = Ok r.
Proof.
  unfold arr_binop. intros H. split; [apply (all_ok_map_length _ _ _ H)|].
  intros i x Hx. destruct (all_ok_map_nth _ _ _ _ _ H Hx) as (b & E & Hb). exists b. split; assumption.
Qed.

Lemma nth_error_combine {A B} (l : list A) (l' : list B) i a b :
  nth_error l i = Some a -> nth_error l' i = Some b -> nth_error (combine l l') i = Some (a, b).
Proof.
  revert l' i. induction l as [|x t IH]; intros l' i Ha Hb; [destruct i; discriminate|].
  destruct l' as [|y t']; [destruct i; discriminate|].
  destruct i as [|i]; cbn [nth_error combine] in *.
  - injection Ha as <-. injection Hb as <-. reflexivity.
  - apply IH; assumption.
Qed.

Theorem arr_binop_array (o : binop) (rf : bool) xs ys rs :
  arr_binop o rf xs (AoArray ys) = Ok rs ->
  length ys = length xs /\ length rs = length xs /\
  forall i x y, nth_error xs i = Some x -> nth_error ys i = Some y ->
    exists r, nth_error rs i = Some r /\ member_op o rf x (OpS y) = Ok r.
Proof.
  unfold arr_binop. destruct (Nat.eqb (length ys) (length xs)) eqn:El; [|discriminate].
  apply Nat.eqb_eq in El. intros H. split; [exact El|]. split.
  - rewrite (all_ok_map_length _ _ _ H), combine_length. lia.
  - intros i x y Hx Hy. pose proof (nth_error_combine _ _ _ _ _ Hx Hy) as Hc.
    destruct (all_ok_map_nth _ _ _ _ _ H Hc) as (b & E & Hb). exists b. split; assumption.
Qed.

Theorem arr_binop_length_mismatch (o : binop) (rf : bool) xs ys :
  length ys <> length xs -> arr_binop o rf xs (AoArray ys) = Err EOther.
Proof. intros H. unfold arr_binop. apply Nat.eqb_neq in H. rewrite H. reflexivity. Qed.

(* a failure of the array operator is the failure of a member call, all earlier member calls having succeeded *)
Theorem arr_binop_array_error (o : binop) (rf : bool) xs ys e :
  length ys = length xs -> arr_binop o rf xs (AoArray ys) = Err e ->
  exists i x y, nth_error xs i = Some x /\ nth_error ys i = Some y /\ member_op o rf x (OpS y) = Err e.
Proof.
  intros El. unfold arr_binop. apply Nat.eqb_eq in El. rewrite El. intros H.
  destruct (all_ok_err _ _ H) as (i & Hi & _). rewrite nth_error_map in Hi.
  destruct (nth_error (combine xs ys) i) as [[x y]|] eqn:Hc; [|discriminate]. cbn [option_map fst snd] in Hi.
  exists i, x, y.
  assert (Hx : nth_error xs i = Some x /\ nth_error ys i = Some y).
  { clear - Hc. revert ys i Hc. induction xs as [|a t IH]; intros ys i Hc; [destruct i; discriminate|].
    destruct ys as [|b t']; [destruct i; discriminate|]. destruct i as [|i]; cbn [nth_error combine] in *.
    - injection Hc as <- <-. split; reflexivity.
    - apply IH. exact Hc. }
  destruct Hx as [Hx Hy]. split; [exact Hx|]. split; [exact Hy|]. congruence.
Qed.

(* ---- tables *)
Theorem arr_sample_rows xs pts i x :
  nth_error xs i = Some x -> nth_error (arr_sample xs pts) i = Some (map (sample x) pts).
Proof. intros H. unfold arr_sample. rewrite nth_error_map, H. reflexivity. Qed.

Theorem arr_limit_rows xs sd pts i x :
  nth_error xs i = Some x -> nth_error (arr_limit xs sd pts) i = Some (map (limit x sd) pts).
Proof. intros H. unfold arr_limit. rewrite nth_error_map, H. reflexivity. Qed.

Theorem arr_sample_entry xs pts i j x p :
  nth_error xs i = Some x -> nth_error pts j = Some p -> entry (arr_sample xs pts) i j = Some (sample x p).
Proof. intros Hx Hp. unfold entry. rewrite (arr_sample_rows _ _ _ _ Hx), nth_error_map, Hp. reflexivity. Qed.

Theorem arr_limit_entry xs sd pts i j x p :
  nth_error xs i = Some x -> nth_error pts j = Some p -> entry (arr_limit xs sd pts) i j = Some (limit x sd p).
Proof. intros Hx Hp. unfold entry. rewrite (arr_limit_rows _ _ _ _ _ Hx), nth_error_map, Hp. reflexivity. Qed.

Theorem arr_negate_entry xs i x : nth_error xs i = Some x -> nth_error (arr_negate xs) i = Some (negate x).
Proof. intros H. unfold arr_negate. rewrite nth_error_map, H. reflexivity. Qed.

(* ---- matrices *)
Lemma nth_error_indexed_from {A} (l : list A) s i :
  nth_error (combine (seq s (length l)) l) i = option_map (fun a => ((s + i)%nat, a)) (nth_error l i).
Proof.
  revert s i. induction l as [|x t IH]; intros s i; cbn [length seq combine].
  - destruct i; reflexivity.
  - destruct i as [|i]; cbn [nth_error option_map].
    + rewrite Nat.add_0_r. reflexivity.
    + rewrite IH. destruct (nth_error t i); cbn [option_map]; [|reflexivity]. do 2 f_equal. lia.
Qed.

Lemma nth_error_indexed {A} (l : list A) i a : nth_error l i = Some a -> nth_error (indexed l) i = Some (i, a).
Proof. intros H. unfold indexed. rewrite nth_error_indexed_from, H. reflexivity. Qed.

Lemma cell_sym d meth i j mi mj : (i = j -> mi = mj) -> cell d meth (i, mi) (j, mj) = cell d meth (j, mj) (i, mi).
Proof.
  intros Hd. unfold cell. cbn [fst snd].
  destruct (Nat.ltb i j) eqn:Eij, (Nat.ltb j i) eqn:Eji; try reflexivity.
  - apply Nat.ltb_lt in Eij, Eji. lia.
  - apply Nat.ltb_ge in Eij, Eji. assert (i = j) by lia. rewrite (Hd H). reflexivity.
Qed.

Theorem matrix_entry d meth ms M i j mi mj :
  matrix d meth ms = Ok M -> nth_error ms i = Some mi -> nth_error ms j = Some mj ->
  exists v, entry M i j = Some v /\ cell d meth (i, mi) (j, mj) = Ok v.
Proof.
  unfold matrix. destruct (all_ok (eval_order d meth ms)); [|discriminate]. intros H Hi Hj.
  destruct (all_ok_map_nth _ _ _ _ _ H (nth_error_indexed _ _ _ Hi)) as (row & Hrow & HM).
  destruct (all_ok_map_nth _ _ _ _ _ Hrow (nth_error_indexed _ _ _ Hj)) as (v & Hv & Hr).
  exists v. split; [|exact Hv]. unfold entry. rewrite HM. exact Hr.
Qed.

Theorem matrix_shape d meth ms M :
  matrix d meth ms = Ok M -> length M = length ms /\ forall row, In row M -> length row = length ms.
Proof.
  unfold matrix. destruct (all_ok (eval_order d meth ms)); [|discriminate]. intros H.
  assert (Li : length (indexed ms) = length ms).
  { unfold indexed. rewrite combine_length, seq_length. lia. }
  split; [rewrite (all_ok_map_length _ _ _ H); exact Li|].
  intros row Hin. apply In_nth_error in Hin. destruct Hin as [i Hi].
  assert (Hlt : i < length (indexed ms)).
  { rewrite <- (all_ok_map_length _ _ _ H). apply nth_error_Some. congruence. }
  destruct (nth_error (indexed ms) i) as [ia|] eqn:Ea; [|apply nth_error_None in Ea; lia].
  destruct (all_ok_map_nth _ _ _ _ _ H Ea) as (row' & Hrow & HM).
  assert (row' = row) by congruence. subst row'.
  rewrite (all_ok_map_length _ _ _ Hrow). exact Li.
Qed.

Theorem matrix_symmetric d meth ms M i j :
  matrix d meth ms = Ok M -> i < length ms -> j < length ms -> entry M i j = entry M j i.
Proof.
  intros H Hi Hj.
  destruct (nth_error ms i) as [mi|] eqn:Ei; [|apply nth_error_None in Ei; lia].
  destruct (nth_error ms j) as [mj|] eqn:Ej; [|apply nth_error_None in Ej; lia].
  destruct (matrix_entry d meth ms M i j mi mj H Ei Ej) as (v & Hv & Cv).
  destruct (matrix_entry d meth ms M j i mj mi H Ej Ei) as (v' & Hv' & Cv').
  rewrite Hv, Hv'. f_equal.
  rewrite (cell_sym d meth i j mi mj) in Cv by (intros ->; congruence). congruence.
Qed.

(* cov matrix: every entry is the pairwise Stairs.cov of the two members, in either order *)
Theorem cov_matrix_entries ms lo hi M i j mi mj v :
  (forall m, In m ms -> wf m /\ minimal m) ->
  arr_cov ms lo hi = Ok M -> nth_error ms i = Some mi -> nth_error ms j = Some mj ->
  cov mi mj lo hi 0%Qc ClipPre = Ok v -> entry M i j = Some v.
Proof.
  intros Hwf H Hi Hj Hc.
  destruct (matrix_entry _ _ _ _ _ _ _ _ H Hi Hj) as (v' & Hv & Cv).
  rewrite Hv. f_equal. unfold cell in Cv. cbn [fst snd] in Cv.
  destruct (Hwf mi (nth_error_In _ _ Hi)) as [Wi Mi]. destruct (Hwf mj (nth_error_In _ _ Hj)) as [Wj Mj].
  destruct (Nat.ltb i j) eqn:Eij; [congruence|].
  destruct (Nat.ltb j i) eqn:Eji.
  - symmetry. apply (cov_symmetric mi mj lo hi ClipPre v v' Wi Wj Mi Mj Hc Cv).
  - apply Nat.ltb_ge in Eij, Eji. assert (i = j) by lia. subst j. assert (mi = mj) by congruence. subst mj. congruence.
Qed.

(* corr matrix (signed squares): off the diagonal the pairwise Stairs.corr in either order; on the diagonal one,
   unless the member's correlation with itself is undefined *)
Theorem corr_matrix_off_diagonal ms lo hi M i j mi mj v :
  (forall m, In m ms -> wf m /\ minimal m) -> i <> j ->
  arr_corr ms lo hi = Ok M -> nth_error ms i = Some mi -> nth_error ms j = Some mj ->
  corr_signed_square mi mj lo hi 0%Qc ClipPre = Ok v -> entry M i j = Some v.
Proof.
  intros Hwf Hne H Hi Hj Hc.
  destruct (matrix_entry _ _ _ _ _ _ _ _ H Hi Hj) as (v' & Hv & Cv).
  rewrite Hv. f_equal. unfold cell in Cv. cbn [fst snd] in Cv.
  destruct (Hwf mi (nth_error_In _ _ Hi)) as [Wi Mi]. destruct (Hwf mj (nth_error_In _ _ Hj)) as [Wj Mj].
  destruct (Nat.ltb i j) eqn:Eij; [congruence|].
  destruct (Nat.ltb j i) eqn:Eji.
  - symmetry. apply (corr_symmetric mi mj lo hi ClipPre v v' Wi Wj Mi Mj Hc Cv).
  - apply Nat.ltb_ge in Eij, Eji. lia.
Qed.

Theorem corr_matrix_diagonal ms lo hi M i mi v :
  arr_corr ms lo hi = Ok M -> nth_error ms i = Some mi ->
  corr_signed_square mi mi lo hi 0%Qc ClipPre = Ok v ->
  entry M i i = Some (match v with Some _ => Some 1%Qc | None => None end).
Proof.
  intros H Hi Hc.
  destruct (matrix_entry _ _ _ _ _ _ _ _ H Hi Hi) as (v' & Hv & Cv).
  rewrite Hv. f_equal. unfold cell in Cv. cbn [fst snd] in Cv. rewrite Nat.ltb_irrefl in Cv. rewrite Hc in Cv.
  destruct v; congruence.
Qed.
