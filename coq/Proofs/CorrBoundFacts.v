(* Proofs/CorrBoundFacts.v — |corr| <= 1 (Cauchy-Schwarz over a common refinement), for the signed square the model returns (C19) *)
From Coq Require Import List Bool Arith Lia QArith Qcanon Lqa.
Import ListNotations.
Require Import SC.Base.Ord SC.Base.Val SC.Base.Series SC.Base.QcOrd.
Require Import SC.Model.Repr SC.Model.Ops SC.Model.Masking SC.Model.Sampling SC.Model.Stats SC.Model.Slicing.
Require Import SC.Spec.Den SC.Proofs.SeriesFacts SC.Proofs.ReprFacts SC.Proofs.OpsFacts SC.Proofs.MaskFacts SC.Proofs.ClipFacts
               SC.Proofs.CanonFacts SC.Proofs.MinimalFacts SC.Proofs.IdentityFacts SC.Proofs.AggFacts SC.Proofs.QcDense
               SC.Proofs.StatsFacts SC.Proofs.VarFacts SC.Proofs.RefineFacts SC.Proofs.CovFacts SC.Proofs.CovSelfFacts.
Open Scope Qc_scope.

Notation ser := (list (Qc * V)).

(* ---- Qc (in)equalities through Q *)
Lemma Qc_le_Q (x y : Qc) : x <= y <-> (this x <= this y)%Q.   Proof. reflexivity. Qed.
Lemma Qc_lt_Q (x y : Qc) : x < y <-> (this x < this y)%Q.     Proof. reflexivity. Qed.
Lemma Qc_eq_Q (x y : Qc) : x = y <-> (this x == this y)%Q.
Proof. split; [intros ->; reflexivity|apply Qc_is_canon]. Qed.
Lemma this_0 : (this 0 == 0)%Q.  Proof. reflexivity. Qed.
Lemma this_1 : (this 1 == 1)%Q.  Proof. reflexivity. Qed.

Ltac toQ :=
  unfold Qcle, Qclt in *;
  repeat (rewrite ?Qc_this_plus, ?Qc_this_mult, ?Qc_this_minus, ?Qc_this_opp in * );
  change (this 0) with 0%Q in *; change (this 1) with 1%Q in *.

Lemma sq_nonneg (x : Qc) : 0 <= x * x.
Proof. toQ. nra. Qed.

Lemma mult_nonneg (x y : Qc) : 0 <= x -> 0 <= y -> 0 <= x * y.
Proof. intros Hx Hy. toQ. nra. Qed.

Lemma plus_nonneg (x y : Qc) : 0 <= x -> 0 <= y -> 0 <= x + y.
Proof. intros Hx Hy. toQ. lra. Qed.

(* A > 0 and A (A C - B^2) >= 0 give B^2 <= A C *)
Lemma cs_core (A B C : Qc) : 0 < A -> 0 <= A * (A * C - B * B) -> B * B <= A * C.
Proof. intros HA H. toQ. nra. Qed.

(* ---- weighted sums of a function of two tables' values over a common partition *)
Definition vmap2 (h : Qc -> Qc -> Qc) (a b : V) : V :=
  match a, b with Some u, Some v => Some (h u v) | _, _ => None end.

Section Cells.
Variables A B : Qc -> V.      (* the two functions (right limits) *)

Definition R (h : Qc -> Qc -> Qc) (P : list Qc) : Qc := rsum (fun x => vmap2 h (A x) (B x)) P.

Lemma R_ext h1 h2 P : (forall u v, h1 u v = h2 u v) -> R h1 P = R h2 P.
Proof.
  intros E. unfold R. apply rsum_ext. intros x _. destruct (A x), (B x); cbn [vmap2]; try reflexivity. rewrite E. reflexivity.
Qed.

Lemma R_lin3 (c1 c2 c3 : Qc) (h1 h2 h3 : Qc -> Qc -> Qc) : forall P,
  R (fun u v => c1 * h1 u v + c2 * h2 u v + c3 * h3 u v) P = c1 * R h1 P + c2 * R h2 P + c3 * R h3 P.
Proof.
  unfold R. induction P as [|p t IH]; [cbn [rsum]; ring|]. destruct t as [|p' t']; [cbn [rsum]; ring|].
  rewrite !rsum_cons2, IH. destruct (A p), (B p); cbn [vmap2 pc_contrib]; ring.
Qed.

Lemma R_nonneg (k : Qc -> Qc -> Qc) : forall P, ksorted P -> 0 <= R (fun u v => k u v * k u v) P.
Proof.
  unfold R. induction P as [|p t IH]; intros HP; [apply Qcle_refl|]. destruct t as [|p' t']; [apply Qcle_refl|].
  rewrite rsum_cons2. apply plus_nonneg.
  - destruct (A p), (B p); cbn [vmap2 pc_contrib]; try apply Qcle_refl.
    apply mult_nonneg; [apply sq_nonneg|]. apply ksorted_cons in HP. destruct HP as [Hlt _].
    apply ltb_lt in Hlt. apply Qclt_le_weak. apply Qclt_minus_iff in Hlt. exact Hlt.
  - apply IH. eapply ksorted_tail. exact HP.
Qed.

(* Cauchy-Schwarz for the centred values: with S0 > 0 and a non-degenerate first function *)
Theorem cauchy_schwarz (P : list Qc) (ma mb : Qc) : ksorted P ->
  let A2 := R (fun u _ => (u - ma) * (u - ma)) P in
  let B2 := R (fun u v => (u - ma) * (v - mb)) P in
  let C2 := R (fun _ v => (v - mb) * (v - mb)) P in
  0 < A2 -> B2 * B2 <= A2 * C2.
Proof.
  intros HP A2 B2 C2 HA. apply cs_core; [exact HA|].
  pose proof (R_nonneg (fun u v => (u - ma) * B2 - (v - mb) * A2) P HP) as N. cbv beta in N.
  assert (E : R (fun u v => ((u - ma) * B2 - (v - mb) * A2) * ((u - ma) * B2 - (v - mb) * A2)) P
              = B2 * B2 * A2 + (- (1 + 1) * A2 * B2) * B2 + A2 * A2 * C2).
  { rewrite (R_ext _ (fun u v => (B2 * B2) * ((u - ma) * (u - ma)) + (- (1 + 1) * A2 * B2) * ((u - ma) * (v - mb))
                                  + (A2 * A2) * ((v - mb) * (v - mb))) P) by (intros u v; ring).
    rewrite (R_lin3 (B2 * B2) (- (1 + 1) * A2 * B2) (A2 * A2)
                    (fun u _ => (u - ma) * (u - ma)) (fun u v => (u - ma) * (v - mb)) (fun _ v => (v - mb) * (v - mb)) P).
    reflexivity. }
  rewrite E in N. replace (A2 * (A2 * C2 - B2 * B2)) with (B2 * B2 * A2 + - (1 + 1) * A2 * B2 * B2 + A2 * A2 * C2) by ring.
  exact N.
Qed.
End Cells.

(* ---- the bound on the signed square *)
Lemma signed_square_bounded (x d : Qc) : x * x <= d -> 0 < d -> - (1) <= x * Qcabs_ x / d /\ x * Qcabs_ x / d <= 1.
Proof.
  intros Hx Hd. assert (Dne : d <> 0) by (intros E; rewrite E in Hd; discriminate Hd).
  pose proof (Qcmult_inv_r d Dne) as Hy. unfold Qcdiv. set (y := / d) in *.
  assert (Y0 : 0 <= y).
  { assert (0 < y); [|apply Qclt_le_weak; assumption].
    unfold y. unfold Qclt. rewrite Qc_this_inv. change (this 0) with 0%Q. apply Qinv_lt_0_compat. exact Hd. }
  assert (X1 : x * x * y <= 1).
  { assert (H : 0 <= (d - x * x) * y).
    { apply mult_nonneg; [|exact Y0]. apply Qcle_minus_iff in Hx. replace (d - x * x) with (d + - (x * x)) by ring. exact Hx. }
    replace ((d - x * x) * y) with (1 - x * x * y) in H by (rewrite <- Hy; ring).
    apply Qcle_minus_iff. replace (1 + - (x * x * y)) with (1 - x * x * y) by ring. exact H. }
  assert (X0 : 0 <= x * x * y) by (apply mult_nonneg; [apply sq_nonneg|exact Y0]).
  unfold Qcabs_. destruct (Qcltb x 0).
  - replace (x * - x * y) with (- (x * x * y)) by ring. split.
    + apply Qcopp_le_compat. exact X1.
    + apply Qcle_trans with 0; [|discriminate]. replace 0 with (- 0) by ring. apply Qcopp_le_compat. exact X0.
  - split; [|exact X1]. apply Qcle_trans with 0; [discriminate|exact X0].
Qed.

(* ---- sums of a clipped table as sums over any finer partition *)
Lemma wsum_as_rsum (g : Qc -> Qc) (l : ser) (P : list Qc) :
  sorted l -> tail_none None l -> ksorted P -> incl (keys l) P ->
  wsum_pieces g l = rsum (fun x => vmap g (lookup false None l x)) P.
Proof.
  intros Sl Tl HP Hin. rewrite wsum_as_integral.
  assert (K : keys (map_vals (vmap g) l) = keys l) by apply keys_map_vals.
  rewrite (integral_over_any_refinement (map_vals (vmap g) l) P).
  - apply rsum_ext. intros x _. change (@None Qc) with (vmap g None) at 1. apply lookup_map_vals.
  - unfold sorted. rewrite K. exact Sl.
  - exact HP.
  - rewrite K. exact Hin.
  - apply (tail_none_map g l None Tl).
Qed.

Section Common.
Variables lf lg lp : ser.
Variable P : list Qc.
Hypothesis Sf : sorted lf.   Hypothesis Sg : sorted lg.   Hypothesis Sp : sorted lp.
Hypothesis Tf : tail_none None lf.   Hypothesis Tg : tail_none None lg.   Hypothesis Tp : tail_none None lp.
Hypothesis HP : ksorted P.
Hypothesis If_ : incl (keys lf) P.   Hypothesis Ig_ : incl (keys lg) P.   Hypothesis Ip_ : incl (keys lp) P.
Let A := fun x => lookup false None lf x.
Let B := fun x => lookup false None lg x.
Hypothesis Dfg : forall x, A x = None <-> B x = None.
Hypothesis Hprod : forall x, lookup false None lp x = vmul (A x) (B x).

Lemma sum_f (g : Qc -> Qc) : wsum_pieces g lf = R A B (fun u _ => g u) P.
Proof.
  rewrite (wsum_as_rsum g lf P Sf Tf HP If_). unfold R. apply rsum_ext. intros x _. fold (A x).
  pose proof (Dfg x) as D. destruct (A x), (B x); cbn [vmap vmap2]; try reflexivity.
  discriminate (proj2 D eq_refl).
Qed.

Lemma sum_g (g : Qc -> Qc) : wsum_pieces g lg = R A B (fun _ v => g v) P.
Proof.
  rewrite (wsum_as_rsum g lg P Sg Tg HP Ig_). unfold R. apply rsum_ext. intros x _. fold (B x).
  pose proof (Dfg x) as D. destruct (A x), (B x); cbn [vmap vmap2]; try reflexivity.
  discriminate (proj1 D eq_refl).
Qed.

Lemma sum_p (h : Qc -> Qc -> Qc) (g : Qc -> Qc) : (forall u v, g (u * v) = h u v) -> wsum_pieces g lp = R A B h P.
Proof.
  intros E. rewrite (wsum_as_rsum g lp P Sp Tp HP Ip_). unfold R. apply rsum_ext. intros x _. rewrite Hprod.
  destruct (A x), (B x); cbn [vmul vlift2 vmap vmap2]; try reflexivity. rewrite E. reflexivity.
Qed.

(* the weighted sum of the centred product: sum w (u - muf)(v - mug) = sum w u v - muf mug T *)
Lemma centred_sum (muf mug : Qc) :
  piece_integral (fin_pieces lf) = muf * piece_total (fin_pieces lf) ->
  piece_integral (fin_pieces lg) = mug * piece_total (fin_pieces lf) ->
  R A B (fun u v => (u - muf) * (v - mug)) P =
  piece_integral (fin_pieces lp) - muf * mug * piece_total (fin_pieces lf).
Proof.
  intros Ma Mb.
  assert (E0 : piece_total (fin_pieces lf) = R A B (fun _ _ => 1) P) by (rewrite total_as_wsum; apply (sum_f (fun _ => 1))).
  assert (ESa : piece_integral (fin_pieces lf) = R A B (fun u _ => u) P) by apply (sum_f (fun u => u)).
  assert (ESb : piece_integral (fin_pieces lg) = R A B (fun _ v => v) P) by apply (sum_g (fun v => v)).
  assert (ESab : piece_integral (fin_pieces lp) = R A B (fun u v => u * v) P) by (apply (sum_p (fun u v => u * v) (fun w => w)); reflexivity).
  rewrite (R_ext A B _ (fun u v => 1 * (u * v) + (- muf) * (1 * v + 0 * u + 0 * 1) + (- mug) * (1 * u + (- muf) * 1 + 0 * 1)) P)
    by (intros u v; ring).
  rewrite (R_lin3 A B 1 (- muf) (- mug) (fun u v => u * v) (fun u v => 1 * v + 0 * u + 0 * 1) (fun u v => 1 * u + (- muf) * 1 + 0 * 1) P).
  rewrite (R_lin3 A B 1 0 0 (fun _ v => v) (fun u _ => u) (fun _ _ => 1) P).
  rewrite (R_lin3 A B 1 (- muf) 0 (fun u _ => u) (fun _ _ => 1) (fun _ _ => 1) P).
  rewrite <- ESab, <- ESa, <- ESb, <- E0. rewrite Ma, Mb. ring.
Qed.

Theorem moments_cauchy_schwarz :
  let T := piece_total (fin_pieces lf) in
  let muf := piece_integral (fin_pieces lf) / T in
  let mug := piece_integral (fin_pieces lg) / T in
  let VF := piece_sqdev muf (fin_pieces lf) / T in
  let VG := piece_sqdev mug (fin_pieces lg) / T in
  let X := piece_integral (fin_pieces lp) / T - muf * mug in
  0 < T -> VF * VG <> 0 ->
  piece_total (fin_pieces lg) = T /\ piece_total (fin_pieces lp) = T /\ X * X <= VF * VG /\ 0 < VF * VG.
Proof.
  intros T muf mug VF VG X HT Hd.
  assert (Tne : T <> 0) by (intros E; rewrite E in HT; discriminate HT).
  set (S0 := R A B (fun _ _ => 1) P).
  assert (E0 : T = S0) by (unfold T; rewrite total_as_wsum; apply (sum_f (fun _ => 1))).
  assert (Eg0 : piece_total (fin_pieces lg) = S0) by (rewrite total_as_wsum; apply (sum_g (fun _ => 1))).
  assert (Ep0 : piece_total (fin_pieces lp) = S0) by (rewrite total_as_wsum; apply (sum_p (fun _ _ => 1) (fun _ => 1)); reflexivity).
  split; [congruence|]. split; [congruence|].
  set (A2 := R A B (fun u _ => (u - muf) * (u - muf)) P).
  set (B2 := R A B (fun u v => (u - muf) * (v - mug)) P).
  set (C2 := R A B (fun _ v => (v - mug) * (v - mug)) P).
  assert (EA : piece_sqdev muf (fin_pieces lf) = A2) by apply (sum_f (fun u => (u - muf) * (u - muf))).
  assert (EC : piece_sqdev mug (fin_pieces lg) = C2) by apply (sum_g (fun v => (v - mug) * (v - mug))).
  assert (ESa : piece_integral (fin_pieces lf) = R A B (fun u _ => u) P) by apply (sum_f (fun u => u)).
  assert (ESb : piece_integral (fin_pieces lg) = R A B (fun _ v => v) P) by apply (sum_g (fun v => v)).
  assert (ESab : piece_integral (fin_pieces lp) = R A B (fun u v => u * v) P) by (apply (sum_p (fun u v => u * v) (fun w => w)); reflexivity).
  (* B2 = Sab - muf Sb - mug Sa + muf mug S0 = Sab - muf mug T *)
  assert (EB : B2 = piece_integral (fin_pieces lp) - muf * mug * T).
  { unfold B2. rewrite (R_ext A B _ (fun u v => 1 * (u * v) + (- muf) * (1 * v + 0 * u + 0 * 1) + (- mug) * (1 * u + (- muf) * 1 + 0 * 1)) P)
      by (intros u v; ring).
    rewrite (R_lin3 A B 1 (- muf) (- mug) (fun u v => u * v) (fun u v => 1 * v + 0 * u + 0 * 1) (fun u v => 1 * u + (- muf) * 1 + 0 * 1) P).
    rewrite (R_lin3 A B 1 0 0 (fun _ v => v) (fun u _ => u) (fun _ _ => 1) P).
    rewrite (R_lin3 A B 1 (- muf) 0 (fun u _ => u) (fun _ _ => 1) (fun _ _ => 1) P).
    rewrite <- ESab, <- ESa, <- ESb. fold S0. rewrite <- E0.
    assert (Ma : piece_integral (fin_pieces lf) = muf * T) by (unfold muf, Qcdiv; rewrite <- Qcmult_assoc, Qcmult_inv_l by exact Tne; ring).
    assert (Mb : piece_integral (fin_pieces lg) = mug * T) by (unfold mug, Qcdiv; rewrite <- Qcmult_assoc, Qcmult_inv_l by exact Tne; ring).
    rewrite Ma, Mb. ring. }
  assert (A0 : 0 <= A2) by (apply (R_nonneg A B (fun u _ => u - muf) P HP)).
  assert (C0 : 0 <= C2) by (apply (R_nonneg A B (fun _ v => v - mug) P HP)).
  assert (EVF : VF = A2 / T) by (unfold VF; rewrite EA; reflexivity).
  assert (EVG : VG = C2 / T) by (unfold VG; rewrite EC; reflexivity).
  assert (EX : X = B2 / T).
  { unfold X. rewrite EB. unfold Qcdiv. transitivity (piece_integral (fin_pieces lp) * / T - muf * mug * (T * / T)); [|ring].
    rewrite Qcmult_inv_r by exact Tne. ring. }
  assert (A2ne : A2 <> 0).
  { intros E. apply Hd. rewrite EVF, E. unfold Qcdiv. ring. }
  assert (HA : 0 < A2).
  { destruct (Qcle_lt_or_eq _ _ A0) as [H|H]; [exact H|congruence]. }
  pose proof (cauchy_schwarz A B P muf mug HP HA) as CS. cbv zeta in CS. fold A2 B2 C2 in CS.
  set (y := / T) in *.
  assert (Y0 : 0 < y).
  { unfold y, Qclt. rewrite Qc_this_inv. change (this 0) with 0%Q. apply Qinv_lt_0_compat. exact HT. }
  rewrite EX, EVF, EVG. unfold Qcdiv. fold y. split.
  - replace (B2 * y * (B2 * y)) with (B2 * B2 * (y * y)) by ring. replace (A2 * y * (C2 * y)) with (A2 * C2 * (y * y)) by ring.
    apply Qcmult_le_compat_r; [exact CS|apply sq_nonneg].
  - assert (Hnn : 0 <= A2 * y * (C2 * y)).
    { apply mult_nonneg; apply mult_nonneg; try assumption; apply Qclt_le_weak; exact Y0. }
    destruct (Qcle_lt_or_eq _ _ Hnn) as [H|H]; [exact H|]. exfalso. apply Hd. rewrite EVF, EVG. unfold Qcdiv. fold y. congruence.
Qed.
End Common.

(* ---- assembly: the signed square of corr over a finite window lies in [-1, 1] *)
Lemma both_defined_none (x y : V) : (if both_defined x y then x else None) = None <-> (if both_defined x y then y else None) = None.
Proof. unfold both_defined. destruct x, y; cbn; split; congruence. Qed.

Lemma lookup_is_lim (c : stairsQ) x : init c = None -> lookup false None (get_values c) x = lim LimRight c x.
Proof. intros E. unfold lim. rewrite E. reflexivity. Qed.

