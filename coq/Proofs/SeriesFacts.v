(* Proofs/SeriesFacts.v — lemmas about lookup, union, reindexing, searchsorted on sorted series *)
From Coq Require Import List Bool Arith Lia.
Import ListNotations.
Require Import SC.Base.Ord SC.Base.Series.

Section Facts.
Context {D : Type} `{Ord D}.
Variable A : Type.
Notation ser := (list (D * A)).

Lemma sorted_cons p v (t : ser) : sorted ((p, v) :: t) <-> ksorted_from p (keys t).
Proof. reflexivity. Qed.

Lemma sorted_tail p v (t : ser) : sorted ((p, v) :: t) -> sorted t.
Proof. unfold sorted. simpl. apply ksorted_from_ksorted. Qed.

Lemma lookup_not_before s (v0 : A) lo (l : ser) x :
  ksorted_from lo (keys l) -> before s lo x = false -> lookup s v0 l x = v0.
Proof.
  destruct l as [|[p v] t]; simpl; auto. intros [Hlt _] Hb.
  rewrite (@before_mono _ _ s lo p x Hlt Hb). reflexivity.
Qed.

Lemma lookup_le_lo s (v0 : A) lo (l : ser) x :
  ksorted_from lo (keys l) -> ltb lo x = false -> lookup s v0 l x = v0.
Proof.
  destruct l as [|[q w] t]; simpl; auto. intros [Hlt _] Hx.
  rewrite before_gt; auto. destruct (cmpP x lo) as [Hxl _|Heq|Hxl _].
  - eapply ltb_trans; eauto.
  - subst; auto.
  - congruence.
Qed.

Lemma lookup_R_self (v0 : A) p v (t : ser) :
  ksorted_from p (keys t) -> lookup false v0 ((p, v) :: t) p = v.
Proof.
  intros Hs. simpl. unfold before. rewrite leb_refl.
  eapply lookup_le_lo; eauto. apply ltb_irrefl.
Qed.

Lemma lookup_R_after (v0 : A) p v (t : ser) q :
  ltb p q = true -> lookup false v0 ((p, v) :: t) q = lookup false v t q.
Proof. intros Hlt. simpl. unfold before. rewrite (ltb_leb _ _ Hlt). reflexivity. Qed.

(* Stairs.limit computes the one-sided limit *)
Lemma limit_idx_gen s (l : ser) : forall (v0 d : A) x,
  match count_before s (keys l) x with O => v0 | S k => nth k (vals l) d end = lookup s v0 l x.
Proof.
  induction l as [|[p v] t IH]; intros v0 d x; simpl; auto.
  destruct (before s p x) eqn:B; auto.
Qed.

Lemma limit_idx_lookup s (v0 : A) (l : ser) x : limit_idx s v0 l x = lookup s v0 l x.
Proof. unfold limit_idx. apply limit_idx_gen. Qed.

(* pointwise maps *)
Lemma lookup_map_vals (B : Type) (f : A -> B) s v0 (l : ser) x :
  lookup s (f v0) (map_vals f l) x = f (lookup s v0 l x).
Proof.
  revert v0. induction l as [|[p v] t IH]; intros v0; simpl; auto.
  destruct (before s p x); auto.
Qed.

Lemma keys_map_vals (B : Type) (f : A -> B) (l : ser) : keys (map_vals f l) = keys l.
Proof. unfold keys, map_vals. rewrite map_map. reflexivity. Qed.

(* union *)
Lemma union_nil_r (a : list D) : union a [] = a.
Proof. destruct a; reflexivity. Qed.

Lemma union_cons x a y b :
  union (x :: a) (y :: b) =
  if ltb x y then x :: union a (y :: b)
  else if ltb y x then y :: union (x :: a) b
  else x :: union a b.
Proof. reflexivity. Qed.

Lemma in_union a : forall b q, In q (union a b) <-> In q a \/ In q b.
Proof.
  induction a as [|x a IHa]; intros b q.
  - simpl. tauto.
  - induction b as [|y b IHb].
    + rewrite union_nil_r. simpl. tauto.
    + rewrite union_cons. destruct (ltb x y) eqn:E1; [|destruct (ltb y x) eqn:E2].
      * simpl. rewrite IHa. simpl. tauto.
      * simpl. rewrite IHb. simpl. tauto.
      * assert (x = y) by (apply ltb_total; auto). subst y.
        simpl. rewrite IHa. tauto.
Qed.

Lemma union_sorted_from lo a : forall b,
  ksorted_from lo a -> ksorted_from lo b -> ksorted_from lo (union a b).
Proof.
  revert lo. induction a as [|x a IHa]; intros lo b Ha Hb.
  - exact Hb.
  - revert lo Ha Hb. induction b as [|y b IHb]; intros lo Ha Hb.
    + rewrite union_nil_r. exact Ha.
    + rewrite union_cons. simpl in Ha, Hb. destruct Ha as [Hx Ha]. destruct Hb as [Hy Hb].
      destruct (ltb x y) eqn:E1; [|destruct (ltb y x) eqn:E2].
      * simpl. split; auto. apply IHa; auto. simpl. split; auto.
      * simpl. split; auto. apply IHb; auto. simpl. split; auto.
      * assert (x = y) by (apply ltb_total; auto). subst y.
        simpl. split; auto.
Qed.

Lemma union_sorted a b : ksorted a -> ksorted b -> ksorted (union a b).
Proof.
  destruct a as [|x a]; [auto|]. destruct b as [|y b]; [rewrite union_nil_r; auto|].
  intros Ha Hb. rewrite union_cons. simpl in Ha, Hb.
  destruct (ltb x y) eqn:E1; [|destruct (ltb y x) eqn:E2].
  - simpl. apply union_sorted_from; simpl; auto.
  - simpl. change (ksorted_from y (union (x :: a) b)). apply union_sorted_from; simpl; auto.
  - assert (x = y) by (apply ltb_total; auto). subst y. simpl. apply union_sorted_from; auto.
Qed.

(* every key of l occurs in idx *)
Definition subkeys (l idx : list D) : Prop := forall q, In q l -> In q idx.

Lemma subkeys_union_l a b : subkeys a (union a b).
Proof. intros q Hq. apply in_union. auto. Qed.
Lemma subkeys_union_r a b : subkeys b (union a b).
Proof. intros q Hq. apply in_union. auto. Qed.

Lemma reindex_cons i idx (v0 : A) (l : ser) :
  reindex_values (i :: idx) v0 l = (i, lookup false v0 l i) :: reindex_values idx v0 l.
Proof. reflexivity. Qed.
Lemma lookup_cons s (v0 : A) p v (t : ser) x :
  lookup s v0 ((p, v) :: t) x = if before s p x then lookup s v t x else v0.
Proof. reflexivity. Qed.

(* reindexing onto a finer sorted index does not change either limit *)
Theorem lookup_reindex s : forall idx (v0 : A) (l : ser) x,
  ksorted idx -> sorted l -> subkeys (keys l) idx ->
  lookup s v0 (reindex_values idx v0 l) x = lookup s v0 l x.
Proof.
  induction idx as [|i idx IH]; intros v0 l x Hi Hl Hsub.
  - destruct l as [|[p v] t]; simpl in *; auto. exfalso. apply (Hsub p). simpl; auto.
  - assert (Hidx : ksorted idx) by (eapply ksorted_tail; eauto).
    destruct l as [|[p v] t].
    + specialize (IH v0 [] x Hidx I (fun q F => match F with end)).
      unfold reindex_values in *. simpl in *. rewrite IH. destruct (before s i x); reflexivity.
    + assert (Hp : In p (i :: idx)) by (apply Hsub; simpl; auto).
      assert (Ht : ksorted_from p (keys t)) by exact Hl.
      destruct Hp as [Heq|Hin].
      * subst i. rewrite reindex_cons, lookup_R_self by exact Ht.
        rewrite !lookup_cons. destruct (before s p x) eqn:B; auto.
        rewrite <- (IH v t x Hidx).
        -- f_equal. unfold reindex_values. apply map_ext_in. intros q Hq. f_equal. apply lookup_R_after.
           apply (@ksorted_from_lt _ _ p idx q); [exact Hi|exact Hq].
        -- eapply sorted_tail; eauto.
        -- intros q Hq. assert (Hq' : In q (p :: idx)) by (apply Hsub; simpl; auto).
           destruct Hq' as [Hq'|Hq']; auto. subst q. exfalso.
           eapply ksorted_from_notin; eauto.
      * assert (Hip : ltb i p = true) by (apply (@ksorted_from_lt _ _ i idx p); [exact Hi|exact Hin]).
        assert (E : lookup false v0 ((p, v) :: t) i = v0).
        { simpl. unfold before, leb. rewrite Hip. reflexivity. }
        rewrite reindex_cons, E, lookup_cons.
        rewrite IH; auto.
        -- destruct (before s i x) eqn:B; auto. rewrite lookup_cons.
           rewrite (@before_mono _ _ s i p x Hip B). reflexivity.
        -- intros q Hq. assert (Hq' : In q (i :: idx)) by (apply Hsub; auto).
           destruct Hq' as [Hq'|Hq']; auto. subst q. exfalso.
           simpl in Hq. destruct Hq as [Hq|Hq].
           ++ subst p. rewrite ltb_irrefl in Hip. discriminate.
           ++ pose proof (@ksorted_from_lt _ _ p (keys t) i Ht Hq) as Hlt.
              rewrite (ltb_asym _ _ Hip) in Hlt. discriminate.
Qed.

Lemma keys_reindex idx (v0 : A) (l : ser) : keys (reindex_values idx v0 l) = idx.
Proof. unfold keys, reindex_values. rewrite map_map. simpl. apply map_id. Qed.

End Facts.

Section Combine.
Context {D : Type} `{Ord D}.
Variables A B C : Type.
Variable op : A -> B -> C.

(* pointwise combination on a common index *)
Lemma lookup_zip_index s (F : D -> A) (G : D -> B) : forall idx a0 b0 x,
  lookup s (op a0 b0) (map (fun p => (p, op (F p) (G p))) idx) x =
  op (lookup s a0 (map (fun p => (p, F p)) idx) x) (lookup s b0 (map (fun p => (p, G p)) idx) x).
Proof. induction idx as [|i idx IH]; intros; simpl; auto. destruct (before s i x); auto. Qed.

Theorem lookup_combine s (a0 : A) (a : list (D * A)) (b0 : B) (b : list (D * B)) x :
  sorted a -> sorted b ->
  lookup s (op a0 b0)
    (map (fun p => (p, op (lookup false a0 a p) (lookup false b0 b p))) (union (keys a) (keys b))) x =
  op (lookup s a0 a x) (lookup s b0 b x).
Proof.
  intros Ha Hb.
  rewrite (lookup_zip_index s (fun p => lookup false a0 a p) (fun p => lookup false b0 b p)).
  fold (reindex_values (union (keys a) (keys b)) a0 a).
  fold (reindex_values (union (keys a) (keys b)) b0 b).
  rewrite !lookup_reindex; auto using union_sorted, subkeys_union_l, subkeys_union_r.
Qed.

End Combine.
