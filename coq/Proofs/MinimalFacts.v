(* Proofs/MinimalFacts.v — every operation returns a minimal representation when given minimal operands *)
From Coq Require Import List Bool Arith Lia QArith Qcanon.
Import ListNotations.
Require Import SC.Base.Ord SC.Base.Val SC.Base.Series SC.Model.Repr SC.Model.Ops SC.Model.Masking SC.Model.Sampling.
Require Import SC.Spec.Den SC.Proofs.SeriesFacts SC.Proofs.ReprFacts SC.Proofs.DeltaFacts SC.Proofs.OpsFacts
               SC.Proofs.MaskFacts SC.Proofs.ClipFacts SC.Proofs.LayerFacts SC.Proofs.CanonFacts.
Open Scope Qc_scope.

Section MinimalFacts.
Context {D : Type} `{Ord D}.
Notation ser := (list (D * V)).
Notation stairs := (stairs D).

Lemma minimal_map_inj (fn : V -> V) : (forall a b, fn a = fn b -> a = b) ->
  forall (l : ser) i, minimal_from i l -> minimal_from (fn i) (map_vals fn l).
Proof.
  intros Hinj. induction l as [|[p v] t IH]; intros i; simpl; auto.
  intros [Hne Hm]. split; auto.
Qed.

Lemma some_inj (x y : Qc) : Some x = Some y -> x = y.
Proof. congruence. Qed.

(* all step changes non-zero *)
Definition nonzero (d : ser) : Prop := forall p x, In (p, Some x) d -> x <> 0.

Lemma minimal_cumsum_nonzero : forall (d : ser) a, nan_free d -> nonzero d -> minimal_from (Some a) (cumsum a d).
Proof.
  induction d as [|[p w] t IH]; intros a Hn Hz; simpl; auto.
  apply nan_free_cons in Hn. destruct Hn as [[x ->] Hn]. simpl. split.
  - intro E. apply some_inj in E. apply (Hz p x); [simpl; auto|].
    replace x with (a + x - a) by ring. rewrite <- E. ring.
  - apply IH; auto. intros q y Hq. apply (Hz q y). simpl; auto.
Qed.

Lemma nonzero_of_minimal_cumsum : forall (d : ser) a, nan_free d -> minimal_from (Some a) (cumsum a d) -> nonzero d.
Proof.
  induction d as [|[p w] t IH]; intros a Hn Hm; [intros q y []|].
  apply nan_free_cons in Hn. destruct Hn as [[x ->] Hn]. simpl in Hm. destruct Hm as [Hne Hm].
  intros q y [E|Hq].
  - injection E as <- <-. intro Hx. subst x. apply Hne. f_equal. ring.
  - eapply IH; eauto.
Qed.

Lemma drop_zero_nonzero : forall (d : ser) pn, nan_free d -> nonzero (drop_flagged (dflags pn d) d).
Proof.
  induction d as [|[p w] t IH]; intros pn Hn; simpl; [intros q y []|].
  apply nan_free_cons in Hn. destruct Hn as [[x ->] Hn]. simpl.
  destruct (Qceqb x 0) eqn:E.
  - apply IH; auto.
  - intros q y [Eq|Hq].
    + injection Eq as <- <-. intro Hx. subst x. rewrite (proj2 (Qceqb_eq 0 0) eq_refl) in E. discriminate.
    + eapply IH; eauto.
Qed.

Lemma canon_deltas_minimal a (d : ser) c : sorted d -> nan_free d ->
  minimal (remove_redundant (of_deltas (Some a) d c)).
Proof.
  intros Sd Nd. rewrite rr_of_deltas. unfold minimal. rewrite get_values_of_deltas, init_of_deltas.
  apply minimal_cumsum_nonzero.
  - apply drop_flagged_nan_free. exact Nd.
  - apply drop_zero_nonzero. exact Nd.
Qed.

Lemma vadd_inj_r c a b : vadd a (Some c) = vadd b (Some c) -> a = b.
Proof.
  destruct a as [x|], b as [y|]; simpl; intros E; try discriminate; auto.
  apply some_inj in E. f_equal. replace x with (x + c - c) by ring. rewrite E. ring.
Qed.
Lemma vsub_inj_r c a b : vsub a (Some c) = vsub b (Some c) -> a = b.
Proof.
  destruct a as [x|], b as [y|]; simpl; intros E; try discriminate; auto.
  apply some_inj in E. f_equal. replace x with (x - c + c) by ring. rewrite E. ring.
Qed.
Lemma vadd_inj_l c a b : vadd (Some c) a = vadd (Some c) b -> a = b.
Proof.
  destruct a as [x|], b as [y|]; simpl; intros E; try discriminate; auto.
  apply some_inj in E. f_equal. replace x with (c + x - c) by ring. rewrite E. ring.
Qed.
Lemma vsub_inj_l c a b : vsub (Some c) a = vsub (Some c) b -> a = b.
Proof.
  destruct a as [x|], b as [y|]; simpl; intros E; try discriminate; auto.
  apply some_inj in E. f_equal. replace x with (c - (c - x)) by ring. rewrite E. ring.
Qed.
Lemma vneg_inj a b : vneg a = vneg b -> a = b.
Proof.
  destruct a as [x|], b as [y|]; simpl; intros E; try discriminate; auto.
  apply some_inj in E. f_equal. replace x with (- - x) by ring. rewrite E. ring.
Qed.

(* a result with the same minimal value series as a pointwise injective image of f's *)
Lemma minimal_of_values (r f : stairs) (fn : V -> V) :
  (forall a b, fn a = fn b -> a = b) -> minimal f ->
  init r = fn (init f) -> get_values r = map_vals fn (get_values f) -> minimal r.
Proof.
  intros Hinj Mf Ei Ev. unfold minimal. rewrite Ei, Ev. apply minimal_map_inj; auto.
Qed.

Theorem negate_minimal (f : stairs) : wf f -> minimal f -> minimal (negate f).
Proof.
  intros Wf Mf. apply (minimal_of_values (negate f) f vneg vneg_inj Mf); [reflexivity|].
  unfold negate, get_values, frame_values. destruct (data f) as [fr|]; simpl; auto.
  destruct (vcol fr) as [v|]; simpl; auto. destruct (dcol fr) as [d|]; simpl; auto.
  unfold vals_of_deltas. destruct (init f) as [a|]; simpl.
  - apply negate_cumsum.
  - replace 0 with (- 0) at 1 by ring. apply negate_cumsum.
Qed.

Theorem add_or_sub_minimal (sub : bool) (f g : stairs) :
  wf f -> wf g -> minimal f -> minimal g -> minimal (add_or_sub sub f g).
Proof.
  intros Wf Wg Mf Mg.
  set (qop := if sub then Qcminus else Qcplus).
  assert (Hop : (if sub then vsub else vadd) = vlift2 qop) by (destruct sub; reflexivity).
  assert (ql : forall a1 a2 d, qop a1 a2 + qop d 0 = qop (a1 + d) a2) by (intros; unfold qop; destruct sub; ring).
  assert (qr : forall a1 a2 d, qop a1 a2 + qop 0 d = qop a1 (a2 + d)) by (intros; unfold qop; destruct sub; ring).
  assert (q0 : forall d, qop d 0 = d) by (intros; unfold qop; destruct sub; ring).
  assert (injr : forall c a b, vlift2 qop a (Some c) = vlift2 qop b (Some c) -> a = b)
    by (intros c a b; unfold qop; destruct sub; [apply vsub_inj_r|apply vadd_inj_r]).
  assert (injl : forall c a b, vlift2 qop (Some c) a = vlift2 qop (Some c) b -> a = b)
    by (intros c a b; unfold qop; destruct sub; [apply vsub_inj_l|apply vadd_inj_l]).
  unfold add_or_sub. rewrite Hop.
  destruct (data f) as [ff|] eqn:Df; destruct (data g) as [gg|] eqn:Dg.
  - destruct (has_na f || has_na g) eqn:E.
    + apply via_values_spec; auto.
    + apply orb_false_iff in E. destruct E as [Nf Ng].
      destruct (frame_has_d f || frame_has_d g); [|apply via_values_spec; auto].
      unfold add_sub_deltas. destruct (no_na_init f Nf) as [a Ha]. destruct (no_na_init g Ng) as [b Hb].
      rewrite Ha, Hb. simpl. apply canon_deltas_minimal.
      * apply (align_sorted qop); auto using wf_sorted_deltas.
      * apply (align_nan_free qop); auto using no_na_deltas.
  - destruct (init g) as [c|] eqn:Ig; simpl; [|exact I].
    destruct (init f) as [a|] eqn:If; simpl.
    + set (r := Stairs _ _ _).
      apply (minimal_of_values r f (fun v => vlift2 qop v (Some c)) (injr c) Mf).
      * unfold r. simpl. rewrite If. reflexivity.
      * unfold r, get_values, frame_values. rewrite Df, If. simpl.
        destruct (vcol ff) as [v|]; simpl; auto. destruct (dcol ff) as [d|]; simpl; auto.
        unfold vals_of_deltas. simpl. apply (cumsum_shift_l qop ql q0).
    + set (r := Stairs _ _ _).
      apply (minimal_of_values r f (fun v => vlift2 qop v (Some c)) (injr c) Mf).
      * unfold r. simpl. rewrite If. reflexivity.
      * unfold r. change (get_values (of_values None (map_vals (fun v => vlift2 qop v (Some c)) (get_values f)) (closed f))
                          = map_vals (fun v => vlift2 qop v (Some c)) (get_values f)).
        apply get_values_of_values.
  - destruct (init f) as [c|] eqn:If; simpl; [|exact I].
    destruct (init g) as [b|] eqn:Ig; simpl.
    + set (r := Stairs _ _ _).
      apply (minimal_of_values r g (fun v => vlift2 qop (Some c) v) (injl c) Mg).
      * unfold r. simpl. rewrite Ig. reflexivity.
      * unfold r, get_values, frame_values. rewrite Dg, Ig. simpl.
        destruct (vcol gg) as [v|]; simpl; auto. destruct (dcol gg) as [d|]; simpl; auto.
        unfold vals_of_deltas. simpl. apply (cumsum_shift_r qop qr).
    + set (r := Stairs _ _ _).
      apply (minimal_of_values r g (fun v => vlift2 qop (Some c) v) (injl c) Mg).
      * unfold r. simpl. rewrite Ig. reflexivity.
      * unfold r. change (get_values (of_values None (map_vals (fun v => vlift2 qop (Some c) v) (get_values g)) (closed g))
                          = map_vals (fun v => vlift2 qop (Some c) v) (get_values g)).
        apply get_values_of_values.
  - exact I.
Qed.

Theorem log_with_scalar_minimal l (f : stairs) c : wf f -> minimal (log_with_scalar l f c).
Proof.
  intros Wf. unfold log_with_scalar. destruct c as [x|]; [|exact I].
  destruct (boolean_like_spec vtruth f Wf) as [(B1 & _ & _) B4]. fold (make_boolean f) in B1, B4.
  destruct (boolean_like_spec vnot f Wf) as [_ N4]. fold (invert f) in N4.
  destruct (op_with_scalar_spec KMul (make_boolean f) (Some 0) B1) as [(M1 & _ & _) M4].
  destruct l; destruct (Qceqb x 0); auto.
  apply add_or_sub_minimal; auto. exact I. exact I.
Qed.

Theorem apply_binop_minimal (o : binop) (f g : stairs) :
  wf f -> wf g -> minimal f -> minimal g -> minimal (apply_binop o f g).
Proof.
  intros Wf Wg Mf Mg. destruct o as [[| | |]|r|l]; simpl.
  - apply add_or_sub_minimal; auto.
  - apply add_or_sub_minimal; auto.
  - exact (proj2 (mul_or_div_spec false f g Wf Wg)).
  - exact (proj2 (mul_or_div_spec true f g Wf Wg)).
  - exact (proj2 (relational_spec r f g Wf Wg)).
  - unfold logical. destruct (data g); [destruct (data f)|].
    + apply via_values_spec; auto.
    + apply log_with_scalar_minimal; auto.
    + apply log_with_scalar_minimal; auto.
Qed.

Theorem clip_minimal (f r : stairs) lo hi : wf f -> minimal f -> clip f lo hi = Ok r -> minimal r.
Proof.
  intros Wf Mf. unfold clip. destruct (bounds_ok lo hi); [|discriminate]. simpl.
  destruct lo as [a|]; [|destruct hi as [b|]]; intros E; injection E as <-.
  - rewrite rr_of_values. unfold minimal. rewrite get_values_of_values. simpl. apply rr_minimal.
  - rewrite rr_of_values. unfold minimal. rewrite get_values_of_values. simpl. apply rr_minimal.
  - exact Mf.
Qed.

Theorem mask_stairs_minimal inverse (f g r : stairs) :
  wf f -> wf g -> minimal f -> mask_stairs inverse f g = Ok r -> minimal r.
Proof.
  intros Wf Wg Mf. unfold mask_stairs. destruct (data g).
  - destruct (closed_ok f g); [|discriminate]. intros E. injection E as <-.
    destruct (maskify_spec inverse g Wg) as [(M1 & _ & _) M4].
    apply add_or_sub_minimal; auto.
  - destruct (mask_val inverse (init g)); intros E; injection E as <-; [exact Mf|exact I].
Qed.

End MinimalFacts.
