(* Proofs/Examples.v — non-vacuity: concrete, non-trivial states meet the hypotheses of the property
   theorems (well-formed, minimal, both internal forms materialised, undefined regions, both sides), and
   the model evaluates on them as expected. *)
From Coq Require Import List Bool ZArith QArith Qcanon.
Import ListNotations.
Require Import SC.Base.Ord SC.Base.Val SC.Base.Series SC.Base.QcOrd.
Require Import SC.Model.Repr SC.Model.Ops SC.Model.Masking SC.Model.Sampling SC.Model.Stats SC.Model.Slicing SC.Model.Prog.
Require Import SC.Corr.Check.
Require Import SC.Spec.Den SC.Proofs.ReprFacts SC.Proofs.DeltaFacts SC.Proofs.CanonFacts SC.Proofs.RangeFacts SC.Proofs.ProgFacts.
Open Scope Qc_scope.

(* f = 0 on (-inf,1), 2 on [1,3), undefined on [3,4), 1 on [4,inf); values only *)
Definition ex_f : stairsQ :=
  from_values (vq 0 1) [(q 1 1, vq 2 1); (q 3 1, None); (q 4 1, vq 1 1)] CLeft.
(* g = 1 on (-inf,2], 3 afterwards, right-closed, both internal forms materialised *)
Definition ex_g : stairsQ :=
  with_deltas (from_values (vq 1 1) [(q 2 1, vq 3 1)] CRight).
(* h: built by layering (step changes only), NaN-free *)
Definition ex_h : stairsQ :=
  layer (layer (const (vq 0 1) CLeft) (LScalar (Some (q 1 1)) (Some (q 3 1)) (q 2 1)))
        (LVector [(None, Some (q 2 1), q 1 1); (Some (q 2 1), None, q (-1) 2)]).

Ltac conc :=
  vm_compute;
  repeat match goal with
         | |- _ /\ _ => split
         | |- _ \/ _ => first [left; congruence | right; congruence]
         | |- forall _, _ => intro
         | H : Some _ = Some _ |- _ => injection H as <-
         end;
  try congruence; try reflexivity; auto.

Example ex_f_wf : wf ex_f.        Proof. conc. Qed.
Example ex_f_minimal : minimal ex_f. Proof. conc. Qed.
Example ex_f_has_na : has_na ex_f = true. Proof. reflexivity. Qed.

Example ex_g_wf : wf ex_g.        Proof. conc. Qed.
Example ex_g_minimal : minimal ex_g. Proof. conc. Qed.
Example ex_g_forms : has_na ex_g = false /\ frame_has_d ex_g = true /\ has_v ex_g = true. Proof. repeat split. Qed.

Example ex_h_wf : wf ex_h.        Proof. conc. Qed.
Example ex_h_forms : has_na ex_h = false /\ frame_has_d ex_h = true /\ has_v ex_h = false. Proof. repeat split. Qed.

(* the model evaluates as the pointwise definitions say *)
Example ex_add :
  list_cmp veqb (map (fun x => lim LimRight (add_or_sub false ex_f ex_h) x) [q 0 1; q 1 1; q 5 2; q 3 1; q 9 2])
                [vq 1 1; vq 5 1; vq 7 2; None; vq 1 2] = true.
Proof. vm_compute. reflexivity. Qed.

Example ex_mismatch : binop_api (BArith OAdd) (OpS ex_f) (OpS ex_g) = Err EClosedMismatch.
Proof. reflexivity. Qed.

Example ex_vir :
  list_cmp Qceqb (values_in_range ex_g (Some (q 2 1)) (Some (q 5 1)) (get_lims CRight true true)) [q 1 1; q 3 1] = true /\
  list_cmp Qceqb (values_in_range ex_g (Some (q 2 1)) (Some (q 5 1)) (get_lims CRight false true)) [q 3 1] = true.
Proof. split; vm_compute; reflexivity. Qed.

Example ex_window : window_nonempty (Some (q 2 1)) (Some (q 5 1)) /\ in_window true true (Some (q 2 1)) (Some (q 5 1)) (q 2 1).
Proof. repeat split. Qed.

(* a history with queries and layers: caches are valid and the last answers are fresh *)
Definition ex_prog : list stmt :=
  [ SNew 0 (vq 0 1) CLeft; SLayer 0 (LScalar (Some (q 0 1)) (Some (q 4 1)) (q 1 1)); SQuery 0 QMean; SQuery 0 QMedian;
    SLayer 0 (LVector [(Some (q 1 1), Some (q 2 1), q 2 1)]); SQuery 0 QMean; SQuery 0 QMedian ].
Example ex_history : list_cmp (obs_cmp Exact) (snd (run [] ex_prog))
  [ OFrame CLeft (vq 0 1) []; OFrame CLeft (vq 0 1) [(q 0 1, vq 1 1); (q 4 1, vq 0 1)]; OVal (vq 1 1); OVal (vq 1 1);
    OFrame CLeft (vq 0 1) [(q 0 1, vq 1 1); (q 1 1, vq 3 1); (q 2 1, vq 1 1); (q 4 1, vq 0 1)]; OVal (vq 3 2); OVal (vq 1 1) ] = true.
Proof. vm_compute. reflexivity. Qed.
