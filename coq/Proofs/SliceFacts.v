(* Proofs/SliceFacts.v — bisect / iloc slicing of a sorted series and what it does to lookups *)
From Coq Require Import List Bool Arith Lia.
Import ListNotations.
Require Import SC.Base.Ord SC.Base.Series SC.Proofs.SeriesFacts.

Section SliceFacts.
Context {D : Type} `{Ord D}.
Variable A : Type.
Notation ser := (list (D * A)).

(* value found by walking over the first n rows *)
Definition val_at (v0 : A) (l : ser) (n : nat) : A :=
  match n with O => v0 | S k => nth k (vals l) v0 end.

Lemma count_before_le_length s (ks : list D) x : count_before s ks x <= length ks.
Proof. induction ks as [|p t IH]; simpl; [lia|]. destruct (before s p x); lia. Qed.

(* the first (count_before ...) keys are before x, the next one is not *)
Lemma count_before_prefix s : forall (l : ser) x n, n < count_before s (keys l) x ->
  exists p v, nth_error l n = Some (p, v) /\ before s p x = true.
Proof.
  induction l as [|[p v] t IH]; intros x n Hn; simpl in *; [lia|].
  destruct (before s p x) eqn:B; [|lia].
  destruct n as [|n]; simpl; eauto. apply IH. lia.
Qed.

Lemma count_before_next s : forall (l : ser) x p v,
  nth_error l (count_before s (keys l) x) = Some (p, v) -> before s p x = false.
Proof.
  induction l as [|[q w] t IH]; intros x p v; simpl; [discriminate|].
  destruct (before s q x) eqn:B; simpl.
  - apply IH.
  - intros E. injection E as <- <-. exact B.
Qed.

Lemma lookup_skipn s : forall (l : ser) v0 x n, n <= count_before s (keys l) x ->
  lookup s v0 l x = lookup s (val_at v0 l n) (skipn n l) x.
Proof.
  induction l as [|[p v] t IH]; intros v0 x n Hn.
  - simpl in Hn. assert (n = 0) by lia. subst. reflexivity.
  - destruct n as [|n]; [reflexivity|]. simpl in Hn. destruct (before s p x) eqn:B; [|lia].
    simpl skipn. simpl lookup. rewrite B. rewrite (IH v x n) by lia.
    f_equal. destruct n as [|m]; [reflexivity|]. simpl. apply nth_indep.
    pose proof (count_before_le_length s (keys t) x) as Hl. unfold keys, vals in *. rewrite map_length in *. lia.
Qed.

Lemma lookup_firstn s : forall (l : ser) v0 x n, count_before s (keys l) x <= n ->
  lookup s v0 (firstn n l) x = lookup s v0 l x.
Proof.
  induction l as [|[p v] t IH]; intros v0 x n Hn.
  - rewrite firstn_nil. reflexivity.
  - simpl in Hn. destruct (before s p x) eqn:B.
    + destruct n as [|n]; [lia|]. simpl. rewrite B. apply IH. lia.
    + destruct n; simpl; rewrite ?B; reflexivity.
Qed.

(* appending a row beyond every key *)
Lemma lookup_snoc s : forall (l : ser) v0 b w x,
  ksorted (keys (l ++ [(b, w)])) ->
  lookup s v0 (l ++ [(b, w)]) x = if before s b x then w else lookup s v0 l x.
Proof.
  induction l as [|[p v] t IH]; intros v0 b w x Hs; simpl.
  - destruct (before s b x); reflexivity.
  - assert (Hpb : ltb p b = true).
    { apply (@ksorted_from_lt _ _ p (keys (t ++ [(b, w)])) b); [exact Hs|].
      unfold keys. rewrite map_app. apply in_or_app. right. simpl. auto. }
    assert (Ht : ksorted (keys (t ++ [(b, w)]))) by (eapply ksorted_tail; exact Hs).
    rewrite IH by exact Ht. destruct (before s p x) eqn:B; auto.
    rewrite (@before_mono _ _ s p b x Hpb B). reflexivity.
Qed.

(* bisect sides: #keys <= a  is at most  #keys < b  when a < b *)
Lemma count_before_mono (ks : list D) a b : ltb a b = true ->
  count_before false ks a <= count_before true ks b.
Proof.
  intros Hab. induction ks as [|p t IH]; simpl; [lia|].
  change (before false p a) with (leb p a). change (before true p b) with (ltb p b).
  destruct (leb p a) eqn:E; [|lia].
  assert (Hpb : ltb p b = true) by (eapply leb_ltb_trans; eauto).
  rewrite Hpb. lia.
Qed.

Lemma count_before_weaken (ks : list D) x : count_before true ks x <= count_before false ks x.
Proof.
  induction ks as [|p t IH]; simpl; [lia|].
  change (before false p x) with (leb p x). change (before true p x) with (ltb p x).
  destruct (ltb p x) eqn:E; [|lia]. rewrite (ltb_leb _ _ E). lia.
Qed.

Lemma nth_error_skipn (l : list (D * A)) n k : nth_error (skipn n l) k = nth_error l (n + k).
Proof. revert n. induction l as [|a l IH]; intros [|n]; simpl; auto. destruct k; reflexivity. Qed.

Lemma skipn_cons_nth (l : ser) n r : nth_error l n = Some r -> skipn n l = r :: skipn (S n) l.
Proof.
  revert n. induction l as [|a l IH]; intros [|n]; simpl; try discriminate.
  - intros E. injection E as ->. reflexivity.
  - intros E. rewrite (IH n E). reflexivity.
Qed.

Lemma keys_firstn_sorted_from lo : forall (l : ser) n, ksorted_from lo (keys l) -> ksorted_from lo (keys (firstn n l)).
Proof.
  intros l. revert lo. induction l as [|[p v] t IH]; intros lo [|n]; simpl; auto.
  intros [Hlt Hs]. split; auto.
Qed.

Lemma keys_skipn_sorted : forall (l : ser) n, sorted l -> sorted (skipn n l).
Proof.
  induction l as [|[p v] t IH]; intros [|n] Hs; simpl; auto. apply IH. eapply sorted_tail; eauto.
Qed.

Lemma firstn_sorted (l : ser) n : sorted l -> sorted (firstn n l).
Proof.
  destruct l as [|[p v] t]; destruct n; simpl; auto; intros Hs; try exact I. unfold sorted. simpl.
  apply keys_firstn_sorted_from. exact Hs.
Qed.

End SliceFacts.
