(* Proofs/ReprFacts.v — lemmas about the representation: conversions between the two internal forms,
   redundant-point removal, well-formedness. *)
From Coq Require Import List Bool Arith Lia QArith Qcanon.
Import ListNotations.
Require Import SC.Base.Ord SC.Base.Val SC.Base.Series SC.Model.Repr SC.Model.Ops SC.Model.Sampling.
Require Import SC.Spec.Den SC.Proofs.SeriesFacts.
Open Scope Qc_scope.

Section ReprFacts.
Context {D : Type} `{Ord D}.
Notation ser := (list (D * V)).
Notation stairs := (stairs D).

Lemma keys_cumsum acc (l : ser) : keys (cumsum acc l) = keys l.
Proof.
  revert acc. induction l as [|[p [d|]] t IH]; intros acc; simpl; auto; rewrite IH; reflexivity.
Qed.

Lemma keys_dov prev first (l : ser) : keys (dov prev first l) = keys l.
Proof.
  revert prev first. induction l as [|[p [v|]] t IH]; intros prev first; simpl; auto; rewrite IH; reflexivity.
Qed.

Lemma keys_vals_of_deltas i (d : ser) : keys (vals_of_deltas i d) = keys d.
Proof. apply keys_cumsum. Qed.
Lemma keys_deltas_of_vals i (v : ser) : keys (deltas_of_vals i v) = keys v.
Proof. apply keys_dov. Qed.

Lemma cumsum_nil_iff acc (l : ser) : cumsum acc l = [] <-> l = [].
Proof. destruct l as [|[p [d|]] t]; simpl; split; congruence. Qed.

Lemma wf_sorted_values (s : stairs) : wf s -> sorted (get_values s).
Proof.
  unfold wf, get_values, frame_values. destruct (data s) as [fr|]; [|intros _; exact I].
  intros (Hany & Hd & Hv & _). destruct (vcol fr) as [v|].
  - exact (proj1 Hv).
  - destruct (dcol fr) as [d|]; [|exact I].
    unfold sorted. rewrite keys_vals_of_deltas. exact (proj1 Hd).
Qed.

Lemma wf_sorted_deltas (s : stairs) : wf s -> sorted (get_deltas s).
Proof.
  unfold wf, get_deltas, frame_deltas. destruct (data s) as [fr|]; [|intros _; exact I].
  intros (Hany & Hd & Hv & _). destruct (dcol fr) as [d|].
  - exact (proj1 Hd).
  - destruct (vcol fr) as [v|]; [|exact I].
    unfold sorted. rewrite keys_deltas_of_vals. exact (proj1 Hv).
Qed.

Lemma wf_const v c : wf (@const D v c).
Proof. exact I. Qed.

(* ---- redundant-point removal on step values *)
Lemma lookup_rr s : forall (l : ser) v0 x, sorted l -> lookup s v0 (rr v0 l) x = lookup s v0 l x.
Proof.
  induction l as [|[p v] t IH]; intros v0 x Hs; simpl; auto.
  assert (Ht : sorted t) by (eapply sorted_tail; eauto).
  destruct (veqb v0 v) eqn:E.
  - apply veqb_eq in E. subst v. rewrite IH by auto.
    destruct (before s p x) eqn:B; auto. exact (lookup_not_before V s v0 p t x Hs B).
  - simpl. rewrite IH by auto. reflexivity.
Qed.

Lemma rr_keys_sub : forall (l : ser) v0 q, In q (keys (rr v0 l)) -> In q (keys l).
Proof.
  induction l as [|[p v] t IH]; intros v0 q; simpl; auto.
  destruct (veqb v0 v); simpl; intros Hq.
  - right. eapply IH; eauto.
  - destruct Hq; auto. right. eapply IH; eauto.
Qed.

Lemma rr_sorted_from lo : forall (l : ser) v0, ksorted_from lo (keys l) -> ksorted_from lo (keys (rr v0 l)).
Proof.
  intros l. revert lo. induction l as [|[p v] t IH]; intros lo v0; simpl; auto.
  intros [Hlt Hs]. destruct (veqb v0 v); simpl.
  - apply IH. eapply ksorted_from_weaken; eauto.
  - split; auto.
Qed.

Lemma rr_sorted : forall (l : ser) v0, sorted l -> sorted (rr v0 l).
Proof.
  intros [|[p v] t] v0; simpl; auto. unfold sorted. simpl. intros Hs.
  destruct (veqb v0 v); simpl.
  - destruct (rr v0 t) as [|[q w] t'] eqn:E; simpl; auto.
    pose proof (rr_sorted_from p t v0 Hs) as H1. rewrite E in H1. simpl in H1. tauto.
  - apply rr_sorted_from. auto.
Qed.

Lemma rr_minimal : forall (l : ser) v0, minimal_from v0 (rr v0 l).
Proof.
  induction l as [|[p v] t IH]; intros v0; simpl; auto.
  destruct (veqb v0 v) eqn:E; simpl; auto. split; auto.
  intro Heq. subst v. rewrite veqb_refl in E. discriminate.
Qed.

Lemma rr_fixpoint : forall (l : ser) v0, minimal_from v0 l -> rr v0 l = l.
Proof.
  induction l as [|[p v] t IH]; intros v0; simpl; auto.
  intros [Hne Hm]. destruct (veqb v0 v) eqn:E.
  - apply veqb_eq in E. contradiction.
  - rewrite IH; auto.
Qed.

(* ---- results built from a value series and then made minimal *)
Lemma data_mk_values (v : ser) :
  mk_frame None (Some v) = match v with [] => None | _ => Some (Frame None (Some v)) end.
Proof. destruct v; reflexivity. Qed.

Lemma get_values_of_values i (v : ser) c : get_values (of_values i v c) = v.
Proof. destruct v; reflexivity. Qed.

Lemma rr_of_values i (v : ser) c :
  remove_redundant (of_values i v c) = of_values i (rr i v) c.
Proof.
  destruct v as [|[p w] v']; [reflexivity|].
  unfold remove_redundant, of_values. simpl. reflexivity.
Qed.

Lemma wf_of_values i (v : ser) c : sorted v -> wf (of_values i v c).
Proof.
  intros Hs. destruct v as [|pv v']; [exact I|].
  unfold wf, of_values. simpl. repeat split; auto; try congruence. right. congruence.
Qed.

Theorem canon_values i (v : ser) c : sorted v ->
  let r := remove_redundant (of_values i v c) in
  wf r /\ minimal r /\ closed r = c /\ init r = i /\
  forall sd x, lim sd r x = lookup (strict_of sd) i v x.
Proof.
  intros Hs r. subst r. rewrite rr_of_values. repeat split.
  - apply wf_of_values. apply rr_sorted; auto.
  - unfold minimal. rewrite get_values_of_values. simpl. apply rr_minimal.
  - intros sd x. unfold lim. rewrite get_values_of_values. simpl. apply lookup_rr; auto.
Qed.

End ReprFacts.
