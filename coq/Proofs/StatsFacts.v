(* Proofs/StatsFacts.v — value_sums, integral, mean are length-weighted over the finite defined pieces (C08) *)
From Coq Require Import List Bool Arith Lia QArith Qcanon Lqa.
Import ListNotations.
Require Import SC.Base.Ord SC.Base.Val SC.Base.Series SC.Base.QcOrd.
Require Import SC.Model.Repr SC.Model.Ops SC.Model.Masking SC.Model.Sampling SC.Model.Stats SC.Model.Slicing.
Require Import SC.Spec.Den SC.Proofs.SeriesFacts SC.Proofs.SliceFacts SC.Proofs.ReprFacts SC.Proofs.OpsFacts
               SC.Proofs.QcDense SC.Proofs.ClipFacts SC.Proofs.AggFacts SC.Proofs.RangeFacts.
Open Scope Qc_scope.

Notation ser := (list (Qc * V)).

(* ---- the finite pieces of a representation: (start, end, value) for consecutive step points *)
Fixpoint fin_pieces (l : ser) : list (Qc * Qc * V) :=
  match l with
  | (p, v) :: ((p', _) :: _) as t => (p, p', v) :: fin_pieces t
  | _ => []
  end.

Lemma vs_raw_pieces (l : ser) : vs_raw l = map (fun pc => (snd pc, snd (fst pc) - fst (fst pc))) (fin_pieces l).
Proof.
  induction l as [|[p v] t IH]; [reflexivity|]. destruct t as [|[p' v'] t']; [reflexivity|].
  simpl vs_raw. simpl fin_pieces. simpl map. f_equal. exact IH.
Qed.

(* each listed piece really is a piece of the function: non-empty, and f takes the listed value throughout it
   (right limits on [a, b), left limits on (a, b]) *)
Lemma lookup_on_piece s : forall (l : ser) (i : V) a b v x, sorted l ->
  In (a, b, v) (fin_pieces l) -> before s a x = true -> before s b x = false ->
  lookup s i l x = v.
Proof.
  induction l as [|[p w] t IH]; intros i a b v x Hs Hin Ha Hb; [destruct Hin|].
  destruct t as [|[p' w'] t']; [destruct Hin|].
  assert (Hpp : ltb p p' = true) by (destruct Hs as [H1 _]; exact H1).
  simpl fin_pieces in Hin. destruct Hin as [E|Hin].
  - injection E as <- <- <-. simpl. rewrite Ha, Hb. reflexivity.
  - assert (Hs' : sorted ((p', w') :: t')) by (eapply sorted_tail; eauto).
    (* a lies at or after p', so p is before x as well *)
    assert (Hpa : leb p' a = true).
    { clear - Hs' Hin. revert p' w' Hs' Hin. induction t' as [|[q u] t'' IHt]; intros p' w' Hs' Hin; [destruct Hin|].
      simpl fin_pieces in Hin. destruct Hin as [E|Hin].
      - injection E as <- _ _. apply leb_refl.
      - assert (Hq : ltb p' q = true) by (destruct Hs' as [H1 _]; exact H1).
        eapply leb_trans; [apply ltb_leb; exact Hq|]. apply (IHt q u); [eapply sorted_tail; eauto|exact Hin]. }
    assert (Hp'x : before s p' x = true) by (eapply before_of_le; eauto).
    assert (Hpx : before s p x = true) by (eapply before_trans; eauto).
    rewrite lookup_cons, Hpx. apply (IH w a b v x Hs' Hin Ha Hb).
Qed.

Lemma fin_pieces_nonempty : forall (l : ser) a b v, sorted l -> In (a, b, v) (fin_pieces l) -> ltb a b = true.
Proof.
  induction l as [|[p w] t IH]; intros a b v Hs Hin; [destruct Hin|].
  destruct t as [|[p' w'] t']; [destruct Hin|]. simpl fin_pieces in Hin. destruct Hin as [E|Hin].
  - injection E as <- <- _. destruct Hs as [H1 _]. exact H1.
  - apply (IH a b v); [eapply sorted_tail; eauto|exact Hin].
Qed.

Theorem pieces_denote (f : stairsQ) a b v : wf f -> In (a, b, v) (fin_pieces (get_values f)) ->
  ltb a b = true /\
  (forall x, leb a x = true -> ltb x b = true -> lim LimRight f x = v) /\
  (forall x, ltb a x = true -> leb x b = true -> lim LimLeft f x = v).
Proof.
  intros Wf Hin. pose proof (wf_sorted_values f Wf) as Hs. split; [eapply fin_pieces_nonempty; eauto|]. split.
  - intros x Hax Hxb. unfold lim. apply (lookup_on_piece false _ _ a b v x Hs Hin); simpl; auto.
    unfold before, leb. rewrite Hxb. reflexivity.
  - intros x Hax Hxb. unfold lim. apply (lookup_on_piece true _ _ a b v x Hs Hin); simpl; auto.
    unfold before. unfold leb in Hxb. apply negb_true_iff in Hxb. exact Hxb.
Qed.

(* ---- value_sums: total length per value *)
Definition lengths_of (y : Qc) (l : list (Qc * Qc)) : Qc :=
  qsum (map snd (filter (fun vl => Qceqb (fst vl) y) l)).

Definition total_at (y : Qc) (g : list (Qc * Qc)) : Qc := match find y g with Some t => t | None => 0 end.

Lemma Qceqb_false_ne (y k : Qc) : Qceqb y k = false -> y <> k.
Proof. intros E Heq. subst. rewrite (proj2 (Qceqb_eq k k) eq_refl) in E. discriminate. Qed.

Lemma find_cons (A : Type) (y p : Qc) (a : A) t :
  find y ((p, a) :: t) = if ltb p y then find y t else if ltb y p then None else Some a.
Proof. reflexivity. Qed.

Lemma find_upsert (A : Type) (k : Qc) (ins : A) (upd : A -> A) : forall (l : list (Qc * A)) y, sorted l ->
  find y (upsert k ins upd l) =
  if Qceqb y k then Some (match find k l with Some a => upd a | None => ins end) else find y l.
Proof.
  induction l as [|[p a] t IH]; intros y Hs.
  - cbn [upsert]. rewrite find_cons. cbn [find]. destruct (Qceqb y k) eqn:E.
    + apply Qceqb_eq in E. subst y. rewrite ltb_irrefl. reflexivity.
    + apply Qceqb_false_ne in E. destruct (cmpP k y) as [Hlt Hn|Heq|Hgt Hn]; [rewrite Hlt; reflexivity|congruence|].
      rewrite Hn, Hgt. reflexivity.
  - assert (Ht : sorted t) by (eapply sorted_tail; eauto).
    cbn [upsert]. destruct (cmpP k p) as [Hlt Hn|Heq|Hgt Hn].
    + rewrite Hlt. rewrite !find_cons. rewrite Hn, Hlt.
      destruct (Qceqb y k) eqn:E.
      * apply Qceqb_eq in E. subst y. rewrite ltb_irrefl. reflexivity.
      * apply Qceqb_false_ne in E. destruct (cmpP k y) as [Hky Hnk|Heq|Hyk Hnk].
        -- rewrite Hky. reflexivity.
        -- congruence.
        -- assert (Hpy : ltb p y = false) by (apply ltb_asym; eapply ltb_trans; eauto).
           assert (Hyp : ltb y p = true) by (eapply ltb_trans; eauto). rewrite Hnk, Hyk, Hpy, Hyp. reflexivity.
    + subst p. rewrite ltb_irrefl. rewrite !find_cons. rewrite ltb_irrefl.
      destruct (Qceqb y k) eqn:E.
      * apply Qceqb_eq in E. subst y. rewrite ltb_irrefl. reflexivity.
      * apply Qceqb_false_ne in E. destruct (cmpP k y) as [Hky Hnk|Heq|Hyk Hnk]; [rewrite Hky; reflexivity|congruence|].
        rewrite Hnk, Hyk. reflexivity.
    + rewrite Hn, Hgt. rewrite !find_cons. rewrite Hgt. rewrite (IH y Ht).
      destruct (Qceqb y k) eqn:E.
      * apply Qceqb_eq in E. subst y. rewrite Hgt. reflexivity.
      * reflexivity.
Qed.

Lemma upsert_cons (A : Type) (k : Qc) (ins : A) (upd : A -> A) p a (t : list (Qc * A)) :
  upsert k ins upd ((p, a) :: t) =
  if ltb k p then (k, ins) :: (p, a) :: t else if ltb p k then (p, a) :: upsert k ins upd t else (p, upd a) :: t.
Proof. reflexivity. Qed.

Lemma upsert_sorted_gen (A : Type) (k : Qc) (ins : A) (upd : A -> A) : forall (l : list (Qc * A)), sorted l -> sorted (upsert k ins upd l).
Proof.
  assert (G : forall (l : list (Qc * A)) lo, ltb lo k = true -> ksorted_from lo (keys l) -> ksorted_from lo (keys (upsert k ins upd l))).
  { induction l as [|[p a] t IH]; intros lo Hlo Hs; [simpl; auto|].
    destruct Hs as [Hp Hs]. rewrite upsert_cons. destruct (cmpP k p) as [Hlt Hn|Heq|Hgt Hn].
    - rewrite Hlt. simpl. auto.
    - subst p. rewrite ltb_irrefl. simpl. auto.
    - rewrite Hn, Hgt. simpl. split; auto. }
  intros [|[p a] t] Hs; [exact I|]. rewrite upsert_cons. destruct (cmpP k p) as [Hlt Hn|Heq|Hgt Hn].
  - rewrite Hlt. unfold sorted. simpl. split; auto.
  - subst p. rewrite ltb_irrefl. exact Hs.
  - rewrite Hn, Hgt. unfold sorted. simpl. apply G; auto.
Qed.

Lemma group_sum_acc : forall (l acc : list (Qc * Qc)) y, sorted acc ->
  sorted (fold_left (fun a vl => upsert (fst vl) (snd vl) (fun x => x + snd vl) a) l acc) /\
  total_at y (fold_left (fun a vl => upsert (fst vl) (snd vl) (fun x => x + snd vl) a) l acc) = total_at y acc + lengths_of y l.
Proof.
  induction l as [|[v len] t IH]; intros acc y Hs; simpl.
  - split; auto. unfold lengths_of, qsum. simpl. ring.
  - destruct (IH (upsert v len (fun x => x + len) acc) y (upsert_sorted_gen Qc v len _ acc Hs)) as [S1 T1].
    split; auto. rewrite T1. unfold total_at at 1. rewrite (find_upsert Qc v len (fun x => x + len) acc y Hs).
    unfold lengths_of. simpl. destruct (Qceqb v y) eqn:E.
    + apply Qceqb_eq in E. subst v. rewrite (proj2 (Qceqb_eq y y) eq_refl). simpl. unfold total_at.
      unfold qsum. simpl. rewrite !qsum_acc. destruct (find y acc); unfold qsum; ring.
    + assert (E' : Qceqb y v = false).
      { destruct (Qceqb y v) eqn:E2; auto. apply Qceqb_eq in E2. subst. rewrite (proj2 (Qceqb_eq v v) eq_refl) in E. discriminate. }
      rewrite E'. reflexivity.
Qed.

(* value_sums maps each value to the total length of the finite pieces taking it; values are listed in
   increasing order without duplicates *)
Theorem group_sum_spec (l : list (Qc * Qc)) : sorted (group_sum l) /\ forall y, total_at y (group_sum l) = lengths_of y l.
Proof.
  unfold group_sum. split.
  - apply (proj1 (group_sum_acc l [] 0 I)).
  - intros y. rewrite (proj2 (group_sum_acc l [] y I)). unfold total_at. simpl. ring.
Qed.

(* ---- in terms of the pieces *)
Definition defined_of (pcs : list (Qc * Qc * V)) : list (Qc * Qc) :=
  flat_map (fun pc => match snd pc with Some v => [(v, snd (fst pc) - fst (fst pc))] | None => [] end) pcs.

Lemma defined_pieces_of (f : stairsQ) : defined_pieces f = defined_of (fin_pieces (get_values f)).
Proof.
  unfold defined_pieces, defined_of. rewrite vs_raw_pieces. generalize (fin_pieces (get_values f)). intros pcs.
  induction pcs as [|[[a b] [v|]] t IH]; simpl; auto. f_equal. exact IH.
Qed.

Definition piece_total (pcs : list (Qc * Qc * V)) : Qc := qsum (map snd (defined_of pcs)).
Definition piece_integral (pcs : list (Qc * Qc * V)) : Qc := qsum (map (fun vl => fst vl * snd vl) (defined_of pcs)).
Definition length_with_value (y : Qc) (pcs : list (Qc * Qc * V)) : Qc := lengths_of y (defined_of pcs).

Theorem value_sums_spec (f : stairsQ) g : value_sums f = Some g ->
  sorted g /\ forall y, total_at y g = length_with_value y (fin_pieces (get_values f)).
Proof.
  unfold value_sums. destruct (data f); [|discriminate]. intros E. injection E as <-.
  rewrite defined_pieces_of. apply group_sum_spec.
Qed.

Theorem integral_mean_spec (f : stairsQ) fr : data f = Some fr -> (2 <= length (get_values f))%nat ->
  integral_and_mean f =
  (Some (piece_integral (fin_pieces (get_values f))),
   vdiv (Some (piece_integral (fin_pieces (get_values f)))) (Some (piece_total (fin_pieces (get_values f))))).
Proof.
  intros Df Hlen. unfold integral_and_mean. rewrite Df.
  assert (E : Nat.ltb (length (get_values f)) 2 = false) by (apply Nat.ltb_ge; exact Hlen). rewrite E.
  rewrite defined_pieces_of. reflexivity.
Qed.

Theorem value_total_spec (f : stairsQ) : value_total f = piece_total (fin_pieces (get_values f)).
Proof. unfold value_total. rewrite defined_pieces_of. reflexivity. Qed.
