(* Proofs/ClipFacts.v — clip restricts the domain exactly *)
From Coq Require Import List Bool Arith Lia.
Import ListNotations.
Require Import SC.Base.Ord SC.Base.Val SC.Base.Series SC.Model.Repr SC.Model.Ops SC.Model.Masking SC.Model.Sampling.
Require Import SC.Spec.Den SC.Proofs.SeriesFacts SC.Proofs.SliceFacts SC.Proofs.ReprFacts SC.Proofs.OpsFacts.

Section ClipFacts.
Context {D : Type} `{Ord D}.
Notation ser := (list (D * V)).
Notation stairs := (stairs D).

(* x lies inside the window for the limit side s: right limits see [lo, hi), left limits (lo, hi] *)
Definition inside (s : bool) (lo hi : option D) (x : D) : bool :=
  (match lo with None => true | Some a => before s a x end) &&
  (match hi with None => true | Some b => negb (before s b x) end).

(* pointwise implication between two bisect conditions bounds the counts *)
Lemma count_before_impl s s' (ks : list D) x y :
  (forall k, In k ks -> before s k x = true -> before s' k y = true) ->
  count_before s ks x <= count_before s' ks y.
Proof.
  induction ks as [|p t IH]; intros Himp; simpl; [lia|].
  destruct (before s p x) eqn:B; [|lia].
  rewrite (Himp p (or_introl eq_refl) B). apply le_n_S. apply IH. intros k Hk. apply Himp. right. exact Hk.
Qed.

Lemma count_before_firstn s : forall (l : ser) n x,
  count_before s (keys (firstn n l)) x = Nat.min n (count_before s (keys l) x).
Proof.
  induction l as [|[p v] t IH]; intros [|n] x; simpl; auto.
  destruct (before s p x); auto.
Qed.

Lemma val_at_firstn (v0 : V) : forall (l : ser) n m, m <= n -> val_at V v0 (firstn n l) m = val_at V v0 l m.
Proof.
  intros l n [|k] Hm; [reflexivity|]. simpl. revert n k Hm.
  induction l as [|[p v] t IH]; intros [|n] k Hm; simpl; try lia; auto.
  destruct k as [|k]; [reflexivity|]. apply IH. lia.
Qed.

(* keys <= a are before x when a is; keys before x are < b when b is not before x *)
Lemma before_of_le s a k x : leb k a = true -> before s a x = true -> before s k x = true.
Proof.
  intros Hka Ha. destruct (cmpP k a) as [Hlt _|Heq|Hgt _].
  - eapply before_trans; eauto.
  - subst; auto.
  - unfold leb in Hka. rewrite Hgt in Hka. discriminate.
Qed.

Lemma lt_of_before s b k x : before s k x = true -> before s b x = false -> ltb k b = true.
Proof.
  intros Hk Hb. destruct (cmpP k b) as [Hlt _|Heq|Hgt _]; auto.
  - subst. congruence.
  - rewrite (before_trans s _ _ _ Hgt Hk) in Hb. discriminate.
Qed.

(* the three-part lookup: rows up to li are summarised by their last value, rows from ri on are cut *)
Lemma lookup_window s (i : V) (vs : ser) li ri x :
  li <= ri -> li <= count_before s (keys vs) x -> count_before s (keys vs) x <= ri ->
  lookup s (val_at V i vs li) (firstn (ri - li) (skipn li vs)) x = lookup s i vs x.
Proof.
  intros Hlr Hli Hri.
  rewrite firstn_skipn_comm. replace (li + (ri - li)) with ri by lia.
  rewrite <- (val_at_firstn i vs ri li Hlr).
  rewrite <- (lookup_skipn V s (firstn ri vs) i x li).
  - apply lookup_firstn. exact Hri.
  - rewrite count_before_firstn. lia.
Qed.

(* sortedness of the pieces *)
Lemma skipn_count_sorted_from (a : D) : forall (l : ser), sorted l ->
  ksorted_from a (keys (skipn (count_before false (keys l) a) l)).
Proof.
  induction l as [|[p v] t IH]; intros Hs; simpl; auto.
  change (before false p a) with (leb p a). destruct (leb p a) eqn:E; simpl.
  - apply IH. eapply sorted_tail; eauto.
  - split; [|exact Hs]. unfold leb in E. apply negb_false_iff in E. exact E.
Qed.

Lemma snoc_sorted_from lo (l : ser) b w :
  ksorted_from lo (keys l) -> ltb lo b = true -> (forall k, In k (keys l) -> ltb k b = true) ->
  ksorted_from lo (keys (l ++ [(b, w)])).
Proof.
  revert lo. induction l as [|[p v] t IH]; intros lo Hs Hlo Hk; simpl; auto.
  destruct Hs as [Hlt Hs]. split; auto. apply IH; auto.
  - apply Hk. simpl; auto.
  - intros k Hin. apply Hk. simpl; auto.
Qed.

Lemma nth_error_firstn_lt (A : Type) : forall (l : list A) n j, j < n -> nth_error (firstn n l) j = nth_error l j.
Proof.
  induction l as [|a l IH]; intros [|n] [|j] Hj; simpl; auto; try lia. apply IH. lia.
Qed.

Lemma firstn_count_keys_lt (b : D) (l : ser) n k :
  n <= count_before true (keys l) b -> In k (keys (firstn n l)) -> ltb k b = true.
Proof.
  intros Hn Hin. unfold keys in Hin. apply in_map_iff in Hin. destruct Hin as [[p v] [<- Hin]].
  apply In_nth_error in Hin. destruct Hin as [j Hj].
  assert (Hjn : j < n).
  { assert (Hlen : j < length (firstn n l)) by (apply nth_error_Some; congruence).
    rewrite firstn_length in Hlen. lia. }
  rewrite nth_error_firstn_lt in Hj by exact Hjn.
  destruct (count_before_prefix V true l b j ltac:(lia)) as (p' & v' & E & Hb).
  rewrite E in Hj. injection Hj as -> ->. exact Hb.
Qed.

End ClipFacts.
