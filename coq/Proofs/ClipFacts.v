(* Proofs/ClipFacts.v — clip restricts the domain exactly *)
From Coq Require Import List Bool Arith Lia.
Import ListNotations.
Require Import SC.Base.Ord SC.Base.Val SC.Base.Series SC.Model.Repr SC.Model.Ops SC.Model.Masking SC.Model.Sampling.
Require Import SC.Spec.Den SC.Proofs.SeriesFacts SC.Proofs.SliceFacts SC.Proofs.ReprFacts SC.Proofs.OpsFacts.

Section ClipFacts.
Context {D : Type} `{Ord D}.
Notation ser := (list (D * V)).
Notation stairs := (stairs D).

(* x lies inside the window for the limit side s: right limits see [lo, hi), left limits (lo, hi] *)
Definition inside (s : bool) (lo hi : option D) (x : D) : bool :=
  (match lo with None => true | Some a => before s a x end) &&
  (match hi with None => true | Some b => negb (before s b x) end).

(* pointwise implication between two bisect conditions bounds the counts *)
Lemma count_before_impl s s' (ks : list D) x y :
  (forall k, In k ks -> before s k x = true -> before s' k y = true) ->
  count_before s ks x <= count_before s' ks y.
Proof.
  induction ks as [|p t IH]; intros Himp; simpl; [lia|].
  destruct (before s p x) eqn:B; [|lia].
  rewrite (Himp p (or_introl eq_refl) B). apply le_n_S. apply IH. intros k Hk. apply Himp. right. exact Hk.
Qed.

Lemma count_before_firstn s : forall (l : ser) n x,
  count_before s (keys (firstn n l)) x = Nat.min n (count_before s (keys l) x).
Proof.
  induction l as [|[p v] t IH]; intros [|n] x; simpl; auto.
  destruct (before s p x); auto.
Qed.

Lemma val_at_firstn (v0 : V) : forall (l : ser) n m, m <= n -> val_at V v0 (firstn n l) m = val_at V v0 l m.
Proof.
  intros l n [|k] Hm; [reflexivity|]. simpl. revert n k Hm.
  induction l as [|[p v] t IH]; intros [|n] k Hm; simpl; try lia; auto.
  destruct k as [|k]; [reflexivity|]. apply IH. lia.
Qed.

(* keys <= a are before x when a is; keys before x are < b when b is not before x *)
Lemma before_of_le s a k x : leb k a = true -> before s a x = true -> before s k x = true.
Proof.
  intros Hka Ha. destruct (cmpP k a) as [Hlt _|Heq|Hgt _].
  - eapply before_trans; eauto.
  - subst; auto.
  - unfold leb in Hka. rewrite Hgt in Hka. discriminate.
Qed.

Lemma lt_of_before s b k x : before s k x = true -> before s b x = false -> ltb k b = true.
Proof.
  intros Hk Hb. destruct (cmpP k b) as [Hlt _|Heq|Hgt _]; auto.
  - subst. congruence.
  - rewrite (before_trans s _ _ _ Hgt Hk) in Hb. discriminate.
Qed.

(* the three-part lookup: rows up to li are summarised by their last value, rows from ri on are cut *)
Lemma lookup_window s (i : V) (vs : ser) li ri x :
  li <= ri -> li <= count_before s (keys vs) x -> count_before s (keys vs) x <= ri ->
  lookup s (val_at V i vs li) (firstn (ri - li) (skipn li vs)) x = lookup s i vs x.
Proof.
  intros Hlr Hli Hri.
  rewrite firstn_skipn_comm. replace (li + (ri - li)) with ri by lia.
  rewrite <- (val_at_firstn i vs ri li Hlr).
  rewrite <- (lookup_skipn V s (firstn ri vs) i x li).
  - apply lookup_firstn. exact Hri.
  - rewrite count_before_firstn. lia.
Qed.

(* sortedness of the pieces *)
Lemma skipn_count_sorted_from (a : D) : forall (l : ser), sorted l ->
  ksorted_from a (keys (skipn (count_before false (keys l) a) l)).
Proof.
  induction l as [|[p v] t IH]; intros Hs; simpl; auto.
  change (before false p a) with (leb p a). destruct (leb p a) eqn:E; simpl.
  - apply IH. eapply sorted_tail; eauto.
  - split; [|exact Hs]. unfold leb in E. apply negb_false_iff in E. exact E.
Qed.

Lemma snoc_sorted_from lo (l : ser) b w :
  ksorted_from lo (keys l) -> ltb lo b = true -> (forall k, In k (keys l) -> ltb k b = true) ->
  ksorted_from lo (keys (l ++ [(b, w)])).
Proof.
  revert lo. induction l as [|[p v] t IH]; intros lo Hs Hlo Hk; simpl; auto.
  destruct Hs as [Hlt Hs]. split; auto. apply IH; auto.
  - apply Hk. simpl; auto.
  - intros k Hin. apply Hk. simpl; auto.
Qed.

Lemma nth_error_firstn_lt (A : Type) : forall (l : list A) n j, j < n -> nth_error (firstn n l) j = nth_error l j.
Proof.
  induction l as [|a l IH]; intros [|n] [|j] Hj; simpl; auto; try lia. apply IH. lia.
Qed.

Lemma firstn_count_keys_lt (b : D) (l : ser) n k :
  n <= count_before true (keys l) b -> In k (keys (firstn n l)) -> ltb k b = true.
Proof.
  intros Hn Hin. unfold keys in Hin. apply in_map_iff in Hin. destruct Hin as [[p v] [<- Hin]].
  apply In_nth_error in Hin. destruct Hin as [j Hj].
  assert (Hjn : j < n).
  { assert (Hlen : j < length (firstn n l)) by (apply nth_error_Some; congruence).
    rewrite firstn_length in Hlen. lia. }
  rewrite nth_error_firstn_lt in Hj by exact Hjn.
  destruct (count_before_prefix V true l b j ltac:(lia)) as (p' & v' & E & Hb).
  rewrite E in Hj. injection Hj as -> ->. exact Hb.
Qed.

Definition clip_tail (hi : option D) : ser := match hi with Some b => [(b, None)] | None => [] end.

Definition upper_count (vs : ser) (hi : option D) : nat :=
  match hi with None => length vs | Some b => count_before true (keys vs) b end.

(* the rows built by clip when the lower bound is finite: the bound itself carrying the value in force there,
   the rows strictly inside the window, and the NaN row at the upper bound *)
Lemma clip_rows_lower (i : V) (vs : ser) a hi :
  sorted vs -> bounds_ok (Some a) hi = true ->
  let li := count_before false (keys vs) a in
  let ri := upper_count vs hi in
  let start := pred li in
  let sliced1 := firstn (ri - start) (skipn start vs) ++ clip_tail hi in
  (if Nat.eqb li O then (a, i) :: sliced1 else relabel_first a sliced1) =
  (a, val_at V i vs li) :: firstn (ri - li) (skipn li vs) ++ clip_tail hi
  /\ li <= ri.
Proof.
  intros Hs Hb li ri start sliced1.
  assert (Hle : li <= ri).
  { unfold li, ri, upper_count. destruct hi as [b|].
    - apply count_before_mono. exact Hb.
    - pose proof (count_before_le_length false (keys vs) a) as Hl. unfold keys in Hl. rewrite map_length in Hl. exact Hl. }
  split; [|exact Hle].
  destruct li as [|k] eqn:El.
  - simpl. unfold sliced1, start. simpl. rewrite Nat.sub_0_r. reflexivity.
  - simpl Nat.eqb. cbv iota. unfold sliced1, start. simpl pred.
    destruct (count_before_prefix V false vs a k) as (p & v & Hn & Hpa); [fold li; lia|].
    rewrite (skipn_cons_nth V vs k (p, v) Hn).
    replace (ri - k) with (S (ri - S k)) by lia. simpl firstn. simpl app.
    assert (Hv : val_at V i vs (S k) = v).
    { simpl. unfold vals. erewrite nth_indep with (d' := snd (p, v)); [|rewrite map_length; apply nth_error_Some; congruence].
      rewrite map_nth. apply nth_error_nth with (d := (p, v)) in Hn. rewrite Hn. reflexivity. }
    rewrite Hv. unfold relabel_first.
    destruct (ltb p a) eqn:Elt; [reflexivity|].
    assert (p = a).
    { apply ltb_total; auto. change (before false p a) with (leb p a) in Hpa. unfold leb in Hpa.
      apply negb_true_iff in Hpa. exact Hpa. }
    subst p. reflexivity.
Qed.

Lemma upper_count_bound s (vs : ser) hi x :
  match hi with Some b => before s b x = false | None => True end ->
  count_before s (keys vs) x <= upper_count vs hi.
Proof.
  intros Hb. unfold upper_count. destruct hi as [b|].
  - apply count_before_impl. intros k _ Hk. simpl. eapply lt_of_before; eauto.
  - pose proof (count_before_le_length s (keys vs) x) as Hl. unfold keys in Hl. rewrite map_length in Hl. exact Hl.
Qed.

Lemma sorted_mid_tail (vs : ser) lo_key li hi :
  sorted vs -> ksorted_from lo_key (keys (skipn li vs)) ->
  match hi with Some b => ltb lo_key b = true | None => True end ->
  li <= upper_count vs hi ->
  ksorted_from lo_key (keys (firstn (upper_count vs hi - li) (skipn li vs) ++ clip_tail hi)).
Proof.
  intros Hs Hsk Hlo Hle. destruct hi as [b|]; simpl clip_tail.
  - apply snoc_sorted_from; auto.
    + apply keys_firstn_sorted_from. exact Hsk.
    + intros k Hk. rewrite firstn_skipn_comm in Hk.
      replace (li + (upper_count vs (Some b) - li)) with (upper_count vs (Some b)) in Hk by lia.
      assert (Hin : In k (keys (firstn (upper_count vs (Some b)) vs))).
      { unfold keys in *. apply in_map_iff in Hk. destruct Hk as [r [<- Hr]]. apply in_map.
        clear - Hr. revert Hr. generalize (firstn (upper_count vs (Some b)) vs). intros l. revert li.
        induction l as [|c l IH]; intros [|n]; simpl; auto. intros Hr. right. eapply IH; eauto. }
      eapply firstn_count_keys_lt; [|exact Hin]. unfold upper_count. lia.
  - rewrite app_nil_r. apply keys_firstn_sorted_from. exact Hsk.
Qed.

Theorem clip_spec (f r : stairs) lo hi :
  wf f -> clip f lo hi = Ok r ->
  wf r /\ closed r = closed f /\
  forall sd x, lim sd r x = if inside (strict_of sd) lo hi x then lim sd f x else None.
Proof.
  intros Wf. pose proof (wf_sorted_values f Wf) as Hs. unfold clip.
  destruct (bounds_ok lo hi) eqn:Hb; [|discriminate]. simpl negb. cbv iota.
  destruct lo as [a|].
  - (* finite lower bound *)
    destruct (clip_rows_lower (init f) (get_values f) a hi Hs Hb) as [Erows Hle].
    intros Er. injection Er as <-.
    assert (EX : forall rows, rows = (a, val_at V (init f) (get_values f) (count_before false (keys (get_values f)) a)) ::
                        firstn (upper_count (get_values f) hi - count_before false (keys (get_values f)) a)
                               (skipn (count_before false (keys (get_values f)) a) (get_values f)) ++ clip_tail hi ->
                 forall P : stairs -> Prop,
                 P (remove_redundant (of_values None ((a, val_at V (init f) (get_values f) (count_before false (keys (get_values f)) a)) ::
                        firstn (upper_count (get_values f) hi - count_before false (keys (get_values f)) a)
                               (skipn (count_before false (keys (get_values f)) a) (get_values f)) ++ clip_tail hi) (closed f))) ->
                 P (remove_redundant (of_values None rows (closed f)))).
    { intros rows ->. auto. }
    match goal with |- ?G => match G with context [remove_redundant (of_values None ?rows (closed f))] =>
      pattern (remove_redundant (of_values None rows (closed f))); apply (EX rows) end end.
    { rewrite <- Erows. destruct hi; unfold clip_tail, upper_count; rewrite ?app_nil_r; reflexivity. }
    clear EX Erows.
    set (vs := get_values f) in *. set (li := count_before false (keys vs) a) in *.
    assert (Hsorted : sorted ((a, val_at V (init f) vs li) :: firstn (upper_count vs hi - li) (skipn li vs) ++ clip_tail hi)).
    { unfold sorted. simpl. apply sorted_mid_tail; auto.
      - apply skipn_count_sorted_from. exact Hs.
      - destruct hi; auto. }
    destruct (canon_values None _ (closed f) Hsorted) as (C1 & _ & C3 & _ & C5).
    split; [exact C1|split; [exact C3|]].
    intros sd x. rewrite C5. set (s := strict_of sd). unfold inside. rewrite lookup_cons.
    destruct (before s a x) eqn:Ba; [|reflexivity]. simpl andb.
    assert (Hli : li <= count_before s (keys vs) x).
    { apply count_before_impl. intros k _ Hk. eapply before_of_le; eauto. }
    destruct hi as [b|]; simpl clip_tail.
    + rewrite lookup_snoc by (eapply ksorted_from_ksorted; exact Hsorted).
      destruct (before s b x) eqn:Bb; [reflexivity|]. simpl negb. cbv iota.
      apply lookup_window; auto. apply (upper_count_bound s vs (Some b) x). exact Bb.
    + rewrite app_nil_r. apply lookup_window; auto. apply (upper_count_bound s vs None x). exact I.
  - destruct hi as [b|].
    + (* only an upper bound *)
      intros Er. injection Er as <-. simpl pred. rewrite Nat.sub_0_r. simpl skipn.
      set (vs := get_values f) in *.
      assert (Hsorted : sorted (firstn (count_before true (keys vs) b) vs ++ [(b, None)])).
      { destruct (firstn (count_before true (keys vs) b) vs) as [|[p v] t] eqn:Ef; [exact I|].
        unfold sorted. simpl. change (ksorted_from p (keys (t ++ [(b, None)]))).
        assert (Hfs : sorted (firstn (count_before true (keys vs) b) vs)) by (apply firstn_sorted; exact Hs).
        assert (Hlt : forall k, In k (keys (firstn (count_before true (keys vs) b) vs)) -> ltb k b = true).
        { intros k Hk. eapply firstn_count_keys_lt; [|exact Hk]. lia. }
        rewrite Ef in Hfs, Hlt. apply snoc_sorted_from.
        - exact Hfs.
        - apply Hlt. simpl; auto.
        - intros k Hk. apply Hlt. simpl; auto. }
      destruct (canon_values (init f) _ (closed f) Hsorted) as (C1 & _ & C3 & _ & C5).
      split; [exact C1|split; [exact C3|]].
      intros sd x. rewrite C5. set (s := strict_of sd). unfold inside. simpl andb.
      rewrite lookup_snoc by exact Hsorted.
      destruct (before s b x) eqn:Bb; [reflexivity|]. simpl negb. cbv iota.
      apply lookup_firstn. apply (upper_count_bound s vs (Some b) x). exact Bb.
    + (* no bounds: a copy *)
      intros Er. injection Er as <-. unfold copy. split; [exact Wf|split; [reflexivity|]].
      intros sd x. reflexivity.
Qed.

Theorem clip_error (f : stairs) lo hi e :
  clip f lo hi = Err e -> e = EValue /\ exists a b, lo = Some a /\ hi = Some b /\ ltb a b = false.
Proof.
  unfold clip. destruct (bounds_ok lo hi) eqn:Hb.
  - simpl. destruct lo, hi; discriminate.
  - simpl. intros E. injection E as <-. split; auto.
    unfold bounds_ok in Hb. destruct lo as [a|], hi as [b|]; try discriminate. eauto.
Qed.

End ClipFacts.
