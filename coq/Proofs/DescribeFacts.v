(* Proofs/DescribeFacts.v — the remaining C09 outputs in terms of the proved ones: hist 'frequency' and 'density' as
   normalisations of 'sum' (density integrates to one over the bins), and describe as the statistics of the restriction. *)
From Coq Require Import List Bool Arith Lia QArith Qcanon.
Import ListNotations.
Require Import SC.Base.Ord SC.Base.Val SC.Base.Series SC.Base.QcOrd.
Require Import SC.Model.Repr SC.Model.Ops SC.Model.Masking SC.Model.Sampling SC.Model.Stats SC.Model.Slicing.
Require Import SC.Spec.Den SC.Proofs.VarFacts.
Open Scope Qc_scope.

Definition bin_sum (ec : stairsQ) (total : Qc) (cl : side) (b : Qc * Qc) : V :=
  let sd := match cl with CLeft => LimLeft | CRight => LimRight end in
  vmul (vsub (limit ec sd (snd b)) (limit ec sd (fst b))) (Some total).

Lemma hist_sum_bins ec total bins cl : hist ec total bins cl HSum = map (bin_sum ec total cl) bins.
Proof. unfold hist, bin_sum. rewrite map_map. reflexivity. Qed.

(* 'frequency' is the sum divided by the width of the bin *)
Theorem hist_frequency ec total bins cl :
  hist ec total bins cl HFrequency = map (fun b => vdiv (bin_sum ec total cl b) (Some (snd b - fst b))) bins.
Proof.
  unfold hist, bin_sum. induction bins as [|b t IH]; [reflexivity|]. cbn [map combine fst snd]. f_equal. exact IH.
Qed.

(* 'density' is the sum divided by the total area sum_i sum_i * width_i ... *)
Definition hist_area (ec : stairsQ) (total : Qc) (cl : side) (bins : list (Qc * Qc)) : V :=
  fold_left vadd (map (fun b => vmul (bin_sum ec total cl b) (Some (snd b - fst b))) bins) (Some 0).

Theorem hist_density ec total bins cl :
  hist ec total bins cl HDensity = map (fun b => vdiv (bin_sum ec total cl b) (hist_area ec total cl bins)) bins.
Proof.
  unfold hist, hist_area.
  assert (E : forall bs, map (fun vw : V * Qc => vmul (fst vw) (Some (snd vw)))
                (combine (map (fun v => vmul v (Some total))
                            (map (fun b => vsub (limit ec match cl with CLeft => LimLeft | CRight => LimRight end (snd b))
                                                (limit ec match cl with CLeft => LimLeft | CRight => LimRight end (fst b))) bs))
                         (map (fun b => snd b - fst b) bs))
              = map (fun b => vmul (bin_sum ec total cl b) (Some (snd b - fst b))) bs).
  { induction bs as [|b t IH]; [reflexivity|]. cbn [map combine fst snd]. f_equal. exact IH. }
  rewrite E. rewrite !map_map. reflexivity.
Qed.

(* ... so that, when every bin has a defined sum and the area is not zero, the densities integrate to one over the bins *)
Lemma fold_vadd_some (l : list Qc) (acc : Qc) : fold_left vadd (map Some l) (Some acc) = Some (acc + qsum l).
Proof.
  revert acc. induction l as [|x t IH]; intros acc; cbn [map fold_left].
  - f_equal. unfold qsum. cbn. ring.
  - change (vadd (Some acc) (Some x)) with (Some (acc + x)). rewrite IH, qsum_cons. f_equal. ring.
Qed.

Theorem density_integrates_to_one (xs ws : list Qc) (d : Qc) :
  length xs = length ws -> d = qsum (map (fun xw => fst xw * snd xw) (combine xs ws)) -> d <> 0 ->
  qsum (map (fun xw => fst xw / d * snd xw) (combine xs ws)) = 1.
Proof.
  intros _ Ed Hd.
  assert (E : map (fun xw : Qc * Qc => fst xw / d * snd xw) (combine xs ws)
              = map (fun xw => (fst xw * snd xw) * / d) (combine xs ws)).
  { apply map_ext. intros [x w]. cbn [fst snd]. unfold Qcdiv. ring. }
  rewrite E, (qsum_scale _ (fun xw => fst xw * snd xw) (/ d)), <- Ed. apply Qcmult_inv_r. exact Hd.
Qed.

(* describe over a window: the number of distinct values, mean, var (the code reports its square root), minimum, the requested
   percentiles and the maximum - each the statistic of the function restricted to the window (C08, C09, C10) *)
Theorem describe_reports_the_statistics_of_the_restriction (f : stairsQ) lo hi (ps : list Qc) (l : list V) :
  describe f lo hi ps = Ok l ->
  exists c ec pcc,
    clip f lo hi = Ok c /\ ecdf_of c = Some ec /\ clip (percentiles_of ec) (Some 0) (Some (q_of_Z 100)) = Ok pcc /\
    l = [Some (q_of_Z (Z.of_nat (number_of_steps pcc) - 1)); snd (integral_and_mean c); var_of ec (snd (integral_and_mean c)); whole_min c]
        ++ map (xtile_sample (percentiles_of ec)) ps ++ [whole_max c].
Proof.
  unfold describe. destruct (clip f lo hi) as [c|e] eqn:Ec; [|discriminate]. cbn [lift_res].
  destruct (ecdf_of c) as [ec|] eqn:Ee; [|discriminate].
  destruct (clip (percentiles_of ec) (Some 0) (Some (q_of_Z 100))) as [pcc|e] eqn:Ep; [|discriminate].
  intros E. injection E as <-. exists c, ec, pcc. repeat split; assumption.
Qed.
