(* Proofs/CovSelfFacts.v — cov(f, f) over a finite window equals var(f) over that window (C19) *)
From Coq Require Import List Bool Arith Lia QArith Qcanon.
Import ListNotations.
Require Import SC.Base.Ord SC.Base.Val SC.Base.Series SC.Base.QcOrd.
Require Import SC.Model.Repr SC.Model.Ops SC.Model.Masking SC.Model.Sampling SC.Model.Stats SC.Model.Slicing.
Require Import SC.Spec.Den SC.Proofs.SeriesFacts SC.Proofs.ReprFacts SC.Proofs.OpsFacts SC.Proofs.MaskFacts SC.Proofs.ClipFacts
               SC.Proofs.CanonFacts SC.Proofs.MinimalFacts SC.Proofs.IdentityFacts SC.Proofs.AggFacts SC.Proofs.StatsFacts
               SC.Proofs.VarFacts SC.Proofs.RefineFacts SC.Proofs.CovFacts.
Open Scope Qc_scope.

Notation ser := (list (Qc * V)).

Definition vmap (g : Qc -> Qc) (v : V) : V := match v with Some x => Some (g x) | None => None end.

(* ---- length-weighted sums as integrals of a transformed table *)
Definition wsum_pieces (g : Qc -> Qc) (l : ser) : Qc :=
  qsum (map (fun vl => g (fst vl) * snd vl) (defined_of (fin_pieces l))).

Lemma fin_pieces_map_vals (g : V -> V) : forall l : ser,
  fin_pieces (map_vals g l) = map (fun pc => (fst pc, g (snd pc))) (fin_pieces l).
Proof.
  induction l as [|[p v] t IH]; [reflexivity|]. destruct t as [|[p' v'] t']; [reflexivity|].
  change (map_vals g ((p, v) :: (p', v') :: t')) with ((p, g v) :: (p', g v') :: map_vals g t').
  change (fin_pieces ((p, g v) :: (p', g v') :: map_vals g t')) with ((p, p', g v) :: fin_pieces (map_vals g ((p', v') :: t'))).
  rewrite IH. reflexivity.
Qed.

Lemma wsum_as_integral (g : Qc -> Qc) (l : ser) :
  wsum_pieces g l = piece_integral (fin_pieces (map_vals (vmap g) l)).
Proof.
  unfold wsum_pieces, piece_integral. rewrite fin_pieces_map_vals.
  induction (fin_pieces l) as [|[[a b] [v|]] t IH]; [reflexivity| |]; cbn [map defined_of flat_map fst snd vmap app].
  - rewrite !qsum_cons. unfold defined_of in IH. rewrite IH. reflexivity.
  - exact IH.
Qed.

Lemma tail_none_map (g : Qc -> Qc) : forall (l : ser) cur, tail_none cur l -> tail_none (vmap g cur) (map_vals (vmap g) l).
Proof.
  induction l as [|[p v] t IH]; intros cur H; cbn [map_vals map tail_none fst snd] in *.
  - subst. reflexivity.
  - apply IH. exact H.
Qed.

(* two tables whose (transformed) right limits agree everywhere have the same weighted sums *)
Theorem weighted_sums_depend_on_the_function (g1 g2 : Qc -> Qc) (l1 l2 : ser) :
  sorted l1 -> sorted l2 -> tail_none None l1 -> tail_none None l2 ->
  (forall x, vmap g1 (lookup false None l1 x) = vmap g2 (lookup false None l2 x)) ->
  wsum_pieces g1 l1 = wsum_pieces g2 l2.
Proof.
  intros S1 S2 T1 T2 E. rewrite !wsum_as_integral.
  set (P := usort (keys l1 ++ keys l2)).
  destruct (usort_spec (keys l1 ++ keys l2)) as [HP HinP]. fold P in HP, HinP.
  assert (K1 : keys (map_vals (vmap g1) l1) = keys l1) by apply keys_map_vals.
  assert (K2 : keys (map_vals (vmap g2) l2) = keys l2) by apply keys_map_vals.
  rewrite (integral_over_any_refinement (map_vals (vmap g1) l1) P), (integral_over_any_refinement (map_vals (vmap g2) l2) P).
  - apply rsum_ext. intros x _.
    change (@None Qc) with (vmap g1 None) at 1. rewrite lookup_map_vals.
    change (@None Qc) with (vmap g2 None) at 2. rewrite lookup_map_vals. apply E.
  - unfold sorted. rewrite K2. exact S2.
  - exact HP.
  - rewrite K2. intros x Hx. apply HinP. apply in_or_app. right. exact Hx.
  - apply (tail_none_map g2 l2 None T2).
  - unfold sorted. rewrite K1. exact S1.
  - exact HP.
  - rewrite K1. intros x Hx. apply HinP. apply in_or_app. left. exact Hx.
  - apply (tail_none_map g1 l1 None T1).
Qed.

(* ---- a clip to a finite window is undefined before its first and after its last step point *)
Lemma get_values_rr_of_values (i : V) (v : ser) (c : side) : get_values (remove_redundant (of_values i v c)) = rr i v.
Proof.
  destruct v as [|x t]; [reflexivity|]. unfold of_values, remove_redundant, get_values. cbn [mk_frame data dcol vcol init].
  destruct (rr i (x :: t)) eqn:E; reflexivity.
Qed.

Lemma tail_none_rr : forall (l : ser) prev, tail_none prev (rr prev l) <-> tail_none prev l.
Proof.
  induction l as [|[p v] t IH]; intros prev; cbn [rr tail_none]; [tauto|].
  destruct (veqb prev v) eqn:E.
  - apply veqb_eq in E. subst v. apply IH.
  - cbn [tail_none]. apply IH.
Qed.

Lemma tail_none_app (b : Qc) : forall (l : ser) cur, tail_none cur (l ++ [(b, None)]).
Proof. induction l as [|[p v] t IH]; intros cur; cbn [app tail_none]; [reflexivity|apply IH]. Qed.

Lemma tail_none_relabel a (l : ser) cur : tail_none cur l -> l <> [] -> tail_none cur (relabel_first a l).
Proof.
  destruct l as [|[k v] t]; [congruence|]. intros H _. cbn [relabel_first]. destruct (ltb k a); exact H.
Qed.

Lemma init_rr_of_values (i : V) (v : ser) (c : side) : init (remove_redundant (of_values i v c)) = i.
Proof. destruct v; reflexivity. Qed.

Lemma clip_window_shape (f c : stairsQ) (a b : Qc) : clip f (Some a) (Some b) = Ok c ->
  init c = None /\ tail_none None (get_values c).
Proof.
  unfold clip. destruct (negb (bounds_ok (Some a) (Some b))); [discriminate|]. intros E. injection E as <-.
  split; [apply init_rr_of_values|]. rewrite get_values_rr_of_values. apply tail_none_rr.
  destruct (Nat.eqb (count_before false (keys (get_values f)) a) 0).
  - cbn [tail_none]. apply tail_none_app.
  - apply tail_none_relabel; [apply tail_none_app|]. destruct (firstn _ _); discriminate.
Qed.

(* ---- pieces: total, integral, squared deviation as weighted sums *)
Lemma total_as_wsum (l : ser) : piece_total (fin_pieces l) = wsum_pieces (fun _ => 1) l.
Proof. unfold piece_total, wsum_pieces. f_equal. apply map_ext. intros vl. ring. Qed.

Lemma integral_as_wsum (l : ser) : piece_integral (fin_pieces l) = wsum_pieces (fun v => v) l.
Proof. reflexivity. Qed.

Lemma sqdev_expand (m : Qc) (pcs : list (Qc * Qc * V)) :
  piece_sqdev m pcs =
  qsum (map (fun vl => fst vl * fst vl * snd vl) (defined_of pcs)) - (1 + 1) * m * piece_integral pcs + m * m * piece_total pcs.
Proof.
  unfold piece_sqdev, piece_integral, piece_total. induction (defined_of pcs) as [|[v len] t IH].
  - unfold qsum. cbn [map fold_left]. ring.
  - cbn [map fst snd]. rewrite !qsum_cons, IH. ring.
Qed.

Lemma vmap_sq (a : V) : vmap (fun x => x * x) a = vmul a a.
Proof. destruct a; reflexivity. Qed.

Lemma lim_right_lookup (s : stairsQ) x : lim LimRight s x = lookup false (init s) (get_values s) x.
Proof. reflexivity. Qed.

(* the operands of cov(f, f) are f itself *)
Lemma cov_operands_self (f f1 g1 : stairsQ) lo hi lc h : wf f -> minimal f ->
  cov_operands f f lo hi 0 lc = Ok (f1, g1, h) ->
  h = hi /\ (wf f1 /\ minimal f1 /\ init f1 = init f /\ get_values f1 = get_values f) /\
  (wf g1 /\ minimal g1 /\ init g1 = init f /\ get_values g1 = get_values f).
Proof.
  intros Wf Mf E.
  destruct (cov_operands_spec f f f1 g1 lo hi lc h Wf Wf E) as (Eh & Wf1 & Wg1 & L).
  destruct (operands_symmetric f f lo hi lc f1 g1 h f1 g1 h Wf Wf Mf Mf E E) as (_ & (_ & _ & Mf1 & _) & (_ & _ & Mg1 & _)).
  assert (LF : forall sd x, lim sd f1 x = lim sd f x).
  { intros sd x. rewrite (proj1 (L sd x)). unfold both_defined. destruct (lim sd f x); reflexivity. }
  assert (LG : forall sd x, lim sd g1 x = lim sd f x).
  { intros sd x. rewrite (proj2 (L sd x)). unfold both_defined. destruct (lim sd f x); reflexivity. }
  destruct (canonical 0 f1 f Wf1 Wf Mf1 Mf LF) as [Fi Fv].
  destruct (canonical 0 g1 f Wg1 Wf Mg1 Mf LG) as [Gi Gv].
  split; [exact Eh|]. split; repeat split; assumption.
Qed.

Lemma clipped_mean_unfold (x : stairsQ) lo hi m : clipped_mean x lo hi = Ok m ->
  exists cx, clip x lo hi = Ok cx /\ m = snd (integral_and_mean cx).
Proof.
  unfold clipped_mean. destruct (clip x lo hi) as [cx|e]; [|discriminate]. cbn [lift_res]. intros E. injection E as <-.
  exists cx. split; reflexivity.
Qed.

Theorem cov_spec_self_is_var (f : stairsQ) (a b : Qc) lc (v v' : V) : wf f -> minimal f ->
  cov_spec f f (Some a) (Some b) 0 lc = Ok v -> clipped_var f (Some a) (Some b) = Ok v' -> v = v'.
Proof.
  intros Wf Mf. unfold cov_spec.
  destruct (cov_operands f f (Some a) (Some b) 0 lc) as [[[f1 g1] h]|e] eqn:Eo; [|discriminate]. cbn [lift_res].
  destruct (cov_operands_self f f1 g1 (Some a) (Some b) lc h Wf Mf Eo) as (-> & (Wf1 & Mf1 & Fi & Fv) & (Wg1 & Mg1 & Gi & Gv)).
  unfold cov_masked_spec.
  destruct (binop_api (BArith OMul) (OpS f1) (OpS g1)) as [p|e] eqn:Ep; [|discriminate]. cbn [lift_res].
  destruct (binop_api_ok (BArith OMul) (OpS f1) (OpS g1) p Wf1 Wg1 Ep) as [Wp Lp].
  rewrite (clipped_mean_canonical f1 f (Some a) (Some b) Fi Fv), (clipped_mean_canonical g1 f (Some a) (Some b) Gi Gv).
  destruct (clipped_mean p (Some a) (Some b)) as [mfg|e] eqn:Emp; [|discriminate]. cbn [lift_res].
  destruct (clipped_mean f (Some a) (Some b)) as [mf|e] eqn:Emf; [|discriminate]. cbn [lift_res].
  intros Ev. injection Ev as <-.
  destruct (clipped_mean_unfold p _ _ mfg Emp) as (cp & Ecp & ->).
  destruct (clipped_mean_unfold f _ _ mf Emf) as (c & Ec & ->).
  unfold clipped_var. rewrite Ec. cbn [lift_res].
  destruct (ecdf_of c) as [ec|] eqn:Eec; [|discriminate]. intros Ev'. injection Ev' as <-.
  destruct (clip_spec f c (Some a) (Some b) Wf Ec) as (Wc & _ & Lc).
  destruct (clip_spec p cp (Some a) (Some b) Wp Ecp) as (Wcp & _ & Lcp).
  destruct (clip_window_shape f c a b Ec) as [Ic Tc].
  destruct (clip_window_shape p cp a b Ecp) as [Icp Tcp].
  destruct (var_about_the_mean c ec Wc Eec) as (HT & IMc & Hvar). cbv zeta in HT, IMc, Hvar.
  set (pcs := fin_pieces (get_values c)) in *.
  set (T := piece_total pcs) in *. set (I2 := piece_integral pcs) in *.
  assert (Tne : T <> 0) by (intros E0; rewrite E0 in HT; discriminate HT).
  (* pointwise relations between the two clipped tables *)
  assert (Plim : forall x, lookup false None (get_values cp) x = vmul (lookup false None (get_values c) x) (lookup false None (get_values c) x)).
  { intros x. rewrite <- Icp at 1. rewrite <- Ic. rewrite <- !lim_right_lookup. rewrite Lcp, Lc.
    destruct (inside (strict_of LimRight) (Some a) (Some b) x); [|reflexivity].
    rewrite Lp. cbn [olim vbin varith]. rewrite <- (lim_right_lookup f1), <- (lim_right_lookup g1) || idtac.
    unfold lim. rewrite Fi, Fv, Gi, Gv. reflexivity. }
  assert (E1 : wsum_pieces (fun v => v) (get_values cp) = wsum_pieces (fun x => x * x) (get_values c)).
  { apply weighted_sums_depend_on_the_function; try assumption; try (apply wf_sorted_values; assumption).
    intros x. rewrite Plim, vmap_sq. destruct (vmul _ _); reflexivity. }
  assert (E2 : wsum_pieces (fun _ => 1) (get_values cp) = wsum_pieces (fun _ => 1) (get_values c)).
  { apply weighted_sums_depend_on_the_function; try assumption; try (apply wf_sorted_values; assumption).
    intros x. rewrite Plim. destruct (lookup false None (get_values c) x); reflexivity. }
  rewrite <- !total_as_wsum in E2. rewrite <- integral_as_wsum in E1. fold pcs T in E2.
  (* integral and mean of the clipped product *)
  assert (IMp : integral_and_mean cp = (Some (piece_integral (fin_pieces (get_values cp))),
                                        Some (piece_integral (fin_pieces (get_values cp)) / T))).
  { assert (Hlen : (2 <= length (get_values cp))%nat).
    { destruct (get_values cp) as [|[k1 w1] [|r2 rest]] eqn:Eg; cbn [length]; try lia; exfalso; apply Tne; rewrite <- E2; reflexivity. }
    destruct (data cp) as [fr|] eqn:Dcp.
    - rewrite (integral_mean_spec cp fr Dcp Hlen). rewrite E2. f_equal. unfold vdiv.
      destruct (Qceqb T 0) eqn:E0; [apply Qc_eq_bool_correct in E0; congruence|reflexivity].
    - exfalso. unfold get_values in Hlen. rewrite Dcp in Hlen. cbn in Hlen. lia. }
  rewrite IMp, IMc in *. cbn [snd vsub vmul vlift2] in *. rewrite Hvar. f_equal.
  rewrite E1. fold pcs. rewrite (sqdev_expand (I2 / T) pcs). fold T I2.
  change (wsum_pieces (fun x => x * x) (get_values c)) with (qsum (map (fun vl : Qc * Qc => fst vl * fst vl * snd vl) (defined_of pcs))).
  set (S2 := qsum (map (fun vl : Qc * Qc => fst vl * fst vl * snd vl) (defined_of pcs))).
  clearbody S2 I2 T. clear -Tne. field. exact Tne.
Qed.
