(* Proofs/CovCentredFacts.v — the centred form statistic.cov computes (repaired: mean of (f - mean f)(g - mean g) over the
   window) is the property's formula mean(f g) - mean(f) mean(g) over every finite window (C19); consequences:
   cov(f, f) = var(f), the bound on corr. *)
From Coq Require Import List Bool Arith Lia QArith Qcanon Lqa.
Import ListNotations.
Require Import SC.Base.Ord SC.Base.Val SC.Base.Series SC.Base.QcOrd.
Require Import SC.Model.Repr SC.Model.Ops SC.Model.Masking SC.Model.Sampling SC.Model.Stats SC.Model.Slicing.
Require Import SC.Spec.Den SC.Proofs.SeriesFacts SC.Proofs.ReprFacts SC.Proofs.OpsFacts SC.Proofs.MaskFacts SC.Proofs.ClipFacts
               SC.Proofs.CanonFacts SC.Proofs.MinimalFacts SC.Proofs.IdentityFacts SC.Proofs.AggFacts SC.Proofs.QcDense
               SC.Proofs.StatsFacts SC.Proofs.VarFacts SC.Proofs.RefineFacts SC.Proofs.CovFacts SC.Proofs.CovSelfFacts
               SC.Proofs.CorrBoundFacts.
Open Scope Qc_scope.

(* ---- the mean of a table in terms of its total defined length *)
Lemma mean_by_total (c : stairsQ) :
  snd (integral_and_mean c) =
  if Qceqb (piece_total (fin_pieces (get_values c))) 0 then None
  else Some (piece_integral (fin_pieces (get_values c)) / piece_total (fin_pieces (get_values c))).
Proof.
  unfold integral_and_mean. destruct (data c) as [fr|] eqn:Dc.
  - destruct (Nat.ltb (length (get_values c)) 2) eqn:El.
    + apply Nat.ltb_lt in El. destruct (get_values c) as [|[p v] [|y t]]; cbn [length] in El; try lia; reflexivity.
    + cbn [snd]. rewrite defined_pieces_of. reflexivity.
  - unfold get_values. rewrite Dc. reflexivity.
Qed.

(* a table whose right limits are h applied to those of two others *)
Lemma sum_two (lf lg lq : ser) (P : list Qc) (h k : Qc -> Qc -> Qc) (g : Qc -> Qc) :
  sorted lq -> tail_none None lq -> ksorted P -> incl (keys lq) P ->
  (forall x, lookup false None lq x = vmap2 h (lookup false None lf x) (lookup false None lg x)) ->
  (forall u v, g (h u v) = k u v) ->
  wsum_pieces g lq = R (fun x => lookup false None lf x) (fun x => lookup false None lg x) k P.
Proof.
  intros Sq Tq HP Iq Hq E. rewrite (wsum_as_rsum g lq P Sq Tq HP Iq). unfold R. apply rsum_ext. intros x _. rewrite Hq.
  destruct (lookup false None lf x), (lookup false None lg x); cbn [vmap vmap2]; try reflexivity. rewrite E. reflexivity.
Qed.

Lemma total_of_undefined (l : ser) : sorted l -> tail_none None l -> (forall x, lookup false None l x = None) ->
  piece_total (fin_pieces l) = 0.
Proof.
  intros Sl Tl Hn. rewrite total_as_wsum.
  destruct (usort_spec (keys l)) as [HP HinP].
  rewrite (wsum_as_rsum (fun _ => 1) l (usort (keys l)) Sl Tl HP) by (intros x Hx; apply HinP; exact Hx).
  rewrite (rsum_ext _ (fun _ => None)) by (intros q _; rewrite Hn; reflexivity). apply rsum_none.
Qed.

Lemma clip_total (x y : stairsQ) lo hi r : clip x lo hi = Ok r -> exists r', clip y lo hi = Ok r'.
Proof.
  unfold clip. destruct (negb (bounds_ok lo hi)); [discriminate|]. intros _. destruct lo, hi; eexists; reflexivity.
Qed.

Lemma vsub_none_l (c : V) : vsub None c = None.  Proof. reflexivity. Qed.
Lemma vmul_none_l (c : V) : vmul None c = None.  Proof. reflexivity. Qed.
Lemma vmul_none_r (c : V) : vmul c None = None.  Proof. destruct c; reflexivity. Qed.
Lemma vsub_none_r (c : V) : vsub c None = None.  Proof. destruct c; reflexivity. Qed.

(* ---- the centred form is the property's formula *)
Theorem cov_centred_value (f' g' : stairsQ) (a b : Qc) (v : V) : wf f' -> wf g' ->
  (forall x, lim LimRight f' x = None <-> lim LimRight g' x = None) ->
  cov_masked f' g' (Some a) (Some b) = Ok v ->
  exists cf cg cp,
    clip f' (Some a) (Some b) = Ok cf /\ clip g' (Some a) (Some b) = Ok cg /\
    clip (apply_binop (BArith OMul) f' g') (Some a) (Some b) = Ok cp /\
    v = vsub (snd (integral_and_mean cp)) (vmul (snd (integral_and_mean cf)) (snd (integral_and_mean cg))).
Proof.
  intros Wf Wg D. unfold cov_masked, clipped_mean.
  destruct (clip f' (Some a) (Some b)) as [cf|e] eqn:Ecf; [|discriminate]. cbn [lift_res].
  destruct (clip g' (Some a) (Some b)) as [cg|e] eqn:Ecg; [|discriminate]. cbn [lift_res].
  set (mf := snd (integral_and_mean cf)). set (mg := snd (integral_and_mean cg)).
  destruct (binop_api (BArith OSub) (OpS f') (OpC mf)) as [fc|e] eqn:Efc; [|discriminate]. cbn [lift_res].
  destruct (binop_api (BArith OSub) (OpS g') (OpC mg)) as [gc|e] eqn:Egc; [|discriminate]. cbn [lift_res].
  destruct (binop_api (BArith OMul) (OpS fc) (OpS gc)) as [q|e] eqn:Eq; [|discriminate]. cbn [lift_res].
  destruct (clip q (Some a) (Some b)) as [cq|e] eqn:Ecq; [|discriminate]. cbn [lift_res].
  intros E. injection E as <-.
  set (p := apply_binop (BArith OMul) f' g').
  destruct (apply_binop_spec (BArith OMul) f' g' Wf Wg) as (Wp & _ & Lp). fold p in Wp, Lp.
  destruct (clip_total f' p (Some a) (Some b) cf Ecf) as [cp Ecp].
  exists cf, cg, cp. split; [reflexivity|]. split; [reflexivity|]. split; [exact Ecp|].
  destruct (binop_api_ok (BArith OSub) (OpS f') (OpC mf) fc Wf I Efc) as [Wfc Lfc].
  destruct (binop_api_ok (BArith OSub) (OpS g') (OpC mg) gc Wg I Egc) as [Wgc Lgc].
  destruct (binop_api_ok (BArith OMul) (OpS fc) (OpS gc) q Wfc Wgc Eq) as [Wq Lq].
  destruct (clip_spec f' cf (Some a) (Some b) Wf Ecf) as (Wcf & _ & Lcf).
  destruct (clip_spec g' cg (Some a) (Some b) Wg Ecg) as (Wcg & _ & Lcg).
  destruct (clip_spec p cp (Some a) (Some b) Wp Ecp) as (Wcp & _ & Lcp).
  destruct (clip_spec q cq (Some a) (Some b) Wq Ecq) as (Wcq & _ & Lcq).
  destruct (clip_window_shape f' cf a b Ecf) as [Icf Tcf]. destruct (clip_window_shape g' cg a b Ecg) as [Icg Tcg].
  destruct (clip_window_shape p cp a b Ecp) as [Icp Tcp]. destruct (clip_window_shape q cq a b Ecq) as [Icq Tcq].
  set (lf := get_values cf) in *. set (lg := get_values cg) in *. set (lp := get_values cp) in *. set (lq := get_values cq) in *.
  assert (LA : forall x, lookup false None lf x = if inside false (Some a) (Some b) x then lim LimRight f' x else None).
  { intros x. unfold lf. rewrite (lookup_is_lim cf x Icf), Lcf. reflexivity. }
  assert (LB : forall x, lookup false None lg x = if inside false (Some a) (Some b) x then lim LimRight g' x else None).
  { intros x. unfold lg. rewrite (lookup_is_lim cg x Icg), Lcg. reflexivity. }
  assert (Dfg : forall x, lookup false None lf x = None <-> lookup false None lg x = None).
  { intros x. rewrite LA, LB. destruct (inside false (Some a) (Some b) x); [apply D|tauto]. }
  assert (Hprod : forall x, lookup false None lp x = vmul (lookup false None lf x) (lookup false None lg x)).
  { intros x. rewrite LA, LB. unfold lp. rewrite (lookup_is_lim cp x Icp), Lcp. cbn [strict_of].
    destruct (inside false (Some a) (Some b) x); [|reflexivity]. rewrite Lp. reflexivity. }
  assert (Hq : forall x, lookup false None lq x = vmul (vsub (lookup false None lf x) mf) (vsub (lookup false None lg x) mg)).
  { intros x. rewrite LA, LB. unfold lq. rewrite (lookup_is_lim cq x Icq), Lcq. cbn [strict_of].
    destruct (inside false (Some a) (Some b) x); [|reflexivity]. rewrite Lq. cbn [olim]. rewrite Lfc, Lgc. reflexivity. }
  pose proof (wf_sorted_values cf Wcf) as Sf. pose proof (wf_sorted_values cg Wcg) as Sg.
  pose proof (wf_sorted_values cp Wcp) as Sp. pose proof (wf_sorted_values cq Wcq) as Sq.
  fold lf in Sf. fold lg in Sg. fold lp in Sp. fold lq in Sq.
  set (P := usort (keys lf ++ keys lg ++ keys lp ++ keys lq)).
  destruct (usort_spec (keys lf ++ keys lg ++ keys lp ++ keys lq)) as [HP HinP]. fold P in HP, HinP.
  assert (If_ : incl (keys lf) P) by (intros x Hx; apply HinP; apply in_or_app; left; exact Hx).
  assert (Ig_ : incl (keys lg) P) by (intros x Hx; apply HinP; apply in_or_app; right; apply in_or_app; left; exact Hx).
  assert (Ip_ : incl (keys lp) P) by (intros x Hx; apply HinP; apply in_or_app; right; apply in_or_app; right; apply in_or_app; left; exact Hx).
  assert (Iq_ : incl (keys lq) P) by (intros x Hx; apply HinP; apply in_or_app; right; apply in_or_app; right; apply in_or_app; right; exact Hx).
  set (T := piece_total (fin_pieces lf)).
  assert (Tg : piece_total (fin_pieces lg) = T).
  { unfold T. rewrite !total_as_wsum.
    rewrite (sum_g lf lg P Sg Tcg HP Ig_ Dfg (fun _ => 1)), (sum_f lf lg P Sf Tcf HP If_ Dfg (fun _ => 1)). reflexivity. }
  assert (Tp : piece_total (fin_pieces lp) = T).
  { unfold T. rewrite !total_as_wsum.
    rewrite (sum_p lf lg lp P Sp Tcp HP Ip_ Hprod (fun _ _ => 1) (fun _ => 1)) by reflexivity.
    rewrite (sum_f lf lg P Sf Tcf HP If_ Dfg (fun _ => 1)). reflexivity. }
  assert (Emf : mf = if Qceqb T 0 then None else Some (piece_integral (fin_pieces lf) / T)) by (unfold mf; apply mean_by_total).
  assert (Emg : mg = if Qceqb T 0 then None else Some (piece_integral (fin_pieces lg) / T)).
  { unfold mg. rewrite mean_by_total. fold lg. rewrite Tg. reflexivity. }
  change (snd (integral_and_mean cf)) with mf. change (snd (integral_and_mean cg)) with mg.
  rewrite (mean_by_total cq), (mean_by_total cp). fold lq lp. rewrite Tp.
  destruct (Qceqb T 0) eqn:ET.
  - (* nothing defined on the window *)
    rewrite Emf. cbn [vmul vlift2 vsub].
    assert (Tq0 : piece_total (fin_pieces lq) = 0).
    { apply (total_of_undefined lq Sq Tcq). intros x. rewrite Hq, Emf. rewrite vsub_none_r. reflexivity. }
    rewrite Tq0. reflexivity.
  - assert (Tne : T <> 0) by (intros E0; rewrite E0 in ET; discriminate ET).
    set (muf := piece_integral (fin_pieces lf) / T) in *. set (mug := piece_integral (fin_pieces lg) / T) in *.
    assert (Hq' : forall x, lookup false None lq x = vmap2 (fun u w => (u - muf) * (w - mug)) (lookup false None lf x) (lookup false None lg x)).
    { intros x. rewrite Hq, Emf, Emg. destruct (lookup false None lf x), (lookup false None lg x); reflexivity. }
    assert (Tq : piece_total (fin_pieces lq) = T).
    { unfold T. rewrite !total_as_wsum.
      rewrite (sum_two lf lg lq P (fun u w => (u - muf) * (w - mug)) (fun _ _ => 1) (fun _ => 1) Sq Tcq HP Iq_ Hq') by reflexivity.
      rewrite (sum_f lf lg P Sf Tcf HP If_ Dfg (fun _ => 1)). reflexivity. }
    assert (Iq : piece_integral (fin_pieces lq) = piece_integral (fin_pieces lp) - muf * mug * T).
    { rewrite integral_as_wsum.
      rewrite (sum_two lf lg lq P (fun u w => (u - muf) * (w - mug)) (fun u w => (u - muf) * (w - mug)) (fun z => z) Sq Tcq HP Iq_ Hq') by reflexivity.
      apply (centred_sum lf lg lp P Sf Sg Sp Tcf Tcg Tcp HP If_ Ig_ Ip_ Dfg Hprod muf mug).
      - fold T. unfold muf, Qcdiv. rewrite <- Qcmult_assoc, Qcmult_inv_l by exact Tne. ring.
      - fold T. unfold mug, Qcdiv. rewrite <- Qcmult_assoc, Qcmult_inv_l by exact Tne. ring. }
    rewrite Tq, ET, Iq, Emf, Emg. cbn [vmul vlift2 vsub]. f_equal.
    unfold Qcdiv. transitivity (piece_integral (fin_pieces lp) * / T - muf * mug * (T * / T)); [ring|].
    rewrite Qcmult_inv_r by exact Tne. ring.
Qed.

(* ---- consequences *)
Lemma closed_ok_refl (f : stairsQ) : closed_ok f f = true.
Proof. unfold closed_ok. destruct (closed f); cbn; destruct (has_steps f); reflexivity. Qed.

(* with operands whose sides agree the property's formula evaluates, to the same value *)
Theorem cov_centred_eq_spec (f' g' : stairsQ) (a b : Qc) (v : V) : wf f' -> wf g' ->
  (forall x, lim LimRight f' x = None <-> lim LimRight g' x = None) -> closed_ok f' g' = true ->
  cov_masked f' g' (Some a) (Some b) = Ok v -> cov_masked_spec f' g' (Some a) (Some b) = Ok v.
Proof.
  intros Wf Wg D Hc E. destruct (cov_centred_value f' g' a b v Wf Wg D E) as (cf & cg & cp & Ecf & Ecg & Ecp & ->).
  unfold cov_masked_spec, binop_api. rewrite Hc. cbn [lift_res]. unfold clipped_mean. rewrite Ecp, Ecf, Ecg. reflexivity.
Qed.

(* cov(f, g) over a finite window is mean(f' g') - mean(f') mean(g'), f' and g' being f and g restricted to the region on
   which both are defined, and every mean taken over the window *)
Theorem cov_formula (f g : stairsQ) (a b : Qc) lc (v : V) : wf f -> wf g ->
  cov f g (Some a) (Some b) 0 lc = Ok v ->
  exists f' g' cf cg cp,
    cov_operands f g (Some a) (Some b) 0 lc = Ok (f', g', Some b) /\
    clip f' (Some a) (Some b) = Ok cf /\ clip g' (Some a) (Some b) = Ok cg /\
    clip (apply_binop (BArith OMul) f' g') (Some a) (Some b) = Ok cp /\
    v = vsub (snd (integral_and_mean cp)) (vmul (snd (integral_and_mean cf)) (snd (integral_and_mean cg))).
Proof.
  intros Wf Wg. unfold cov. change (Qceqb 0 0) with true. cbv iota.
  destruct (negb (closed_ok f g)); [discriminate|].
  destruct (cov_operands f g (Some a) (Some b) 0 lc) as [[[f1 g1] h]|e] eqn:Eo; [|discriminate]. cbn [lift_res].
  destruct (cov_operands_spec f g f1 g1 (Some a) (Some b) lc h Wf Wg Eo) as (-> & Wf1 & Wg1 & L).
  intros Ec.
  assert (D1 : forall x, lim LimRight f1 x = None <-> lim LimRight g1 x = None).
  { intros x. rewrite (proj1 (L LimRight x)), (proj2 (L LimRight x)). apply both_defined_none. }
  destruct (cov_centred_value f1 g1 a b v Wf1 Wg1 D1 Ec) as (cf & cg & cp & Ecf & Ecg & Ecp & Ev).
  exists f1, g1, cf, cg, cp. repeat split; assumption.
Qed.

Theorem cov_self_is_var (f : stairsQ) (a b : Qc) lc (v v' : V) : wf f -> minimal f ->
  cov f f (Some a) (Some b) 0 lc = Ok v -> clipped_var f (Some a) (Some b) = Ok v' -> v = v'.
Proof.
  intros Wf Mf Hc Hv. apply (cov_spec_self_is_var f a b lc v v' Wf Mf); [|exact Hv].
  revert Hc. unfold cov, cov_spec. change (Qceqb 0 0) with true. cbv iota.
  destruct (negb (closed_ok f f)); [discriminate|].
  destruct (cov_operands f f (Some a) (Some b) 0 lc) as [[[f1 g1] h]|e] eqn:Eo; [|discriminate]. cbn [lift_res].
  destruct (cov_operands_spec f f f1 g1 (Some a) (Some b) lc h Wf Wf Eo) as (-> & Wf1 & Wg1 & L).
  assert (g1 = f1).
  { revert Eo. unfold cov_operands. change (Qceqb 0 0) with true. cbv iota.
    destruct (binop_api (BLog LOr) (OpS (isna f)) (OpS (isna f))) as [m|e]; [|discriminate]. cbn [lift_res].
    destruct (mask_stairs false f m) as [x|e]; [|discriminate]. cbn [lift_res]. intros E. injection E as <- <-. reflexivity. }
  subst g1. apply (cov_centred_eq_spec f1 f1 a b v Wf1 Wf1); [tauto|apply closed_ok_refl].
Qed.

Theorem corr_bounded (f g : stairsQ) (a b : Qc) lc (r : Qc) : wf f -> wf g ->
  corr_signed_square f g (Some a) (Some b) 0 lc = Ok (Some r) -> - (1) <= r /\ r <= 1.
Proof.
  intros Wf Wg. unfold corr_signed_square. change (Qceqb 0 0) with true. cbv iota.
  destruct (negb (closed_ok f g)); [discriminate|].
  destruct (cov_operands f g (Some a) (Some b) 0 lc) as [[[f1 g1] h]|e] eqn:Eo; [|discriminate]. cbn [lift_res].
  destruct (cov_operands_spec f g f1 g1 (Some a) (Some b) lc h Wf Wg Eo) as (-> & Wf1 & Wg1 & L).
  unfold clipped_var.
  destruct (clip f1 (Some a) (Some b)) as [cf|e] eqn:Ecf; [|discriminate]. cbn [lift_res].
  destruct (ecdf_of cf) as [ecf|] eqn:Eef; [|discriminate]. cbn [lift_res].
  destruct (clip g1 (Some a) (Some b)) as [cg|e] eqn:Ecg; [|discriminate]. cbn [lift_res].
  destruct (ecdf_of cg) as [ecg|] eqn:Eeg; [|discriminate]. cbn [lift_res].
  destruct (clip_spec f1 cf (Some a) (Some b) Wf1 Ecf) as (Wcf & _ & Lcf).
  destruct (clip_spec g1 cg (Some a) (Some b) Wg1 Ecg) as (Wcg & _ & Lcg).
  destruct (var_about_the_mean cf ecf Wcf Eef) as (HTf & IMf & Hvf). cbv zeta in HTf, IMf, Hvf.
  destruct (var_about_the_mean cg ecg Wcg Eeg) as (HTg & IMg & Hvg). cbv zeta in HTg, IMg, Hvg.
  rewrite Hvf, Hvg. cbn [vmul vlift2].
  set (lf := get_values cf) in *. set (lg := get_values cg) in *.
  set (d := piece_sqdev (piece_integral (fin_pieces lf) / piece_total (fin_pieces lf)) (fin_pieces lf) / piece_total (fin_pieces lf) *
            (piece_sqdev (piece_integral (fin_pieces lg) / piece_total (fin_pieces lg)) (fin_pieces lg) / piece_total (fin_pieces lg))).
  destruct (Qceqb d 0) eqn:Ed0; [intros E; discriminate E|].
  assert (Dne : d <> 0) by (intros E; rewrite E in Ed0; discriminate Ed0).
  destruct (cov_masked f1 g1 (Some a) (Some b)) as [c|e] eqn:Ec; [|discriminate]. cbn [lift_res].
  assert (D1 : forall x, lim LimRight f1 x = None <-> lim LimRight g1 x = None).
  { intros x. rewrite (proj1 (L LimRight x)), (proj2 (L LimRight x)). apply both_defined_none. }
  destruct (cov_centred_value f1 g1 a b c Wf1 Wg1 D1 Ec) as (cf' & cg' & cp & Ecf' & Ecg' & Ecp & Ecv).
  assert (cf' = cf) by congruence. assert (cg' = cg) by congruence. subst cf' cg'.
  set (p := apply_binop (BArith OMul) f1 g1) in *.
  destruct (apply_binop_spec (BArith OMul) f1 g1 Wf1 Wg1) as (Wp & _ & Lp). fold p in Wp, Lp.
  destruct (clip_spec p cp (Some a) (Some b) Wp Ecp) as (Wcp & _ & Lcp).
  set (lp := get_values cp) in *.
  destruct (clip_window_shape f1 cf a b Ecf) as [Icf Tcf]. destruct (clip_window_shape g1 cg a b Ecg) as [Icg Tcg].
  destruct (clip_window_shape p cp a b Ecp) as [Icp Tcp]. fold lf in Tcf. fold lg in Tcg. fold lp in Tcp.
  (* pointwise facts *)
  assert (LA : forall x, lookup false None lf x = if inside false (Some a) (Some b) x then (if both_defined (lim LimRight f x) (lim LimRight g x) then lim LimRight f x else None) else None).
  { intros x. unfold lf. rewrite (lookup_is_lim cf x Icf), Lcf. cbn [strict_of]. destruct (inside false (Some a) (Some b) x); [|reflexivity]. apply (proj1 (L LimRight x)). }
  assert (LB : forall x, lookup false None lg x = if inside false (Some a) (Some b) x then (if both_defined (lim LimRight f x) (lim LimRight g x) then lim LimRight g x else None) else None).
  { intros x. unfold lg. rewrite (lookup_is_lim cg x Icg), Lcg. cbn [strict_of]. destruct (inside false (Some a) (Some b) x); [|reflexivity]. apply (proj2 (L LimRight x)). }
  assert (Dfg : forall x, lookup false None lf x = None <-> lookup false None lg x = None).
  { intros x. rewrite LA, LB. destruct (inside false (Some a) (Some b) x); [apply both_defined_none|tauto]. }
  assert (Hprod : forall x, lookup false None lp x = vmul (lookup false None lf x) (lookup false None lg x)).
  { intros x. rewrite LA, LB. unfold lp. rewrite (lookup_is_lim cp x Icp), Lcp. cbn [strict_of].
    destruct (inside false (Some a) (Some b) x); [|reflexivity]. rewrite Lp. cbn [vbin varith].
    rewrite (proj1 (L LimRight x)), (proj2 (L LimRight x)). reflexivity. }
  set (P := usort (keys lf ++ keys lg ++ keys lp)).
  destruct (usort_spec (keys lf ++ keys lg ++ keys lp)) as [HP HinP]. fold P in HP, HinP.
  assert (If_ : incl (keys lf) P) by (intros x Hx; apply HinP; apply in_or_app; left; exact Hx).
  assert (Ig_ : incl (keys lg) P) by (intros x Hx; apply HinP; apply in_or_app; right; apply in_or_app; left; exact Hx).
  assert (Ip_ : incl (keys lp) P) by (intros x Hx; apply HinP; apply in_or_app; right; apply in_or_app; right; exact Hx).
  pose proof (wf_sorted_values cf Wcf) as Sf. pose proof (wf_sorted_values cg Wcg) as Sg. pose proof (wf_sorted_values cp Wcp) as Sp.
  fold lf in Sf. fold lg in Sg. fold lp in Sp.
  assert (Tgf : piece_total (fin_pieces lg) = piece_total (fin_pieces lf)).
  { (* the totals agree before d is unfolded: use the theorem with any non-zero product *)
    rewrite !total_as_wsum.
    rewrite (sum_g lf lg P Sg Tcg HP Ig_ Dfg (fun _ => 1)), (sum_f lf lg P Sf Tcf HP If_ Dfg (fun _ => 1)). reflexivity. }
  assert (Dd : d = piece_sqdev (piece_integral (fin_pieces lf) / piece_total (fin_pieces lf)) (fin_pieces lf) / piece_total (fin_pieces lf) *
                   (piece_sqdev (piece_integral (fin_pieces lg) / piece_total (fin_pieces lf)) (fin_pieces lg) / piece_total (fin_pieces lf))).
  { unfold d. rewrite Tgf. reflexivity. }
  assert (Hd' : piece_sqdev (piece_integral (fin_pieces lf) / piece_total (fin_pieces lf)) (fin_pieces lf) / piece_total (fin_pieces lf) *
                (piece_sqdev (piece_integral (fin_pieces lg) / piece_total (fin_pieces lf)) (fin_pieces lg) / piece_total (fin_pieces lf)) <> 0)
    by (rewrite <- Dd; exact Dne).
  destruct (moments_cauchy_schwarz lf lg lp P Sf Sg Sp Tcf Tcg Tcp HP If_ Ig_ Ip_ Dfg Hprod HTf Hd') as (_ & Tpf & CS & Dpos).
  cbv zeta in CS, Dpos. rewrite <- Dd in CS, Dpos.
  (* integral and mean of the clipped product *)
  assert (Tne : piece_total (fin_pieces lf) <> 0) by (intros E; rewrite E in HTf; discriminate HTf).
  assert (IMp : integral_and_mean cp = (Some (piece_integral (fin_pieces lp)), Some (piece_integral (fin_pieces lp) / piece_total (fin_pieces lf)))).
  { assert (Hlen : (2 <= length (get_values cp))%nat).
    { fold lp. destruct lp as [|[k1 w1] [|r2 rest]] eqn:Eg; cbn [length]; try lia; exfalso; apply Tne; rewrite <- Tpf; reflexivity. }
    destruct (data cp) as [fr|] eqn:Dcp.
    - rewrite (integral_mean_spec cp fr Dcp Hlen). fold lp. rewrite Tpf. f_equal. unfold vdiv.
      destruct (Qceqb (piece_total (fin_pieces lf)) 0) eqn:E0; [apply Qc_eq_bool_correct in E0; congruence|reflexivity].
    - exfalso. unfold get_values in Hlen. rewrite Dcp in Hlen. cbn in Hlen. lia. }
  rewrite Ecv, IMp, IMf, IMg. cbn [snd vsub vmul vlift2]. fold lf lg. rewrite Tgf.
  intros E. injection E as <-.
  apply signed_square_bounded; [exact CS|exact Dpos].
Qed.
