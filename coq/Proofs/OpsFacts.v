(* Proofs/OpsFacts.v — the binary operators and negate compute the pointwise operation on both
   one-sided limits, for every well-formed internal state of the operands. *)
From Coq Require Import List Bool Arith Lia QArith Qcanon.
Import ListNotations.
Require Import SC.Base.Ord SC.Base.Val SC.Base.Series SC.Model.Repr SC.Model.Ops SC.Model.Sampling.
Require Import SC.Spec.Den SC.Proofs.SeriesFacts SC.Proofs.ReprFacts SC.Proofs.DeltaFacts.
Open Scope Qc_scope.

Section OpsFacts.
Context {D : Type} `{Ord D}.
Notation ser := (list (D * V)).
Notation stairs := (stairs D).

(* the specification every stairs-valued operation is proved against *)
Definition spec1 (r f : stairs) (fn : V -> V) (c : side) : Prop :=
  wf r /\ closed r = c /\ forall sd x, lim sd r x = fn (lim sd f x).
Definition spec2 (r f g : stairs) (op : V -> V -> V) (c : side) : Prop :=
  wf r /\ closed r = c /\ forall sd x, lim sd r x = op (lim sd f x) (lim sd g x).

Lemma lim_const v c sd (x : D) : lim sd (const v c) x = v.
Proof. reflexivity. Qed.

Lemma lim_no_data (f : stairs) sd x : data f = None -> lim sd f x = init f.
Proof. intros Hd. unfold lim, get_values. rewrite Hd. reflexivity. Qed.

Lemma get_values_no_data (f : stairs) : data f = None -> get_values f = [].
Proof. intros Hd. unfold get_values. rewrite Hd. reflexivity. Qed.

Lemma get_values_nonempty (f : stairs) fr : wf f -> data f = Some fr -> get_values f <> [].
Proof.
  unfold wf, get_values, frame_values. intros Hw Hd. rewrite Hd in *.
  destruct Hw as (Hany & Hdc & Hvc & _).
  destruct (vcol fr) as [v|]; [exact (proj2 Hvc)|].
  destruct (dcol fr) as [d|]; [|destruct Hany; congruence].
  unfold vals_of_deltas. rewrite cumsum_nil_iff. exact (proj2 Hdc).
Qed.

(* a result whose values are a pointwise image of f's values *)
Lemma map_frame_eq (f : stairs) (fn : V -> V) :
  match data f with None => None | Some _ => mk_frame None (Some (map_vals fn (get_values f))) end =
  mk_frame None (Some (map_vals fn (get_values f))).
Proof. unfold get_values. destruct (data f); reflexivity. Qed.

Lemma sorted_map_vals (fn : V -> V) (l : ser) : sorted l -> sorted (map_vals fn l).
Proof. unfold sorted. rewrite keys_map_vals. auto. Qed.

Lemma map_result (f : stairs) (fn : V -> V) c :
  wf f -> spec1 (of_values (fn (init f)) (map_vals fn (get_values f)) c) f fn c.
Proof.
  intros Hw. pose proof (wf_sorted_values f Hw) as Hs. repeat split.
  - apply wf_of_values. apply sorted_map_vals; auto.
  - intros sd x. unfold lim. rewrite get_values_of_values. simpl. apply lookup_map_vals.
Qed.

Lemma map_result_rr (f : stairs) (fn : V -> V) c :
  wf f -> spec1 (remove_redundant (of_values (fn (init f)) (map_vals fn (get_values f)) c)) f fn c
          /\ minimal (remove_redundant (of_values (fn (init f)) (map_vals fn (get_values f)) c)).
Proof.
  intros Hw. pose proof (wf_sorted_values f Hw) as Hs.
  destruct (canon_values (fn (init f)) (map_vals fn (get_values f)) c (sorted_map_vals fn _ Hs))
    as (H1 & H2 & H3 & H4 & H5).
  split; [|exact H2]. repeat split; auto.
  intros sd x. rewrite H5. apply lookup_map_vals.
Qed.

(* ---- negate *)
Lemma negate_cumsum : forall (d : ser) a, cumsum (- a) (map_vals vneg d) = map_vals vneg (cumsum a d).
Proof.
  induction d as [|[p [x|]] t IH]; intros a; simpl; auto.
  - replace (- a + - x) with (- (a + x)) by ring. rewrite IH. reflexivity.
  - rewrite IH. reflexivity.
Qed.

Lemma map_vals_nonempty (fn : V -> V) (l : ser) : l <> [] -> map_vals fn l <> [].
Proof. destruct l; simpl; congruence. Qed.

Theorem negate_spec (f : stairs) : wf f -> spec1 (negate f) f vneg (closed f).
Proof.
  intros Hw. unfold negate. destruct (data f) as [fr|] eqn:Hd.
  - assert (Hgv : get_values (Stairs (vneg (init f))
        (Some (Frame (option_map (map_vals vneg) (dcol fr)) (option_map (map_vals vneg) (vcol fr)))) (closed f))
        = map_vals vneg (get_values f)).
    { unfold get_values, frame_values. rewrite Hd. simpl.
      destruct (vcol fr) as [v|]; simpl; auto. destruct (dcol fr) as [d|]; simpl; auto.
      unfold vals_of_deltas. destruct (init f) as [a|]; simpl.
      - apply negate_cumsum.
      - replace 0 with (- 0) at 1 by ring. apply negate_cumsum. }
    split; [|split; [reflexivity|]].
    + unfold wf in *. rewrite Hd in Hw. simpl. destruct Hw as (Hany & Hdc & Hvc & Hcons).
      split; [|split; [|split]].
      * destruct Hany as [Hany|Hany]; [left|right]; destruct (dcol fr), (vcol fr); simpl; congruence.
      * destruct (dcol fr) as [d|]; simpl; auto. destruct Hdc. split; [apply sorted_map_vals; auto|apply map_vals_nonempty; auto].
      * destruct (vcol fr) as [v|]; simpl; auto. destruct Hvc. split; [apply sorted_map_vals; auto|apply map_vals_nonempty; auto].
      * intros d' v' Hd' Hv'. destruct (dcol fr) as [d|]; [|discriminate]. destruct (vcol fr) as [v|]; [|discriminate].
        simpl in Hd', Hv'. injection Hd' as <-. injection Hv' as <-.
        rewrite (Hcons d v eq_refl eq_refl). unfold vals_of_deltas.
        destruct (init f) as [a|]; simpl.
        -- symmetry. apply negate_cumsum.
        -- replace 0 with (- 0) at 2 by ring. symmetry. apply negate_cumsum.
    + intros sd x. unfold lim. rewrite Hgv. simpl. apply lookup_map_vals.
  - repeat split. intros sd x. rewrite !lim_no_data by auto. reflexivity.
Qed.

(* ---- the general path: common._combine_stairs_via_values *)
Lemma combine_sorted (op : V -> V -> V) i1 (v1 : ser) i2 (v2 : ser) :
  sorted v1 -> sorted v2 -> sorted (combine_values op i1 v1 i2 v2).
Proof.
  intros S1 S2. unfold sorted, combine_values, keys. rewrite map_map. simpl. rewrite map_id.
  apply union_sorted; auto.
Qed.

Theorem via_values_spec (op : V -> V -> V) (f g : stairs) :
  wf f -> wf g -> spec2 (via_values op f g) f g op (closed f) /\ minimal (via_values op f g).
Proof.
  intros Wf Wg. pose proof (wf_sorted_values f Wf) as Sf. pose proof (wf_sorted_values g Wg) as Sg.
  unfold via_values.
  destruct (canon_values (op (init f) (init g)) (combine_values op (init f) (get_values f) (init g) (get_values g))
              (closed f) (combine_sorted op _ _ _ _ Sf Sg)) as (H1 & H2 & H3 & H4 & H5).
  split; [|exact H2]. repeat split; auto.
  intros sd x. rewrite H5. unfold combine_values. apply lookup_combine; auto.
Qed.

(* ---- add / subtract *)
Section AddSub.
Variable qop : Qc -> Qc -> Qc.
Hypothesis qop_l : forall a1 a2 d, qop a1 a2 + qop d 0 = qop (a1 + d) a2.
Hypothesis qop_r : forall a1 a2 d, qop a1 a2 + qop 0 d = qop a1 (a2 + d).
Hypothesis qop_b : forall a1 a2 d1 d2, qop a1 a2 + qop d1 d2 = qop (a1 + d1) (a2 + d2).
Hypothesis qop_0 : forall d, qop d 0 = d.
Let vop := vlift2 qop.

Lemma cumsum_shift_l : forall (d : ser) a c,
  cumsum (qop a c) d = map_vals (fun v => vop v (Some c)) (cumsum a d).
Proof.
  induction d as [|[p [x|]] t IH]; intros a c; simpl; auto.
  - rewrite <- (qop_0 x) at 1 2. rewrite qop_l. rewrite IH. reflexivity.
  - rewrite IH. reflexivity.
Qed.

Lemma cumsum_shift_r : forall (d : ser) b c,
  cumsum (qop c b) (map_vals (fun v => vop (Some 0) v) d) = map_vals (fun v => vop (Some c) v) (cumsum b d).
Proof.
  induction d as [|[p [x|]] t IH]; intros b c; simpl; auto.
  - rewrite qop_r. rewrite IH. reflexivity.
  - rewrite IH. reflexivity.
Qed.

Definition add_sub_general (f g : stairs) : stairs :=
  if has_na f || has_na g then via_values vop f g
  else if frame_has_d f || frame_has_d g then add_sub_deltas vop f g
  else via_values vop f g.

Lemma add_sub_deltas_spec (f g : stairs) :
  wf f -> wf g -> has_na f = false -> has_na g = false ->
  spec2 (add_sub_deltas vop f g) f g vop (closed f).
Proof.
  intros Wf Wg Nf Ng.
  destruct (no_na_init f Nf) as [a Ha]. destruct (no_na_init g Ng) as [b Hb].
  pose proof (no_na_deltas f Wf Nf) as Ndf. pose proof (no_na_deltas g Wg Ng) as Ndg.
  pose proof (wf_sorted_deltas f Wf) as Sdf. pose proof (wf_sorted_deltas g Wg) as Sdg.
  unfold add_sub_deltas. rewrite Ha, Hb. simpl.
  destruct (canon_deltas (qop a b) (align_fill0 vop (get_deltas f) (get_deltas g)) (closed f)
              (align_sorted qop _ _ Sdf Sdg) (align_nan_free qop _ _ Ndf Ndg)) as (H1 & H2 & H3 & H4).
  repeat split; auto.
  intros sd x. rewrite H4. unfold lim.
  rewrite (no_na_values_from_deltas f a Wf Nf Ha), (no_na_values_from_deltas g b Wg Ng Hb), Ha, Hb.
  apply lookup_align; auto.
Qed.

Lemma add_sub_general_spec (f g : stairs) :
  wf f -> wf g -> spec2 (add_sub_general f g) f g vop (closed f).
Proof.
  intros Wf Wg. unfold add_sub_general.
  destruct (has_na f || has_na g) eqn:E.
  - apply via_values_spec; auto.
  - apply orb_false_iff in E. destruct E as [Nf Ng].
    destruct (frame_has_d f || frame_has_d g).
    + apply add_sub_deltas_spec; auto.
    + apply via_values_spec; auto.
Qed.

(* constant right operand, both columns of f kept *)
Lemma add_const_r_spec (f : stairs) fr a c :
  wf f -> data f = Some fr -> init f = Some a ->
  spec1 (Stairs (vop (init f) (Some c))
                (Some (Frame (dcol fr) (option_map (map_vals (fun v => vop v (Some c))) (vcol fr)))) (closed f))
        f (fun v => vop v (Some c)) (closed f).
Proof.
  intros Wf Hd Ha.
  set (r := Stairs _ _ _).
  assert (Hgv : get_values r = map_vals (fun v => vop v (Some c)) (get_values f)).
  { unfold r, get_values, frame_values. rewrite Hd, Ha. simpl.
    destruct (vcol fr) as [v|]; simpl; auto. destruct (dcol fr) as [d|]; simpl; auto.
    unfold vals_of_deltas. simpl. apply cumsum_shift_l. }
  split; [|split; [reflexivity|]].
  - unfold wf in *. rewrite Hd in Wf. unfold r. simpl. destruct Wf as (Hany & Hdc & Hvc & Hcons).
    split; [|split; [|split]]; auto.
    + destruct Hany as [Hany|Hany]; [left; auto|right]. destruct (vcol fr); simpl; congruence.
    + destruct (vcol fr) as [v|]; simpl; auto. destruct Hvc. split; [apply sorted_map_vals; auto|apply map_vals_nonempty; auto].
    + intros d' v' Hd' Hv'. destruct (vcol fr) as [v|]; [|discriminate]. simpl in Hv'. injection Hv' as <-.
      rewrite (Hcons d' v Hd' eq_refl), Ha. unfold vals_of_deltas. simpl. symmetry. apply cumsum_shift_l.
  - intros sd x. unfold lim. rewrite Hgv. unfold r. simpl. apply (lookup_map_vals V V (fun v => vop v (Some c))).
Qed.

(* constant left operand *)
Lemma add_const_l_spec (g : stairs) gr b c :
  wf g -> data g = Some gr -> init g = Some b ->
  spec1 (Stairs (vop (Some c) (init g))
                (Some (Frame (option_map (map_vals (fun d => vop (Some 0) d)) (dcol gr))
                             (option_map (map_vals (fun v => vop (Some c) v)) (vcol gr)))) (closed g))
        g (fun v => vop (Some c) v) (closed g).
Proof.
  intros Wg Hd Hb.
  set (r := Stairs _ _ _).
  assert (Hgv : get_values r = map_vals (fun v => vop (Some c) v) (get_values g)).
  { unfold r, get_values, frame_values. rewrite Hd, Hb. simpl.
    destruct (vcol gr) as [v|]; simpl; auto. destruct (dcol gr) as [d|]; simpl; auto.
    unfold vals_of_deltas. simpl. apply cumsum_shift_r. }
  split; [|split; [reflexivity|]].
  - unfold wf in *. rewrite Hd in Wg. unfold r. simpl. destruct Wg as (Hany & Hdc & Hvc & Hcons).
    split; [|split; [|split]]; auto.
    + destruct Hany as [Hany|Hany]; [left|right]; destruct (dcol gr), (vcol gr); simpl; congruence.
    + destruct (dcol gr) as [d|]; simpl; auto. destruct Hdc. split; [apply sorted_map_vals; auto|apply map_vals_nonempty; auto].
    + destruct (vcol gr) as [v|]; simpl; auto. destruct Hvc. split; [apply sorted_map_vals; auto|apply map_vals_nonempty; auto].
    + intros d' v' Hd' Hv'. destruct (dcol gr) as [d|]; [|discriminate]. destruct (vcol gr) as [v|]; [|discriminate].
      simpl in Hd', Hv'. injection Hd' as <-. injection Hv' as <-.
      rewrite (Hcons d v eq_refl eq_refl), Hb. unfold vals_of_deltas. simpl. symmetry. apply cumsum_shift_r.
  - intros sd x. unfold lim. rewrite Hgv. unfold r. simpl. apply (lookup_map_vals V V (fun v => vop (Some c) v)).
Qed.

End AddSub.

Definition result_side (f g : stairs) : side :=
  if has_steps f then closed f else if has_steps g then closed g else closed f.

Lemma vlift2_nan_r qop a : vlift2 qop a None = None.
Proof. destruct a; reflexivity. Qed.

Theorem add_or_sub_spec (sub : bool) (f g : stairs) :
  wf f -> wf g ->
  spec2 (add_or_sub sub f g) f g (if sub then vsub else vadd) (result_side f g).
Proof.
  intros Wf Wg.
  set (qop := if sub then Qcminus else Qcplus).
  assert (Hop : (if sub then vsub else vadd) = vlift2 qop) by (destruct sub; reflexivity).
  assert (ql : forall a1 a2 d, qop a1 a2 + qop d 0 = qop (a1 + d) a2) by (intros; unfold qop; destruct sub; ring).
  assert (qr : forall a1 a2 d, qop a1 a2 + qop 0 d = qop a1 (a2 + d)) by (intros; unfold qop; destruct sub; ring).
  assert (qb : forall a1 a2 d1 d2, qop a1 a2 + qop d1 d2 = qop (a1 + d1) (a2 + d2)) by (intros; unfold qop; destruct sub; ring).
  assert (q0 : forall d, qop d 0 = d) by (intros; unfold qop; destruct sub; ring).
  unfold add_or_sub, result_side, has_steps. rewrite Hop.
  destruct (data f) as [ff|] eqn:Df; destruct (data g) as [gg|] eqn:Dg.
  - (* both have steps *)
    exact (add_sub_general_spec qop ql qr qb f g Wf Wg).
  - (* g step-free *)
    destruct (init g) as [c|] eqn:Ig; simpl.
    + destruct (init f) as [a|] eqn:If; simpl.
      * pose proof (add_const_r_spec qop ql q0 f ff a c Wf Df If) as (H1 & H2 & H3).
        rewrite If in H1, H2, H3. split; [exact H1|split; [exact H2|]].
        intros sd x. rewrite H3. rewrite (lim_no_data g) by auto. rewrite Ig. reflexivity.
      * pose proof (map_result f (fun v => vlift2 qop v (Some c)) (closed f) Wf) as (H1 & H2 & H3).
        rewrite If in H1, H2, H3. split; [exact H1|split; [exact H2|]].
        intros sd x. rewrite H3. rewrite (lim_no_data g) by auto. rewrite Ig. reflexivity.
    + repeat split. intros sd x. rewrite lim_const, (lim_no_data g), Ig by auto.
      rewrite !vlift2_nan_r. reflexivity.
  - (* f step-free *)
    destruct (init f) as [c|] eqn:If; simpl.
    + destruct (init g) as [b|] eqn:Ig; simpl.
      * pose proof (add_const_l_spec qop qr g gg b c Wg Dg Ig) as (H1 & H2 & H3).
        rewrite Ig in H1, H2, H3. split; [exact H1|split; [exact H2|]].
        intros sd x. rewrite H3. rewrite (lim_no_data f) by auto. rewrite If. reflexivity.
      * pose proof (map_result g (fun v => vlift2 qop (Some c) v) (closed g) Wg) as (H1 & H2 & H3).
        rewrite Ig in H1, H2, H3. split; [exact H1|split; [exact H2|]].
        intros sd x. rewrite H3. rewrite (lim_no_data f) by auto. rewrite If. reflexivity.
    + repeat split. intros sd x. rewrite lim_const, (lim_no_data f), If by auto. reflexivity.
  - repeat split. intros sd x. rewrite lim_const, !lim_no_data by auto. reflexivity.
Qed.

(* ---- multiply / divide *)
Lemma op_with_scalar_eq k (f : stairs) c :
  op_with_scalar k f c =
  match k, c with
  | KDiv, Some x => if Qceqb x 0 then const None (closed f)
                    else remove_redundant (of_values (sc_apply k (init f) c) (map_vals (fun v => sc_apply k v c) (get_values f)) (closed f))
  | _, None => const None (closed f)
  | _, _ => remove_redundant (of_values (sc_apply k (init f) c) (map_vals (fun v => sc_apply k v c) (get_values f)) (closed f))
  end.
Proof.
  unfold op_with_scalar, of_values. rewrite !map_frame_eq. reflexivity.
Qed.

Lemma sc_apply_nan k v : sc_apply k v None = None.
Proof. destruct k, v; reflexivity. Qed.

Lemma vdiv_zero v x : Qceqb x 0 = true -> vdiv v (Some x) = None.
Proof. intros E. destruct v; simpl; auto. rewrite E. reflexivity. Qed.

Theorem op_with_scalar_spec k (f : stairs) c :
  wf f -> spec1 (op_with_scalar k f c) f (fun v => sc_apply k v c) (closed f)
          /\ minimal (op_with_scalar k f c).
Proof.
  intros Wf. rewrite op_with_scalar_eq.
  pose proof (map_result_rr f (fun v => sc_apply k v c) (closed f) Wf) as Hmap.
  destruct c as [x|].
  - destruct k; try exact Hmap.
    destruct (Qceqb x 0) eqn:E; [|exact Hmap].
    split; [|exact I]. repeat split. intros sd y. rewrite lim_const. simpl. symmetry. apply vdiv_zero; auto.
  - assert (Hn : spec1 (const None (closed f)) f (fun v => sc_apply k v None) (closed f) /\ minimal (@const D None (closed f))).
    { split; [|exact I]. repeat split. intros sd y. rewrite lim_const, sc_apply_nan. reflexivity. }
    destruct k; exact Hn.
Qed.

Theorem mul_or_div_spec (div : bool) (f g : stairs) :
  wf f -> wf g ->
  spec2 (mul_or_div div f g) f g (if div then vdiv else vmul) (result_side f g)
  /\ minimal (mul_or_div div f g).
Proof.
  intros Wf Wg. unfold mul_or_div, result_side, has_steps.
  destruct (data g) as [gg|] eqn:Dg.
  - destruct (data f) as [ff|] eqn:Df.
    + destruct (via_values_spec (if div then vdiv else vmul) f g Wf Wg) as [H1 H2]. split; auto.
    + destruct (op_with_scalar_spec (if div then KRdiv else KMul) g (init f) Wg) as [(H1 & H2 & H3) H4].
      split; auto. repeat split; auto.
      intros sd x. rewrite H3, (lim_no_data f) by auto. destruct div; simpl; auto.
      destruct (init f), (lim sd g x); simpl; auto. f_equal. ring.
  - destruct (op_with_scalar_spec (if div then KDiv else KMul) f (init g) Wf) as [(H1 & H2 & H3) H4].
    split; auto. repeat split; auto.
    + destruct (data f); auto.
    + intros sd x. rewrite H3, (lim_no_data g) by auto. destruct div; reflexivity.
Qed.

(* ---- relational *)
Lemma vrel_nan_r r a : vrel r a None = None.
Proof. destruct a; reflexivity. Qed.

Theorem relational_spec (r : relop) (f g : stairs) :
  wf f -> wf g ->
  spec2 (relational r f g) f g (vrel r) (result_side f g) /\ minimal (relational r f g).
Proof.
  intros Wf Wg. unfold relational, result_side, has_steps.
  destruct (data f) as [ff|] eqn:Df; destruct (data g) as [gg|] eqn:Dg.
  - apply via_values_spec; auto.
  - destruct (init g) as [c|] eqn:Ig; simpl.
    + destruct (map_result_rr f (fun v => vrel r v (Some c)) (closed f) Wf) as [(H1 & H2 & H3) H4].
      split; auto. repeat split; auto. intros sd x. rewrite H3, (lim_no_data g), Ig by auto. reflexivity.
    + split; [|exact I]. repeat split. intros sd x. rewrite lim_const, (lim_no_data g), Ig by auto.
      rewrite !vrel_nan_r. reflexivity.
  - destruct (init f) as [c|] eqn:If; simpl.
    + destruct (map_result_rr g (fun v => vrel r (Some c) v) (closed g) Wg) as [(H1 & H2 & H3) H4].
      split; auto. repeat split; auto. intros sd x. rewrite H3, (lim_no_data f), If by auto. reflexivity.
    + split; [|exact I]. repeat split. intros sd x. rewrite lim_const, (lim_no_data f), If by auto. reflexivity.
  - split; [|exact I]. repeat split. intros sd x. rewrite lim_const, !lim_no_data by auto. reflexivity.
Qed.

(* ---- logical *)
Theorem boolean_like_spec (fn : V -> V) (f : stairs) :
  wf f -> spec1 (boolean_like fn f) f fn (closed f) /\ minimal (boolean_like fn f).
Proof.
  intros Wf. unfold boolean_like. destruct (data f) eqn:Df.
  - apply map_result_rr; auto.
  - split; [|exact I]. repeat split. intros sd x. rewrite lim_const, lim_no_data by auto. reflexivity.
Qed.

Lemma vlog_scalar_and_zero v x : Qceqb x 0 = true -> vmul (vtruth v) (Some 0) = vlog LAnd v (Some x).
Proof.
  intros E. destruct v as [y|]; simpl; auto. unfold truthy. rewrite E. simpl.
  rewrite andb_false_r. unfold vbool, b2q. f_equal. ring.
Qed.
Lemma vlog_scalar_and_nz v x : Qceqb x 0 = false -> vtruth v = vlog LAnd v (Some x).
Proof. intros E. destruct v as [y|]; simpl; auto. unfold truthy. rewrite E. simpl. rewrite andb_true_r. reflexivity. Qed.
Lemma vlog_scalar_or_zero v x : Qceqb x 0 = true -> vtruth v = vlog LOr v (Some x).
Proof. intros E. destruct v as [y|]; simpl; auto. unfold truthy. rewrite E. simpl. rewrite orb_false_r. reflexivity. Qed.
Lemma vlog_scalar_or_nz v x : Qceqb x 0 = false ->
  vadd (vmul (vtruth v) (Some 0)) (Some 1) = vlog LOr v (Some x).
Proof.
  intros E. destruct v as [y|]; simpl; auto. unfold truthy. rewrite E. simpl. rewrite orb_true_r.
  unfold vbool, b2q. f_equal. ring.
Qed.
Lemma vlog_scalar_xor_zero v x : Qceqb x 0 = true -> vtruth v = vlog LXor v (Some x).
Proof. intros E. destruct v as [y|]; simpl; auto. unfold truthy. rewrite E. simpl. rewrite xorb_false_r. reflexivity. Qed.
Lemma vlog_scalar_xor_nz v x : Qceqb x 0 = false -> vnot v = vlog LXor v (Some x).
Proof. intros E. destruct v as [y|]; simpl; auto. unfold truthy. rewrite E. simpl. rewrite xorb_true_r. reflexivity. Qed.
Lemma vlog_nan_r l v : vlog l v None = None.
Proof. destruct v; reflexivity. Qed.
Lemma vlog_comm l a b : vlog l a b = vlog l b a.
Proof.
  destruct a as [x|], b as [y|]; simpl; auto. f_equal. destruct l; simpl.
  - apply andb_comm.
  - apply orb_comm.
  - apply xorb_comm.
Qed.

Theorem log_with_scalar_spec l (f : stairs) c :
  wf f -> spec1 (log_with_scalar l f c) f (fun v => vlog l v c) (closed f).
Proof.
  intros Wf. unfold log_with_scalar. destruct c as [x|].
  - destruct (boolean_like_spec vtruth f Wf) as [(B1 & B2 & B3) _].
    destruct (boolean_like_spec vnot f Wf) as [(N1 & N2 & N3) _].
    fold (make_boolean f) in B1, B2, B3. fold (invert f) in N1, N2, N3.
    destruct (op_with_scalar_spec KMul (make_boolean f) (Some 0) B1) as [(M1 & M2 & M3) _].
    destruct l; destruct (Qceqb x 0) eqn:E.
    + repeat split; auto; try congruence. intros sd y. rewrite M3, B3. simpl. apply vlog_scalar_and_zero; auto.
    + repeat split; auto. intros sd y. rewrite B3. apply vlog_scalar_and_nz; auto.
    + repeat split; auto. intros sd y. rewrite B3. apply vlog_scalar_or_zero; auto.
    + pose proof (add_or_sub_spec false (op_with_scalar KMul (make_boolean f) (Some 0))
                    (const (Some 1) (closed f)) M1 (wf_const _ _)) as (A1 & A2 & A3).
      repeat split; auto.
      * rewrite A2. unfold result_side. change (has_steps (const (Some 1) (closed f))) with false.
        destruct (has_steps (op_with_scalar _ _ _)); rewrite M2; exact B2.
      * intros sd y. rewrite A3, M3, B3, lim_const. simpl. apply vlog_scalar_or_nz; auto.
    + repeat split; auto. intros sd y. rewrite B3. apply vlog_scalar_xor_zero; auto.
    + repeat split; auto. intros sd y. rewrite N3. apply vlog_scalar_xor_nz; auto.
  - repeat split. intros sd y. rewrite lim_const, vlog_nan_r. reflexivity.
Qed.

Theorem logical_spec (l : logop) (f g : stairs) :
  wf f -> wf g -> spec2 (logical l f g) f g (vlog l) (result_side f g).
Proof.
  intros Wf Wg. unfold logical, result_side, has_steps.
  destruct (data g) as [gg|] eqn:Dg.
  - destruct (data f) as [ff|] eqn:Df.
    + apply via_values_spec; auto.
    + destruct (log_with_scalar_spec l g (init f) Wg) as (H1 & H2 & H3).
      repeat split; auto. intros sd x. rewrite H3, (lim_no_data f) by auto. apply vlog_comm.
  - destruct (log_with_scalar_spec l f (init g) Wf) as (H1 & H2 & H3).
    repeat split; auto.
    + destruct (data f); auto.
    + intros sd x. rewrite H3, (lim_no_data g) by auto. reflexivity.
Qed.

(* ---- every binary operator, as called through the public API *)
Theorem apply_binop_spec (o : binop) (f g : stairs) :
  wf f -> wf g -> spec2 (apply_binop o f g) f g (vbin o) (result_side f g).
Proof.
  intros Wf Wg. destruct o as [[| | |]|r|l]; simpl.
  - exact (add_or_sub_spec false f g Wf Wg).
  - exact (add_or_sub_spec true f g Wf Wg).
  - exact (proj1 (mul_or_div_spec false f g Wf Wg)).
  - exact (proj1 (mul_or_div_spec true f g Wf Wg)).
  - exact (proj1 (relational_spec r f g Wf Wg)).
  - exact (logical_spec l f g Wf Wg).
Qed.

Definition compatible (a b : operand (D := D)) : Prop :=
  match a, b with
  | OpS f, OpS g => closed_ok f g = true
  | OpC _, OpC _ => False
  | _, _ => True
  end.

Theorem binop_api_ok (o : binop) (a b : operand) (r : stairs) :
  owf a -> owf b -> binop_api o a b = Ok r ->
  wf r /\ forall sd x, lim sd r x = vbin o (olim sd a x) (olim sd b x).
Proof.
  intros Wa Wb. unfold binop_api. destruct a as [f|c], b as [g|c']; simpl in *.
  - destruct (closed_ok f g); [|discriminate]. intros E. injection E as <-.
    destruct (apply_binop_spec o f g Wa Wb) as (H1 & _ & H3). auto.
  - intros E. injection E as <-.
    destruct (apply_binop_spec o f (const c' (closed f)) Wa (wf_const _ _)) as (H1 & _ & H3). auto.
  - intros E. injection E as <-.
    destruct (apply_binop_spec o (const c (closed g)) g (wf_const _ _) Wb) as (H1 & _ & H3). auto.
  - discriminate.
Qed.

Theorem binop_api_total (o : binop) (a b : operand) :
  compatible a b -> exists r, binop_api o a b = Ok r.
Proof.
  unfold binop_api, compatible. destruct a as [f|c], b as [g|c']; simpl; eauto.
  - intros ->. eauto.
  - tauto.
Qed.

Theorem binop_api_err (o : binop) (a b : operand) e :
  binop_api o a b = Err e ->
  (e = EClosedMismatch /\ exists f g, a = OpS f /\ b = OpS g /\ has_steps f = true /\ has_steps g = true /\ closed f <> closed g)
  \/ (exists c c', a = OpC c /\ b = OpC c').
Proof.
  unfold binop_api. destruct a as [f|c], b as [g|c']; simpl; try discriminate.
  - destruct (closed_ok f g) eqn:E; [discriminate|]. intros Eq. injection Eq as <-. left. split; auto.
    exists f, g. unfold closed_ok in E. apply negb_false_iff in E.
    apply andb_true_iff in E. destruct E as [E1 E3]. apply andb_true_iff in E1. destruct E1 as [E1 E2].
    repeat split; auto. intro Hc. rewrite Hc in E3. destruct (closed g); discriminate.
  - intros _. right. eauto.
Qed.

End OpsFacts.

(* what the pointwise operations are, as plain facts about values *)
Lemma varith_none_iff (o : arith) (x y : V) :
  varith o x y = None <-> x = None \/ y = None \/ (o = ODiv /\ y = Some (Q2Qc 0)).
Proof.
  destruct o, x as [a|], y as [b|]; simpl; split; intros Hx; auto; try discriminate;
    try (destruct Hx as [Hx|[Hx|[Hx _]]]; discriminate).
  - destruct (Qceqb b 0) eqn:E; [|discriminate]. apply Qceqb_eq in E. subst b. auto.
  - destruct Hx as [Hx|[Hx|[_ Hx]]]; try discriminate. injection Hx as ->. reflexivity.
Qed.

Lemma varith_some (o : arith) (x y : Qc) : (o = ODiv -> y <> Q2Qc 0) ->
  varith o (Some x) (Some y) = Some (match o with OAdd => x + y | OSub => x - y | OMul => x * y | ODiv => x / y end)%Qc.
Proof.
  intros Hy. destruct o; simpl; auto. destruct (Qceqb y 0) eqn:E; auto.
  apply Qceqb_eq in E. exfalso. apply Hy; auto.
Qed.

Lemma vrel_indicator (R : relop) (x y : V) :
  (forall a b, x = Some a -> y = Some b -> vrel R x y = Some (if rel_holds R a b then Q2Qc 1 else Q2Qc 0)) /\
  (vrel R x y = None <-> x = None \/ y = None).
Proof.
  split.
  - intros a b -> ->. simpl. unfold vbool, b2q. destruct (rel_holds R a b); reflexivity.
  - destruct x, y; simpl; split; intros Hx; auto; try discriminate; destruct Hx; discriminate.
Qed.

Lemma Qcleb_le a b : Qcleb a b = true <-> (a <= b)%Qc.
Proof.
  unfold Qcleb. rewrite negb_true_iff. split.
  - intros Hx. apply Qcnot_lt_le. intro Hlt. apply Qcltb_lt in Hlt. congruence.
  - intros Hle. destruct (Qcltb b a) eqn:E; auto. apply Qcltb_lt in E. exfalso. eapply Qcle_not_lt; eauto.
Qed.

Lemma rel_holds_spec (a b : Qc) :
  (rel_holds RLt a b = true <-> a < b)%Qc /\ (rel_holds RLe a b = true <-> a <= b)%Qc /\
  (rel_holds RGt a b = true <-> b < a)%Qc /\ (rel_holds RGe a b = true <-> b <= a)%Qc /\
  (rel_holds REq a b = true <-> a = b) /\ (rel_holds RNe a b = true <-> a <> b).
Proof.
  simpl. repeat split; try apply Qcltb_lt; try apply Qcleb_le; try apply Qceqb_eq.
  - intros Hx Heq. apply Qceqb_eq in Heq. rewrite Heq in Hx. discriminate.
  - intros Hne. destruct (Qceqb a b) eqn:E; auto. apply Qceqb_eq in E. contradiction.
Qed.

Lemma vlog_table (L : logop) (x y : V) :
  (forall a b, x = Some a -> y = Some b ->
     vlog L x y = Some (if (match L with
                            | LAnd => negb (Qceqb a (Q2Qc 0)) && negb (Qceqb b (Q2Qc 0))
                            | LOr => negb (Qceqb a (Q2Qc 0)) || negb (Qceqb b (Q2Qc 0))
                            | LXor => xorb (negb (Qceqb a (Q2Qc 0))) (negb (Qceqb b (Q2Qc 0)))
                            end) then Q2Qc 1 else Q2Qc 0)) /\
  (vlog L x y = None <-> x = None \/ y = None).
Proof.
  split.
  - intros a b -> ->. simpl. unfold vbool, b2q, log_holds, truthy. destruct L; reflexivity.
  - destruct x, y; simpl; split; intros Hx; auto; try discriminate; destruct Hx; discriminate.
Qed.

Section Unary.
Context {D : Type} `{Ord D}.

Lemma invert_spec (f : stairs D) : wf f ->
  wf (invert f) /\ closed (invert f) = closed f /\ minimal (invert f) /\
  forall sd x, lim sd (invert f) x =
    match lim sd f x with Some v => Some (if Qceqb v (Q2Qc 0) then Q2Qc 1 else Q2Qc 0) | None => None end.
Proof.
  intros Wf. destruct (boolean_like_spec vnot f Wf) as [(H1 & H2 & H3) H4]. fold (invert f) in *.
  repeat split; auto. intros sd x. rewrite H3. destruct (lim sd f x) as [v|]; simpl; auto.
  unfold vbool, b2q, truthy. destruct (Qceqb v 0); reflexivity.
Qed.

Lemma make_boolean_spec (f : stairs D) : wf f ->
  wf (make_boolean f) /\ closed (make_boolean f) = closed f /\ minimal (make_boolean f) /\
  forall sd x, lim sd (make_boolean f) x =
    match lim sd f x with Some v => Some (if Qceqb v (Q2Qc 0) then Q2Qc 0 else Q2Qc 1) | None => None end.
Proof.
  intros Wf. destruct (boolean_like_spec vtruth f Wf) as [(H1 & H2 & H3) H4]. fold (make_boolean f) in *.
  repeat split; auto. intros sd x. rewrite H3. destruct (lim sd f x) as [v|]; simpl; auto.
  unfold vbool, b2q, truthy. destruct (Qceqb v 0); reflexivity.
Qed.
End Unary.
