(* Proofs/UniqueFacts.v — describe's 'unique' row (the number of steps of the percentile function clipped to [0, 100], minus
   one) is the number of distinct values the function takes on its finite defined pieces (C09). *)
From Coq Require Import List Bool Arith ZArith Lia QArith Qcanon.
Import ListNotations.
Require Import SC.Base.Ord SC.Base.Val SC.Base.Series SC.Base.QcOrd.
Require Import SC.Model.Repr SC.Model.Ops SC.Model.Masking SC.Model.Sampling SC.Model.Stats SC.Model.Slicing.
Require Import SC.Spec.Den SC.Proofs.SeriesFacts SC.Proofs.ReprFacts SC.Proofs.StatsFacts SC.Proofs.VarFacts SC.Proofs.DistFacts
               SC.Proofs.CovSelfFacts.
Open Scope Qc_scope.

Lemma rr_keeps_minimal : forall (l : ser) (prev : V), minimal_from prev l -> rr prev l = l.
Proof.
  induction l as [|[p v] t IH]; intros prev H; [reflexivity|]. cbn [minimal_from] in H. destruct H as [Hne Ht]. cbn [rr].
  destruct (veqb prev v) eqn:E; [apply veqb_eq in E; contradiction|]. f_equal. apply IH. exact Ht.
Qed.

(* the percentile table of strictly increasing values: consecutive rows differ, and the closing row is undefined *)
Lemma pmid_chain (T e : Qc) : forall (g : list (Qc * Qc)) (k acc : Qc), ksorted_from k (map fst g) ->
  minimal_from (Some k) (pmid (fun v => v) T acc g ++ [(e, None)]).
Proof.
  induction g as [|[k' s] t IH]; intros k acc H.
  - cbn [pmid app minimal_from]. split; [discriminate|exact I].
  - cbn [map fst ksorted_from] in H. destruct H as [Hlt Ht]. cbn [pmid app minimal_from]. split.
    + intros E. injection E as ->. rewrite ltb_irrefl in Hlt. discriminate.
    + apply IH. exact Ht.
Qed.

Lemma pmid_length (hv : V -> V) (T : Qc) : forall g acc, length (pmid hv T acc g) = length g.
Proof. induction g as [|[k s] t IH]; intros acc; cbn [pmid length]; [reflexivity|]. f_equal. apply IH. Qed.

Lemma clip_fin_ext (f f' : stairsQ) (a b : Qc) :
  get_values f = get_values f' -> init f = init f' -> closed f = closed f' ->
  clip f (Some a) (Some b) = clip f' (Some a) (Some b).
Proof. intros Ev Ei Ec. unfold clip. rewrite Ev, Ei, Ec. reflexivity. Qed.

Lemma get_values_of_values (i : V) (v : ser) (c : side) : get_values (@of_values Qc i v c) = v.
Proof. destruct v; reflexivity. Qed.

Lemma nsteps_rr_of_values (i : V) (v : ser) (c : side) :
  number_of_steps (remove_redundant (@of_values Qc i v c)) = length (rr i v).
Proof.
  destruct v as [|x t]; [reflexivity|]. unfold of_values, remove_redundant, number_of_steps, step_points.
  cbn [mk_frame data dcol vcol init]. destruct (rr i (x :: t)) eqn:E; [reflexivity|].
  cbn [mk_frame data vcol]. unfold keys. rewrite map_length. reflexivity.
Qed.

Lemma percentile_init_closed T b t :
  init (percentiles_of (ecdf_from T (b :: t))) = Some (fst b) /\ closed (percentiles_of (ecdf_from T (b :: t))) = CLeft.
Proof.
  unfold percentiles_of, xtiles_of. cbv zeta.
  change (get_deltas (ecdf_from T (b :: t))) with (ecdf_deltas T (b :: t)). rewrite ecdf_keys.
  destruct (last_opt_some _ (map fst t) (fst b)) as [kl Hl]. cbn [map]. cbn [map] in Hl. rewrite Hl. split; reflexivity.
Qed.

Theorem unique_counts_distinct_values (c ec pcc : stairsQ) (g : list (Qc * Qc)) : wf c ->
  value_sums c = Some g -> ecdf_of c = Some ec ->
  clip (percentiles_of ec) (Some 0) (Some c100) = Ok pcc ->
  number_of_steps pcc = S (length g).
Proof.
  intros Wc Evs. unfold ecdf_of. rewrite Evs. destruct g as [|b t]; [discriminate|]. intros E.
  assert (EG : b :: t = group_sum (defined_pieces c)).
  { unfold value_sums in Evs. destruct (data c); [|discriminate]. injection Evs as <-. reflexivity. }
  set (G := b :: t) in *. set (T := qsum (map snd G)).
  assert (Eec : ec = ecdf_from T (b :: t)) by (injection E as <-; reflexivity). clear E.
  assert (Hpos : Forall (fun vl => 0 < snd vl) G).
  { rewrite EG. unfold group_sum. apply group_pos; [apply defined_pieces_pos; exact Wc|constructor]. }
  assert (HT : 0 < T).
  { unfold T. apply qsum_pos; [unfold G; discriminate|]. apply Forall_map. exact Hpos. }
  assert (Tne : T <> 0) by (intros E0; rewrite E0 in HT; discriminate HT).
  assert (Hd : Forall (fun vl => 0 < snd vl / T) G).
  { eapply Forall_impl; [|exact Hpos]. intros vl H. apply Qcdiv_pos; assumption. }
  assert (SG : ksorted (map fst G)).
  { apply sorted_keys_fst. rewrite EG. apply (proj1 (group_sum_spec _)). }
  destruct (last_opt_some _ (map fst t) (fst b)) as [kl Hl].
  subst G. subst ec. intros Hc.
  destruct (percentile_init_closed T b t) as [Pi Pc].
  rewrite (clip_fin_ext _ (of_values (Some (fst b)) (get_values (percentiles_of (ecdf_from T (b :: t)))) CLeft) 0 c100) in Hc
    by (rewrite ?get_values_of_values; auto).
  rewrite (percentile_table T b t kl Hl) in Hc.
  match type of Hc with context [@of_values ?D1 ?i ?l ?cl] =>
    assert (TS : l = pmid (fun v => v) T 0 (b :: t) ++ [(final T 0 (b :: t) * c100, Some kl)]) end.
  { rewrite <- (map_vals_id (combine _ _)). apply (table_shape (fun v => v)). ring. }
  rewrite TS in Hc. clear TS.
  assert (EF : final T 0 (b :: t) = 1).
  { rewrite final_sum. unfold Qcdiv. rewrite (qsum_scale _ snd (/ T) (b :: t)). fold T. rewrite Qcmult_inv_r by exact Tne. ring. }
  rewrite EF in Hc. replace (1 * c100) with c100 in Hc by ring.
  destruct b as [k1 s1]. cbn [pmid fst] in Hc. replace (0 * c100) with 0 in Hc by ring.
  assert (HM : Forall (fun k => 0 < k /\ k < c100) (keys (pmid (fun v => v) T (0 + s1 / T) t))).
  { inversion Hd as [|? ? H1 H2]; subst. cbn [snd] in H1.
    pose proof (pmid_keys (fun v => v) T t H2 (0 + s1 / T)) as K.
    assert (EF' : final T (0 + s1 / T) t = 1) by exact EF. rewrite EF' in K.
    replace (1 * c100) with c100 in K by ring. apply K. replace (0 + s1 / T) with (s1 / T) by ring. exact H1. }
  cbn [app] in Hc. pose proof (clip_table (Some k1) (Some k1) (Some kl) _ HM) as CT.
  assert (E2 : Ok pcc = Ok (remove_redundant (of_values None ((0, Some k1) :: pmid (fun v => v) T (0 + s1 / T) t ++ [(c100, None)]) CLeft)))
    by (etransitivity; [symmetry; exact Hc|exact CT]).
  injection E2 as ->.
  rewrite nsteps_rr_of_values. rewrite rr_keeps_minimal.
  - cbn [length]. rewrite app_length, pmid_length. cbn [length]. lia.
  - cbn [minimal_from]. split; [discriminate|]. apply pmid_chain. cbn [map fst ksorted] in SG. exact SG.
Qed.

Require Import SC.Proofs.ClipFacts.

(* describe's first row is the number of distinct values of the function restricted to the window *)
Theorem describe_unique (f c : stairsQ) lo hi (ps : list Qc) (l : list V) (g : list (Qc * Qc)) : wf f ->
  describe f lo hi ps = Ok l -> clip f lo hi = Ok c -> value_sums c = Some g ->
  hd_error l = Some (Some (q_of_Z (Z.of_nat (length g)))).
Proof.
  intros Wf Hd Ec Evs. destruct (clip_spec f c lo hi Wf Ec) as (Wc & _ & _).
  revert Hd. unfold describe. rewrite Ec. cbn [lift_res].
  destruct (ecdf_of c) as [ec|] eqn:Ee; [|discriminate].
  destruct (clip (percentiles_of ec) (Some 0) (Some (q_of_Z 100))) as [pcc|e] eqn:Ep; [|discriminate].
  intros E. injection E as <-. cbn [app hd_error]. do 3 f_equal.
  rewrite (unique_counts_distinct_values c ec pcc g Wc Evs Ee Ep). lia.
Qed.
