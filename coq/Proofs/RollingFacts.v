(* Proofs/RollingFacts.v — rolling_mean: the rows are exactly (x, mean of f over [x + l, x + r] within `where`) for the
   x at which a window edge meets a step point of f restricted to `where`, and inside the window range (C20) *)
From Coq Require Import List Bool Arith Lia QArith Qcanon.
Import ListNotations.
Require Import SC.Base.Ord SC.Base.Val SC.Base.Series SC.Base.QcOrd.
Require Import SC.Model.Repr SC.Model.Ops SC.Model.Masking SC.Model.Sampling SC.Model.Stats SC.Model.Slicing.
Require Import SC.Spec.Den SC.Proofs.AggFacts.
Open Scope Qc_scope.

Lemma in_combine_sequence (A B : Type) (F : A -> option B) : forall (ks : list A) (ms : list B),
  sequence (map F ks) = Some ms ->
  forall k y, In (k, y) (combine ks ms) <-> (exists i, nth_error ks i = Some k /\ F k = Some y /\ nth_error ms i = Some y).
Proof.
  induction ks as [|k0 ks IH]; intros ms E k y.
  - cbn in E. injection E as <-. cbn. split; [tauto|]. intros ([|i] & H & _); discriminate H.
  - cbn [map sequence] in E. destruct (F k0) as [y0|] eqn:F0; [|discriminate].
    destruct (sequence (map F ks)) as [r|] eqn:Er; [|discriminate]. injection E as <-.
    cbn [combine In]. rewrite (IH r eq_refl k y). split.
    + intros [Eq|(i & H1 & H2 & H3)].
      * injection Eq as <- <-. exists O. cbn. auto.
      * exists (S i). cbn. auto.
    + intros ([|i] & H1 & H2 & H3); cbn in H1, H3.
      * left. congruence.
      * right. exists i. auto.
Qed.

Lemma in_combine_sequence_simple (A B : Type) (F : A -> option B) (ks : list A) (ms : list B) :
  sequence (map F ks) = Some ms -> forall k y, In (k, y) (combine ks ms) <-> (In k ks /\ F k = Some y).
Proof.
  intros E k y. rewrite (in_combine_sequence A B F ks ms E). split.
  - intros (i & H1 & H2 & _). split; [eapply nth_error_In; eauto|exact H2].
  - intros [Hin HF]. apply In_nth_error in Hin. destruct Hin as [i Hi]. exists i. split; [exact Hi|]. split; [exact HF|].
    clear -E Hi HF. revert ms i E Hi. induction ks as [|k0 ks IH]; intros ms i E Hi; [destruct i; discriminate|].
    cbn [map sequence] in E. destruct (F k0) as [y0|] eqn:F0; [|discriminate].
    destruct (sequence (map F ks)) as [r|] eqn:Er; [|discriminate]. injection E as <-.
    destruct i as [|i]; cbn in Hi |- *.
    + injection Hi as ->. congruence.
    + apply (IH r i eq_refl Hi).
Qed.

Definition rolling_knots (cl : stairsQ) (l r : Qc) : list Qc :=
  usort (map (fun p => p - l) (keys (get_values cl)) ++ map (fun p => p - r) (keys (get_values cl))).

Definition knot_in_range (l r : Qc) (lo hi : option Qc) (k : Qc) : bool :=
  match lo with Some a => Qcleb (a - l) k | None => true end &&
  match hi with Some b => Qcleb k (b - r) | None => true end.

(* a knot is a point x at which one of the window edges x + l, x + r meets a step point of f restricted to `where` *)
Lemma knot_meets_a_step_point (cl : stairsQ) (l r k : Qc) :
  In k (rolling_knots cl l r) <-> (In (k + l) (keys (get_values cl)) \/ In (k + r) (keys (get_values cl))).
Proof.
  unfold rolling_knots. rewrite (proj2 (usort_spec _)), in_app_iff, !in_map_iff. split.
  - intros [(p & E & Hp)|(p & E & Hp)]; [left|right]; subst k; [replace (p - l + l) with p by ring|replace (p - r + r) with p by ring]; exact Hp.
  - intros [H|H]; [left; exists (k + l)|right; exists (k + r)]; (split; [ring|exact H]).
Qed.

Theorem rolling_mean_rows (f cl : stairsQ) (l r : Qc) (lo hi : option Qc) (rows : list (Qc * V)) :
  clip f lo hi = Ok cl -> data cl <> None -> rolling_mean f l r lo hi = Ok rows ->
  forall k y, In (k, y) rows <->
    (In k (rolling_knots cl l r) /\ knot_in_range l r lo hi k = true /\ slice_stat SMean cl IvRight (k + l, k + r) = Some y).
Proof.
  intros Ec Hd. unfold rolling_mean. rewrite Ec. cbn [lift_res]. destruct (data cl) as [fr|]; [|congruence].
  fold (rolling_knots cl l r).
  destruct (slicer_stat SMean cl IvRight (map (fun k => (k + l, k + r)) (rolling_knots cl l r))) as [ms|] eqn:Es; [|discriminate].
  intros E. injection E as <-. intros k y.
  unfold slicer_stat in Es. rewrite map_map in Es.
  pose proof (in_combine_sequence_simple _ _ (fun k => slice_stat SMean cl IvRight (k + l, k + r)) _ ms Es k y) as C.
  unfold knot_in_range. destruct lo as [a|], hi as [b|]; rewrite ?filter_In, C; cbn [fst]; rewrite ?andb_true_iff; tauto.
Qed.
