(* Proofs/MapKeysFacts.v — re-labelling the domain by a strictly increasing map commutes with evaluation
   (the order-only core of C17), and Stairs.shift / Stairs.diff at D := Qc (C20) *)
From Coq Require Import List Bool Arith Lia QArith Qcanon Lqa.
Import ListNotations.
Require Import SC.Base.Ord SC.Base.Val SC.Base.Series SC.Base.QcOrd SC.Model.Repr SC.Model.Ops SC.Model.Masking SC.Model.Sampling SC.Model.Stats.
Require Import SC.Spec.Den SC.Proofs.SeriesFacts SC.Proofs.ReprFacts SC.Proofs.DeltaFacts SC.Proofs.OpsFacts SC.Proofs.QcDense.
Open Scope Qc_scope.

Section MapKeys.
Context {D E : Type} `{OD : Ord D} `{OE : Ord E}.
Variable phi : D -> E.
Hypothesis phi_mono : forall a b, ltb (phi a) (phi b) = ltb a b.

Lemma before_phi s p x : before s (phi p) (phi x) = before s p x.
Proof. unfold before, leb. destruct s; rewrite phi_mono; reflexivity. Qed.

Lemma lookup_map_keys (A : Type) s (v0 : A) : forall (l : list (D * A)) x,
  lookup s v0 (map_keys phi l) (phi x) = lookup s v0 l x.
Proof.
  intros l. revert v0. induction l as [|[p v] t IH]; intros v0 x; simpl; auto.
  rewrite before_phi. destruct (before s p x); auto.
Qed.

Lemma keys_map_keys (A : Type) (l : list (D * A)) : keys (map_keys phi l) = map phi (keys l).
Proof. unfold keys, map_keys. rewrite !map_map. reflexivity. Qed.

Lemma ksorted_from_map lo (ks : list D) : ksorted_from lo ks -> ksorted_from (phi lo) (map phi ks).
Proof.
  revert lo. induction ks as [|p t IH]; intros lo; simpl; auto.
  intros [Hlt Hs]. split; auto. rewrite phi_mono. exact Hlt.
Qed.

Lemma sorted_map_keys (A : Type) (l : list (D * A)) : sorted l -> sorted (map_keys phi l).
Proof.
  unfold sorted. rewrite keys_map_keys. destruct l as [|[p v] t]; simpl; auto. apply ksorted_from_map.
Qed.

Lemma cumsum_map_keys a : forall (d : list (D * V)), cumsum a (map_keys phi d) = map_keys phi (cumsum a d).
Proof.
  intros d. revert a. induction d as [|[p [x|]] t IH]; intros a; simpl; auto; rewrite IH; reflexivity.
Qed.

(* the same step function with every step point re-labelled *)
Definition relabel (f : stairs D) : stairs E :=
  Stairs (init f)
         (match data f with
          | None => None
          | Some fr => Some (Frame (option_map (map_keys phi) (dcol fr)) (option_map (map_keys phi) (vcol fr)))
          end)
         (closed f).

Lemma get_values_relabel (f : stairs D) : get_values (relabel f) = map_keys phi (get_values f).
Proof.
  unfold relabel, get_values, frame_values. simpl. destruct (data f) as [fr|]; simpl; auto.
  destruct (vcol fr) as [v|]; simpl; auto. destruct (dcol fr) as [d|]; simpl; auto.
  unfold vals_of_deltas. apply cumsum_map_keys.
Qed.

Lemma map_keys_nonempty (A : Type) (l : list (D * A)) : l <> [] -> map_keys phi l <> [].
Proof. destruct l; simpl; congruence. Qed.

Theorem relabel_wf (f : stairs D) : wf f -> wf (relabel f).
Proof.
  unfold wf, relabel. simpl. destruct (data f) as [fr|]; auto.
  intros (Hany & Hd & Hv & Hc). repeat split.
  - destruct Hany; [left|right]; destruct (dcol fr), (vcol fr); simpl; congruence.
  - destruct (dcol fr) as [d|]; simpl; auto. destruct Hd. split; [apply sorted_map_keys; auto|apply map_keys_nonempty; auto].
  - destruct (vcol fr) as [v|]; simpl; auto. destruct Hv. split; [apply sorted_map_keys; auto|apply map_keys_nonempty; auto].
  - intros d' v' Hd' Hv'. destruct (dcol fr) as [d|]; [|discriminate]. destruct (vcol fr) as [v|]; [|discriminate].
    simpl in Hd', Hv'. injection Hd' as <-. injection Hv' as <-.
    rewrite (Hc d v eq_refl eq_refl). unfold vals_of_deltas. symmetry. apply cumsum_map_keys.
Qed.

(* evaluation commutes with re-labelling *)
Theorem relabel_lim (f : stairs D) sd x : lim sd (relabel f) (phi x) = lim sd f x.
Proof. unfold lim. rewrite get_values_relabel. simpl. apply lookup_map_keys. Qed.

Theorem relabel_limit (f : stairs D) sd x : limit (relabel f) sd (phi x) = limit f sd x.
Proof. rewrite !SamplingFacts.limit_is_lim. apply relabel_lim. Qed.

(* ... and therefore with every pointwise operation: the result computed in the re-labelled domain is the
   re-labelled result, at every image point *)
Theorem relabel_commutes_binop (o : binop) (f g : stairs D) sd x : wf f -> wf g ->
  lim sd (apply_binop o (relabel f) (relabel g)) (phi x) = lim sd (relabel (apply_binop o f g)) (phi x).
Proof.
  intros Wf Wg.
  destruct (apply_binop_spec o f g Wf Wg) as (_ & _ & L1).
  destruct (apply_binop_spec o (relabel f) (relabel g) (relabel_wf f Wf) (relabel_wf g Wg)) as (_ & _ & L2).
  rewrite L2, !relabel_lim, L1. reflexivity.
Qed.

End MapKeys.

(* ---- shift and diff on the rational domain *)
Section Shift.

Lemma Qcltb_plus a b d : Qcltb (a + d) (b + d) = Qcltb a b.
Proof.
  destruct (Qcltb a b) eqn:E.
  - apply Qcltb_lt. apply Qcltb_lt in E. unfold Qclt in *. rewrite !Qc_this_plus. lra.
  - destruct (Qcltb (a + d) (b + d)) eqn:E2; auto. apply Qcltb_lt in E2.
    assert (a < b). { unfold Qclt in *. rewrite !Qc_this_plus in E2. lra. }
    apply Qcltb_lt in H. congruence.
Qed.

Lemma shift_is_relabel (f : stairs Qc) d : shift f d = relabel (fun k => k + d) f \/ (data f = None /\ shift f d = const (init f) (closed f)).
Proof.
  unfold shift, relabel. destruct (data f); auto.
Qed.

Theorem shift_spec (f : stairs Qc) (d : Qc) : wf f ->
  wf (shift f d) /\ closed (shift f d) = closed f /\
  forall sd x, lim sd (shift f d) x = lim sd f (x - d).
Proof.
  intros Wf. assert (Hm : forall a b : Qc, ltb (a + d) (b + d) = ltb a b) by (intros; apply Qcltb_plus).
  destruct (shift_is_relabel f d) as [E|[Dn E]]; rewrite E.
  - split; [apply (relabel_wf _ Hm); exact Wf|]. split; [reflexivity|].
    intros sd x. replace x with ((x - d) + d) at 1 by ring. apply (relabel_lim (fun k => k + d) Hm).
  - split; [exact I|]. split; [reflexivity|]. intros sd x. rewrite lim_const, (lim_no_data f sd (x - d) Dn). reflexivity.
Qed.

Theorem diff_spec (f : stairs Qc) (d : Qc) : wf f ->
  diff f d = add_or_sub true f (shift f d) /\
  wf (diff f d) /\ closed (diff f d) = closed f /\
  forall sd x, lim sd (diff f d) x = vsub (lim sd f x) (lim sd f (x - d)).
Proof.
  intros Wf. destruct (shift_spec f d Wf) as (Ws & Cs & Ls).
  destruct (add_or_sub_spec true f (shift f d) Wf Ws) as (A1 & A2 & A3).
  split; [reflexivity|]. split; [exact A1|]. split.
  - unfold diff. rewrite A2. unfold result_side. rewrite Cs. destruct (has_steps f), (has_steps (shift f d)); reflexivity.
  - intros sd x. unfold diff. rewrite A3, Ls. reflexivity.
Qed.

End Shift.
