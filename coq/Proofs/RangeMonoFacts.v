(* Proofs/RangeMonoFacts.v — values_in_range is monotone in the window: a value reported over a window is reported over
   every window (with its own endpoint closedness) that contains it as a set of points. Consequently max can only
   grow and min only shrink when the window is enlarged. Corollary of the two directions of C10. *)
From Coq Require Import List Bool Arith Lia QArith Qcanon Lqa.
Import ListNotations.
Require Import SC.Base.Ord SC.Base.Val SC.Base.Series SC.Base.QcOrd.
Require Import SC.Model.Repr SC.Model.Ops SC.Model.Masking SC.Model.Sampling SC.Model.Stats SC.Model.Slicing.
Require Import SC.Spec.Den SC.Proofs.SeriesFacts SC.Proofs.SliceFacts SC.Proofs.ReprFacts SC.Proofs.OpsFacts
               SC.Proofs.SamplingFacts SC.Proofs.QcDense SC.Proofs.ClipFacts SC.Proofs.AggFacts SC.Proofs.RangeFacts.
Open Scope Qc_scope.

Theorem values_in_range_monotone (f : stairsQ) (il ir il' ir' : bool) lo hi lo' hi' :
  wf f -> window_nonempty lo hi ->
  (forall x, in_window il ir lo hi x -> in_window il' ir' lo' hi' x) ->
  incl (values_in_range f lo hi (get_lims (closed f) il ir))
       (values_in_range f lo' hi' (get_lims (closed f) il' ir')).
Proof.
  intros Wf Hne Hsub v Hin.
  destruct (vir_values_are_taken f il ir lo hi v Wf Hne Hin) as (x & Hw & Hv).
  exact (vir_reports_every_value f il' ir' lo' hi' x v (Hsub x Hw) Hv).
Qed.

(* the same set of points, described with other bounds / closedness flags, reports the same values *)
Theorem values_in_range_depends_on_the_point_set_only (f : stairsQ) (il ir il' ir' : bool) lo hi lo' hi' :
  wf f -> window_nonempty lo hi -> window_nonempty lo' hi' ->
  (forall x, in_window il ir lo hi x <-> in_window il' ir' lo' hi' x) ->
  forall v, In v (values_in_range f lo hi (get_lims (closed f) il ir)) <->
            In v (values_in_range f lo' hi' (get_lims (closed f) il' ir')).
Proof.
  intros Wf N1 N2 E v. split.
  - apply (values_in_range_monotone f il ir il' ir' lo hi lo' hi' Wf N1). intros x. apply E.
  - apply (values_in_range_monotone f il' ir' il ir lo' hi' lo hi Wf N2). intros x. apply E.
Qed.

Print Assumptions values_in_range_monotone.
Print Assumptions values_in_range_depends_on_the_point_set_only.
