(* Proofs/DistFacts.v — ecdf, hist, percentiles, mode follow the length-weighted value distribution (C09) *)
From Coq Require Import List Bool Arith Lia QArith Qcanon.
Import ListNotations.
Require Import SC.Base.Ord SC.Base.Val SC.Base.Series SC.Base.QcOrd.
Require Import SC.Model.Repr SC.Model.Ops SC.Model.Masking SC.Model.Sampling SC.Model.Stats SC.Model.Slicing.
Require Import SC.Spec.Den SC.Proofs.SeriesFacts SC.Proofs.ReprFacts SC.Proofs.QcDense SC.Proofs.AggFacts
               SC.Proofs.StatsFacts SC.Proofs.VarFacts SC.Proofs.MapKeysFacts.
Open Scope Qc_scope.

Notation ser := (list (Qc * V)).

(* total length of the finite defined pieces whose value satisfies P *)
Definition length_where (P : Qc -> bool) (pcs : list (Qc * Qc * V)) : Qc :=
  qsum (map snd (filter (fun vl => P (fst vl)) (defined_of pcs))).

Lemma wsum_indicator (P : Qc -> bool) (l : list (Qc * Qc)) :
  wsum (fun k => if P k then 1 else 0) l = qsum (map snd (filter (fun vl => P (fst vl)) l)).
Proof.
  unfold wsum. induction l as [|[k s] t IH]; [reflexivity|].
  cbn [map filter fst snd]. rewrite qsum_cons, IH. destruct (P k); cbn [map snd]; [rewrite qsum_cons|]; ring.
Qed.

(* ---- ecdf *)
Section Ecdf.
Variable T : Qc.

Fixpoint cum_before (strict : bool) (acc : Qc) (g : list (Qc * Qc)) (y : Qc) : Qc :=
  match g with
  | [] => acc
  | (k, s) :: t => if before strict k y then cum_before strict (acc + s / T) t y else acc
  end.

Lemma ecdf_lookup strict : forall g acc y,
  lookup strict (Some acc) (cumsum acc (ecdf_deltas T g)) y = Some (cum_before strict acc g y).
Proof.
  induction g as [|[k s] t IH]; intros acc y; [reflexivity|].
  change (ecdf_deltas T ((k, s) :: t)) with ((k, Some (s / T)) :: ecdf_deltas T t).
  cbn [cumsum cum_before]. rewrite lookup_cons. destruct (before strict k y); [apply IH|reflexivity].
Qed.

Lemma none_before_after strict y : forall (g : list (Qc * Qc)) lo, ksorted_from lo (map fst g) -> before strict lo y = false ->
  filter (fun vl => before strict (fst vl) y) g = [].
Proof.
  induction g as [|[k s] t IH]; intros lo Hs Hb; [reflexivity|].
  cbn [map fst] in Hs. destruct Hs as [Hlt Hs]. cbn [filter fst].
  assert (Hk : before strict k y = false) by (eapply before_mono; eauto). rewrite Hk. apply (IH k Hs Hk).
Qed.

Lemma cum_before_sum strict y : forall g acc, ksorted (map fst g) ->
  cum_before strict acc g y = acc + qsum (map (fun vl => snd vl / T) (filter (fun vl => before strict (fst vl) y) g)).
Proof.
  induction g as [|[k s] t IH]; intros acc Hs.
  - cbn [cum_before filter map]. unfold qsum. cbn [fold_left]. ring.
  - cbn [cum_before filter fst]. destruct (before strict k y) eqn:Hb.
    + rewrite IH by (eapply ksorted_tail; exact Hs). cbn [map snd]. rewrite qsum_cons. ring.
    + cbn [map fst] in Hs. apply ksorted_cons in Hs. rewrite (none_before_after strict y t k Hs Hb).
      cbn [map]. unfold qsum. cbn [fold_left]. ring.
Qed.
End Ecdf.

Lemma sorted_keys_fst (g : list (Qc * Qc)) : sorted g -> ksorted (map fst g).
Proof. intros H. exact H. Qed.

(* what ecdf_of builds, and the facts about the grouped sums it is built from *)
Lemma ecdf_of_shape (f ec : stairsQ) : wf f -> ecdf_of f = Some ec ->
  exists b t, let G := b :: t in let T := qsum (map snd G) in
    G = group_sum (defined_pieces f) /\ ec = ecdf_from T G /\ sorted G /\
    Forall (fun vl => 0 < snd vl) G /\ 0 < T /\ T = piece_total (fin_pieces (get_values f)).
Proof.
  intros Wf. unfold ecdf_of. destruct (value_sums f) as [[|b t]|] eqn:Evs; try discriminate. intros E.
  exists b, t. cbv zeta.
  assert (EG : b :: t = group_sum (defined_pieces f)).
  { unfold value_sums in Evs. destruct (data f); [|discriminate]. injection Evs as <-. reflexivity. }
  assert (Hpos : Forall (fun vl : Qc * Qc => 0 < snd vl) (b :: t)).
  { rewrite EG. unfold group_sum. apply group_pos; [apply defined_pieces_pos; exact Wf|constructor]. }
  split; [exact EG|]. split; [injection E as <-; reflexivity|]. split.
  { rewrite EG. apply group_sum_spec. }
  split; [exact Hpos|]. split.
  { apply qsum_pos; [discriminate|]. apply Forall_map. exact Hpos. }
  unfold piece_total. rewrite <- defined_pieces_of.
  pose proof (group_weighted (fun _ => 1) (defined_pieces f)) as W. rewrite <- EG in W. unfold wsum in W.
  rewrite (map_ext (fun vl : Qc * Qc => 1 * snd vl) snd) in W by (intros; ring).
  rewrite (map_ext (fun vl : Qc * Qc => 1 * snd vl) snd) in W by (intros; ring). exact W.
Qed.

(* ecdf(y) (the right limit) is the fraction of length on which f <= y; its left limit: f < y *)
Theorem ecdf_spec (f ec : stairsQ) sd y : wf f -> ecdf_of f = Some ec ->
  limit ec sd y =
  Some (length_where (fun v => before (strict_of sd) v y) (fin_pieces (get_values f)) / piece_total (fin_pieces (get_values f))).
Proof.
  intros Wf Ec. destruct (ecdf_of_shape f ec Wf Ec) as (b & t & EG & Eec & Hs & Hpos & HT & ET). cbv zeta in *.
  set (G := b :: t) in *. set (T := qsum (map snd G)) in *. subst ec.
  unfold limit. change (data (ecdf_from T G)) with (Some (Frame (Some (ecdf_deltas T G)) (@None ser))). cbv iota.
  rewrite limit_idx_lookup.
  change (get_values (ecdf_from T G)) with (cumsum 0 (ecdf_deltas T G)).
  change (init (ecdf_from T G)) with (Some 0).
  rewrite ecdf_lookup, cum_before_sum by exact Hs. f_equal.
  unfold length_where. rewrite <- defined_pieces_of, <- ET.
  pose proof (group_weighted (fun k => if before (strict_of sd) k y then 1 else 0) (defined_pieces f)) as W.
  rewrite <- EG in W. rewrite !wsum_indicator in W. rewrite <- W.
  unfold Qcdiv. rewrite (qsum_scale _ snd (/ T)). ring.
Qed.

(* ---- hist: the probability of a bin is the difference of the ecdf limits at its edges; the sum is that times the
   total length *)
Definition bin_side (cl : side) : lside := match cl with CLeft => LimLeft | CRight => LimRight end.

Theorem hist_spec (f ec : stairsQ) (bins : list (Qc * Qc)) (cl : side) : wf f -> ecdf_of f = Some ec ->
  let pcs := fin_pieces (get_values f) in
  let L := fun y => length_where (fun v => before (strict_of (bin_side cl)) v y) pcs in
  hist ec (value_total f) bins cl HProbability = map (fun b => Some (L (snd b) / piece_total pcs - L (fst b) / piece_total pcs)) bins /\
  hist ec (value_total f) bins cl HSum = map (fun b => Some (L (snd b) - L (fst b))) bins.
Proof.
  intros Wf Ec pcs L.
  assert (HT : 0 < piece_total pcs) by (destruct (var_spec f ec 0 Wf Ec) as [H _]; exact H).
  assert (Tne : piece_total pcs <> 0) by (intros E0; rewrite E0 in HT; discriminate HT).
  assert (P : map (fun b : Qc * Qc => vsub (limit ec (bin_side cl) (snd b)) (limit ec (bin_side cl) (fst b))) bins
            = map (fun b => Some (L (snd b) / piece_total pcs - L (fst b) / piece_total pcs)) bins).
  { apply map_ext. intros b. rewrite !(ecdf_spec f ec _ _ Wf Ec). reflexivity. }
  unfold hist. cbv zeta.
  change (match cl with CLeft => LimLeft | CRight => LimRight end) with (bin_side cl). rewrite P. split; [reflexivity|].
  rewrite map_map. apply map_ext. intros b. rewrite value_total_spec. fold pcs. cbn [vmul vlift2]. f_equal.
  unfold Qcdiv. transitivity ((L (snd b) - L (fst b)) * (/ piece_total pcs * piece_total pcs)); [ring|].
  rewrite Qcmult_inv_l by exact Tne. ring.
Qed.

(* the ecdf difference over a bin is the length of the values falling in the bin *)
Lemma length_where_diff (P Q : Qc -> bool) pcs : (forall v, Q v = true -> P v = true) ->
  length_where P pcs - length_where Q pcs = length_where (fun v => P v && negb (Q v)) pcs.
Proof.
  intros HQP. unfold length_where. induction (defined_of pcs) as [|[v len] t IH]; [reflexivity|].
  cbn [filter fst]. specialize (HQP v). destruct (P v), (Q v); cbn [andb negb map snd]; rewrite ?qsum_cons, <- ?IH;
    try ring. discriminate (HQP eq_refl).
Qed.

Theorem bin_length (sd : lside) (a b : Qc) pcs : leb a b = true ->
  length_where (fun v => before (strict_of sd) v b) pcs - length_where (fun v => before (strict_of sd) v a) pcs
  = length_where (fun v => before (strict_of sd) v b && negb (before (strict_of sd) v a)) pcs.
Proof.
  intros Hab. apply length_where_diff. intros v Hv. unfold before, leb in *. destruct (strict_of sd).
  - destruct (ltb v b) eqn:E; [reflexivity|]. apply negb_true_iff in Hab.
    destruct (cmpP v b) as [H _|H|H _]; [congruence|subst; congruence|].
    rewrite (ltb_trans _ _ _ H Hv) in Hab. discriminate.
  - apply negb_true_iff in Hv, Hab. apply negb_true_iff. destruct (ltb b v) eqn:E; [|reflexivity].
    destruct (cmpP a v) as [H _|H|H _]; [congruence|subst; congruence|].
    rewrite (ltb_trans _ _ _ E H) in Hab. discriminate.
Qed.

(* ---- mode: a value of maximal total length *)
Lemma argmax_spec : forall (l : list (Qc * Qc)) best,
  exists sv, In (argmax_first best l, sv) (best :: l) /\ snd best <= sv /\ forall k s, In (k, s) l -> s <= sv.
Proof.
  induction l as [|[k s] t IH]; intros best.
  - exists (snd best). cbn [argmax_first]. split; [left; destruct best; reflexivity|].
    split; [apply Qcle_refl|intros ? ? []].
  - cbn [argmax_first]. destruct (Qcltb (snd best) s) eqn:E.
    + destruct (IH (k, s)) as (sv & Hin & Hle & Hall). exists sv. cbn [snd] in Hle. apply Qcltb_lt in E.
      split; [right; exact Hin|]. split; [apply Qclt_le_weak; eapply Qclt_le_trans; eauto|].
      intros k' s' [Eq|Hin']; [injection Eq as <- <-; exact Hle|eapply Hall; eauto].
    + destruct (IH best) as (sv & Hin & Hle & Hall). exists sv.
      assert (Hs : s <= snd best). { apply Qcnot_lt_le. intros H. apply Qcltb_lt in H. congruence. }
      split; [destruct Hin as [Hin|Hin]; [left; exact Hin|right; right; exact Hin]|].
      split; [exact Hle|]. intros k' s' [Eq|Hin']; [injection Eq as <- <-; eapply Qcle_trans; eauto|eapply Hall; eauto].
Qed.

Theorem mode_spec (f : stairsQ) (v : Qc) : mode f = Some v ->
  exists g sv, value_sums f = Some g /\ In (v, sv) g /\ forall k s, In (k, s) g -> s <= sv.
Proof.
  unfold mode. destruct (value_sums f) as [[|b t]|] eqn:E; try discriminate. intros Ev. injection Ev as <-.
  destruct (argmax_spec t b) as (sv & Hin & Hle & Hall). exists (b :: t), sv. split; [reflexivity|]. split; [exact Hin|].
  intros k s [Eq|Hin']; [subst b; exact Hle|eapply Hall; eauto].
Qed.

(* ---- percentiles / fractiles: one-sided limits of the quantile table *)
Section Quantiles.
Variable T : Qc.

(* the first value whose cumulative share (times 100) is not before x; dflt when every share is before x.
   strict = true : the lower quantile (least value with share >= x/100);
   strict = false: the upper quantile (least value with share > x/100) *)
Fixpoint qtl (strict : bool) (acc : Qc) (g : list (Qc * Qc)) (x dflt : Qc) : Qc :=
  match g with
  | [] => dflt
  | (k, s) :: t => if before strict ((acc + s / T) * c100) x then qtl strict (acc + s / T) t x dflt else k
  end.

Lemma qtl_lookup strict kl x : forall g acc (v0 : V), before strict (acc * c100) x = true ->
  lookup strict v0 (pmid (fun v => v) T acc g ++ [(final T acc g * c100, Some kl)]) x = Some (qtl strict acc g x kl).
Proof.
  induction g as [|[k s] t IH]; intros acc v0 Hb.
  - cbn [pmid final app qtl]. rewrite lookup_cons, Hb. reflexivity.
  - cbn [pmid final app qtl]. rewrite lookup_cons, Hb.
    destruct (before strict ((acc + s / T) * c100) x) eqn:B.
    + apply IH. exact B.
    + destruct t as [|[k2 s2] t2]; cbn [pmid final app]; rewrite lookup_cons, B; reflexivity.
Qed.

Lemma cum_before_stop c k1 : forall t, ksorted_from k1 (map fst t) -> cum_before T false c t k1 = c.
Proof.
  destruct t as [|[k s] t]; [reflexivity|]. cbn [map fst cum_before]. intros [Hlt _].
  rewrite (before_gt false k k1 Hlt). reflexivity.
Qed.

(* characterisation: the result is the least value whose cumulative share (the ecdf at that value) is not before x *)
Lemma qtl_cases strict x dflt : forall g acc, ksorted (map fst g) ->
  (qtl strict acc g x dflt = dflt /\
   forall k s, In (k, s) g -> before strict (cum_before T false acc g k * c100) x = true)
  \/
  (exists s, In (qtl strict acc g x dflt, s) g /\
     before strict (cum_before T false acc g (qtl strict acc g x dflt) * c100) x = false /\
     forall k s', In (k, s') g -> ltb k (qtl strict acc g x dflt) = true ->
       before strict (cum_before T false acc g k * c100) x = true).
Proof.
  induction g as [|[k1 s1] t IH]; intros acc Hs.
  - left. split; [reflexivity|intros ? ? []].
  - assert (Hs' : ksorted_from k1 (map fst t)) by (apply ksorted_cons; exact Hs).
    assert (Ht : ksorted (map fst t)) by (eapply ksorted_tail; exact Hs).
    assert (C1 : cum_before T false acc ((k1, s1) :: t) k1 = acc + s1 / T).
    { cbn [cum_before]. change (before false k1 k1) with (leb k1 k1). rewrite leb_refl. apply cum_before_stop. exact Hs'. }
    assert (Ct : forall k s, In (k, s) t -> cum_before T false acc ((k1, s1) :: t) k = cum_before T false (acc + s1 / T) t k).
    { intros k s Hin. cbn [cum_before]. rewrite (before_lt false k1 k); [reflexivity|].
      eapply ksorted_from_lt; [exact Hs'|]. apply in_map_iff. exists (k, s). split; [reflexivity|exact Hin]. }
    cbn [qtl]. destruct (before strict ((acc + s1 / T) * c100) x) eqn:B.
    + destruct (IH (acc + s1 / T) Ht) as [[Eq Hall]|(s & Hin & Hq & Hless)].
      * left. split; [exact Eq|]. intros k s [E|Hin].
        -- injection E as <- <-. rewrite C1. exact B.
        -- rewrite (Ct k s Hin). eapply Hall; eauto.
      * right. exists s. split; [right; exact Hin|]. split.
        -- rewrite (Ct _ s Hin). exact Hq.
        -- intros k s' [E|Hin'] Hlt.
           ++ injection E as <- <-. rewrite C1. exact B.
           ++ rewrite (Ct k s' Hin'). eapply Hless; eauto.
    + right. exists s1. split; [left; reflexivity|]. split; [rewrite C1; exact B|].
      intros k s' [E|Hin'] Hlt.
      * injection E as <- <-. rewrite ltb_irrefl in Hlt. discriminate.
      * assert (H1 : ltb k1 k = true).
        { eapply ksorted_from_lt; [exact Hs'|]. apply in_map_iff. exists (k, s'). split; [reflexivity|exact Hin']. }
        rewrite (ltb_asym _ _ H1) in Hlt. discriminate.
Qed.

Lemma final_gt : forall t acc, t <> [] -> Forall (fun vl : Qc * Qc => 0 < snd vl / T) t -> acc < final T acc t.
Proof.
  destruct t as [|[k s] t]; [congruence|]. intros acc _ H. inversion H as [|? ? H1 H2]; subst. cbn [snd] in H1.
  cbn [final]. apply Qclt_le_trans with (acc + s / T); [apply lt_add_pos; exact H1|apply final_ge; exact H2].
Qed.

(* at 100 both quantiles are the last (greatest) value *)
Lemma qtl_top strict kl : forall g acc, g <> [] -> Forall (fun vl : Qc * Qc => 0 < snd vl / T) g -> final T acc g = 1 ->
  last_opt (map fst g) = Some kl -> qtl strict acc g c100 kl = kl.
Proof.
  induction g as [|[k s] t IH]; intros acc Hne Hpos Hf Hl; [congruence|].
  inversion Hpos as [|? ? H1 H2]; subst. cbn [final] in Hf. cbn [qtl].
  destruct t as [|b t'].
  - cbn [final] in Hf. rewrite Hf. replace (1 * c100) with c100 by ring. cbn [map fst last_opt] in Hl. injection Hl as <-.
    destruct strict; cbn [before qtl].
    + rewrite ltb_irrefl. reflexivity.
    + rewrite leb_refl. reflexivity.
  - assert (Hlt : (acc + s / T) * c100 < c100).
    { replace c100 with (1 * c100) at 2 by ring. apply Qcmult_lt_compat_r; [apply c100_pos|].
      rewrite <- Hf. apply final_gt; [discriminate|exact H2]. }
    rewrite (before_lt strict _ _ (proj2 (ltb_lt _ _) Hlt)).
    apply IH; [discriminate|exact H2|exact Hf|]. exact Hl.
Qed.
End Quantiles.

Lemma map_vals_id (l : ser) : map_vals (fun v : V => v) l = l.
Proof. unfold map_vals. induction l as [|[p v] t IH]; [reflexivity|]. cbn [map fst snd]. f_equal. exact IH. Qed.

Lemma xtiles_obj (sc T : Qc) b t kl : last_opt (map fst (b :: t)) = Some kl ->
  xtiles_of sc (ecdf_from T (b :: t))
  = Stairs (Some (fst b))
           (Some (Frame None (Some (combine (0 :: map (fun c => base c * sc) (map Some (cums T 0 (b :: t))))
                                            (map Some (map fst (b :: t) ++ [kl]))))))
           CLeft.
Proof.
  intros Hl. unfold xtiles_of. cbv zeta.
  change (get_deltas (ecdf_from T (b :: t))) with (ecdf_deltas T (b :: t)).
  change (get_values (ecdf_from T (b :: t))) with (cumsum 0 (ecdf_deltas T (b :: t))).
  rewrite ecdf_keys, ecdf_cum. remember (map fst (b :: t)) as ks eqn:Eks.
  destruct ks as [|k0 l]; [discriminate Eks|]. rewrite Hl. cbn [map] in Eks. injection Eks as -> _. reflexivity.
Qed.

Lemma q2 : q_of_Z 2 = 1 + 1.
Proof. apply Qc_is_canon. reflexivity. Qed.

Lemma half_double (k : Qc) : (k + k) / q_of_Z 2 = k.
Proof. rewrite q2. replace (k + k) with (k * (1 + 1)) by ring. apply Qcdiv_mult_l. discriminate. Qed.

(* the one-sided limits of the percentile function are the lower / upper quantiles of the value distribution;
   at 0 both are the least value, at 100 both are the greatest *)
Theorem percentile_limits (f ec : stairsQ) : wf f -> ecdf_of f = Some ec ->
  let G := group_sum (defined_pieces f) in
  let T := piece_total (fin_pieces (get_values f)) in
  exists k1 kl, hd_error (map fst G) = Some k1 /\ last_opt (map fst G) = Some kl /\
    (forall x, leb 0 x = true -> limit (percentiles_of ec) LimRight x = Some (qtl T false 0 G x kl)) /\
    (forall x, ltb 0 x = true -> limit (percentiles_of ec) LimLeft x = Some (qtl T true 0 G x kl)) /\
    limit (percentiles_of ec) LimLeft 0 = Some k1 /\ limit (percentiles_of ec) LimRight 0 = Some k1 /\
    limit (percentiles_of ec) LimLeft c100 = Some kl /\ limit (percentiles_of ec) LimRight c100 = Some kl.
Proof.
  intros Wf Ec. destruct (ecdf_of_shape f ec Wf Ec) as (b & t & EG & Eec & Hs & Hpos & HT & ET). cbv zeta in *.
  rewrite <- EG, <- ET. set (T := qsum (map snd (b :: t))) in *.
  assert (Tne : T <> 0) by (intros E0; rewrite E0 in HT; discriminate HT).
  assert (Hd : Forall (fun vl : Qc * Qc => 0 < snd vl / T) (b :: t)).
  { eapply Forall_impl; [|exact Hpos]. intros vl H. apply Qcdiv_pos; assumption. }
  destruct (last_opt_some _ (map fst t) (fst b)) as [kl Hl].
  exists (fst b), kl. split; [reflexivity|]. split; [exact Hl|]. subst ec.
  unfold percentiles_of. rewrite (xtiles_obj c100 T b t kl Hl).
  set (tab := combine (0 :: map (fun c : V => base c * c100) (map Some (cums T 0 (b :: t)))) (map Some (map fst (b :: t) ++ [kl]))).
  assert (Etab : tab = pmid (fun v => v) T 0 (b :: t) ++ [(final T 0 (b :: t) * c100, Some kl)]).
  { rewrite <- (map_vals_id tab). apply table_shape. ring. }
  assert (EF : final T 0 (b :: t) = 1).
  { rewrite final_sum. unfold Qcdiv. rewrite (qsum_scale _ snd (/ T) (b :: t)). fold T. rewrite Qcmult_inv_r by exact Tne. ring. }
  assert (Lim : forall sd x, limit (Stairs (Some (fst b)) (Some (Frame None (Some tab))) CLeft) sd x
                             = lookup (strict_of sd) (Some (fst b)) tab x).
  { intros sd x. unfold limit. cbn [data init]. rewrite limit_idx_lookup. reflexivity. }
  assert (R : forall x, leb 0 x = true -> lookup false (Some (fst b)) tab x = Some (qtl T false 0 (b :: t) x kl)).
  { intros x Hx. rewrite Etab. apply qtl_lookup. replace (0 * c100) with 0 by ring. exact Hx. }
  assert (L : forall x, ltb 0 x = true -> lookup true (Some (fst b)) tab x = Some (qtl T true 0 (b :: t) x kl)).
  { intros x Hx. rewrite Etab. apply qtl_lookup. replace (0 * c100) with 0 by ring. exact Hx. }
  split; [intros x Hx; rewrite Lim; apply R; exact Hx|].
  split; [intros x Hx; rewrite Lim; apply L; exact Hx|].
  split.
  { rewrite Lim, Etab. destruct b as [k1 s1]. cbn [pmid app strict_of]. rewrite lookup_cons.
    replace (0 * c100) with 0 by ring. change (before true 0 0) with false. reflexivity. }
  split.
  { rewrite Lim. cbn [strict_of]. rewrite R by reflexivity. destruct b as [k1 s1]. cbn [qtl fst].
    inversion Hd as [|? ? H1 _]; subst. cbn [snd] in H1.
    rewrite (before_gt false ((0 + s1 / T) * c100) 0); [reflexivity|]. apply ltb_lt.
    replace 0 with (0 * c100) at 1 by ring. apply Qcmult_lt_compat_r; [apply c100_pos|].
    replace (0 + s1 / T) with (s1 / T) by ring. exact H1. }
  split.
  { rewrite Lim. cbn [strict_of]. rewrite L by reflexivity. f_equal. apply qtl_top; [discriminate|exact Hd|exact EF|exact Hl]. }
  rewrite Lim. cbn [strict_of]. rewrite R by reflexivity. f_equal. apply qtl_top; [discriminate|exact Hd|exact EF|exact Hl].
Qed.

(* percentile(p): the midpoint of the lower and upper p-quantiles; the minimum at 0, the maximum at 100 *)
Theorem percentile_spec (f ec : stairsQ) : wf f -> ecdf_of f = Some ec ->
  let G := group_sum (defined_pieces f) in
  let T := piece_total (fin_pieces (get_values f)) in
  exists k1 kl, hd_error (map fst G) = Some k1 /\ last_opt (map fst G) = Some kl /\
    (forall x, ltb 0 x = true ->
       xtile_sample (percentiles_of ec) x = Some ((qtl T true 0 G x kl + qtl T false 0 G x kl) / q_of_Z 2)) /\
    xtile_sample (percentiles_of ec) 0 = Some k1 /\
    xtile_sample (percentiles_of ec) c100 = Some kl.
Proof.
  intros Wf Ec G T. destruct (percentile_limits f ec Wf Ec) as (k1 & kl & H1 & Hl & R & L & L0 & R0 & L1 & R1).
  fold G T in H1, Hl, R, L. exists k1, kl. split; [exact H1|]. split; [exact Hl|].
  assert (V2 : forall a b : Qc, vdiv (vadd (Some a) (Some b)) (Some (q_of_Z 2)) = Some ((a + b) / q_of_Z 2)) by reflexivity.
  split.
  { intros x Hx. unfold xtile_sample. rewrite (L x Hx), (R x) by (apply ltb_leb; exact Hx). apply V2. }
  split; unfold xtile_sample.
  - rewrite L0, R0, V2, half_double. reflexivity.
  - rewrite L1, R1, V2, half_double. reflexivity.
Qed.

(* ---- fractile(p) = percentile(100 p) *)
Lemma scale_mono (a b : Qc) : ltb (a * c100) (b * c100) = ltb a b.
Proof.
  destruct (ltb a b) eqn:E.
  - apply ltb_lt. apply Qcmult_lt_compat_r; [apply c100_pos|apply ltb_lt; exact E].
  - apply ltb_nlt. intros H. apply ltb_nlt in E. apply E.
    destruct (Qc_dec a b) as [[Hlt|Hgt]|Heq]; [exact Hlt| |].
    + exfalso. apply (Qclt_not_le _ _ H). apply Qclt_le_weak. apply Qcmult_lt_compat_r; [apply c100_pos|exact Hgt].
    + subst. exfalso. exact (Qclt_not_eq _ _ H eq_refl).
Qed.

Lemma map_keys_combine (A : Type) (phi : Qc -> Qc) : forall (ks : list Qc) (vs : list A),
  map_keys phi (combine ks vs) = combine (map phi ks) vs.
Proof.
  unfold map_keys. induction ks as [|k ks IH]; intros vs; [reflexivity|]. destruct vs as [|v vs]; [reflexivity|].
  cbn [combine map fst snd]. f_equal. apply IH.
Qed.

Theorem fractile_is_percentile (f ec : stairsQ) (p : Qc) : wf f -> ecdf_of f = Some ec ->
  xtile_sample (fractiles_of ec) p = xtile_sample (percentiles_of ec) (p * c100).
Proof.
  intros Wf Ec. destruct (ecdf_of_shape f ec Wf Ec) as (b & t & EG & Eec & Hs & Hpos & HT & ET). cbv zeta in *.
  set (T := qsum (map snd (b :: t))) in *. subst ec.
  destruct (last_opt_some _ (map fst t) (fst b)) as [kl Hl].
  unfold fractiles_of, percentiles_of. rewrite (xtiles_obj 1 T b t kl Hl), (xtiles_obj c100 T b t kl Hl).
  set (tabF := combine (0 :: map (fun c : V => base c * 1) (map Some (cums T 0 (b :: t)))) (map Some (map fst (b :: t) ++ [kl]))).
  set (tabP := combine (0 :: map (fun c : V => base c * c100) (map Some (cums T 0 (b :: t)))) (map Some (map fst (b :: t) ++ [kl]))).
  assert (E : tabP = map_keys (fun k => k * c100) tabF).
  { unfold tabP, tabF. rewrite map_keys_combine. f_equal. rewrite map_cons.
    replace (0 * c100) with 0 by ring. f_equal.
    rewrite (map_map (fun c : V => base c * 1) (fun k => k * c100)). apply map_ext. intros c. ring. }
  assert (Lim : forall tab sd x, limit (Stairs (Some (fst b)) (Some (Frame None (Some tab))) CLeft) sd x
                                 = lookup (strict_of sd) (Some (fst b)) tab x).
  { intros tab sd x. unfold limit. cbn [data init]. rewrite limit_idx_lookup. reflexivity. }
  unfold xtile_sample. rewrite !Lim, E.
  rewrite !(MapKeysFacts.lookup_map_keys (fun k => k * c100) scale_mono). reflexivity.
Qed.

(* the cumulative share used by the quantiles is the ecdf *)
Lemma ecdf_is_cum_share (f ec : stairsQ) (k : Qc) : wf f -> ecdf_of f = Some ec ->
  limit ec LimRight k = Some (cum_before (piece_total (fin_pieces (get_values f))) false 0 (group_sum (defined_pieces f)) k).
Proof.
  intros Wf Ec. destruct (ecdf_of_shape f ec Wf Ec) as (b & t & EG & Eec & Hs & Hpos & HT & ET). cbv zeta in *.
  rewrite <- EG, <- ET. set (T := qsum (map snd (b :: t))) in *. subst ec.
  unfold limit. change (data (ecdf_from T (b :: t))) with (Some (Frame (Some (ecdf_deltas T (b :: t))) (@None ser))). cbv iota.
  rewrite limit_idx_lookup.
  change (get_values (ecdf_from T (b :: t))) with (cumsum 0 (ecdf_deltas T (b :: t))).
  change (init (ecdf_from T (b :: t))) with (Some 0). apply ecdf_lookup.
Qed.

(* lower (strict = true) / upper (strict = false) quantile at x: the least value whose ecdf (times 100) is not before x,
   i.e. >= x resp. > x; the greatest value when there is none *)
Theorem quantile_characterisation (f ec : stairsQ) (strict : bool) (x kl : Qc) : wf f -> ecdf_of f = Some ec ->
  let G := group_sum (defined_pieces f) in
  let T := piece_total (fin_pieces (get_values f)) in
  let F := fun k => cum_before T false 0 G k in
  let q := qtl T strict 0 G x kl in
  (q = kl /\ forall k s, In (k, s) G -> before strict (F k * c100) x = true)
  \/
  (exists s, In (q, s) G /\ before strict (F q * c100) x = false /\
     forall k s', In (k, s') G -> ltb k q = true -> before strict (F k * c100) x = true).
Proof.
  intros Wf Ec G T F q. apply qtl_cases.
  destruct (ecdf_of_shape f ec Wf Ec) as (b & t & EG & _ & Hs & _). cbv zeta in *. unfold G. rewrite <- EG. exact Hs.
Qed.
