(* Proofs/RefineFacts.v — the integral of a step table is a Riemann sum over ANY partition that refines its step points:
   it depends on the represented function only.  Used for cov(f, f) = var(f) (C19). *)
From Coq Require Import List Bool Arith Lia QArith Qcanon.
Import ListNotations.
Require Import SC.Base.Ord SC.Base.Val SC.Base.Series SC.Base.QcOrd.
Require Import SC.Model.Repr SC.Model.Ops SC.Model.Masking SC.Model.Sampling SC.Model.Stats SC.Model.Slicing.
Require Import SC.Spec.Den SC.Proofs.SeriesFacts SC.Proofs.ReprFacts SC.Proofs.AggFacts SC.Proofs.StatsFacts SC.Proofs.VarFacts.
Open Scope Qc_scope.

Notation ser := (list (Qc * V)).

(* Riemann sum of phi (read at the left end of each cell) over the consecutive points of P *)
Fixpoint rsum (phi : Qc -> V) (P : list Qc) : Qc :=
  match P with
  | p :: ((p' :: _) as t) => pc_contrib (phi p) p p' + rsum phi t
  | _ => 0
  end.

Lemma rsum_cons2 phi p p' t : rsum phi (p :: p' :: t) = pc_contrib (phi p) p p' + rsum phi (p' :: t).
Proof. reflexivity. Qed.

Lemma rsum_ext phi psi : forall P, (forall q, In q P -> phi q = psi q) -> rsum phi P = rsum psi P.
Proof.
  induction P as [|p t IH]; intros H; [reflexivity|]. destruct t as [|p' t']; [reflexivity|].
  rewrite !rsum_cons2, (H p (or_introl eq_refl)). f_equal. apply IH. intros q Hq. apply H. right. exact Hq.
Qed.

Lemma rsum_none : forall P, rsum (fun _ => None) P = 0.
Proof.
  induction P as [|p t IH]; [reflexivity|]. destruct t as [|p' t']; [reflexivity|].
  rewrite rsum_cons2, IH. cbn [pc_contrib]. ring.
Qed.

(* the value in force after the last row (cur when there is no row) is undefined *)
Fixpoint tail_none (cur : V) (l : ser) : Prop :=
  match l with [] => cur = None | (_, v) :: t => tail_none v t end.

(* J cur p l: the function is cur from p up to the first step point of l, then as l says *)
Definition J (cur : V) (p : Qc) (l : ser) : Qc := piece_integral (fin_pieces ((p, cur) :: l)).

Lemma J_nil cur p : J cur p [] = 0.
Proof. reflexivity. Qed.
Lemma J_cons cur p k v t : J cur p ((k, v) :: t) = pc_contrib cur p k + J v k t.
Proof. unfold J. apply pint_cons2. Qed.

Lemma contrib_split cur (a b c : Qc) : pc_contrib cur a b + pc_contrib cur b c = pc_contrib cur a c.
Proof. destruct cur; cbn [pc_contrib]; ring. Qed.

Lemma rsum_refines : forall (P' : list Qc) (p : Qc) (cur : V) (l : ser),
  ksorted (p :: P') -> sorted l -> ksorted_from p (keys l) -> incl (keys l) P' -> tail_none cur l ->
  rsum (lookup false cur l) (p :: P') = J cur p l.
Proof.
  induction P' as [|q P'' IH]; intros p cur l HP Hl Hpl Hin Ht.
  - destruct l as [|[k v] t]; [reflexivity|]. exfalso. apply (Hin k). left. reflexivity.
  - rewrite rsum_cons2.
    assert (Hpq : ltb p q = true) by (apply ksorted_cons in HP; exact (proj1 HP)).
    assert (HP2 : ksorted (q :: P'')) by (eapply ksorted_tail; exact HP).
    assert (E0 : lookup false cur l p = cur).
    { eapply lookup_le_lo; [exact Hpl|apply ltb_irrefl]. }
    rewrite E0. destruct l as [|[k v] t].
    + cbn [tail_none] in Ht. subst cur. rewrite (rsum_ext (lookup false None []) (fun _ => None)) by reflexivity.
      rewrite rsum_none, J_nil. cbn [pc_contrib]. ring.
    + cbn [keys map fst] in Hpl, Hin. destruct Hpl as [Hpk Hkt]. fold (keys t) in Hkt, Hin.
      assert (Hk : In k (q :: P'')) by (apply Hin; left; reflexivity).
      destruct (cmpP q k) as [Hqk _|Heq|Hkq _].
      * (* q < k: q is not a step point *)
        assert (Hin' : incl (keys ((k, v) :: t)) P'').
        { intros x Hx. destruct (Hin x Hx) as [E|H]; [|exact H]. subst x. exfalso.
          destruct Hx as [E|Hx]; [cbn in E; subst k; rewrite ltb_irrefl in Hqk; discriminate|].
          pose proof (ksorted_from_lt _ _ _ Hkt Hx) as H1. rewrite (ltb_asym _ _ Hqk) in H1. discriminate. }
        rewrite (IH q cur ((k, v) :: t) HP2 Hl); [| |exact Hin'|exact Ht].
        -- rewrite !J_cons. rewrite <- (contrib_split cur p q k). ring.
        -- cbn [keys map fst]. split; [exact Hqk|exact Hkt].
      * (* q = k: the step point itself *)
        subst q.
        assert (Hin' : incl (keys t) P'').
        { intros x Hx. destruct (Hin x (or_intror Hx)) as [E|H]; [|exact H]. subst x. exfalso.
          exact (ksorted_from_notin _ _ Hkt Hx). }
        rewrite (rsum_ext (lookup false cur ((k, v) :: t)) (lookup false v t)).
        -- rewrite (IH k v t HP2 (ksorted_from_ksorted _ _ Hkt) Hkt Hin' Ht). rewrite J_cons. reflexivity.
        -- intros x [E|Hx].
           ++ subst x. rewrite (lookup_R_self _ cur k v t Hkt). symmetry. eapply lookup_le_lo; [exact Hkt|apply ltb_irrefl].
           ++ apply lookup_R_after. apply ksorted_cons in HP2. eapply ksorted_from_lt; eauto.
      * (* k < q: impossible, k is in q :: P'' which lies at or above q *)
        exfalso. destruct Hk as [E|Hk]; [subst k; rewrite ltb_irrefl in Hkq; discriminate|].
        apply ksorted_cons in HP2. pose proof (ksorted_from_lt _ _ _ HP2 Hk) as H1.
        rewrite (ltb_asym _ _ Hkq) in H1. discriminate.
Qed.

(* for a table that is undefined before its first and after its last step point: any sorted partition containing its step
   points gives its integral *)
Theorem integral_over_any_refinement (l : ser) (P : list Qc) :
  sorted l -> ksorted P -> incl (keys l) P -> tail_none None l ->
  piece_integral (fin_pieces l) = rsum (lookup false None l) P.
Proof.
  intros Hl HP Hin Ht. destruct P as [|p0 P'].
  - destruct l as [|[k v] t]; [reflexivity|]. exfalso. apply (Hin k). left. reflexivity.
  - set (p := p0 - 1).
    assert (Hlt : ltb p p0 = true).
    { apply ltb_lt. unfold p. apply Qclt_minus_iff. replace (p0 + - (p0 - 1)) with 1 by ring. reflexivity. }
    assert (HP' : ksorted (p :: p0 :: P')) by (apply ksorted_cons; split; [exact Hlt|apply ksorted_cons; exact HP]).
    assert (Hpl : ksorted_from p (keys l)).
    { assert (G : forall ks, (forall x, In x ks -> ltb p x = true) -> ksorted ks -> ksorted_from p ks).
      { intros ks Hall Hs. destruct ks as [|x ks']; [exact I|]. split; [apply Hall; left; reflexivity|apply ksorted_cons; exact Hs]. }
      apply G; [|exact Hl]. intros x Hx. destruct (Hin x Hx) as [E|Hx'].
      - subst x. exact Hlt.
      - eapply ltb_trans; [exact Hlt|]. apply ksorted_cons in HP. eapply ksorted_from_lt; eauto. }
    pose proof (rsum_refines (p0 :: P') p None l HP' Hl Hpl Hin Ht) as R.
    rewrite rsum_cons2 in R.
    assert (E0 : @lookup Qc _ V false None l p = None) by (eapply lookup_le_lo; [exact Hpl|apply ltb_irrefl]).
    rewrite E0 in R. cbn [pc_contrib] in R.
    transitivity (J None p l).
    + unfold J. destruct l as [|[k v] t]; [reflexivity|]. rewrite pint_cons2. cbn [pc_contrib]. ring.
    + rewrite <- R. apply Qcplus_0_l.
Qed.
