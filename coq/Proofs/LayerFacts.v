(* Proofs/LayerFacts.v — layering: each layered triple adds +value from its start and -value from its end,
   at every point where the receiver is defined; undefined points stay undefined *)
From Coq Require Import List Bool Arith Lia QArith Qcanon.
Import ListNotations.
Require Import SC.Base.Ord SC.Base.Val SC.Base.Series SC.Model.Repr SC.Model.Ops SC.Model.Masking SC.Model.Sampling.
Require Import SC.Spec.Den SC.Proofs.SeriesFacts SC.Proofs.ReprFacts SC.Proofs.DeltaFacts SC.Proofs.OpsFacts.
Open Scope Qc_scope.

Section LayerFacts.
Context {D : Type} `{Ord D}.
Notation ser := (list (D * V)).
Notation stairs := (stairs D).

(* +v from p on (None: from -infinity on) *)
Definition step_from (s : bool) (p : option D) (v : Qc) (x : D) : Qc :=
  match p with None => v | Some a => if before s a x then v else 0 end.
(* the contribution of one triple: +v from its start, -v from its end (None end: never) *)
Definition contrib (s : bool) (t : triple (D := D)) (x : D) : Qc :=
  let '(st, en, v) := t in
  step_from s st v x - match en with None => 0 | Some b => if before s b x then v else 0 end.

Lemma cumsum_shift (d : ser) a c : nan_free d -> forall s x,
  lookup s (Some (a + c)) (cumsum (a + c) d) x = vadd (lookup s (Some a) (cumsum a d) x) (Some c).
Proof.
  intros Hn s x.
  rewrite (cumsum_shift_l Qcplus) by (intros; ring).
  change (Some (a + c)) with (vlift2 Qcplus (Some a) (Some c)).
  apply (lookup_map_vals V V (fun v => vlift2 Qcplus v (Some c))).
Qed.

(* adding v to the step change at p *)
Lemma lookup_upsert s v : forall (d : ser) a p x, sorted d -> nan_free d ->
  lookup s (Some a) (cumsum a (upsert p (Some v) (fun d0 => vadd d0 (Some v)) d)) x =
  vadd (lookup s (Some a) (cumsum a d) x) (Some (if before s p x then v else 0)).
Proof.
  induction d as [|[k dk] t IH]; intros a p x Hs Hn.
  - simpl. destruct (before s p x); simpl; f_equal; ring.
  - apply nan_free_cons in Hn. destruct Hn as [[y ->] Hn].
    assert (Ht : sorted t) by (eapply sorted_tail; eauto).
    simpl upsert. destruct (cmpP p k) as [Hlt Hnl|Heq|Hgt Hnl].
    + rewrite Hlt. simpl. destruct (before s p x) eqn:B.
      * destruct (before s k x); [|reflexivity].
        replace (a + v + y) with (a + y + v) by ring. apply cumsum_shift. exact Hn.
      * rewrite (@before_mono _ _ s p k x Hlt B). simpl. f_equal. ring.
    + subst k. rewrite ltb_irrefl. simpl. destruct (before s p x) eqn:B.
      * replace (a + (y + v)) with (a + y + v) by ring. apply cumsum_shift. exact Hn.
      * simpl. f_equal. ring.
    + rewrite Hnl, Hgt. simpl. destruct (before s k x) eqn:B.
      * apply IH; auto.
      * rewrite (@before_mono _ _ s k p x Hgt B). simpl. f_equal. ring.
Qed.

Lemma upsert_keys_from v : forall (d : ser) lo p, ltb lo p = true ->
  ksorted_from lo (keys d) -> ksorted_from lo (keys (upsert p (Some v) (fun d0 => vadd d0 (Some v)) d)).
Proof.
  induction d as [|[k dk] t IH]; intros lo p Hlo Hs; simpl.
  - auto.
  - destruct Hs as [Hk Hs]. destruct (cmpP p k) as [Hlt Hnl|Heq|Hgt Hnl].
    + rewrite Hlt. simpl. auto.
    + subst k. rewrite ltb_irrefl. simpl. auto.
    + rewrite Hnl, Hgt. simpl. split; auto.
Qed.

Lemma upsert_sorted v (d : ser) p : sorted d -> sorted (upsert p (Some v) (fun d0 => vadd d0 (Some v)) d).
Proof.
  destruct d as [|[k dk] t]; intros Hs; simpl; [exact I|].
  destruct (cmpP p k) as [Hlt Hnl|Heq|Hgt Hnl].
  - rewrite Hlt. unfold sorted. simpl. split; auto.
  - subst k. rewrite ltb_irrefl. exact Hs.
  - rewrite Hnl, Hgt. unfold sorted. simpl. apply upsert_keys_from; auto.
Qed.

Lemma upsert_nan_free v : forall (d : ser) p, nan_free d -> nan_free (upsert p (Some v) (fun d0 => vadd d0 (Some v)) d).
Proof.
  induction d as [|[k dk] t IH]; intros p Hn; simpl.
  - reflexivity.
  - apply nan_free_cons in Hn. destruct Hn as [[y ->] Hn].
    destruct (ltb p k); [|destruct (ltb k p)]; apply nan_free_cons; split; simpl; eauto;
      try (apply (proj2 (nan_free_cons k (Some y) t)); eauto).
Qed.

(* dropping the row at p when its change is exactly zero *)
Lemma lookup_remove_zero s : forall (l : ser) a p x, sorted l -> nan_free l ->
  find p l = Some (Some 0) ->
  lookup s (Some a) (cumsum a (remove_key p l)) x = lookup s (Some a) (cumsum a l) x.
Proof.
  induction l as [|[k dk] t IH]; intros a p x Hs Hn Hf; simpl in *; [discriminate|].
  apply nan_free_cons in Hn. destruct Hn as [[y ->] Hn].
  assert (Ht : sorted t) by (eapply sorted_tail; eauto).
  destruct (cmpP k p) as [Hlt Hnl|Heq|Hgt Hnl].
  - rewrite Hlt in Hf. assert (Ed : deqb k p = false).
    { destruct (deqb k p) eqn:E; auto. apply deqb_eq in E. subst. rewrite ltb_irrefl in Hlt. discriminate. }
    rewrite Ed. simpl. destruct (before s k x); auto.
  - subst k. rewrite ltb_irrefl in Hf. injection Hf as ->. rewrite deqb_refl.
    simpl. replace (a + 0) with a by ring. destruct (before s p x) eqn:B; auto.
    apply (lookup_not_before V s (Some a) p (cumsum a t) x); auto. rewrite keys_cumsum. exact Hs.
  - rewrite Hnl, Hgt in Hf. discriminate.
Qed.

Lemma remove_key_keys_from lo : forall (l : ser) p, ksorted_from lo (keys l) -> ksorted_from lo (keys (remove_key p l)).
Proof.
  intros l. revert lo. induction l as [|[k dk] t IH]; intros lo p Hs; simpl; auto.
  destruct Hs as [Hk Hs]. destruct (deqb k p).
  - eapply ksorted_from_weaken; eauto.
  - simpl. split; auto.
Qed.

Lemma remove_key_sorted (l : ser) p : sorted l -> sorted (remove_key p l).
Proof.
  destruct l as [|[k dk] t]; intros Hs; simpl; auto. destruct (deqb k p).
  - eapply sorted_tail; eauto.
  - unfold sorted. simpl. apply remove_key_keys_from. exact Hs.
Qed.

Lemma remove_key_nan_free : forall (l : ser) p, nan_free l -> nan_free (remove_key p l).
Proof.
  induction l as [|[k dk] t IH]; intros p Hn; simpl; auto.
  apply nan_free_cons in Hn. destruct Hn as [[y ->] Hn]. destruct (deqb k p); auto.
  apply nan_free_cons. split; eauto.
Qed.

(* dl_add: +v at p, with or without dropping an exact zero *)
Lemma dl_add_spec s drop v (d : ser) a p x : sorted d -> nan_free d ->
  sorted (dl_add drop p v d) /\ nan_free (dl_add drop p v d) /\
  lookup s (Some a) (cumsum a (dl_add drop p v d)) x =
  vadd (lookup s (Some a) (cumsum a d) x) (Some (if before s p x then v else 0)).
Proof.
  intros Hs Hn. unfold dl_add.
  pose proof (upsert_sorted v d p Hs) as S1. pose proof (upsert_nan_free v d p Hn) as N1.
  pose proof (lookup_upsert s v d a p x Hs Hn) as L1.
  destruct drop; [|auto].
  destruct (find p _) as [[z|]|] eqn:Ef; auto.
  destruct (Qceqb z 0) eqn:Ez; auto. apply Qceqb_eq in Ez. subst z.
  split; [apply remove_key_sorted; auto|]. split; [apply remove_key_nan_free; auto|].
  rewrite lookup_remove_zero; auto.
Qed.

(* one triple on the step-change form: (initial value, changes) -> (initial value, changes) *)
Definition apply_triple (drop : bool) (ad : Qc * ser) (t : triple (D := D)) : Qc * ser :=
  let '(st, en, v) := t in
  let a := fst ad in let d := snd ad in
  let a' := match st with None => a + v | Some _ => a end in
  let d1 := match st with Some p => dl_add drop p v d | None => d end in
  let d2 := match en with Some q => dl_add drop q (- v) d1 | None => d1 end in
  (a', d2).

Lemma apply_triple_spec s drop (a : Qc) (d : ser) (t : triple) x : sorted d -> nan_free d ->
  let '(a', d') := apply_triple drop (a, d) t in
  sorted d' /\ nan_free d' /\
  lookup s (Some a') (cumsum a' d') x = vadd (lookup s (Some a) (cumsum a d) x) (Some (contrib s t x)).
Proof.
  intros Hs Hn. destruct t as [[st en] v]. simpl.
  set (d1 := match st with Some p => dl_add drop p v d | None => d end).
  assert (H1 : sorted d1 /\ nan_free d1 /\
               lookup s (Some a) (cumsum a d1) x =
               vadd (lookup s (Some a) (cumsum a d) x) (Some (match st with Some p => if before s p x then v else 0 | None => 0 end))).
  { unfold d1. destruct st as [p|].
    - apply dl_add_spec; auto.
    - repeat split; auto. destruct (lookup_cumsum_some s d a x Hn) as [y ->]. simpl. f_equal. ring. }
  destruct H1 as (S1 & N1 & L1).
  set (a' := match st with None => a + v | Some _ => a end).
  assert (H2 : lookup s (Some a') (cumsum a' d1) x = vadd (lookup s (Some a) (cumsum a d) x) (Some (step_from s st v x))).
  { unfold a', step_from. destruct st as [p|].
    - exact L1.
    - rewrite cumsum_shift by exact N1. rewrite L1.
      destruct (lookup_cumsum_some s d a x Hn) as [y ->]. simpl. f_equal. ring. }
  destruct en as [q|].
  - destruct (dl_add_spec s drop (- v) d1 a' q x S1 N1) as (S2 & N2 & L2).
    split; [exact S2|split; [exact N2|]]. rewrite L2, H2.
    destruct (lookup_cumsum_some s d a x Hn) as [y ->]. simpl. f_equal.
    destruct (before s q x); ring.
  - split; [exact S1|split; [exact N1|]]. rewrite H2.
    destruct (lookup_cumsum_some s d a x Hn) as [y ->]. simpl. f_equal. ring.
Qed.

(* ---- the whole of a layer call *)
Definition contribs (s : bool) (a : layer_args (D := D)) (x : D) : Qc :=
  match a with
  | LScalar st en v => contrib s (st, en, v) x
  | LVector ts => fold_right (fun t acc => contrib s t x + acc) 0 ts
  end.

Lemma has_na_of_deltas a (d : ser) c : nan_free d -> has_na (of_deltas (Some a) d c) = false.
Proof.
  intros Hn. unfold has_na, of_deltas. simpl. destruct d as [|pw t]; simpl; auto.
  rewrite orb_false_r. exact Hn.
Qed.

Lemma lim_of_deltas a (d : ser) c sd x :
  lim sd (of_deltas (Some a) d c) x = lookup (strict_of sd) (Some a) (cumsum a d) x.
Proof. unfold lim. rewrite get_values_of_deltas. reflexivity. Qed.

Lemma lim_plain (f : stairs) a sd x : wf f -> has_na f = false -> init f = Some a ->
  lim sd f x = lookup (strict_of sd) (Some a) (cumsum a (get_deltas f)) x.
Proof.
  intros Wf Hn Ha. unfold lim. rewrite (no_na_values_from_deltas f a Wf Hn Ha), Ha. reflexivity.
Qed.

Definition plain_result (r f : stairs) (a : layer_args) : Prop :=
  wf r /\ closed r = closed f /\ has_na r = false /\
  forall sd x, lim sd r x = vadd (lim sd f x) (Some (contribs (strict_of sd) a x)).

Lemma scalar_as_triple (f : stairs) a0 st en v :
  init f = Some a0 ->
  layer_scalar_plain f st en v =
  match st, en with
  | Some a, Some b => if deqb a b then f else
      of_deltas (Some (fst (apply_triple true (a0, get_deltas f) (st, en, v)))) (snd (apply_triple true (a0, get_deltas f) (st, en, v))) (closed f)
  | _, _ => of_deltas (Some (fst (apply_triple true (a0, get_deltas f) (st, en, v)))) (snd (apply_triple true (a0, get_deltas f) (st, en, v))) (closed f)
  end.
Proof.
  intros Ha. unfold layer_scalar_plain. rewrite Ha. destruct st as [a|], en as [b|]; simpl; auto.
Qed.

Theorem layer_scalar_plain_spec (f : stairs) st en v :
  wf f -> has_na f = false -> plain_result (layer_scalar_plain f st en v) f (LScalar st en v).
Proof.
  intros Wf Hn. destruct (no_na_init f Hn) as [a0 Ha].
  pose proof (wf_sorted_deltas f Wf) as Sd. pose proof (no_na_deltas f Wf Hn) as Nd.
  rewrite (scalar_as_triple f a0 st en v Ha).
  assert (Hgen : plain_result
            (of_deltas (Some (fst (apply_triple true (a0, get_deltas f) (st, en, v))))
                       (snd (apply_triple true (a0, get_deltas f) (st, en, v))) (closed f)) f (LScalar st en v)).
  { destruct (apply_triple true (a0, get_deltas f) (st, en, v)) as [a' d'] eqn:Et.
    assert (Hsp : forall s x, sorted d' /\ nan_free d' /\
              lookup s (Some a') (cumsum a' d') x = vadd (lookup s (Some a0) (cumsum a0 (get_deltas f)) x) (Some (contrib s (st, en, v) x))).
    { intros s x. pose proof (apply_triple_spec s true a0 (get_deltas f) (st, en, v) x Sd Nd) as Hx. rewrite Et in Hx. exact Hx. }
    simpl fst. simpl snd.
    assert (Sd' : sorted d') by (destruct st as [p|]; [exact (proj1 (Hsp false p))|destruct en as [q|]; [exact (proj1 (Hsp false q))|
       simpl in Et; injection Et as _ <-; exact Sd]]).
    assert (Nd' : nan_free d') by (destruct st as [p|]; [exact (proj1 (proj2 (Hsp false p)))|destruct en as [q|]; [exact (proj1 (proj2 (Hsp false q)))|
       simpl in Et; injection Et as _ <-; exact Nd]]).
    split; [apply wf_of_deltas; exact Sd'|]. split; [reflexivity|]. split; [apply has_na_of_deltas; exact Nd'|].
    intros sd x. rewrite lim_of_deltas, (lim_plain f a0 sd x Wf Hn Ha). exact (proj2 (proj2 (Hsp (strict_of sd) x))). }
  destruct st as [a|]; [|exact Hgen]. destruct en as [b|]; [|exact Hgen].
  destruct (deqb a b) eqn:E; [|exact Hgen].
  apply deqb_eq in E. subst b. split; [exact Wf|]. split; [reflexivity|]. split; [exact Hn|].
  intros sd x. simpl. destruct (lim sd f x) as [y|]; simpl; auto. f_equal.
  destruct (before (strict_of sd) a x); ring.
Qed.

Lemma mass_acc (ts : list (triple (D := D))) acc :
  fold_left (fun acc t => match t with (None, _, v) => acc + v | _ => acc end) ts acc =
  acc + nan_start_mass ts.
Proof.
  unfold nan_start_mass. revert acc. induction ts as [|[[st en] v] ts IH]; intros acc; simpl.
  - ring.
  - destruct st; rewrite IH; [|rewrite (IH (0 + v))]; ring.
Qed.

Lemma vec_as_fold : forall (ts : list (triple (D := D))) a (d : ser),
  fold_left (apply_triple false) ts (a, d) = (a + nan_start_mass ts, vec_deltas ts d).
Proof.
  induction ts as [|[[st en] v] ts IH]; intros a d; simpl.
  - unfold nan_start_mass. simpl. f_equal. ring.
  - rewrite IH. f_equal. unfold nan_start_mass. simpl. destruct st; rewrite ?mass_acc; try ring.
Qed.

Lemma fold_triples_spec s : forall (ts : list (triple (D := D))) a (d : ser) x, sorted d -> nan_free d ->
  let '(a', d') := fold_left (apply_triple false) ts (a, d) in
  sorted d' /\ nan_free d' /\
  lookup s (Some a') (cumsum a' d') x =
  vadd (lookup s (Some a) (cumsum a d) x) (Some (fold_right (fun t acc => contrib s t x + acc) 0 ts)).
Proof.
  induction ts as [|t ts IH]; intros a d x Sd Nd; simpl.
  - split; auto. split; auto. destruct (lookup_cumsum_some s d a x Nd) as [y ->]. simpl. f_equal. ring.
  - pose proof (apply_triple_spec s false a d t x Sd Nd) as H1.
    destruct (apply_triple false (a, d) t) as [a1 d1]. destruct H1 as (S1 & N1 & L1).
    specialize (IH a1 d1 x S1 N1). destruct (fold_left (apply_triple false) ts (a1, d1)) as [a' d'].
    destruct IH as (S2 & N2 & L2). split; auto. split; auto.
    rewrite L2, L1. destruct (lookup_cumsum_some s d a x Nd) as [y ->]. simpl. f_equal. ring.
Qed.

Lemma dl_add_ok drop p v (d : ser) : sorted d -> nan_free d ->
  sorted (dl_add drop p v d) /\ nan_free (dl_add drop p v d).
Proof.
  intros Sd Nd. destruct (dl_add_spec false drop v d 0 p p Sd Nd) as (S1 & N1 & _). auto.
Qed.

Lemma vec_deltas_ok : forall (ts : list (triple (D := D))) (d : ser), sorted d -> nan_free d ->
  sorted (vec_deltas ts d) /\ nan_free (vec_deltas ts d).
Proof.
  induction ts as [|[[st en] v] ts IH]; intros d Sd Nd; simpl; auto.
  assert (H1 : sorted (match st with Some a => dl_add false a v d | None => d end) /\
               nan_free (match st with Some a => dl_add false a v d | None => d end)).
  { destruct st as [p|]; [apply dl_add_ok; auto|auto]. }
  destruct H1 as [S1 N1].
  destruct en as [q|]; [|apply IH; auto].
  destruct (dl_add_ok false q (- v) _ S1 N1) as [S2 N2]. apply IH; auto.
Qed.

Theorem layer_vector_plain_spec (f : stairs) ts :
  wf f -> has_na f = false -> plain_result (layer_vector_plain f ts) f (LVector ts).
Proof.
  intros Wf Hn. destruct (no_na_init f Hn) as [a0 Ha].
  pose proof (wf_sorted_deltas f Wf) as Sd. pose proof (no_na_deltas f Wf Hn) as Nd.
  unfold layer_vector_plain. rewrite Ha. simpl vadd.
  assert (Hf : forall s x, sorted (vec_deltas ts (get_deltas f)) /\ nan_free (vec_deltas ts (get_deltas f)) /\
     lookup s (Some (a0 + nan_start_mass ts)) (cumsum (a0 + nan_start_mass ts) (vec_deltas ts (get_deltas f))) x =
     vadd (lookup s (Some a0) (cumsum a0 (get_deltas f)) x) (Some (fold_right (fun t acc => contrib s t x + acc) 0 ts))).
  { intros s x. pose proof (fold_triples_spec s ts a0 (get_deltas f) x Sd Nd) as Hx.
    rewrite vec_as_fold in Hx. exact Hx. }
  destruct (vec_deltas_ok ts (get_deltas f) Sd Nd) as [Sv Nv].
  destruct (canon_deltas (a0 + nan_start_mass ts) _ (closed f) Sv Nv) as (C1 & C2 & C3 & C4).
  split; [exact C1|]. split; [exact C2|]. split.
  - rewrite rr_of_deltas. apply has_na_of_deltas. apply drop_flagged_nan_free. exact Nv.
  - intros sd x. rewrite C4, (lim_plain f a0 sd x Wf Hn Ha). exact (proj2 (proj2 (Hf (strict_of sd) x))).
Qed.

Theorem layer_plain_spec (f : stairs) a : wf f -> has_na f = false -> plain_result (layer_plain f a) f a.
Proof.
  intros Wf Hn. destruct a as [st en v|ts]; simpl.
  - apply layer_scalar_plain_spec; auto.
  - apply layer_vector_plain_spec; auto.
Qed.

(* layering: at every point where the receiver is defined, previous value plus the layered triples;
   undefined points stay undefined; the closed side is kept *)
Theorem layer_spec (f : stairs) a : wf f ->
  wf (layer f a) /\ closed (layer f a) = closed f /\
  forall sd x, lim sd (layer f a) x =
    match lim sd f x with None => None | Some y => Some (y + contribs (strict_of sd) a x) end.
Proof.
  intros Wf. unfold layer. destruct (data f) as [fr|] eqn:Df.
  - destruct (has_na f) eqn:Hn.
    + assert (W0 : wf (@const D (Some 0) (closed f))) by exact I.
      assert (N0 : has_na (@const D (Some 0) (closed f)) = false) by reflexivity.
      destruct (layer_plain_spec (const (Some 0) (closed f)) a W0 N0) as (P1 & P2 & _ & P4).
      destruct (add_or_sub_spec false f (layer_plain (const (Some 0) (closed f)) a) Wf P1) as (A1 & A2 & A3).
      split; [exact A1|]. split.
      * rewrite A2. unfold result_side, has_steps. rewrite Df. reflexivity.
      * intros sd x. rewrite A3, P4, lim_const. simpl. destruct (lim sd f x); simpl; auto. f_equal. ring.
    + destruct (layer_plain_spec f a Wf Hn) as (P1 & P2 & _ & P4).
      split; [exact P1|]. split; [exact P2|]. intros sd x. rewrite P4. destruct (lim sd f x); reflexivity.
  - destruct (init f) as [a0|] eqn:Ia; simpl.
    + assert (Hn : has_na f = false) by (unfold has_na; rewrite Ia, Df; reflexivity).
      destruct (layer_plain_spec f a Wf Hn) as (P1 & P2 & _ & P4).
      split; [exact P1|]. split; [exact P2|]. intros sd x. rewrite P4. destruct (lim sd f x); reflexivity.
    + split; [exact Wf|]. split; [reflexivity|]. intros sd x. rewrite (lim_no_data f sd x Df), Ia. reflexivity.
Qed.

(* any history of layer calls *)
Theorem layer_history (calls : list layer_args) : forall (f : stairs), wf f ->
  let r := fold_left layer calls f in
  wf r /\ closed r = closed f /\
  forall sd x, lim sd r x =
    match lim sd f x with
    | None => None
    | Some y => Some (y + fold_right (fun a acc => contribs (strict_of sd) a x + acc) 0 calls)
    end.
Proof.
  induction calls as [|a calls IH]; intros f Wf; simpl.
  - split; auto. split; auto. intros sd x. destruct (lim sd f x); auto. f_equal. ring.
  - destruct (layer_spec f a Wf) as (L1 & L2 & L3).
    destruct (IH (layer f a) L1) as (H1 & H2 & H3).
    split; [exact H1|]. split; [congruence|]. intros sd x. rewrite H3, L3.
    destruct (lim sd f x); auto. f_equal. ring.
Qed.

End LayerFacts.

From Coq Require Import Permutation.
Require Import SC.Proofs.MaskFacts.
Section LayerOrder.
Context {D : Type} `{Ord D}.

Lemma sum_perm (A : Type) (g : A -> Qc) (l l' : list A) : Permutation l l' ->
  fold_right (fun a acc => g a + acc) 0 l = fold_right (fun a acc => g a + acc) 0 l'.
Proof.
  induction 1; simpl; auto.
  - rewrite IHPermutation. reflexivity.
  - ring.
  - congruence.
Qed.

(* the order of layering does not matter *)
Theorem layer_order_irrelevant (calls calls' : list (layer_args (D := D))) (f : stairs D) :
  wf f -> Permutation calls calls' ->
  deq (fold_left layer calls f) (fold_left layer calls' f).
Proof.
  intros Wf Hp. destruct (layer_history calls f Wf) as (_ & C1 & L1).
  destruct (layer_history calls' f Wf) as (_ & C2 & L2).
  split; [congruence|]. intros sd x. rewrite L1, L2.
  destruct (lim sd f x); auto. f_equal. f_equal.
  apply (sum_perm _ (fun a => contribs (strict_of sd) a x)). exact Hp.
Qed.

(* scalar and one-element vector arguments denote the same triple *)
Theorem scalar_vs_vector (f : stairs D) st en v : wf f ->
  deq (layer f (LScalar st en v)) (layer f (LVector [(st, en, v)])).
Proof.
  intros Wf. destruct (layer_spec f (LScalar st en v) Wf) as (_ & C1 & L1).
  destruct (layer_spec f (LVector [(st, en, v)]) Wf) as (_ & C2 & L2).
  split; [congruence|]. intros sd x. rewrite L1, L2. destruct (lim sd f x); auto.
  f_equal. f_equal. simpl. ring.
Qed.

(* the tuple shorthand of mask: the indicator of the interval from lo to hi *)
Theorem mask_tuple_spec (f r : stairs D) lo hi : wf f -> mask_tuple f lo hi = Ok r ->
  wf r /\ forall sd x, lim sd r x =
    if Qceqb (contrib (strict_of sd) (lo, hi, 1) x) 0 then lim sd f x else None.
Proof.
  intros Wf. unfold mask_tuple.
  assert (W0 : wf (@const D (Some 0) (closed f))) by exact I.
  destruct (layer_spec (const (Some 0) (closed f)) (LScalar lo hi 1) W0) as (L1 & L2 & L3).
  intros E. destruct (mask_stairs_spec false f _ r Wf L1 E) as (M1 & _ & M3).
  split; [exact M1|]. intros sd x. rewrite M3, L3, lim_const. unfold vmaskw, vmask.
  replace (0 + contribs (strict_of sd) (LScalar lo hi 1) x) with (contrib (strict_of sd) (lo, hi, 1) x) by (simpl; ring).
  reflexivity.
Qed.

End LayerOrder.
