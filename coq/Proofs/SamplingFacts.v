(* Proofs/SamplingFacts.v — evaluation returns the one-sided limits of the represented function;
   the structural views describe that same function. *)
From Coq Require Import List Bool Arith Lia QArith Qcanon.
Import ListNotations.
Require Import SC.Base.Ord SC.Base.Val SC.Base.Series SC.Model.Repr SC.Model.Ops SC.Model.Sampling.
Require Import SC.Spec.Den SC.Proofs.SeriesFacts SC.Proofs.ReprFacts SC.Proofs.DeltaFacts.
Open Scope Qc_scope.

(* a domain without end points in which between any two points there is a third *)
Class DenseOrd (D : Type) `{Ord D} := {
  between : forall x y : D, ltb x y = true -> { z : D | ltb x z = true /\ ltb z y = true };
  above : forall x : D, { y : D | ltb x y = true };
  below : forall x : D, { y : D | ltb y x = true } }.

Section SamplingFacts.
Context {D : Type} `{Ord D}.
Notation ser := (list (D * V)).
Notation stairs := (stairs D).

Theorem limit_is_lim (f : stairs) sd x : limit f sd x = lim sd f x.
Proof.
  unfold limit, lim. destruct (data f) eqn:Hd.
  - apply limit_idx_lookup.
  - unfold get_values. rewrite Hd. reflexivity.
Qed.

Theorem sample_is_fn (f : stairs) x : sample f x = fn f x.
Proof. unfold sample, fn. apply limit_is_lim. Qed.

(* away from a step point the two limits and the value coincide *)
Lemma lookup_agree s s' (v0 : V) : forall (l : ser) z x,
  (forall p, In p (keys l) -> before s p z = before s' p x) ->
  lookup s v0 l z = lookup s' v0 l x.
Proof.
  intros l. revert v0. induction l as [|[p v] t IH]; intros v0 z x Hk; simpl; auto.
  rewrite (Hk p) by (simpl; auto). destruct (before s' p x); auto.
  apply IH. intros q Hq. apply Hk. simpl; auto.
Qed.

Theorem limits_agree_off_steps (f : stairs) x :
  ~ In x (step_points f) -> wf f -> lim LimLeft f x = lim LimRight f x.
Proof.
  intros Hx Wf. unfold lim. apply lookup_agree. intros p Hp. simpl. unfold before.
  destruct (cmpP p x) as [Hlt Hn|Heq|Hgt Hn].
  - rewrite Hlt. symmetry. apply ltb_leb. auto.
  - subst p. exfalso. apply Hx. unfold step_points, get_values, frame_values in *.
    destruct (data f) as [fr|]; [|destruct Hp]. unfold wf in Wf.
    destruct (vcol fr) as [v|] eqn:Ev; auto. destruct (dcol fr) as [d|]; [|destruct Hp].
    rewrite keys_vals_of_deltas in Hp. auto.
  - rewrite Hn. unfold leb. rewrite Hgt. reflexivity.
Qed.

(* around every point there is a punctured neighbourhood free of step points *)
Lemma right_gap `{!DenseOrd D} (x : D) : forall l : list D,
  exists y, ltb x y = true /\ forall p, In p l -> ltb x p = true -> leb y p = true.
Proof.
  induction l as [|p t [y [Hy IH]]].
  - destruct (above x) as [y Hy]. exists y. split; auto; intros p [] .
  - destruct (ltb x p) eqn:E.
    + destruct (ltb p y) eqn:Epy.
      * exists p. split; auto. intros q [->|Hq] Hxq; [apply leb_refl|].
        eapply leb_trans; [apply ltb_leb; eauto|auto].
      * exists y. split; auto. intros q [->|Hq] Hxq; auto. unfold leb. rewrite Epy. reflexivity.
    + exists y. split; auto. intros q [->|Hq] Hxq; [congruence|auto].
Qed.

Lemma left_gap `{!DenseOrd D} (x : D) : forall l : list D,
  exists y, ltb y x = true /\ forall p, In p l -> ltb p x = true -> leb p y = true.
Proof.
  induction l as [|p t [y [Hy IH]]].
  - destruct (below x) as [y Hy]. exists y. split; auto; intros p [] .
  - destruct (ltb p x) eqn:E.
    + destruct (ltb y p) eqn:Eyp.
      * exists p. split; auto. intros q [->|Hq] Hqx; [apply leb_refl|].
        eapply leb_trans; [auto|apply ltb_leb; eauto].
      * exists y. split; auto. intros q [->|Hq] Hqx; auto. unfold leb. rewrite Eyp. reflexivity.
    + exists y. split; auto. intros q [->|Hq] Hqx; [congruence|auto].
Qed.

(* limit(x, 'right') is the limit of f(z) as z decreases to x; limit(x, 'left') as z increases to x:
   f is constant, equal to that limit, on a punctured one-sided neighbourhood of x (which is inhabited,
   the domain being dense), whatever the closed convention *)
Theorem lim_is_one_sided_limit `{!DenseOrd D} (f : stairs) (x : D) :
  (exists y, ltb x y = true /\ (exists z, ltb x z = true /\ ltb z y = true) /\
             forall z, ltb x z = true -> ltb z y = true ->
               fn f z = lim LimRight f x /\ lim LimLeft f z = lim LimRight f x /\ lim LimRight f z = lim LimRight f x) /\
  (exists y, ltb y x = true /\ (exists z, ltb y z = true /\ ltb z x = true) /\
             forall z, ltb y z = true -> ltb z x = true ->
               fn f z = lim LimLeft f x /\ lim LimLeft f z = lim LimLeft f x /\ lim LimRight f z = lim LimLeft f x).
Proof.
  split.
  - destruct (right_gap x (keys (get_values f))) as [y [Hy Hgap]]. exists y. split; auto. split.
    { destruct (between x y Hy) as [z [H1 H2]]. eauto. }
    intros z Hxz Hzy.
    assert (Hs : forall s, lookup s (init f) (get_values f) z = lookup false (init f) (get_values f) x).
    { intros s. apply lookup_agree. intros p Hp.
      destruct (ltb x p) eqn:E.
      - (* p beyond x: p >= y > z *)
        assert (Hzp : ltb z p = true) by (eapply ltb_leb_trans; eauto).
        rewrite (before_gt s _ _ Hzp). simpl. unfold before, leb. rewrite E. reflexivity.
      - (* p <= x < z *)
        assert (Hpz : ltb p z = true) by (eapply leb_ltb_trans; [unfold leb; rewrite E; reflexivity|auto]).
        rewrite (before_lt s _ _ Hpz). simpl. unfold before, leb. rewrite E. reflexivity. }
    unfold fn, lim. repeat split; apply Hs.
  - destruct (left_gap x (keys (get_values f))) as [y [Hy Hgap]]. exists y. split; auto. split.
    { destruct (between y x Hy) as [z [H1 H2]]. eauto. }
    intros z Hyz Hzx.
    assert (Hs : forall s, lookup s (init f) (get_values f) z = lookup true (init f) (get_values f) x).
    { intros s. apply lookup_agree. intros p Hp.
      destruct (ltb p x) eqn:E.
      - (* p before x: p <= y < z *)
        assert (Hpz : ltb p z = true) by (eapply leb_ltb_trans; eauto).
        rewrite (before_lt s _ _ Hpz). simpl. auto.
      - (* p >= x > z *)
        assert (Hzp : ltb z p = true) by (eapply ltb_leb_trans; [eauto|unfold leb; rewrite E; reflexivity]).
        rewrite (before_gt s _ _ Hzp). simpl. auto. }
    unfold fn, lim. repeat split; apply Hs.
Qed.

(* ---- the structural views *)
Lemma reindex_self (v0 : V) : forall (l : ser), sorted l -> reindex_values (keys l) v0 l = l.
Proof.
  intros l. revert v0. induction l as [|[p v] t IH]; intros v0 Hs; [reflexivity|].
  simpl keys. rewrite reindex_cons. rewrite lookup_R_self by exact Hs. f_equal.
  transitivity (reindex_values (keys t) v t); [|apply IH; eapply sorted_tail; eauto].
  unfold reindex_values. apply map_ext_in. intros q Hq. f_equal. apply lookup_R_after.
  apply (@ksorted_from_lt _ _ p (keys t) q); [exact Hs|exact Hq].
Qed.

Lemma step_points_keys (f : stairs) : wf f -> step_points f = keys (get_values f).
Proof.
  unfold wf, step_points, get_values, frame_values. destruct (data f) as [fr|]; auto.
  intros (_ & _ & _ & _). destruct (vcol fr); auto. destruct (dcol fr); auto.
  rewrite keys_vals_of_deltas. reflexivity.
Qed.

Lemma step_points_keys_deltas (f : stairs) : wf f -> keys (step_changes f) = step_points f.
Proof.
  unfold wf, step_points, step_changes, get_deltas, frame_deltas. destruct (data f) as [fr|]; auto.
  intros (_ & _ & _ & Hc). destruct (dcol fr) as [d|], (vcol fr) as [v|]; auto.
  - rewrite (Hc d v eq_refl eq_refl), keys_vals_of_deltas. reflexivity.
  - apply keys_deltas_of_vals.
Qed.

Theorem views_agree (f : stairs) : wf f ->
  ksorted (step_points f) /\
  step_values f = map (fun p => (p, lim LimRight f p)) (step_points f) /\
  number_of_steps f = length (step_points f) /\
  keys (step_changes f) = step_points f /\
  fst (to_frame f) = init f /\ snd (to_frame f) = step_values f.
Proof.
  intros Wf. pose proof (wf_sorted_values f Wf) as Hs. rewrite step_points_keys by auto.
  repeat split; auto.
  - unfold step_values, lim. symmetry. apply (reindex_self (init f) _ Hs).
  - unfold number_of_steps. rewrite step_points_keys; auto.
  - rewrite <- step_points_keys by auto. apply step_points_keys_deltas; auto.
Qed.

(* for an everywhere-defined function, initial value plus the running sum of the step changes
   reproduces the step values *)
Theorem changes_sum_to_values (f : stairs) a : wf f -> has_na f = false -> init f = Some a ->
  step_values f = cumsum a (step_changes f).
Proof. intros Wf Hn Ha. apply no_na_values_from_deltas; auto. Qed.

End SamplingFacts.
