(* Proofs/AlgebraFacts.v — algebraic laws of the model's arithmetic, as corollaries of the operator
   specifications (OpsFacts): the results of the *algorithms* (delta path or value path, whichever the
   internal state selects) denote the same function, with the same closed side, whichever way round the
   operands are given. Statements are over every well-formed internal state of the operands. *)
From Coq Require Import List Bool Arith Lia QArith Qcanon.
Import ListNotations.
Require Import SC.Base.Ord SC.Base.Val SC.Base.Series SC.Model.Repr SC.Model.Ops SC.Model.Sampling.
Require Import SC.Spec.Den SC.Proofs.SeriesFacts SC.Proofs.ReprFacts SC.Proofs.DeltaFacts SC.Proofs.OpsFacts.
Open Scope Qc_scope.

Section AlgebraFacts.
Context {D : Type} `{Ord D}.
Notation stairs := (stairs D).

Lemma vneg_involutive a : vneg (vneg a) = a.
Proof. destruct a as [x|]; simpl; [f_equal; ring|reflexivity]. Qed.

Lemma vadd_comm a b : vadd a b = vadd b a.
Proof. destruct a as [x|], b as [y|]; simpl; try reflexivity. f_equal. ring. Qed.

Lemma vmul_comm a b : vmul a b = vmul b a.
Proof. destruct a as [x|], b as [y|]; simpl; try reflexivity. f_equal. ring. Qed.

Lemma vadd_assoc a b c : vadd (vadd a b) c = vadd a (vadd b c).
Proof. destruct a as [x|], b as [y|], c as [z|]; simpl; try reflexivity. f_equal. ring. Qed.

Lemma vmul_assoc a b c : vmul (vmul a b) c = vmul a (vmul b c).
Proof. destruct a as [x|], b as [y|], c as [z|]; simpl; try reflexivity. f_equal. ring. Qed.

Lemma vsub_as_add_neg a b : vsub a b = vadd a (vneg b).
Proof. destruct a as [x|], b as [y|]; simpl; try reflexivity. Qed.

Lemma result_side_same (f g : stairs) : closed f = closed g -> result_side f g = closed f.
Proof. intros E. unfold result_side. destruct (has_steps f), (has_steps g); congruence. Qed.

(* -(-f) is f *)
Theorem negate_involutive (f : stairs) : wf f -> deq (negate (negate f)) f.
Proof.
  intros Wf. destruct (negate_spec f Wf) as (W1 & C1 & L1).
  destruct (negate_spec (negate f) W1) as (_ & C2 & L2).
  split; [congruence|]. intros sd x. rewrite L2, L1. apply vneg_involutive.
Qed.

(* f + g is g + f *)
Theorem add_commutes (f g : stairs) :
  wf f -> wf g -> closed f = closed g -> deq (add_or_sub false f g) (add_or_sub false g f).
Proof.
  intros Wf Wg E.
  destruct (add_or_sub_spec false f g Wf Wg) as (_ & C1 & L1).
  destruct (add_or_sub_spec false g f Wg Wf) as (_ & C2 & L2).
  split.
  - rewrite C1, C2, (result_side_same f g E), (result_side_same g f (eq_sym E)). exact E.
  - intros sd x. rewrite L1, L2. apply vadd_comm.
Qed.

(* f * g is g * f *)
Theorem mul_commutes (f g : stairs) :
  wf f -> wf g -> closed f = closed g -> deq (mul_or_div false f g) (mul_or_div false g f).
Proof.
  intros Wf Wg E.
  destruct (mul_or_div_spec false f g Wf Wg) as ((_ & C1 & L1) & _).
  destruct (mul_or_div_spec false g f Wg Wf) as ((_ & C2 & L2) & _).
  split.
  - rewrite C1, C2, (result_side_same f g E), (result_side_same g f (eq_sym E)). exact E.
  - intros sd x. rewrite L1, L2. apply vmul_comm.
Qed.

(* f - g is f + (-g) *)
Theorem sub_is_add_negate (f g : stairs) :
  wf f -> wf g -> closed f = closed g -> deq (add_or_sub true f g) (add_or_sub false f (negate g)).
Proof.
  intros Wf Wg E. destruct (negate_spec g Wg) as (Wn & Cn & Ln).
  destruct (add_or_sub_spec true f g Wf Wg) as (_ & C1 & L1).
  destruct (add_or_sub_spec false f (negate g) Wf Wn) as (_ & C2 & L2).
  split.
  - rewrite C1, C2, (result_side_same f g E), (result_side_same f (negate g)); congruence.
  - intros sd x. rewrite L1, L2, Ln. apply vsub_as_add_neg.
Qed.

(* (f + g) + h is f + (g + h) *)
Theorem add_associates (f g h : stairs) :
  wf f -> wf g -> wf h -> closed f = closed g -> closed g = closed h ->
  deq (add_or_sub false (add_or_sub false f g) h) (add_or_sub false f (add_or_sub false g h)).
Proof.
  intros Wf Wg Wh E1 E2.
  destruct (add_or_sub_spec false f g Wf Wg) as (W1 & C1 & L1).
  destruct (add_or_sub_spec false g h Wg Wh) as (W2 & C2 & L2).
  destruct (add_or_sub_spec false _ h W1 Wh) as (_ & C3 & L3).
  destruct (add_or_sub_spec false f _ Wf W2) as (_ & C4 & L4).
  rewrite (result_side_same f g E1) in C1. rewrite (result_side_same g h E2) in C2.
  split.
  - rewrite C3, C4, result_side_same, result_side_same; congruence.
  - intros sd x. rewrite L3, L4, L1, L2. apply vadd_assoc.
Qed.

(* (f * g) * h is f * (g * h) *)
Theorem mul_associates (f g h : stairs) :
  wf f -> wf g -> wf h -> closed f = closed g -> closed g = closed h ->
  deq (mul_or_div false (mul_or_div false f g) h) (mul_or_div false f (mul_or_div false g h)).
Proof.
  intros Wf Wg Wh E1 E2.
  destruct (mul_or_div_spec false f g Wf Wg) as ((W1 & C1 & L1) & _).
  destruct (mul_or_div_spec false g h Wg Wh) as ((W2 & C2 & L2) & _).
  destruct (mul_or_div_spec false _ h W1 Wh) as ((_ & C3 & L3) & _).
  destruct (mul_or_div_spec false f _ Wf W2) as ((_ & C4 & L4) & _).
  rewrite (result_side_same f g E1) in C1. rewrite (result_side_same g h E2) in C2.
  split.
  - rewrite C3, C4, result_side_same, result_side_same; congruence.
  - intros sd x. rewrite L3, L4, L1, L2. apply vmul_assoc.
Qed.

(* ---- logical and relational operators *)
Lemma vlog_comm l a b : vlog l a b = vlog l b a.
Proof.
  destruct a as [x|], b as [y|]; try reflexivity. unfold vlog.
  replace (log_holds l y x) with (log_holds l x y); [reflexivity|].
  destruct l; unfold log_holds; [apply andb_comm|apply orb_comm|apply xorb_comm].
Qed.

Definition rel_swap (r : relop) : relop :=
  match r with RLt => RGt | RLe => RGe | RGt => RLt | RGe => RLe | REq => REq | RNe => RNe end.

Lemma Qceqb_sym x y : Qceqb x y = Qceqb y x.
Proof.
  destruct (Qceqb x y) eqn:E1, (Qceqb y x) eqn:E2; try reflexivity.
  - apply Qceqb_eq in E1. subst. rewrite (proj2 (Qceqb_eq y y) eq_refl) in E2. discriminate.
  - apply Qceqb_eq in E2. subst. rewrite (proj2 (Qceqb_eq x x) eq_refl) in E1. discriminate.
Qed.

Lemma vrel_swap r a b : vrel r a b = vrel (rel_swap r) b a.
Proof.
  destruct a as [x|], b as [y|]; try reflexivity. unfold vrel.
  replace (rel_holds (rel_swap r) y x) with (rel_holds r x y); [reflexivity|].
  destruct r; unfold rel_holds, rel_swap; try reflexivity; [apply Qceqb_sym|f_equal; apply Qceqb_sym].
Qed.

(* f & g is g & f, likewise | and ^ *)
Theorem logical_commutes (l : logop) (f g : stairs) :
  wf f -> wf g -> closed f = closed g -> deq (logical l f g) (logical l g f).
Proof.
  intros Wf Wg E.
  destruct (logical_spec l f g Wf Wg) as (_ & C1 & L1).
  destruct (logical_spec l g f Wg Wf) as (_ & C2 & L2).
  split.
  - rewrite C1, C2, (result_side_same f g E), (result_side_same g f (eq_sym E)). exact E.
  - intros sd x. rewrite L1, L2. apply vlog_comm.
Qed.

(* f < g is g > f, f <= g is g >= f, == and != are symmetric *)
Theorem relational_swaps (r : relop) (f g : stairs) :
  wf f -> wf g -> closed f = closed g -> deq (relational r f g) (relational (rel_swap r) g f).
Proof.
  intros Wf Wg E.
  destruct (relational_spec r f g Wf Wg) as ((_ & C1 & L1) & _).
  destruct (relational_spec (rel_swap r) g f Wg Wf) as ((_ & C2 & L2) & _).
  split.
  - rewrite C1, C2, (result_side_same f g E), (result_side_same g f (eq_sym E)). exact E.
  - intros sd x. rewrite L1, L2. apply vrel_swap.
Qed.

(* ---- scalar identities and distributivity, through the operator dispatch [apply_binop] with the scalar operand as
   the step-free Stairs the public API builds for it *)
Lemma result_side_const (f : stairs) c : result_side f (const c (closed f)) = closed f.
Proof. unfold result_side. destruct (has_steps f); reflexivity. Qed.

Lemma vadd_zero a : vadd a (Some 0) = a.
Proof. destruct a as [x|]; simpl; [f_equal; ring|reflexivity]. Qed.
Lemma vmul_one a : vmul a (Some 1) = a.
Proof. destruct a as [x|]; simpl; [f_equal; ring|reflexivity]. Qed.
Lemma vsub_self a : vsub a a = vmul a (Some 0).
Proof. destruct a as [x|]; simpl; [f_equal; ring|reflexivity]. Qed.
Lemma vmul_distr a b c : vmul a (vadd b c) = vadd (vmul a b) (vmul a c).
Proof. destruct a as [x|], b as [y|], c as [z|]; simpl; try reflexivity. f_equal. ring. Qed.

(* f + 0 is f *)
Theorem add_zero (f : stairs) : wf f -> deq (apply_binop (BArith OAdd) f (const (Some 0) (closed f))) f.
Proof.
  intros Wf. destruct (apply_binop_spec (BArith OAdd) f (const (Some 0) (closed f)) Wf (wf_const _ _)) as (_ & C1 & L1).
  split; [rewrite C1; apply result_side_const|]. intros sd x. rewrite L1, lim_const. apply vadd_zero.
Qed.

(* f * 1 is f *)
Theorem mul_one (f : stairs) : wf f -> deq (apply_binop (BArith OMul) f (const (Some 1) (closed f))) f.
Proof.
  intros Wf. destruct (apply_binop_spec (BArith OMul) f (const (Some 1) (closed f)) Wf (wf_const _ _)) as (_ & C1 & L1).
  split; [rewrite C1; apply result_side_const|]. intros sd x. rewrite L1, lim_const. apply vmul_one.
Qed.

(* f - f is f * 0: zero exactly where f is defined, undefined elsewhere *)
Theorem sub_self (f : stairs) :
  wf f -> deq (apply_binop (BArith OSub) f f) (apply_binop (BArith OMul) f (const (Some 0) (closed f))).
Proof.
  intros Wf. destruct (apply_binop_spec (BArith OSub) f f Wf Wf) as (_ & C1 & L1).
  destruct (apply_binop_spec (BArith OMul) f (const (Some 0) (closed f)) Wf (wf_const _ _)) as (_ & C2 & L2).
  split.
  - rewrite C1, C2, result_side_const. apply result_side_same. reflexivity.
  - intros sd x. rewrite L1, L2, lim_const. apply vsub_self.
Qed.

(* f * (g + h) is f * g + f * h *)
Theorem mul_distributes_over_add (f g h : stairs) :
  wf f -> wf g -> wf h -> closed f = closed g -> closed g = closed h ->
  deq (apply_binop (BArith OMul) f (apply_binop (BArith OAdd) g h))
      (apply_binop (BArith OAdd) (apply_binop (BArith OMul) f g) (apply_binop (BArith OMul) f h)).
Proof.
  intros Wf Wg Wh E1 E2.
  destruct (apply_binop_spec (BArith OAdd) g h Wg Wh) as (W1 & C1 & L1).
  destruct (apply_binop_spec (BArith OMul) f g Wf Wg) as (W2 & C2 & L2).
  destruct (apply_binop_spec (BArith OMul) f h Wf Wh) as (W3 & C3 & L3).
  destruct (apply_binop_spec (BArith OMul) f _ Wf W1) as (_ & C4 & L4).
  destruct (apply_binop_spec (BArith OAdd) _ _ W2 W3) as (_ & C5 & L5).
  rewrite (result_side_same g h E2) in C1. rewrite (result_side_same f g E1) in C2.
  rewrite (result_side_same f h) in C3 by congruence.
  split.
  - rewrite C4, C5, result_side_same, result_side_same; congruence.
  - intros sd x. rewrite L4, L5, L1, L2, L3. apply vmul_distr.
Qed.

End AlgebraFacts.

Print Assumptions negate_involutive.
Print Assumptions add_commutes.
Print Assumptions mul_commutes.
Print Assumptions sub_is_add_negate.
Print Assumptions add_associates.
Print Assumptions mul_associates.
Print Assumptions logical_commutes.
Print Assumptions relational_swaps.
Print Assumptions add_zero.
Print Assumptions mul_one.
Print Assumptions sub_self.
Print Assumptions mul_distributes_over_add.
