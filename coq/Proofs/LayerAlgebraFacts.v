(* Proofs/LayerAlgebraFacts.v — superposition for layering, as corollaries of layer_history:
   layering a history onto f gives f + (the same history layered onto the zero function), and layering the same
   triples with opposite values undoes a history. Up to [deq], for every well-formed internal state, for scalar and
   vector calls alike. *)
From Coq Require Import List Bool Arith Lia QArith Qcanon.
Import ListNotations.
Require Import SC.Base.Ord SC.Base.Val SC.Base.Series SC.Model.Repr SC.Model.Ops SC.Model.Masking SC.Model.Sampling.
Require Import SC.Spec.Den SC.Proofs.SeriesFacts SC.Proofs.ReprFacts SC.Proofs.DeltaFacts SC.Proofs.OpsFacts SC.Proofs.LayerFacts.
Open Scope Qc_scope.

Section LayerAlgebra.
Context {D : Type} `{Ord D}.
Notation stairs := (stairs D).

Theorem layering_is_superposition (calls : list (layer_args (D := D))) (f : stairs) : wf f ->
  deq (fold_left layer calls f)
      (add_or_sub false f (fold_left layer calls (const (Some 0) (closed f)))).
Proof.
  intros Wf.
  destruct (layer_history calls f Wf) as (_ & C1 & L1).
  destruct (layer_history calls (const (Some 0) (closed f)) (wf_const _ _)) as (W2 & C2 & L2).
  destruct (add_or_sub_spec false f _ Wf W2) as (_ & C3 & L3).
  cbv zeta in *. split.
  - rewrite C1, C3. unfold result_side. rewrite C2. simpl.
    destruct (has_steps f); [reflexivity|]. match goal with |- context [if ?c then _ else _] => destruct c end; reflexivity.
  - intros sd x. rewrite L1, L3, L2, lim_const. destruct (lim sd f x) as [y|]; [|reflexivity].
    simpl. f_equal. ring.
Qed.

(* the opposite call: same intervals, opposite values *)
Definition opposite (a : layer_args (D := D)) : layer_args :=
  match a with
  | LScalar st en v => LScalar st en (- v)
  | LVector ts => LVector (map (fun t => let '(st, en, v) := t in (st, en, - v)) ts)
  end.

Lemma contrib_opposite s st en v (x : D) : contrib s (st, en, - v) x = - contrib s (st, en, v) x.
Proof.
  unfold contrib, step_from. destruct st as [p|]; destruct en as [b|];
    repeat match goal with |- context [if ?c then _ else _] => destruct c end; ring.
Qed.

Lemma contribs_opposite s a (x : D) : contribs s (opposite a) x = - contribs s a x.
Proof.
  destruct a as [st en v|ts]; cbn [opposite contribs].
  - apply contrib_opposite.
  - induction ts as [|[[st en] v] t IH]; cbn [map fold_right]; [ring|]. rewrite IH, contrib_opposite. ring.
Qed.

Theorem layer_then_opposite (f : stairs) a : wf f -> deq (layer (layer f a) (opposite a)) f.
Proof.
  intros Wf. destruct (layer_spec f a Wf) as (W1 & C1 & L1).
  destruct (layer_spec _ (opposite a) W1) as (_ & C2 & L2).
  split; [congruence|]. intros sd x. rewrite L2, L1. destruct (lim sd f x) as [y|]; [|reflexivity].
  f_equal. rewrite contribs_opposite. ring.
Qed.

End LayerAlgebra.

Print Assumptions layering_is_superposition.
Print Assumptions layer_then_opposite.
