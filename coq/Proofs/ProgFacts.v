(* Proofs/ProgFacts.v — programs: only layer mutates (C13); cached statistics never go stale (C14) *)
From Coq Require Import List Bool Arith Lia QArith Qcanon.
Import ListNotations.
Require Import SC.Base.Ord SC.Base.Val SC.Base.Series SC.Base.QcOrd.
Require Import SC.Model.Repr SC.Model.Ops SC.Model.Masking SC.Model.Sampling SC.Model.Stats SC.Model.Slicing SC.Model.Prog.
Require Import SC.Spec.Den.
Open Scope Qc_scope.

(* what every observation of an object depends on: materialising a form changes none of it *)
Definition same_obs (f g : stairsQ) : Prop :=
  init f = init g /\ closed f = closed g /\ get_values f = get_values g /\ (has_steps f = has_steps g).

Lemma same_obs_refl f : same_obs f f.
Proof. repeat split. Qed.

Lemma same_obs_trans f g h : same_obs f g -> same_obs g h -> same_obs f h.
Proof. intros (A1 & A2 & A3 & A4) (B1 & B2 & B3 & B4). repeat split; congruence. Qed.

Lemma same_obs_with_values f : same_obs f (with_values f).
Proof.
  unfold same_obs, with_values, get_values, has_steps. destruct (data f) as [fr|] eqn:Df; simpl; rewrite ?Df; repeat split.
Qed.

Lemma same_obs_with_deltas f : same_obs f (with_deltas f).
Proof.
  unfold same_obs, with_deltas, get_values, has_steps. destruct (data f) as [fr|] eqn:Df; simpl; rewrite ?Df; repeat split.
  unfold frame_values, frame_deltas. simpl. destruct (vcol fr) as [v|]; auto. destruct (dcol fr) as [d|]; auto.
Qed.

Lemma same_obs_touch_rhs o a b f : same_obs f (touch_rhs o a b f).
Proof.
  unfold touch_rhs. destruct o as [[| | |]|r|l];
    repeat match goal with |- context [if ?c then _ else _] => destruct c end;
    auto using same_obs_refl, same_obs_with_values, same_obs_with_deltas.
Qed.

Lemma same_obs_lim f g sd x : same_obs f g -> lim sd f x = lim sd g x.
Proof. intros (A1 & _ & A3 & _). unfold lim. rewrite A1, A3. reflexivity. Qed.

(* the statistics only look at what same_obs preserves *)
Lemma data_none_iff (f : stairsQ) : data f = None <-> has_steps f = false.
Proof. unfold has_steps. destruct (data f); split; congruence. Qed.

Lemma integral_and_mean_same f g : same_obs f g -> integral_and_mean f = integral_and_mean g.
Proof.
  intros (A1 & A2 & A3 & A4). unfold integral_and_mean, defined_pieces. rewrite A3.
  unfold has_steps in A4. destruct (data f), (data g); try discriminate; reflexivity.
Qed.

Lemma ecdf_of_same f g : same_obs f g -> ecdf_of f = ecdf_of g.
Proof.
  intros (A1 & A2 & A3 & A4). unfold ecdf_of, value_sums, defined_pieces. rewrite A3.
  unfold has_steps in A4. destruct (data f), (data g); try discriminate; reflexivity.
Qed.

(* ---- worlds *)
Lemma wget_wset_same w r o : wget (wset w r o) r = Some o.
Proof.
  induction w as [|[k o'] t IH]; simpl.
  - rewrite Nat.eqb_refl. reflexivity.
  - destruct (Nat.eqb k r) eqn:E; simpl; rewrite ?E; auto.
Qed.

Lemma wget_wset_other w r o k : k <> r -> wget (wset w r o) k = wget w k.
Proof.
  intros Hne. induction w as [|[k' o'] t IH]; simpl.
  - destruct (Nat.eqb r k) eqn:E; auto. apply Nat.eqb_eq in E. congruence.
  - destruct (Nat.eqb k' r) eqn:E; simpl.
    + apply Nat.eqb_eq in E. subst k'. destruct (Nat.eqb r k) eqn:E2; auto. apply Nat.eqb_eq in E2. congruence.
    + destruct (Nat.eqb k' k); auto.
Qed.

(* two objects that cannot be told apart by any observation; None: the register is unbound *)
Definition obj_rel (a b : option obj) : Prop :=
  match a, b with
  | None, None => True
  | Some o, Some o' => same_obs (st o) (st o') /\ c_im o = c_im o' /\ c_ecdf o = c_ecdf o'
  | _, _ => False
  end.

Lemma obj_rel_refl a : obj_rel a a.
Proof. destruct a; simpl; auto using same_obs_refl. Qed.

Lemma wget_wtouch w r fn k : (forall f, same_obs f (fn f)) -> obj_rel (wget w k) (wget (wtouch w r fn) k).
Proof.
  intros Hfn. unfold wtouch. destruct (wget w r) as [o|] eqn:E; [|apply obj_rel_refl].
  destruct (Nat.eq_dec k r) as [->|Hne].
  - rewrite wget_wset_same, E. simpl. auto.
  - rewrite wget_wset_other by auto. apply obj_rel_refl.
Qed.

Lemma obj_rel_trans a b c : obj_rel a b -> obj_rel b c -> obj_rel a c.
Proof.
  destruct a, b, c; simpl; try tauto. intros (A1 & A2 & A3) (B1 & B2 & B3).
  split; [eapply same_obs_trans; eauto|split; congruence].
Qed.

(* the register a statement (re)binds or mutates; reads and queries have none *)
Definition target (s : stmt) : option nat :=
  match s with
  | SNew r _ _ | SFromValues r _ _ _ | SLayer r _ | SUn r _ _ | SBin r _ _ _ | SClip r _ _ _ | SMask r _ _ _
  | SMaskT r _ _ _ _ | SFillS r _ _ | SFillG r _ _ | SShift r _ _ | SDiff r _ _ | SResample r _ _ _ _ | SAgg r _ _ => Some r
  | SRead _ _ | SQuery _ _ => None
  end.

Lemma bind_result_other w r x k : k <> r -> wget (fst (bind_result w r x)) k = wget w k.
Proof. intros Hne. unfold bind_result. destruct x; simpl; auto. apply wget_wset_other; auto. Qed.

(* statements that only observe: every register keeps its function, side and step table; caches of the
   queried register may be filled *)
Definition den_rel (a b : option obj) : Prop :=
  match a, b with
  | None, None => True
  | Some o, Some o' => same_obs (st o) (st o')
  | _, _ => False
  end.

Lemma obj_rel_den a b : obj_rel a b -> den_rel a b.
Proof. destruct a, b; simpl; tauto. Qed.

Lemma den_rel_refl a : den_rel a a.
Proof. destruct a; simpl; auto using same_obs_refl. Qed.

Lemma den_rel_trans a b c : den_rel a b -> den_rel b c -> den_rel a c.
Proof. destruct a, b, c; simpl; try tauto. apply same_obs_trans. Qed.

Lemma den_rel_wset_same_st w r o o' k :
  wget w r = Some o -> same_obs (st o) (st o') -> den_rel (wget w k) (wget (wset w r o') k).
Proof.
  intros E Hs. destruct (Nat.eq_dec k r) as [->|Hne].
  - rewrite wget_wset_same, E. exact Hs.
  - rewrite wget_wset_other by auto. apply den_rel_refl.
Qed.

Lemma den_rel_wtouch w r fn k : (forall f, same_obs f (fn f)) -> den_rel (wget w k) (wget (wtouch w r fn) k).
Proof. intros Hfn. apply obj_rel_den. apply wget_wtouch. exact Hfn. Qed.

Theorem query_preserves_every_function w r o q k :
  wget w r = Some o -> den_rel (wget w k) (wget (fst (exec_query w r o q)) k).
Proof.
  intros E.
  assert (Hwv : den_rel (wget w k) (wget (wtouch w r with_values) k)) by (apply den_rel_wtouch; apply same_obs_with_values).
  assert (Hset : forall c1 c2, den_rel (wget w k) (wget (wset (wtouch w r with_values) r (Obj (with_values (st o)) c1 c2)) k)).
  { intros c1 c2. destruct (Nat.eq_dec k r) as [->|Hne].
    - rewrite wget_wset_same, E. simpl. apply same_obs_with_values.
    - rewrite wget_wset_other by auto. exact Hwv. }
  unfold exec_query.
  destruct q; simpl; auto using den_rel_refl;
    repeat match goal with
           | |- context [match ?x with _ => _ end] => destruct x; simpl; auto using den_rel_refl
           end.
Qed.


(* ---- C13: a statement changes no register other than its target *)
Theorem frame_rule w s k : target s <> Some k -> den_rel (wget w k) (wget (fst (exec w s)) k).
Proof.
  intros Ht.
  assert (Hb : forall w' r x, r <> k -> den_rel (wget w k) (wget w' k) -> den_rel (wget w k) (wget (fst (bind_result w' r x)) k)).
  { intros w' r x Hne Hd. rewrite bind_result_other by auto. exact Hd. }
  assert (Htv : forall a, den_rel (wget w k) (wget (wtouch w a with_values) k)) by (intros; apply den_rel_wtouch, same_obs_with_values).
  assert (Htd : forall a, den_rel (wget w k) (wget (wtouch w a with_deltas) k)) by (intros; apply den_rel_wtouch, same_obs_with_deltas).
  destruct s; simpl in Ht; unfold exec;
    try (assert (Hne : r <> k) by congruence).
  - apply Hb; auto using den_rel_refl.
  - apply Hb; auto using den_rel_refl.
  - destruct (wget w r) as [o|] eqn:E; cbv iota beta; [|apply den_rel_refl].
    destruct (negb (has_steps (st o)) && is_nan (init (st o))); cbn [fst]; [apply den_rel_refl|].
    rewrite wget_wset_other by auto. apply den_rel_refl.
  - destruct (wget w r) as [o|] eqn:E; cbv iota beta; [|apply den_rel_refl]. destruct k0; cbn [fst]; auto.
  - destruct (wget w a) as [x|] eqn:E; cbv iota beta; [|apply den_rel_refl].
    apply Hb; auto. destruct o; auto using den_rel_refl.
  - destruct (operand_of w a) as [x|]; [|apply den_rel_refl]. destruct (operand_of w b) as [y|]; [|apply den_rel_refl].
    apply Hb; auto.
    destruct x, y, b; auto using den_rel_refl.
    + destruct (closed_ok s s0); [|apply den_rel_refl]. apply den_rel_wtouch. apply same_obs_touch_rhs.
    + apply den_rel_wtouch. apply same_obs_touch_rhs.
  - destruct (wget w a) as [x|]; cbv iota beta; [|apply den_rel_refl]. apply Hb; auto.
  - destruct (wget w a) as [x|]; [|apply den_rel_refl]. destruct (wget w m) as [y|]; [|apply den_rel_refl].
    apply Hb; auto using den_rel_refl.
  - destruct (wget w a) as [x|]; cbv iota beta; [|apply den_rel_refl]. apply Hb; auto using den_rel_refl.
  - destruct (wget w a) as [x|]; cbv iota beta; [|apply den_rel_refl]. apply Hb; auto.
  - destruct (wget w a) as [x|]; [|apply den_rel_refl]. destruct (wget w g) as [y|]; [|apply den_rel_refl].
    apply Hb; auto using den_rel_refl.
  - destruct (wget w a) as [x|]; cbv iota beta; [|apply den_rel_refl]. apply Hb; auto using den_rel_refl.
  - destruct (wget w a) as [x|]; cbv iota beta; [|apply den_rel_refl]. apply Hb; auto using den_rel_refl.
  - destruct (wget w a) as [x|]; cbv iota beta; [|apply den_rel_refl]. apply Hb; auto using den_rel_refl.
  - destruct (sequence (map (wget w) ms)); cbv iota beta; [|apply den_rel_refl]. apply Hb; auto using den_rel_refl.
  - destruct (wget w r) as [o|] eqn:E; cbv iota beta; [|apply den_rel_refl].
    apply query_preserves_every_function. exact E.
Qed.

(* reads and queries change no function at all *)
Theorem observations_do_not_mutate w s k : target s = None -> den_rel (wget w k) (wget (fst (exec w s)) k).
Proof. intros Ht. apply frame_rule. rewrite Ht. discriminate. Qed.

(* over whole programs: a register that no statement targets denotes the same function at the end *)
Theorem untargeted_register_is_unchanged (p : list stmt) : forall w k,
  (forall s, In s p -> target s <> Some k) -> den_rel (wget w k) (wget (fst (run w p)) k).
Proof.
  induction p as [|s t IH]; intros w k Hk; simpl.
  - apply den_rel_refl.
  - destruct (exec w s) as [w1 o] eqn:E. destruct (run w1 t) as [w2 os] eqn:E2. simpl.
    eapply den_rel_trans.
    + pose proof (frame_rule w s k (Hk s (or_introl eq_refl))) as H1. rewrite E in H1. exact H1.
    + pose proof (IH w1 k (fun s' Hs' => Hk s' (or_intror Hs'))) as H2. rewrite E2 in H2. exact H2.
Qed.

(* ---- C14: cached statistics never go stale *)
Definition cache_ok (o : obj) : Prop :=
  (forall im, c_im o = Some im -> im = integral_and_mean (st o)) /\
  (forall e, c_ecdf o = Some e -> e = ecdf_of (st o)).
Definition caches_ok (w : world) : Prop := forall k o, wget w k = Some o -> cache_ok o.

Lemma cache_ok_fresh s : cache_ok (fresh s).
Proof. split; intros ? E; discriminate. Qed.

Lemma caches_ok_wset w r o : caches_ok w -> cache_ok o -> caches_ok (wset w r o).
Proof.
  intros Hw Ho k o' E. destruct (Nat.eq_dec k r) as [->|Hne].
  - rewrite wget_wset_same in E. injection E as <-. exact Ho.
  - rewrite wget_wset_other in E by auto. eapply Hw; eauto.
Qed.

Lemma caches_ok_wtouch w r fn : (forall f, same_obs f (fn f)) -> caches_ok w -> caches_ok (wtouch w r fn).
Proof.
  intros Hfn Hw. unfold wtouch. destruct (wget w r) as [o|] eqn:E; auto.
  apply caches_ok_wset; auto. destruct (Hw r o E) as [H1 H2]. split; simpl.
  - intros im Ei. rewrite <- (integral_and_mean_same _ _ (Hfn (st o))). auto.
  - intros e Ee. rewrite <- (ecdf_of_same _ _ (Hfn (st o))). auto.
Qed.

Lemma caches_ok_bind w r x : caches_ok w -> caches_ok (fst (bind_result w r x)).
Proof. intros Hw. unfold bind_result. destruct x; simpl; auto. apply caches_ok_wset; auto using cache_ok_fresh. Qed.

Lemma caches_ok_query w r o q : wget w r = Some o -> caches_ok w -> caches_ok (fst (exec_query w r o q)).
Proof.
  intros E Hw. destruct (Hw r o E) as [Him Hec].
  assert (Hwv : caches_ok (wtouch w r with_values)) by (apply caches_ok_wtouch; auto using same_obs_with_values).
  assert (Hset : forall c1 c2,
            (forall im, c1 = Some im -> im = integral_and_mean (st o)) ->
            (forall e, c2 = Some e -> e = ecdf_of (st o)) ->
            caches_ok (wset (wtouch w r with_values) r (Obj (with_values (st o)) c1 c2))).
  { intros c1 c2 H1 H2. apply caches_ok_wset; auto. split; simpl.
    - intros im Ei. rewrite <- (integral_and_mean_same _ _ (same_obs_with_values (st o))). auto.
    - intros e Ee. rewrite <- (ecdf_of_same _ _ (same_obs_with_values (st o))). auto. }
  assert (Him' : forall im, Some (match c_im o with Some im0 => im0 | None => integral_and_mean (st o) end) = Some im ->
                            im = integral_and_mean (st o)).
  { intros im Ei. injection Ei as <-. destruct (c_im o) eqn:Ec; auto. }
  assert (Hec' : forall e, Some (match c_ecdf o with Some e0 => e0 | None => ecdf_of (st o) end) = Some e ->
                            e = ecdf_of (st o)).
  { intros e Ee. injection Ee as <-. destruct (c_ecdf o) eqn:Ec; auto. }
  unfold exec_query.
  destruct q; cbn [fst]; auto;
    repeat match goal with
           | |- caches_ok (wset (wtouch w r with_values) r (Obj (with_values (st o)) _ _)) => apply Hset; auto
           | |- caches_ok (fst (match ?x with _ => _ end)) => destruct x; cbn [fst]; auto
           | |- caches_ok (fst (let _ := _ in _)) => cbv zeta
           | |- caches_ok (fst (if ?c then _ else _)) => destruct c; cbn [fst]; auto
           end.
Qed.

Theorem exec_preserves_caches w s : caches_ok w -> caches_ok (fst (exec w s)).
Proof.
  intros Hw.
  assert (Htv : forall a, caches_ok (wtouch w a with_values)) by (intros; apply caches_ok_wtouch; auto using same_obs_with_values).
  assert (Htd : forall a, caches_ok (wtouch w a with_deltas)) by (intros; apply caches_ok_wtouch; auto using same_obs_with_deltas).
  destruct s; unfold exec.
  - apply caches_ok_bind; auto.
  - apply caches_ok_bind; auto.
  - destruct (wget w r) as [o|] eqn:E; cbv iota beta; auto.
    destruct (negb (has_steps (st o)) && is_nan (init (st o))); cbn [fst]; auto.
    apply caches_ok_wset; auto using cache_ok_fresh.
  - destruct (wget w r) as [o|] eqn:E; cbv iota beta; auto. destruct k; cbn [fst]; auto.
  - destruct (wget w a) as [x|] eqn:E; cbv iota beta; auto. apply caches_ok_bind. destruct o; auto.
  - destruct (operand_of w a) as [x|]; auto. destruct (operand_of w b) as [y|]; auto.
    apply caches_ok_bind. destruct x, y, b; auto.
    + destruct (closed_ok s s0); auto. apply caches_ok_wtouch; auto using same_obs_touch_rhs.
    + apply caches_ok_wtouch; auto using same_obs_touch_rhs.
  - destruct (wget w a) as [x|]; cbv iota beta; auto. apply caches_ok_bind; auto.
  - destruct (wget w a) as [x|]; auto. destruct (wget w m) as [y|]; auto. apply caches_ok_bind; auto.
  - destruct (wget w a) as [x|]; cbv iota beta; auto. apply caches_ok_bind; auto.
  - destruct (wget w a) as [x|]; cbv iota beta; auto. apply caches_ok_bind; auto.
  - destruct (wget w a) as [x|]; auto. destruct (wget w g) as [y|]; auto. apply caches_ok_bind; auto.
  - destruct (wget w a) as [x|]; cbv iota beta; auto. apply caches_ok_bind; auto.
  - destruct (wget w a) as [x|]; cbv iota beta; auto. apply caches_ok_bind; auto.
  - destruct (wget w a) as [x|]; cbv iota beta; auto. apply caches_ok_bind; auto.
  - destruct (sequence (map (wget w) ms)); cbv iota beta; auto. apply caches_ok_bind; auto.
  - destruct (wget w r) as [o|] eqn:E; cbv iota beta; auto. apply caches_ok_query; auto.
Qed.

Lemma caches_ok_nil : caches_ok [].
Proof. intros k o E. discriminate. Qed.

(* every reachable world has valid caches *)
Theorem reachable_caches_ok (p : list stmt) : forall w, caches_ok w -> caches_ok (fst (run w p)).
Proof.
  induction p as [|s t IH]; intros w Hw; simpl; auto.
  pose proof (exec_preserves_caches w s Hw) as H1.
  destruct (exec w s) as [w1 o]. specialize (IH w1 H1). destruct (run w1 t) as [w2 os]. exact IH.
Qed.

Lemma cached_im_is_fresh o : cache_ok o ->
  match c_im o with Some im => im | None => integral_and_mean (st o) end = integral_and_mean (st o).
Proof. intros [H1 _]. destruct (c_im o) eqn:E; auto. Qed.

Lemma cached_ecdf_is_fresh o : cache_ok o ->
  match c_ecdf o with Some e => e | None => ecdf_of (st o) end = ecdf_of (st o).
Proof. intros [_ H2]. destruct (c_ecdf o) eqn:E; auto. Qed.

(* a query answered from the caches equals the answer computed from the current function alone *)
Theorem query_answer_is_fresh w r o q : cache_ok o ->
  snd (exec_query w r o q) = snd (exec_query w r (fresh (st o)) q).
Proof.
  intros Hc. pose proof (cached_im_is_fresh o Hc) as Him. pose proof (cached_ecdf_is_fresh o Hc) as Hec.
  unfold exec_query, fresh. cbn [st c_im c_ecdf]. rewrite Him, Hec.
  destruct q; try reflexivity;
    repeat match goal with
           | |- snd (match ?x with _ => _ end) = snd (match ?x with _ => _ end) => destruct x; try reflexivity
           | |- snd (let _ := _ in _) = _ => cbv zeta
           end.
Qed.

(* any history of statements from the empty world: every later query is answered as for a fresh equal function *)
Theorem answers_never_stale (p : list stmt) r o q :
  wget (fst (run [] p)) r = Some o ->
  snd (exec_query (fst (run [] p)) r o q) = snd (exec_query (fst (run [] p)) r (fresh (st o)) q).
Proof.
  intros E. apply query_answer_is_fresh.
  exact (reachable_caches_ok p [] caches_ok_nil r o E).
Qed.
