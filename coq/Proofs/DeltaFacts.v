(* Proofs/DeltaFacts.v — the step-change ("delta") form on NaN-free data: round trip with the value
   form, delta-wise addition/subtraction with fill_value=0, redundant-point removal via deltas. *)
From Coq Require Import List Bool Arith Lia QArith Qcanon.
Import ListNotations.
Require Import SC.Base.Ord SC.Base.Val SC.Base.Series SC.Model.Repr SC.Model.Ops SC.Model.Sampling.
Require Import SC.Spec.Den SC.Proofs.SeriesFacts SC.Proofs.ReprFacts.
Open Scope Qc_scope.

Section DeltaFacts.
Context {D : Type} `{Ord D}.
Notation ser := (list (D * V)).
Notation stairs := (stairs D).

Definition nan_free (l : ser) : Prop := any_nan l = false.

Lemma nan_free_cons p v (t : ser) : nan_free ((p, v) :: t) <-> (exists x, v = Some x) /\ nan_free t.
Proof.
  unfold nan_free, any_nan. simpl. destruct v as [x|]; simpl; split.
  - intros Ht. split; eauto.
  - tauto.
  - discriminate.
  - intros [[x Hx] _]. discriminate.
Qed.

(* values -> deltas -> values *)
Lemma cumsum_dov : forall (v : ser) a first, nan_free v -> cumsum a (dov (Some a) first v) = v.
Proof.
  induction v as [|[p w] t IH]; intros a first Hn; simpl; auto.
  apply nan_free_cons in Hn. destruct Hn as [[x ->] Ht]. simpl.
  replace (a + (x - a)) with x by ring. rewrite IH; auto.
Qed.

Lemma roundtrip_values a (v : ser) : nan_free v -> vals_of_deltas (Some a) (deltas_of_vals (Some a) v) = v.
Proof. intros Hn. unfold vals_of_deltas, deltas_of_vals. simpl. apply cumsum_dov; auto. Qed.

Lemma dov_nan_free : forall (v : ser) prev first, nan_free v -> (prev <> None) -> nan_free (dov prev first v).
Proof.
  induction v as [|[p w] t IH]; intros prev first Hn Hp; simpl; [reflexivity|].
  apply nan_free_cons in Hn. destruct Hn as [[x ->] Ht].
  destruct prev as [a|]; [|congruence]. apply nan_free_cons. split; eauto.
  apply IH; auto. congruence.
Qed.

Lemma cumsum_nan_free : forall (d : ser) a, nan_free d -> nan_free (cumsum a d).
Proof.
  induction d as [|[p w] t IH]; intros a Hn; simpl; [reflexivity|].
  apply nan_free_cons in Hn. destruct Hn as [[x ->] Ht].
  apply nan_free_cons. split; eauto.
Qed.

(* ---- what [has_na f = false] gives on a well-formed object *)
Lemma no_na_init (f : stairs) : has_na f = false -> exists a, init f = Some a.
Proof.
  unfold has_na. destruct (init f) as [a|]; simpl; [eauto|discriminate].
Qed.

Lemma no_na_deltas (f : stairs) : wf f -> has_na f = false -> nan_free (get_deltas f).
Proof.
  intros Hw Hn. destruct (no_na_init f Hn) as [a Ha].
  unfold has_na in Hn. rewrite Ha in Hn. simpl in Hn.
  unfold get_deltas, frame_deltas. destruct (data f) as [fr|]; [|reflexivity].
  apply orb_false_iff in Hn. destruct Hn as [Hd Hv].
  destruct (dcol fr) as [d|]; [exact Hd|].
  destruct (vcol fr) as [v|]; [|reflexivity].
  rewrite Ha. apply dov_nan_free; [exact Hv|congruence].
Qed.

Lemma no_na_values_from_deltas (f : stairs) a :
  wf f -> has_na f = false -> init f = Some a -> get_values f = cumsum a (get_deltas f).
Proof.
  intros Hw Hn Ha. pose proof Hn as Hn'. unfold has_na in Hn. rewrite Ha in Hn. simpl in Hn.
  unfold get_values, get_deltas, frame_values, frame_deltas. unfold wf in Hw.
  destruct (data f) as [fr|]; [|reflexivity].
  apply orb_false_iff in Hn. destruct Hn as [Hd Hv]. destruct Hw as (_ & _ & _ & Hc).
  destruct (dcol fr) as [d|], (vcol fr) as [v|]; simpl.
  - rewrite (Hc d v eq_refl eq_refl). unfold vals_of_deltas. rewrite Ha. reflexivity.
  - unfold vals_of_deltas. rewrite Ha. reflexivity.
  - rewrite Ha. unfold deltas_of_vals. rewrite cumsum_dov; auto.
  - reflexivity.
Qed.

(* ---- delta-wise add / sub with fill_value = 0 *)
Section Align.
Variable qop : Qc -> Qc -> Qc.
Hypothesis qop_l : forall a1 a2 d, qop a1 a2 + qop d 0 = qop (a1 + d) a2.
Hypothesis qop_r : forall a1 a2 d, qop a1 a2 + qop 0 d = qop a1 (a2 + d).
Hypothesis qop_b : forall a1 a2 d1 d2, qop a1 a2 + qop d1 d2 = qop (a1 + d1) (a2 + d2).
Let vop := vlift2 qop.

Lemma lookup_cumsum_some s : forall (d : ser) a x, nan_free d -> exists y, lookup s (Some a) (cumsum a d) x = Some y.
Proof.
  induction d as [|[p w] t IH]; intros a x Hn; simpl; eauto.
  apply nan_free_cons in Hn. destruct Hn as [[dx ->] Ht]. simpl.
  destruct (before s p x); eauto.
Qed.

Lemma align_only_r s : forall (b : ser) a1 a2 x, nan_free b ->
  lookup s (Some (qop a1 a2))
    (cumsum (qop a1 a2) (map (fun pv => (fst pv, fill0 vop None (Some (snd pv)))) b)) x =
  vop (Some a1) (lookup s (Some a2) (cumsum a2 b) x).
Proof.
  induction b as [|[y w] b IH]; intros a1 a2 x Hn; simpl; auto.
  apply nan_free_cons in Hn. destruct Hn as [[dy ->] Hb]. simpl.
  rewrite qop_r. destruct (before s y x); [apply IH; auto|reflexivity].
Qed.

Lemma align_only_l s : forall (a : ser) a1 a2 x, nan_free a ->
  lookup s (Some (qop a1 a2))
    (cumsum (qop a1 a2) (map (fun pv => (fst pv, fill0 vop (Some (snd pv)) None)) a)) x =
  vop (lookup s (Some a1) (cumsum a1 a) x) (Some a2).
Proof.
  induction a as [|[y w] a IH]; intros a1 a2 x Hn; simpl; auto.
  apply nan_free_cons in Hn. destruct Hn as [[dy ->] Hb]. simpl.
  rewrite qop_l. destruct (before s y x); [apply IH; auto|reflexivity].
Qed.

Lemma align_cons x u a y w b :
  align_fill0 vop ((x, u) :: a) ((y, w) :: b) =
  if ltb x y then (x, fill0 vop (Some u) None) :: align_fill0 vop a ((y, w) :: b)
  else if ltb y x then (y, fill0 vop None (Some w)) :: align_fill0 vop ((x, u) :: a) b
  else (x, fill0 vop (Some u) (Some w)) :: align_fill0 vop a b.
Proof. reflexivity. Qed.

Lemma align_nil_r (a : ser) :
  align_fill0 vop a [] = map (fun pv => (fst pv, fill0 vop (Some (snd pv)) None)) a.
Proof. destruct a as [|[x u] a]; reflexivity. Qed.

Theorem lookup_align s : forall (a b : ser) a1 a2 x,
  sorted a -> sorted b -> nan_free a -> nan_free b ->
  lookup s (Some (qop a1 a2)) (cumsum (qop a1 a2) (align_fill0 vop a b)) x =
  vop (lookup s (Some a1) (cumsum a1 a) x) (lookup s (Some a2) (cumsum a2 b) x).
Proof.
  induction a as [|[p u] a IHa]; intros b a1 a2 x Sa Sb Na Nb.
  - simpl. apply align_only_r; auto.
  - induction b as [|[r w] b IHb] in a1, a2, Sb, Nb |- *.
    + rewrite align_nil_r. rewrite align_only_l; auto.
    + rewrite align_cons.
      pose proof Na as Na'. apply nan_free_cons in Na'. destruct Na' as [[du ->] Na'].
      pose proof Nb as Nb'. apply nan_free_cons in Nb'. destruct Nb' as [[dw ->] Nb'].
      assert (Sa' : sorted a) by (eapply sorted_tail; eauto).
      assert (Sb' : sorted b) by (eapply sorted_tail; eauto).
      destruct (cmpP p r) as [Hlt Hn|Heq|Hgt Hn].
      * rewrite Hlt. simpl. rewrite qop_l.
        destruct (before s p x) eqn:B.
        -- rewrite IHa; auto.
        -- rewrite (@before_mono _ _ s p r x Hlt B). reflexivity.
      * subst r. rewrite ltb_irrefl. simpl. rewrite qop_b.
        destruct (before s p x) eqn:B; auto.
      * rewrite Hn, Hgt. simpl. rewrite qop_r.
        destruct (before s r x) eqn:B.
        -- rewrite IHb; auto.
        -- rewrite (@before_mono _ _ s r p x Hgt B). reflexivity.
Qed.

Lemma align_keys_sorted_from lo : forall (a b : ser),
  ksorted_from lo (keys a) -> ksorted_from lo (keys b) -> ksorted_from lo (keys (align_fill0 vop a b)).
Proof.
  intros a. revert lo. induction a as [|[p u] a IHa]; intros lo b Sa Sb.
  - simpl. unfold keys in *. rewrite map_map. simpl. exact Sb.
  - induction b as [|[r w] b IHb] in lo, Sa, Sb |- *.
    + rewrite align_nil_r. unfold keys in *. rewrite map_map. simpl. exact Sa.
    + rewrite align_cons. simpl in Sa, Sb. destruct Sa as [Hp Sa]. destruct Sb as [Hr Sb].
      destruct (cmpP p r) as [Hlt Hn|Heq|Hgt Hn].
      * rewrite Hlt. simpl. split; auto. apply IHa; simpl; auto.
      * subst r. rewrite ltb_irrefl. simpl. split; auto.
      * rewrite Hn, Hgt. simpl. split; auto. apply IHb; simpl; auto.
Qed.

Lemma align_sorted (a b : ser) : sorted a -> sorted b -> sorted (align_fill0 vop a b).
Proof.
  destruct a as [|[p u] a]; intros Sa Sb.
  - unfold sorted in *. simpl. unfold keys in *. rewrite map_map. simpl. exact Sb.
  - destruct b as [|[r w] b].
    + rewrite align_nil_r. unfold sorted, keys in *. rewrite map_map. simpl. exact Sa.
    + unfold sorted in *. rewrite align_cons. simpl in Sa, Sb.
      destruct (cmpP p r) as [Hlt Hn|Heq|Hgt Hn].
      * rewrite Hlt. simpl. apply align_keys_sorted_from; simpl; auto.
      * subst r. rewrite ltb_irrefl. simpl. apply align_keys_sorted_from; auto.
      * rewrite Hn, Hgt. simpl. apply (align_keys_sorted_from r ((p, u) :: a) b); simpl; auto.
Qed.

Lemma align_nan_free : forall (a b : ser), nan_free a -> nan_free b -> nan_free (align_fill0 vop a b).
Proof.
  induction a as [|[p u] a IHa]; intros b Na Nb.
  - simpl. induction b as [|[r w] b IHb]; [reflexivity|].
    apply nan_free_cons in Nb. destruct Nb as [[dw ->] Nb]. simpl. apply nan_free_cons. split; eauto.
  - induction b as [|[r w] b IHb].
    + rewrite align_nil_r. clear IHa. induction ((p, u) :: a) as [|[r w] l IHl]; [reflexivity|].
      apply nan_free_cons in Na. destruct Na as [[dw ->] Na]. simpl. apply nan_free_cons. split; eauto.
    + rewrite align_cons.
      pose proof Na as Na'. apply nan_free_cons in Na'. destruct Na' as [[du ->] Na'].
      pose proof Nb as Nb'. apply nan_free_cons in Nb'. destruct Nb' as [[dw ->] Nb'].
      destruct (ltb p r); [|destruct (ltb r p)]; apply nan_free_cons; split; simpl; eauto.
Qed.

End Align.

(* ---- redundant-point removal via deltas, NaN-free case: exactly the zero changes go *)
Lemma lookup_drop_zero s : forall (d : ser) pn a x, sorted d -> nan_free d ->
  lookup s (Some a) (cumsum a (drop_flagged (dflags pn d) d)) x = lookup s (Some a) (cumsum a d) x.
Proof.
  induction d as [|[p w] t IH]; intros pn a x Sd Nd; simpl; auto.
  apply nan_free_cons in Nd. destruct Nd as [[dx ->] Nt].
  assert (St : sorted t) by (eapply sorted_tail; eauto).
  simpl. destruct (Qceqb dx 0) eqn:E.
  - apply Qceqb_eq in E. subst dx. replace (a + 0) with a by ring.
    rewrite IH; auto. destruct (before s p x) eqn:B; auto.
    apply (lookup_not_before V s (Some a) p (cumsum a t) x); auto.
    rewrite keys_cumsum. exact Sd.
  - simpl. rewrite IH; auto.
Qed.

Lemma drop_flagged_sorted_from lo : forall (d : ser) m,
  ksorted_from lo (keys d) -> ksorted_from lo (keys (drop_flagged m d)).
Proof.
  intros d. revert lo. induction d as [|[p w] t IH]; intros lo m Sd; destruct m as [|b m]; simpl; auto.
  simpl in Sd. destruct Sd as [Hlt St]. destruct b; simpl.
  - apply IH. eapply ksorted_from_weaken; eauto.
  - split; auto.
Qed.

Lemma drop_flagged_sorted (d : ser) m : sorted d -> sorted (drop_flagged m d).
Proof.
  revert m. induction d as [|[p w] t IH]; intros m Sd; destruct m as [|b m]; simpl; auto; try exact I.
  destruct b.
  - apply IH. eapply sorted_tail; eauto.
  - unfold sorted. simpl. apply drop_flagged_sorted_from. exact Sd.
Qed.

Lemma drop_flagged_nan_free : forall (d : ser) m, nan_free d -> nan_free (drop_flagged m d).
Proof.
  induction d as [|[p w] t IH]; intros m Nd; destruct m as [|b m]; simpl; auto; try reflexivity.
  apply nan_free_cons in Nd. destruct Nd as [[dx ->] Nt]. destruct b; auto.
  apply nan_free_cons. split; eauto.
Qed.

(* results built from a NaN-free change series and then made minimal *)
Lemma get_values_of_deltas a (d : ser) c : get_values (of_deltas (Some a) d c) = cumsum a d.
Proof. destruct d as [|[p w] t]; reflexivity. Qed.

Lemma wf_of_deltas i (d : ser) c : sorted d -> wf (of_deltas i d c).
Proof.
  intros Sd. destruct d as [|pw t]; [exact I|].
  unfold wf, of_deltas. simpl. repeat split; auto; try congruence. left. congruence.
Qed.

Lemma rr_of_deltas i (d : ser) c :
  remove_redundant (of_deltas i d c) = of_deltas i (drop_flagged (dflags false d) d) c.
Proof.
  destruct d as [|[p w] t]; [reflexivity|].
  unfold remove_redundant, of_deltas. simpl. reflexivity.
Qed.

Lemma init_of_deltas i (d : ser) c : init (of_deltas i d c) = i.
Proof. reflexivity. Qed.
Lemma closed_of_deltas i (d : ser) c : closed (of_deltas i d c) = c.
Proof. reflexivity. Qed.

Theorem canon_deltas a (d : ser) c : sorted d -> nan_free d ->
  let r := remove_redundant (of_deltas (Some a) d c) in
  wf r /\ closed r = c /\ init r = Some a /\
  forall sd x, lim sd r x = lookup (strict_of sd) (Some a) (cumsum a d) x.
Proof.
  intros Sd Nd r. subst r. rewrite rr_of_deltas.
  split; [|split; [|split]].
  - apply wf_of_deltas. apply drop_flagged_sorted; auto.
  - apply closed_of_deltas.
  - apply init_of_deltas.
  - intros sd x. unfold lim. rewrite get_values_of_deltas, init_of_deltas.
    apply lookup_drop_zero; auto.
Qed.

End DeltaFacts.
