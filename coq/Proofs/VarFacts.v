(* Proofs/VarFacts.v — var is the length-weighted mean squared deviation over the finite defined pieces (C08).
   The code computes it as the integral over [0, 100] of (percentile function - mean)^2, divided by 100;
   the proof follows that pipeline: value sums -> ecdf -> percentile table -> squared table -> clip -> integral. *)
From Coq Require Import List Bool Arith Lia QArith Qcanon Lqa.
Import ListNotations.
Require Import SC.Base.Ord SC.Base.Val SC.Base.Series SC.Base.QcOrd.
Require Import SC.Model.Repr SC.Model.Ops SC.Model.Masking SC.Model.Sampling SC.Model.Stats SC.Model.Slicing.
Require Import SC.Spec.Den SC.Proofs.SeriesFacts SC.Proofs.SliceFacts SC.Proofs.ReprFacts SC.Proofs.OpsFacts
               SC.Proofs.QcDense SC.Proofs.ClipFacts SC.Proofs.AggFacts SC.Proofs.RangeFacts SC.Proofs.StatsFacts.
Open Scope Qc_scope.

Notation ser := (list (Qc * V)).
Notation c100 := (q_of_Z 100).

(* ---- order arithmetic on Qc *)
Lemma lt_add_pos (a d : Qc) : 0 < d -> a < a + d.
Proof. intros H. apply Qclt_minus_iff. replace (a + d + - a) with d by ring. exact H. Qed.

Lemma add_pos_pos (a d : Qc) : 0 < a -> 0 < d -> 0 < a + d.
Proof. intros Ha Hd. apply Qclt_trans with a; [exact Ha|apply lt_add_pos; exact Hd]. Qed.

Lemma add_nonneg_pos (a d : Qc) : 0 <= a -> 0 < d -> 0 < a + d.
Proof. intros Ha Hd. apply Qcle_lt_trans with a; [exact Ha|apply lt_add_pos; exact Hd]. Qed.

Lemma c100_pos : 0 < c100.
Proof. reflexivity. Qed.

Lemma Qc_this_inv (a : Qc) : (this (/ a) == / this a)%Q.
Proof. unfold Qcinv. apply Qc_this_Q2Qc. Qed.

Lemma Qcdiv_pos (s t : Qc) : 0 < s -> 0 < t -> 0 < s / t.
Proof.
  unfold Qcdiv, Qclt. intros Hs Ht. rewrite Qc_this_mult, Qc_this_inv.
  change (this 0) with 0%Q in *.
  apply Qmult_lt_0_compat; [exact Hs|]. apply Qinv_lt_0_compat. exact Ht.
Qed.

Lemma ltb_lt (a b : Qc) : ltb a b = true <-> a < b.
Proof. apply Qcltb_lt. Qed.
Lemma ltb_nlt (a b : Qc) : ltb a b = false <-> ~ a < b.
Proof. rewrite <- ltb_lt. destruct (ltb a b); split; congruence. Qed.

(* ---- sums *)
Lemma qsum_cons (a : Qc) l : qsum (a :: l) = a + qsum l.
Proof. unfold qsum. simpl. rewrite qsum_acc. unfold qsum. ring. Qed.

Lemma qsum_app l1 l2 : qsum (l1 ++ l2) = qsum l1 + qsum l2.
Proof. induction l1 as [|a t IH]; simpl app; [unfold qsum at 2; simpl; ring|]. rewrite !qsum_cons, IH. ring. Qed.

Lemma qsum_scale (A : Type) (g : A -> Qc) (c : Qc) (l : list A) :
  qsum (map (fun x => g x * c) l) = qsum (map g l) * c.
Proof. induction l as [|a t IH]; simpl map; [unfold qsum; simpl; ring|]. rewrite !qsum_cons, IH. ring. Qed.

Lemma qsum_pos (l : list Qc) : l <> [] -> Forall (fun x => 0 < x) l -> 0 < qsum l.
Proof.
  induction l as [|a t IH]; [congruence|]. intros _ H. inversion H as [|? ? Ha Ht]; subst.
  rewrite qsum_cons. destruct t as [|b t'].
  - unfold qsum. simpl. replace (a + 0) with a by ring. exact Ha.
  - apply add_pos_pos; [exact Ha|]. apply IH; [discriminate|exact Ht].
Qed.

(* ---- the tables built from the grouped value sums g = [(k1, s1); ...; (kn, sn)] and their total T *)
Section Table.
Variable hv : V -> V.     (* the transform applied to the percentile values: identity, or squared deviation *)
Variable T : Qc.

Fixpoint cums (acc : Qc) (g : list (Qc * Qc)) : list Qc :=
  match g with [] => [] | (_, s) :: t => (acc + s / T) :: cums (acc + s / T) t end.
Fixpoint final (acc : Qc) (g : list (Qc * Qc)) : Qc :=
  match g with [] => acc | (_, s) :: t => final (acc + s / T) t end.
Fixpoint pmid (acc : Qc) (g : list (Qc * Qc)) : ser :=
  match g with [] => [] | (k, s) :: t => (acc * c100, hv (Some k)) :: pmid (acc + s / T) t end.

Definition ecdf_deltas (g : list (Qc * Qc)) : ser := map (fun vl => (fst vl, Some (snd vl / T))) g.

Lemma ecdf_keys g : keys (ecdf_deltas g) = map fst g.
Proof. unfold keys, ecdf_deltas. rewrite map_map. reflexivity. Qed.

Lemma ecdf_cum g : forall acc, vals (cumsum acc (ecdf_deltas g)) = map Some (cums acc g).
Proof.
  induction g as [|[k s] t IH]; intros acc; [reflexivity|].
  change (ecdf_deltas ((k, s) :: t)) with ((k, Some (s / T)) :: ecdf_deltas t).
  cbn [cumsum cums map]. unfold vals in *. cbn [map snd]. f_equal. apply IH.
Qed.

(* the (transformed) percentile table: row i starts at the cumulative share before value k_i *)
Lemma table_shape : forall g i0 acc kl, i0 = acc * c100 ->
  map_vals hv (combine (i0 :: map (fun c => base c * c100) (map Some (cums acc g))) (map Some (map fst g ++ [kl])))
  = pmid acc g ++ [(final acc g * c100, hv (Some kl))].
Proof.
  induction g as [|[k s] t IH]; intros i0 acc kl E.
  - subst. reflexivity.
  - cbn [cums map app combine final pmid fst]. unfold map_vals in *. cbn [map fst snd app]. subst i0. f_equal.
    apply (IH (base (Some (acc + s / T)) * c100) (acc + s / T) kl). reflexivity.
Qed.

Lemma final_sum g : forall acc, final acc g = acc + qsum (map (fun vl => snd vl / T) g).
Proof.
  induction g as [|[k s] t IH]; intros acc; cbn [final map snd].
  - unfold qsum. simpl. ring.
  - rewrite IH, qsum_cons. ring.
Qed.

Lemma final_ge g : Forall (fun vl => 0 < snd vl / T) g -> forall acc, acc <= final acc g.
Proof.
  induction g as [|[k s] t IH]; intros H acc; cbn [final]; [apply Qcle_refl|].
  inversion H as [|? ? H1 H2]; subst. cbn [snd] in H1.
  apply Qcle_trans with (acc + s / T); [apply Qclt_le_weak, lt_add_pos; exact H1|apply IH; exact H2].
Qed.

(* the step points strictly inside: positive and below the last one *)
Lemma pmid_keys g : Forall (fun vl => 0 < snd vl / T) g -> forall acc, 0 < acc ->
  Forall (fun k => 0 < k /\ k < final acc g * c100) (keys (pmid acc g)).
Proof.
  induction g as [|[k s] t IH]; intros H acc Hacc; cbn [pmid keys map fst]; [constructor|].
  inversion H as [|? ? H1 H2]; subst. cbn [snd] in H1. constructor.
  - split.
    + replace 0 with (0 * c100) by ring. apply Qcmult_lt_compat_r; [apply c100_pos|exact Hacc].
    + cbn [final]. apply Qcmult_lt_compat_r; [apply c100_pos|].
      apply Qclt_le_trans with (acc + s / T); [apply lt_add_pos; exact H1|apply final_ge; exact H2].
  - cbn [final]. apply (IH H2 (acc + s / T)). apply add_pos_pos; assumption.
Qed.

Lemma pmid_defined g : (forall k, hv (Some k) <> None) -> forall acc, Forall (fun pv => snd pv <> None) (pmid acc g).
Proof.
  intros Hh. induction g as [|[k s] t IH]; intros acc; cbn [pmid]; constructor; [cbn [snd]; apply Hh|apply IH].
Qed.
End Table.

(* ---- clipping such a table to [0, 100] keeps its rows and closes it with an undefined row at 100 *)
Lemma cb_lower (ks : list Qc) : Forall (fun k => 0 < k) ks -> count_before false (0 :: ks) 0 = 1%nat.
Proof.
  intros H. cbn [count_before]. change (before false 0 0) with true. cbv iota. f_equal.
  destruct ks as [|k t]; [reflexivity|]. cbn [count_before]. inversion H as [|? ? Hk _]; subst.
  rewrite (before_gt false k 0); [reflexivity|]. apply ltb_lt. exact Hk.
Qed.

Lemma cb_upper (ks : list Qc) : Forall (fun k => k < c100) ks -> count_before true (ks ++ [c100]) c100 = length ks.
Proof.
  induction ks as [|k t IH]; intros H.
  - reflexivity.
  - inversion H as [|? ? Hk Ht]; subst. cbn [app count_before length].
    rewrite (before_lt true k c100); [f_equal; apply IH; exact Ht|]. apply ltb_lt. exact Hk.
Qed.

Lemma clip_table (i v0 ve : V) (M : ser) :
  Forall (fun k => 0 < k /\ k < c100) (keys M) ->
  clip (of_values i ((0, v0) :: M ++ [(c100, ve)]) CLeft) (Some 0) (Some c100)
  = Ok (remove_redundant (of_values None ((0, v0) :: M ++ [(c100, None)]) CLeft)).
Proof.
  intros HM. unfold clip. change (bounds_ok (Some 0) (Some c100)) with true. cbv iota beta. cbn [negb].
  assert (Gv : get_values (of_values i ((0, v0) :: M ++ [(c100, ve)]) CLeft) = (0, v0) :: M ++ [(c100, ve)]) by reflexivity.
  rewrite Gv.
  assert (K : keys ((0, v0) :: M ++ [(c100, ve)]) = 0 :: keys M ++ [c100]).
  { unfold keys. cbn [map fst]. rewrite map_app. reflexivity. }
  rewrite K.
  assert (L1 : count_before false (0 :: keys M ++ [c100]) 0 = 1%nat).
  { apply cb_lower. apply Forall_app. split.
    - eapply Forall_impl; [|exact HM]. intros k [H _]. exact H.
    - constructor; [apply c100_pos|constructor]. }
  assert (L2 : count_before true (0 :: keys M ++ [c100]) c100 = S (length M)).
  { change (0 :: keys M ++ [c100]) with ((0 :: keys M) ++ [c100]). rewrite cb_upper.
    - cbn [length]. unfold keys. rewrite map_length. reflexivity.
    - constructor; [apply c100_pos|]. eapply Forall_impl; [|exact HM]. intros k [_ H]. exact H. }
  rewrite L1, L2. cbn [pred Nat.eqb skipn Nat.sub].
  change ((0, v0) :: M ++ [(c100, ve)]) with (((0, v0) :: M) ++ [(c100, ve)]).
  replace (S (length M)) with (length ((0%Qc, v0) :: M) + 0)%nat by (cbn [length]; lia).
  rewrite firstn_app_2. cbn [firstn]. rewrite app_nil_r.
  cbn [app relabel_first]. change (ltb 0 0) with false. cbv iota. reflexivity.
Qed.

(* ---- the integral of a table, and its invariance under the removal of redundant rows *)
Definition pc_contrib (v : V) (a b : Qc) : Qc := match v with Some y => y * (b - a) | None => 0 end.

Lemma pint_nil1 p v : piece_integral (fin_pieces [(p, v)]) = 0.
Proof. reflexivity. Qed.

Lemma pint_cons2 p v p' v' t :
  piece_integral (fin_pieces ((p, v) :: (p', v') :: t)) = pc_contrib v p p' + piece_integral (fin_pieces ((p', v') :: t)).
Proof.
  change (fin_pieces ((p, v) :: (p', v') :: t)) with ((p, p', v) :: fin_pieces ((p', v') :: t)).
  unfold piece_integral, defined_of. cbn [flat_map snd fst]. destruct v as [y|]; cbn [app pc_contrib].
  - cbn [map fst snd]. rewrite qsum_cons. reflexivity.
  - ring.
Qed.

Lemma pint_split y p0 p L : L <> [] ->
  piece_integral (fin_pieces ((p0, Some y) :: L)) = pc_contrib (Some y) p0 p + piece_integral (fin_pieces ((p, Some y) :: L)).
Proof.
  destruct L as [|[p1 v1] L']; [congruence|]. intros _. rewrite !pint_cons2. cbn [pc_contrib]. ring.
Qed.

Lemma rr_integral e : forall (M : ser) prev p0, Forall (fun pv => snd pv <> None) M ->
  piece_integral (fin_pieces ((p0, prev) :: rr prev (M ++ [(e, None)])))
  = piece_integral (fin_pieces ((p0, prev) :: M ++ [(e, None)])).
Proof.
  induction M as [|[p v] t IH]; intros prev p0 H.
  - cbn [app rr]. destruct prev as [y|].
    + reflexivity.
    + change (veqb None None) with true. cbv iota. rewrite pint_cons2, !pint_nil1. cbn [pc_contrib]. ring.
  - inversion H as [|? ? Hv Ht]; subst. cbn [snd] in Hv. destruct v as [y|]; [|congruence].
    cbn [app rr]. destruct (veqb prev (Some y)) eqn:E.
    + apply veqb_eq in E. subst prev. rewrite (IH (Some y) p0 Ht).
      transitivity (pc_contrib (Some y) p0 p + piece_integral (fin_pieces ((p, Some y) :: t ++ [(e, None)]))).
      * apply pint_split. destruct t; discriminate.
      * symmetry. apply pint_cons2.
    + rewrite !pint_cons2. f_equal. apply IH. exact Ht.
Qed.

Lemma rr_nonempty e : forall (M : ser) y, Forall (fun pv => snd pv <> None) M -> rr (Some y) (M ++ [(e, None)]) <> [].
Proof.
  induction M as [|[p v] t IH]; intros y H.
  - cbn [app rr]. change (veqb (Some y) None) with false. cbv iota. discriminate.
  - inversion H as [|? ? Hv Ht]; subst. cbn [snd] in Hv. destruct v as [z|]; [|congruence].
    cbn [app rr]. destruct (veqb (Some y) (Some z)); [apply IH; exact Ht|discriminate].
Qed.

Lemma integral_of_clipped (q e : Qc) (M : ser) : Forall (fun pv => snd pv <> None) M ->
  fst (integral_and_mean (remove_redundant (of_values None ((0, Some q) :: M ++ [(e, None)]) CLeft)))
  = Some (piece_integral (fin_pieces ((0, Some q) :: M ++ [(e, None)]))).
Proof.
  intros HM.
  set (c := remove_redundant (of_values None ((0, Some q) :: M ++ [(e, None)]) CLeft)).
  assert (Gv : get_values c = (0, Some q) :: rr (Some q) (M ++ [(e, None)])) by reflexivity.
  assert (Dc : exists fr, data c = Some fr) by (eexists; reflexivity).
  destruct Dc as [fr Dc].
  pose proof (rr_nonempty e M q HM) as Hne.
  assert (Hlen : (2 <= length (get_values c))%nat).
  { rewrite Gv. destruct (rr (Some q) (M ++ [(e, None)])); [congruence|cbn [length]; lia]. }
  rewrite (integral_mean_spec c fr Dc Hlen). cbn [fst]. f_equal. rewrite Gv.
  apply (rr_integral e M (Some q) 0 HM).
Qed.

Section TableIntegral.
Variable hv : V -> V.
Variable hq : Qc -> Qc.
Variable T : Qc.
Hypothesis hv_hq : forall k, hv (Some k) = Some (hq k).

Lemma pmid_head g acc : exists v' rest, pmid hv T acc g ++ [(final T acc g * c100, None)] = (acc * c100, v') :: rest.
Proof. destruct g as [|[k s] t]; cbn [pmid final app]; eauto. Qed.

Lemma pmid_integral : forall g acc,
  piece_integral (fin_pieces (pmid hv T acc g ++ [(final T acc g * c100, None)]))
  = qsum (map (fun vl => hq (fst vl) * (snd vl / T)) g) * c100.
Proof.
  induction g as [|[k s] t IH]; intros acc.
  - cbn [pmid final app map]. rewrite pint_nil1. unfold qsum. cbn [fold_left]. ring.
  - cbn [pmid final app map fst snd]. rewrite qsum_cons.
    destruct (pmid_head t (acc + s / T)) as (v' & rest & E).
    specialize (IH (acc + s / T)). rewrite E in IH |- *. rewrite pint_cons2, IH, hv_hq. cbn [pc_contrib].
    unfold Qcdiv. ring.
Qed.
End TableIntegral.

(* ---- grouping preserves length-weighted sums and positivity *)
Definition wsum (phi : Qc -> Qc) (g : list (Qc * Qc)) : Qc := qsum (map (fun vl => phi (fst vl) * snd vl) g).

Lemma wsum_upsert phi k len : forall acc, wsum phi (upsert k len (fun x => x + len) acc) = wsum phi acc + phi k * len.
Proof.
  induction acc as [|[k' a] t IH].
  - unfold wsum. cbn [upsert map fst snd]. rewrite qsum_cons. ring.
  - rewrite upsert_cons. destruct (ltb k k') eqn:E1; [|destruct (ltb k' k) eqn:E2].
    + unfold wsum. cbn [map fst snd]. rewrite !qsum_cons. cbn [map fst snd]. ring.
    + unfold wsum in *. cbn [map fst snd]. rewrite !qsum_cons, IH. ring.
    + assert (k = k') by (apply Qcltb_total; assumption). subst k'.
      unfold wsum. cbn [map fst snd]. rewrite !qsum_cons. ring.
Qed.

Lemma wsum_group phi : forall l acc,
  wsum phi (fold_left (fun acc vl => upsert (fst vl) (snd vl) (fun x => x + snd vl) acc) l acc) = wsum phi acc + wsum phi l.
Proof.
  induction l as [|[v len] t IH]; intros acc; cbn [fold_left].
  - unfold wsum at 3. unfold qsum. cbn [map fold_left]. ring.
  - rewrite IH. cbn [fst snd]. rewrite wsum_upsert. unfold wsum at 4. cbn [map fst snd]. rewrite qsum_cons.
    unfold wsum. ring.
Qed.

Lemma group_weighted phi l : wsum phi (group_sum l) = wsum phi l.
Proof. unfold group_sum. rewrite wsum_group. unfold wsum at 1, qsum. cbn [map fold_left]. ring. Qed.

Lemma upsert_pos k len : 0 < len -> forall acc, Forall (fun vl => 0 < snd vl) acc ->
  Forall (fun vl : Qc * Qc => 0 < snd vl) (upsert k len (fun x => x + len) acc).
Proof.
  intros Hl. induction acc as [|[k' a] t IH]; intros H.
  - cbn [upsert]. constructor; [exact Hl|constructor].
  - rewrite upsert_cons. inversion H as [|? ? Ha Ht]; subst. cbn [snd] in Ha.
    destruct (ltb k k'); [|destruct (ltb k' k)].
    + constructor; [exact Hl|exact H].
    + constructor; [exact Ha|apply IH; exact Ht].
    + constructor; [cbn [snd]; apply add_pos_pos; assumption|exact Ht].
Qed.

Lemma group_pos : forall l acc, Forall (fun vl => 0 < snd vl) l -> Forall (fun vl => 0 < snd vl) acc ->
  Forall (fun vl : Qc * Qc => 0 < snd vl) (fold_left (fun acc vl => upsert (fst vl) (snd vl) (fun x => x + snd vl) acc) l acc).
Proof.
  induction l as [|[v len] t IH]; intros acc Hl Ha; cbn [fold_left]; [exact Ha|].
  inversion Hl as [|? ? H1 H2]; subst. apply IH; [exact H2|]. apply upsert_pos; assumption.
Qed.

Lemma defined_pieces_pos (f : stairsQ) : wf f -> Forall (fun vl => 0 < snd vl) (defined_pieces f).
Proof.
  intros Wf. rewrite defined_pieces_of. apply Forall_forall. intros [v len] Hin.
  unfold defined_of in Hin. apply in_flat_map in Hin. destruct Hin as ([[a b] w] & Hp & Hin).
  cbn [snd fst] in Hin. destruct w as [y|]; [|destruct Hin]. destruct Hin as [E|[]]. injection E as <- <-.
  cbn [snd]. assert (S : sorted (get_values f)) by (apply wf_sorted_values; exact Wf).
  pose proof (fin_pieces_nonempty _ _ _ _ S Hp) as Hab. apply ltb_lt in Hab.
  apply Qclt_minus_iff in Hab. exact Hab.
Qed.

(* ---- assembly *)
Definition sqdev (m : Qc) (v : V) : V := match v with Some x => Some ((x - m) * (x - m)) | None => None end.
Definition piece_sqdev (m : Qc) (pcs : list (Qc * Qc * V)) : Qc :=
  qsum (map (fun vl => (fst vl - m) * (fst vl - m) * snd vl) (defined_of pcs)).

Lemma last_opt_some (A : Type) : forall (l : list A) a, exists x, last_opt (a :: l) = Some x.
Proof.
  induction l as [|b t IH]; intros a; [exists a; reflexivity|].
  destruct (IH b) as [x Hx]. exists x. exact Hx.
Qed.

Definition ecdf_from (T : Qc) (g : list (Qc * Qc)) : stairsQ :=
  Stairs (Some 0) (Some (Frame (Some (ecdf_deltas T g)) None)) CLeft.

Lemma percentile_table T b t kl : last_opt (map fst (b :: t)) = Some kl ->
  get_values (percentiles_of (ecdf_from T (b :: t)))
  = combine (0 :: map (fun c => base c * c100) (map Some (cums T 0 (b :: t)))) (map Some (map fst (b :: t) ++ [kl])).
Proof.
  intros Hl. unfold percentiles_of, xtiles_of. cbv zeta.
  change (get_deltas (ecdf_from T (b :: t))) with (ecdf_deltas T (b :: t)).
  change (get_values (ecdf_from T (b :: t))) with (cumsum 0 (ecdf_deltas T (b :: t))).
  rewrite ecdf_keys, ecdf_cum. remember (map fst (b :: t)) as ks eqn:Eks.
  destruct ks as [|k0 l]; [discriminate Eks|]. rewrite Hl. reflexivity.
Qed.

Theorem var_spec (f : stairsQ) (ec : stairsQ) (m : Qc) : wf f -> ecdf_of f = Some ec ->
  0 < piece_total (fin_pieces (get_values f)) /\
  var_of ec (Some m) = Some (piece_sqdev m (fin_pieces (get_values f)) / piece_total (fin_pieces (get_values f))).
Proof.
  intros Wf. unfold ecdf_of. destruct (value_sums f) as [[|b t]|] eqn:Evs; try discriminate.
  intros E.
  assert (EG : b :: t = group_sum (defined_pieces f)).
  { unfold value_sums in Evs. destruct (data f); [|discriminate]. injection Evs as <-. reflexivity. }
  set (G := b :: t) in *. set (T := qsum (map snd G)).
  assert (Eec : ec = ecdf_from T (b :: t)) by (injection E as <-; reflexivity). clear E.
  assert (Hpos : Forall (fun vl => 0 < snd vl) G).
  { rewrite EG. unfold group_sum. apply group_pos; [apply defined_pieces_pos; exact Wf|constructor]. }
  assert (HT : 0 < T).
  { unfold T. apply qsum_pos; [unfold G; discriminate|]. apply Forall_map. exact Hpos. }
  assert (Tne : T <> 0) by (intros E0; rewrite E0 in HT; discriminate HT).
  assert (Hd : Forall (fun vl => 0 < snd vl / T) G).
  { eapply Forall_impl; [|exact Hpos]. intros vl H. apply Qcdiv_pos; assumption. }
  (* the total and the weighted sums, in terms of the pieces *)
  assert (ET : T = piece_total (fin_pieces (get_values f))).
  { unfold T, piece_total. rewrite <- defined_pieces_of.
    pose proof (group_weighted (fun _ => 1) (defined_pieces f)) as W. rewrite <- EG in W. unfold wsum in W.
    rewrite (map_ext (fun vl : Qc * Qc => 1 * snd vl) snd) in W by (intros; ring).
    rewrite (map_ext (fun vl : Qc * Qc => 1 * snd vl) snd) in W by (intros; ring). exact W. }
  split; [rewrite <- ET; exact HT|].
  destruct (last_opt_some _ (map fst t) (fst b)) as [kl Hl].
  subst G. subst ec. unfold var_of.
  rewrite (percentile_table T b t kl Hl).
  change (fun v : option Qc => match v with Some x => Some ((x - m) * (x - m)) | None => None end) with (sqdev m).
  match goal with |- context [@map_vals ?D1 ?A1 ?B1 ?h ?l] =>
    assert (TS : @map_vals D1 A1 B1 h l = pmid (sqdev m) T 0 (b :: t) ++ [(final T 0 (b :: t) * c100, sqdev m (Some kl))])
      by (apply table_shape; ring); rewrite TS; clear TS end.
  (* the last step point is 100 *)
  assert (EF : final T 0 (b :: t) = 1).
  { rewrite final_sum. unfold Qcdiv. rewrite (qsum_scale _ snd (/ T) (b :: t)). fold T. rewrite Qcmult_inv_r by exact Tne. ring. }
  rewrite EF. replace (1 * c100) with c100 by ring.
  destruct b as [k1 s1]. cbn [pmid]. replace (0 * c100) with 0 by ring.
  assert (HM : Forall (fun k => 0 < k /\ k < c100) (keys (pmid (sqdev m) T (0 + s1 / T) t))).
  { inversion Hd as [|? ? H1 H2]; subst. cbn [snd] in H1.
    pose proof (pmid_keys (sqdev m) T t H2 (0 + s1 / T)) as K.
    assert (EF' : final T (0 + s1 / T) t = 1) by exact EF. rewrite EF' in K.
    replace (1 * c100) with c100 in K by ring. apply K. replace (0 + s1 / T) with (s1 / T) by ring. exact H1. }
  cbn [app]. rewrite (clip_table (Some 0) (sqdev m (Some k1)) (sqdev m (Some kl)) _ HM).
  cbn [sqdev]. rewrite integral_of_clipped by (apply pmid_defined; intros k; discriminate).
  (* the integral of the squared table *)
  pose proof (pmid_integral (sqdev m) (fun k => (k - m) * (k - m)) T (fun k => eq_refl) ((k1, s1) :: t) 0) as PI.
  rewrite EF in PI. replace (1 * c100) with c100 in PI by ring. cbn [pmid app] in PI.
  replace (0 * c100) with 0 in PI by ring. cbn [sqdev] in PI. cbn [app].
  match goal with |- context [piece_integral ?X] =>
    replace (piece_integral X) with (qsum (map (fun vl : Qc * Qc => (fst vl - m) * (fst vl - m) * (snd vl / T)) ((k1, s1) :: t)) * c100)
      by (symmetry; exact PI) end.
  unfold vdiv. change (Qceqb c100 0) with false. cbv iota. f_equal.
  rewrite Qcdiv_mult_l by discriminate.
  (* regroup: sum over the grouped values = sum over the pieces *)
  pose proof (group_weighted (fun k => (k - m) * (k - m)) (defined_pieces f)) as W. rewrite <- EG in W.
  unfold piece_sqdev. rewrite <- defined_pieces_of, <- ET. unfold wsum in W. rewrite <- W.
  unfold Qcdiv. rewrite <- (qsum_scale _ (fun vl : Qc * Qc => (fst vl - m) * (fst vl - m) * snd vl) (/ T)).
  f_equal. apply map_ext. intros vl. ring.
Qed.

Lemma vs_raw_len (l : ser) : vs_raw l <> [] -> (2 <= length l)%nat.
Proof. destruct l as [|[p v] [|[p' v'] t]]; cbn [vs_raw length]; try congruence. intros _. lia. Qed.

(* whenever the value distribution exists, the mean exists and var is the weighted mean squared deviation from it *)
Theorem var_about_the_mean (f : stairsQ) (ec : stairsQ) : wf f -> ecdf_of f = Some ec ->
  let pcs := fin_pieces (get_values f) in
  let mu := piece_integral pcs / piece_total pcs in
  0 < piece_total pcs /\
  integral_and_mean f = (Some (piece_integral pcs), Some mu) /\
  var_of ec (snd (integral_and_mean f)) = Some (piece_sqdev mu pcs / piece_total pcs).
Proof.
  intros Wf Ec pcs mu.
  destruct (var_spec f ec mu Wf Ec) as [HT Hv]. fold pcs in HT, Hv.
  assert (Tne : piece_total pcs <> 0) by (intros E0; rewrite E0 in HT; discriminate HT).
  assert (IM : integral_and_mean f = (Some (piece_integral pcs), Some mu)).
  { unfold ecdf_of in Ec. destruct (value_sums f) as [[|b t]|] eqn:Evs; try discriminate.
    unfold value_sums in Evs. destruct (data f) as [fr|] eqn:Df; [|discriminate]. injection Evs as Evs.
    assert (Hne : defined_pieces f <> []) by (intros E0; rewrite E0 in Evs; discriminate Evs).
    assert (Hlen : (2 <= length (get_values f))%nat).
    { apply vs_raw_len. intros E0. apply Hne. unfold defined_pieces. rewrite E0. reflexivity. }
    rewrite (integral_mean_spec f fr Df Hlen). fold pcs. f_equal. unfold vdiv.
    destruct (Qceqb (piece_total pcs) 0) eqn:E0; [|reflexivity].
    apply Qc_eq_bool_correct in E0. congruence. }
  split; [exact HT|]. split; [exact IM|]. rewrite IM. exact Hv.
Qed.
