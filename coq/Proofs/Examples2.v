(* Proofs/Examples2.v — non-vacuity for the statistics / distribution / cov / rolling / unit theorems (C08, C09, C17, C19,
   C20): a concrete function with an undefined region and repeated values meets their hypotheses, and the model
   evaluates on it to the numbers the definitions give. *)
From Coq Require Import List Bool ZArith QArith Qcanon.
Import ListNotations.
Require Import SC.Base.Ord SC.Base.Val SC.Base.Series SC.Base.QcOrd.
Require Import SC.Model.Repr SC.Model.Ops SC.Model.Masking SC.Model.Sampling SC.Model.Stats SC.Model.Slicing SC.Model.Prog.
Require Import SC.Corr.Check.
Require Import SC.Spec.Den SC.Proofs.StatsFacts SC.Proofs.VarFacts SC.Proofs.DistFacts SC.Proofs.CovFacts SC.Proofs.RollingFacts
               SC.Proofs.UnitFacts SC.Proofs.MapKeysFacts SC.Proofs.Examples.
Open Scope Qc_scope.

(* s = 0 on (-inf,0), 1 on [0,1), 3 on [1,2), undefined on [2,3), 1 on [3,5), 0 on [5,inf):
   finite defined pieces: value 1 with total length 3, value 3 with length 1; total 4 *)
Definition ex_s : stairsQ :=
  from_values (vq 0 1) [(q 0 1, vq 1 1); (q 1 1, vq 3 1); (q 2 1, None); (q 3 1, vq 1 1); (q 5 1, vq 0 1)] CLeft.

Example ex_s_wf : wf ex_s. Proof. conc. Qed.
Example ex_s_minimal : minimal ex_s. Proof. conc. Qed.

Definition opt_ser_eqb (a b : option (list (Qc * Qc))) : bool :=
  match a, b with
  | Some x, Some y => list_cmp (fun p r => Qceqb (fst p) (fst r) && Qceqb (snd p) (snd r)) x y
  | None, None => true | _, _ => false end.

Example ex_value_sums : opt_ser_eqb (value_sums ex_s) (Some [(q 1 1, q 3 1); (q 3 1, q 1 1)]) = true.
Proof. vm_compute. reflexivity. Qed.

(* integral 6, mean 3/2 *)
Example ex_integral_mean :
  veqb (fst (integral_and_mean ex_s)) (vq 6 1) && veqb (snd (integral_and_mean ex_s)) (vq 3 2) = true.
Proof. vm_compute. reflexivity. Qed.

(* the hypothesis of the var / ecdf / percentile theorems holds, and var = (3 * (1 - 3/2)^2 + 1 * (3 - 3/2)^2) / 4 = 3/4 *)
Example ex_ecdf_exists : exists ec, ecdf_of ex_s = Some ec.
Proof. vm_compute. eexists. reflexivity. Qed.

Example ex_var :
  match ecdf_of ex_s with
  | Some ec => veqb (var_of ec (snd (integral_and_mean ex_s))) (vq 3 4)
  | None => false
  end = true.
Proof. vm_compute. reflexivity. Qed.

(* ecdf(1) = 3/4, ecdf(1-) = 0; percentile(75) = midpoint of 1 and 3 = 2, percentile(50) = 1, percentile(0) = 1, percentile(100) = 3 *)
Example ex_ecdf_percentiles :
  match ecdf_of ex_s with
  | Some ec =>
      veqb (limit ec LimRight (q 1 1)) (vq 3 4) && veqb (limit ec LimLeft (q 1 1)) (vq 0 1) &&
      list_cmp veqb (map (xtile_sample (percentiles_of ec)) [q 0 1; q 50 1; q 75 1; q 100 1]) [vq 1 1; vq 1 1; vq 2 1; vq 3 1] &&
      veqb (xtile_sample (fractiles_of ec) (q 3 4)) (vq 2 1)
  | None => false
  end = true.
Proof. vm_compute. reflexivity. Qed.

Example ex_mode : match mode ex_s with Some v => Qceqb v (q 1 1) | None => false end = true.
Proof. vm_compute. reflexivity. Qed.

(* cov / corr on a finite window, both orders; opposite sides are rejected *)
Definition ex_t : stairsQ :=
  from_values (vq 1 1) [(q 1 1, vq 2 1); (q 4 1, None); (q 6 1, vq 0 1)] CLeft.
Example ex_t_wf : wf ex_t /\ minimal ex_t. Proof. conc. Qed.

Definition res_veqb (a b : res V) : bool :=
  match a, b with Ok x, Ok y => veqb x y | Err e1, Err e2 => true | _, _ => false end.

Example ex_cov_sym :
  match cov ex_s ex_t (Some (q 0 1)) (Some (q 5 1)) 0 ClipPre, cov ex_t ex_s (Some (q 0 1)) (Some (q 5 1)) 0 ClipPre with
  | Ok (Some a), Ok (Some b) => Qceqb a b
  | _, _ => false
  end = true.
Proof. vm_compute. reflexivity. Qed.

Example ex_corr_mismatch :
  corr_signed_square ex_s ex_g (Some (q 0 1)) (Some (q 5 1)) 0 ClipPre = Err EClosedMismatch.
Proof. vm_compute. reflexivity. Qed.

(* rolling_mean: window (-1, 1) within [0, 5]: knots at step point -/+ 1 inside [1, 4] *)
Example ex_rolling :
  match rolling_mean ex_s (q (-1) 1) (q 1 1) (Some (q 0 1)) (Some (q 5 1)) with
  | Ok rows => list_cmp Qceqb (map fst rows) [q 1 1; q 2 1; q 3 1; q 4 1]
  | Err _ => false
  end = true.
Proof. vm_compute. reflexivity. Qed.

(* a change of unit (k -> 24 k + 7): the integral scales by 24, the mean and the distribution do not change *)
Example ex_unit :
  veqb (fst (integral_and_mean (relabel (affine (q 24 1) (q 7 1)) ex_s))) (vq 144 1) &&
  veqb (snd (integral_and_mean (relabel (affine (q 24 1) (q 7 1)) ex_s))) (vq 3 2) = true.
Proof. vm_compute. reflexivity. Qed.

(* ---- C18: the collection layer on [ex_s; ex_t; ex_s]: the operators, tables and matrices evaluate, the matrices are
   3 x 3, and a duplicate member gives equal rows *)
Require Import SC.Model.Arrays SC.Proofs.ArrayFacts.

Example ex_arr_binop_ok :
  match arr_binop (BArith OAdd) false [ex_s; ex_t; ex_s] (AoArray [ex_t; ex_t; ex_s]) with
  | Ok rs => Nat.eqb (length rs) 3 | Err _ => false end = true.
Proof. vm_compute. reflexivity. Qed.

Example ex_arr_binop_reflected_scalar :
  match arr_binop (BArith OSub) true [ex_s; ex_t] (AoScalar (vq 5 1)) with
  | Ok [a; b] => veqb (sample a (q 1 1)) (vq 2 1)       (* 5 - ex_s(1) = 5 - 3 *)
  | _ => false end = true.
Proof. vm_compute. reflexivity. Qed.

Example ex_arr_cov_ok :
  match arr_cov [ex_s; ex_t; ex_s] (Some (q 0 1)) (Some (q 5 1)) with
  | Ok M => Nat.eqb (length M) 3 && forallb (fun r => Nat.eqb (length r) 3) M &&
            match entry M 0 1, entry M 1 2 with Some a, Some b => veqb a b | _, _ => false end
  | Err _ => false end = true.
Proof. vm_compute. reflexivity. Qed.

Example ex_arr_corr_ok :
  match arr_corr [ex_s; ex_t; ex_s] (Some (q 0 1)) (Some (q 5 1)) with
  | Ok M => match entry M 0 0, entry M 0 2 with Some (Some a), Some (Some b) => Qceqb a 1 && Qceqb b 1 | _, _ => false end
  | Err _ => false end = true.
Proof. vm_compute. reflexivity. Qed.
