(* Proofs/MaskFacts.v — mask / where / isna / notna / fillna (scalar and function filler) *)
From Coq Require Import List Bool Arith Lia QArith Qcanon.
Import ListNotations.
Require Import SC.Base.Ord SC.Base.Val SC.Base.Series SC.Model.Repr SC.Model.Ops SC.Model.Masking SC.Model.Sampling.
Require Import SC.Spec.Den SC.Proofs.SeriesFacts SC.Proofs.ReprFacts SC.Proofs.DeltaFacts SC.Proofs.OpsFacts.
Open Scope Qc_scope.

Definition vmaskw (inverse : bool) (a m : V) : V := if inverse then vwhere a m else vmask a m.

Lemma mask_val_add inverse (a m : V) : vadd (mask_val inverse m) a = vmaskw inverse a m.
Proof.
  unfold vmaskw, vmask, vwhere, mask_val. destruct m as [y|]; [|destruct inverse; reflexivity].
  destruct inverse, (Qceqb y 0); simpl; try reflexivity; destruct a as [x|]; simpl; auto; f_equal; ring.
Qed.

Lemma mask_val_const inverse (a m : V) :
  vmaskw inverse a m = match mask_val inverse m with None => None | Some _ => a end.
Proof.
  unfold vmaskw, vmask, vwhere, mask_val. destruct m as [y|]; [|destruct inverse; reflexivity].
  destruct inverse, (Qceqb y 0); reflexivity.
Qed.

Section MaskFacts.
Context {D : Type} `{Ord D}.
Notation stairs := (stairs D).

Theorem maskify_spec inverse (g : stairs) :
  wf g -> spec1 (maskify inverse g) g (mask_val inverse) (closed g) /\ minimal (maskify inverse g).
Proof.
  intros Wg. unfold maskify. rewrite map_frame_eq.
  exact (map_result_rr g (mask_val inverse) (closed g) Wg).
Qed.

Theorem mask_stairs_spec inverse (f g r : stairs) :
  wf f -> wf g -> mask_stairs inverse f g = Ok r ->
  spec2 r f g (fun a m => vmaskw inverse a m) (result_side f g).
Proof.
  intros Wf Wg. unfold mask_stairs, result_side.
  destruct (data g) as [gg|] eqn:Dg.
  - destruct (closed_ok f g) eqn:Ck; [|discriminate]. intros E. injection E as <-.
    destruct (maskify_spec inverse g Wg) as [(M1 & M2 & M3) _].
    destruct (add_or_sub_spec false (maskify inverse g) f M1 Wf) as (A1 & A2 & A3).
    split; [exact A1|split].
    + rewrite A2. unfold result_side. rewrite M2.
      assert (Hg : has_steps g = true) by (unfold has_steps; rewrite Dg; reflexivity). rewrite Hg.
      unfold closed_ok in Ck. rewrite Hg in Ck.
      destruct (has_steps (maskify inverse g)), (has_steps f); simpl in *; auto.
      destruct (closed f), (closed g); simpl in Ck; congruence.
    + intros sd x. rewrite A3, M3. apply mask_val_add.
  - unfold has_steps. rewrite Dg.
    destruct (mask_val inverse (init g)) eqn:Em; intros E; injection E as <-.
    + split; [exact Wf|split].
      * unfold copy. destruct (data f); reflexivity.
      * intros sd x. rewrite mask_val_const, (lim_no_data g), Em by auto. reflexivity.
    + split; [exact I|split].
      * simpl. destruct (data f); reflexivity.
      * intros sd x. rewrite lim_const, mask_val_const, (lim_no_data g), Em by auto. reflexivity.
Qed.

Theorem null_comparison_spec (fn : V -> V) (f : stairs) :
  wf f -> spec1 (null_comparison fn f) f fn (closed f) /\ minimal (null_comparison fn f).
Proof.
  intros Wf. unfold null_comparison. rewrite map_frame_eq.
  exact (map_result_rr f fn (closed f) Wf).
Qed.

Theorem fillna_scalar_spec (f : stairs) (c : V) :
  wf f -> spec1 (fillna_scalar f c) f (fun v => vfill v c) (closed f) /\ minimal (fillna_scalar f c).
Proof.
  intros Wf. unfold fillna_scalar. rewrite map_frame_eq.
  exact (map_result_rr f (fun v => vfill v c) (closed f) Wf).
Qed.

Lemma fill_pipeline (a b : V) :
  vmask (vadd (vfill a (Some 0)) (vmul (vfill b (Some 0)) (visna a))) (vlog LAnd (visna a) (visna b)) = vfill a b.
Proof.
  destruct a as [x|], b as [y|]; simpl; unfold vbool, b2q, truthy; simpl;
    repeat match goal with |- context [Qceqb ?u ?v] => let E := fresh in destruct (Qceqb u v) eqn:E; try (apply Qceqb_eq in E; discriminate E) end;
    simpl; try reflexivity; try (f_equal; ring).
Qed.

Theorem fillna_stairs_spec (f g r : stairs) :
  wf f -> wf g -> fillna_stairs f g = Ok r -> spec2 r f g vfill (result_side f g).
Proof.
  intros Wf Wg. unfold fillna_stairs. destruct (closed_ok f g); [|discriminate]. simpl.
  destruct (fillna_scalar_spec f (Some 0) Wf) as [(F1 & F2 & F3) _].
  destruct (fillna_scalar_spec g (Some 0) Wg) as [(G1 & G2 & G3) _].
  destruct (null_comparison_spec visna f Wf) as [(N1 & N2 & N3) _]. fold (isna f) in N1, N2, N3.
  destruct (null_comparison_spec visna g Wg) as [(K1 & K2 & K3) _]. fold (isna g) in K1, K2, K3.
  destruct (apply_binop_spec (BArith OMul) _ _ G1 N1) as (P1 & _ & P3).
  destruct (apply_binop_spec (BArith OAdd) _ _ F1 P1) as (A1 & _ & A3).
  destruct (apply_binop_spec (BLog LAnd) _ _ N1 K1) as (B1 & _ & B3).
  destruct (mask_stairs false _ _) as [m|e] eqn:Em; [|discriminate].
  intros E. injection E as <-.
  destruct (mask_stairs_spec false _ _ m A1 B1 Em) as (M1 & _ & M3).
  split; [|split].
  - unfold wf in *. simpl. exact M1.
  - unfold result_side. simpl. destruct (has_steps f), (has_steps g); reflexivity.
  - intros sd x. change (lim sd {| init := init m; data := data m; closed := _ |} x) with (lim sd m x).
    rewrite M3, A3, B3, P3, F3, G3, N3, K3. simpl. apply fill_pipeline.
Qed.

End MaskFacts.
