(* Proofs/MaskFacts.v — mask / where / isna / notna / fillna (scalar and function filler) *)
From Coq Require Import List Bool Arith Lia QArith Qcanon.
Import ListNotations.
Require Import SC.Base.Ord SC.Base.Val SC.Base.Series SC.Model.Repr SC.Model.Ops SC.Model.Masking SC.Model.Sampling.
Require Import SC.Spec.Den SC.Proofs.SeriesFacts SC.Proofs.ReprFacts SC.Proofs.DeltaFacts SC.Proofs.OpsFacts.
Open Scope Qc_scope.

Definition vmaskw (inverse : bool) (a m : V) : V := if inverse then vwhere a m else vmask a m.

Lemma mask_val_add inverse (a m : V) : vadd (mask_val inverse m) a = vmaskw inverse a m.
Proof.
  unfold vmaskw, vmask, vwhere, mask_val. destruct m as [y|]; [|destruct inverse; reflexivity].
  destruct inverse, (Qceqb y 0); simpl; try reflexivity; destruct a as [x|]; simpl; auto; f_equal; ring.
Qed.

Lemma mask_val_const inverse (a m : V) :
  vmaskw inverse a m = match mask_val inverse m with None => None | Some _ => a end.
Proof.
  unfold vmaskw, vmask, vwhere, mask_val. destruct m as [y|]; [|destruct inverse; reflexivity].
  destruct inverse, (Qceqb y 0); reflexivity.
Qed.

Section MaskFacts.
Context {D : Type} `{Ord D}.
Notation stairs := (stairs D).

Theorem maskify_spec inverse (g : stairs) :
  wf g -> spec1 (maskify inverse g) g (mask_val inverse) (closed g) /\ minimal (maskify inverse g).
Proof.
  intros Wg. unfold maskify. rewrite map_frame_eq.
  exact (map_result_rr g (mask_val inverse) (closed g) Wg).
Qed.

Theorem mask_stairs_spec inverse (f g r : stairs) :
  wf f -> wf g -> mask_stairs inverse f g = Ok r ->
  spec2 r f g (fun a m => vmaskw inverse a m) (result_side f g).
Proof.
  intros Wf Wg. unfold mask_stairs, result_side.
  destruct (data g) as [gg|] eqn:Dg.
  - destruct (closed_ok f g) eqn:Ck; [|discriminate]. intros E. injection E as <-.
    destruct (maskify_spec inverse g Wg) as [(M1 & M2 & M3) _].
    destruct (add_or_sub_spec false (maskify inverse g) f M1 Wf) as (A1 & A2 & A3).
    split; [exact A1|split].
    + rewrite A2. unfold result_side. rewrite M2.
      assert (Hg : has_steps g = true) by (unfold has_steps; rewrite Dg; reflexivity). rewrite Hg.
      unfold closed_ok in Ck. rewrite Hg in Ck.
      destruct (has_steps (maskify inverse g)), (has_steps f); simpl in *; auto.
      destruct (closed f), (closed g); simpl in Ck; congruence.
    + intros sd x. rewrite A3, M3. apply mask_val_add.
  - unfold has_steps. rewrite Dg.
    destruct (mask_val inverse (init g)) eqn:Em; intros E; injection E as <-.
    + split; [exact Wf|split].
      * unfold copy. destruct (data f); reflexivity.
      * intros sd x. rewrite mask_val_const, (lim_no_data g), Em by auto. reflexivity.
    + split; [exact I|split].
      * simpl. destruct (data f); reflexivity.
      * intros sd x. rewrite lim_const, mask_val_const, (lim_no_data g), Em by auto. reflexivity.
Qed.

Theorem null_comparison_spec (fn : V -> V) (f : stairs) :
  wf f -> spec1 (null_comparison fn f) f fn (closed f) /\ minimal (null_comparison fn f).
Proof.
  intros Wf. unfold null_comparison. rewrite map_frame_eq.
  exact (map_result_rr f fn (closed f) Wf).
Qed.

Theorem fillna_scalar_spec (f : stairs) (c : V) :
  wf f -> spec1 (fillna_scalar f c) f (fun v => vfill v c) (closed f) /\ minimal (fillna_scalar f c).
Proof.
  intros Wf. unfold fillna_scalar. rewrite map_frame_eq.
  exact (map_result_rr f (fun v => vfill v c) (closed f) Wf).
Qed.

Lemma fill_pipeline (a b : V) :
  vmask (vadd (vfill a (Some 0)) (vmul (vfill b (Some 0)) (visna a))) (vlog LAnd (visna a) (visna b)) = vfill a b.
Proof.
  destruct a as [x|], b as [y|]; simpl; unfold vbool, b2q, truthy; simpl;
    repeat match goal with |- context [Qceqb ?u ?v] => let E := fresh in destruct (Qceqb u v) eqn:E; try (apply Qceqb_eq in E; discriminate E) end;
    simpl; try reflexivity; try (f_equal; ring).
Qed.

Theorem fillna_stairs_spec (f g r : stairs) :
  wf f -> wf g -> fillna_stairs f g = Ok r -> spec2 r f g vfill (result_side f g).
Proof.
  intros Wf Wg. unfold fillna_stairs. destruct (closed_ok f g); [|discriminate]. simpl.
  destruct (fillna_scalar_spec f (Some 0) Wf) as [(F1 & F2 & F3) _].
  destruct (fillna_scalar_spec g (Some 0) Wg) as [(G1 & G2 & G3) _].
  destruct (null_comparison_spec visna f Wf) as [(N1 & N2 & N3) _]. fold (isna f) in N1, N2, N3.
  destruct (null_comparison_spec visna g Wg) as [(K1 & K2 & K3) _]. fold (isna g) in K1, K2, K3.
  destruct (apply_binop_spec (BArith OMul) _ _ G1 N1) as (P1 & _ & P3).
  destruct (apply_binop_spec (BArith OAdd) _ _ F1 P1) as (A1 & _ & A3).
  destruct (apply_binop_spec (BLog LAnd) _ _ N1 K1) as (B1 & _ & B3).
  destruct (mask_stairs false _ _) as [m|e] eqn:Em; [|discriminate].
  intros E. injection E as <-.
  destruct (mask_stairs_spec false _ _ m A1 B1 Em) as (M1 & _ & M3).
  split; [|split].
  - unfold wf in *. simpl. exact M1.
  - unfold result_side. simpl. destruct (has_steps f), (has_steps g); reflexivity.
  - intros sd x. change (lim sd {| init := init m; data := data m; closed := _ |} x) with (lim sd m x).
    rewrite M3, A3, B3, P3, F3, G3, N3, K3. simpl. apply fill_pipeline.
Qed.

End MaskFacts.

(* ---- method fills: ffill / bfill only ever change undefined points, and fill from the nearest defined
   piece on the respective side *)
Section MethodFill.
Context {D : Type} `{Ord D}.
Notation ser := (list (D * V)).
Notation stairs := (stairs D).

(* the last defined value among the pieces up to x (cur: the one in force so far) *)
Fixpoint last_defined (s : bool) (cur : V) (l : ser) (x : D) : V :=
  match l with
  | [] => cur
  | (p, v) :: t => if before s p x then last_defined s (match v with Some _ => v | None => cur end) t x else cur
  end.

Lemma keys_ffill_from prev (l : ser) : keys (ffill_from prev l) = keys l.
Proof. revert prev. induction l as [|[p [v|]] t IH]; intros prev; simpl; auto; rewrite IH; reflexivity. Qed.

Lemma lookup_ffill s : forall (l : ser) prev x,
  lookup s prev (ffill_from prev l) x = last_defined s prev l x.
Proof.
  induction l as [|[p [v|]] t IH]; intros prev x; simpl; auto; destruct (before s p x); auto.
Qed.

Lemma last_defined_unchanged s : forall (l : ser) cur v0 x w,
  lookup s v0 l x = Some w -> (v0 = cur \/ v0 = None) -> last_defined s cur l x = Some w \/ (lookup s v0 l x = v0 /\ last_defined s cur l x = cur).
Proof.
  induction l as [|[p v] t IH]; intros cur v0 x w Hl Hv; simpl in *.
  - right. auto.
  - destruct (before s p x) eqn:B; [|right; auto].
    destruct v as [y|].
    + destruct (IH (Some y) (Some y) x w Hl (or_introl eq_refl)) as [Hd|[Hd1 Hd2]]; auto.
      left. rewrite Hd2. rewrite Hd1 in Hl. exact Hl.
    + destruct (IH cur None x w Hl (or_intror eq_refl)) as [Hd|[Hd1 Hd2]]; auto.
      rewrite Hd1 in Hl. discriminate.
Qed.

Theorem ffill_spec (f : stairs) : wf f ->
  let r := fillna_method FFill f in
  wf r /\ closed r = closed f /\ minimal r /\
  (forall sd x, lim sd r x = last_defined (strict_of sd) (init f) (get_values f) x) /\
  (forall sd x w, lim sd f x = Some w -> lim sd r x = Some w).
Proof.
  intros Wf r. subst r. unfold fillna_method. pose proof (wf_sorted_values f Wf) as Hs.
  destruct (data f) as [fr|] eqn:Df.
  - assert (Hsf : sorted (ffill_from (init f) (get_values f))) by (unfold sorted; rewrite keys_ffill_from; exact Hs).
    destruct (canon_values (init f) _ (closed f) Hsf) as (C1 & C2 & C3 & _ & C5).
    assert (Hl : forall sd x, lim sd (remove_redundant (of_values (init f) (ffill_from (init f) (get_values f)) (closed f))) x
                              = last_defined (strict_of sd) (init f) (get_values f) x).
    { intros sd x. rewrite C5. apply lookup_ffill. }
    repeat split; auto.
    intros sd x w Hw. rewrite Hl. unfold lim in Hw.
    destruct (last_defined_unchanged (strict_of sd) (get_values f) (init f) (init f) x w Hw (or_introl eq_refl)) as [Hd|[Hd1 Hd2]]; auto.
    rewrite Hd2. rewrite Hd1 in Hw. exact Hw.
  - split; [exact Wf|]. split; [reflexivity|]. split; [unfold minimal, get_values; rewrite Df; exact I|]. split.
    + intros sd x. unfold lim, get_values. rewrite Df. reflexivity.
    + intros sd x w Hw. exact Hw.
Qed.

(* bfill: the first defined value from x on; None when there is none *)
Fixpoint next_defined (l : ser) : V :=
  match l with [] => None | (_, Some v) :: _ => Some v | (_, None) :: t => next_defined t end.

Lemma bfill_head (l : ser) : match bfill l with (_, w) :: _ => w | [] => None end = next_defined l.
Proof.
  induction l as [|[p [v|]] t IH]; simpl; auto.
Qed.

Lemma keys_bfill (l : ser) : keys (bfill l) = keys l.
Proof. induction l as [|[p v] t IH]; simpl; auto. rewrite IH. reflexivity. Qed.

(* the value in force at x, or if undefined the next defined value after it *)
Fixpoint lookup_next (s : bool) (cur : V) (l : ser) (x : D) : V :=
  match l with
  | [] => cur
  | (p, v) :: t =>
      if before s p x then lookup_next s (match v with Some _ => v | None => next_defined t end) t x
      else cur
  end.

Lemma lookup_bfill s : forall (l : ser) cur x, lookup s cur (bfill l) x = lookup_next s cur l x.
Proof.
  induction l as [|[p v] t IH]; intros cur x; simpl; auto.
  destruct (before s p x); auto. rewrite IH. rewrite bfill_head. reflexivity.
Qed.

Lemma lookup_next_unchanged s : forall (l : ser) cur v0 x w,
  lookup s v0 l x = Some w -> (v0 = Some w -> cur = Some w) -> lookup_next s cur l x = Some w.
Proof.
  induction l as [|[p v] t IH]; intros cur v0 x w Hl Hc; simpl in *; auto.
  destruct (before s p x); auto. eapply IH; eauto. intros ->. reflexivity.
Qed.

Theorem bfill_spec (f : stairs) : wf f ->
  let r := fillna_method BFill f in
  wf r /\ closed r = closed f /\ minimal r /\
  (forall sd x, lim sd r x = lookup_next (strict_of sd) (vfill (init f) (next_defined (get_values f))) (get_values f) x) /\
  (forall sd x w, lim sd f x = Some w -> lim sd r x = Some w).
Proof.
  intros Wf r. subst r. unfold fillna_method. pose proof (wf_sorted_values f Wf) as Hs.
  destruct (data f) as [fr|] eqn:Df.
  - assert (Hsf : sorted (bfill (get_values f))) by (unfold sorted; rewrite keys_bfill; exact Hs).
    set (i := match init f with Some _ => init f | None => match bfill (get_values f) with (_, w) :: _ => w | [] => None end end).
    assert (Hi : i = vfill (init f) (next_defined (get_values f))).
    { unfold i. destruct (init f); simpl; auto. apply bfill_head. }
    destruct (canon_values i _ (closed f) Hsf) as (C1 & C2 & C3 & _ & C5).
    assert (Hl : forall sd x, lim sd (remove_redundant (of_values i (bfill (get_values f)) (closed f))) x
                              = lookup_next (strict_of sd) (vfill (init f) (next_defined (get_values f))) (get_values f) x).
    { intros sd x. rewrite C5, Hi. apply lookup_bfill. }
    repeat split; auto.
    intros sd x w Hw. rewrite Hl. unfold lim in Hw.
    eapply lookup_next_unchanged; eauto. intros ->. reflexivity.
  - split; [exact Wf|]. split; [reflexivity|]. split; [unfold minimal, get_values; rewrite Df; exact I|]. split.
    + intros sd x. unfold lim, get_values. rewrite Df. simpl. destruct (init f); reflexivity.
    + intros sd x w Hw. exact Hw.
Qed.

End MethodFill.
