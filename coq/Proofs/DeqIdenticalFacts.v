(* Proofs/DeqIdenticalFacts.v — every law proved up to [deq] (same closed side, same one-sided limits) is a law up to
   the code's own [identical] as soon as both sides are in minimal form - which every operation's result is (C12).
   One generic lifting theorem and instances for laws of AlgebraFacts / MaskAlgebraFacts. *)
From Coq Require Import List Bool QArith Qcanon.
Require Import SC.Base.Ord SC.Base.Val SC.Base.Series SC.Model.Repr SC.Model.Ops SC.Model.Masking SC.Model.Sampling.
Require Import SC.Spec.Den SC.Proofs.ReprFacts SC.Proofs.OpsFacts SC.Proofs.MaskFacts SC.Proofs.ClipFacts SC.Proofs.CanonFacts
               SC.Proofs.MinimalFacts SC.Proofs.IdentityFacts SC.Proofs.AlgebraFacts SC.Proofs.MaskAlgebraFacts.
Open Scope Qc_scope.

Section DeqIdentical.
Context {D : Type} `{Ord D}.
Variable x0 : D.
Notation stairs := (stairs D).

Theorem deq_is_identical (f g : stairs) :
  wf f -> wf g -> minimal f -> minimal g -> deq f g -> identical f g = true.
Proof. intros Wf Wg Mf Mg [_ E]. apply (identical_complete x0); auto. Qed.

Theorem negate_involutive_identical (f : stairs) : wf f -> minimal f -> identical (negate (negate f)) f = true.
Proof.
  intros Wf Mf. destruct (negate_spec f Wf) as (W1 & _ & _). destruct (negate_spec _ W1) as (W2 & _ & _).
  apply deq_is_identical; auto.
  - apply negate_minimal; auto. apply negate_minimal; auto.
  - apply negate_involutive; auto.
Qed.

Theorem invert_twice_identical (f : stairs) : wf f -> identical (invert (invert f)) (make_boolean f) = true.
Proof.
  intros Wf. unfold invert, make_boolean.
  destruct (boolean_like_spec vnot f Wf) as ((W1 & _ & _) & _).
  destruct (boolean_like_spec vnot _ W1) as ((W2 & _ & _) & M2).
  destruct (boolean_like_spec vtruth f Wf) as ((W3 & _ & _) & M3).
  apply deq_is_identical; auto. apply (invert_twice f Wf).
Qed.

Theorem relational_swaps_identical (r : relop) (f g : stairs) :
  wf f -> wf g -> closed f = closed g -> identical (relational r f g) (relational (rel_swap r) g f) = true.
Proof.
  intros Wf Wg E.
  destruct (relational_spec r f g Wf Wg) as ((W1 & _ & _) & M1).
  destruct (relational_spec (rel_swap r) g f Wg Wf) as ((W2 & _ & _) & M2).
  apply deq_is_identical; auto. apply relational_swaps; auto.
Qed.

End DeqIdentical.

Print Assumptions deq_is_identical.
Print Assumptions negate_involutive_identical.
Print Assumptions invert_twice_identical.
Print Assumptions relational_swaps_identical.
