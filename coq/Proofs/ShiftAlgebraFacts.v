(* Proofs/ShiftAlgebraFacts.v — laws of Stairs.shift at D := Qc, corollaries of shift_spec:
   shifts compose additively, shift(0) and shift(d) then shift(-d) give back the function, shift distributes over
   every binary operator and over negate. Up to [deq]. *)
From Coq Require Import List Bool Arith Lia QArith Qcanon Lqa.
Import ListNotations.
Require Import SC.Base.Ord SC.Base.Val SC.Base.Series SC.Base.QcOrd SC.Model.Repr SC.Model.Ops SC.Model.Masking SC.Model.Sampling SC.Model.Stats.
Require Import SC.Spec.Den SC.Proofs.SeriesFacts SC.Proofs.ReprFacts SC.Proofs.DeltaFacts SC.Proofs.OpsFacts SC.Proofs.QcDense.
Require Import SC.Proofs.MapKeysFacts.
Open Scope Qc_scope.

Theorem shift_composes (f : stairs Qc) (d e : Qc) : wf f -> deq (shift (shift f d) e) (shift f (d + e)).
Proof.
  intros Wf.
  destruct (shift_spec f d Wf) as (W1 & C1 & L1).
  destruct (shift_spec _ e W1) as (_ & C2 & L2).
  destruct (shift_spec f (d + e) Wf) as (_ & C3 & L3).
  split; [congruence|]. intros sd x. rewrite L2, L1, L3. f_equal. ring.
Qed.

Theorem shift_zero (f : stairs Qc) : wf f -> deq (shift f 0) f.
Proof.
  intros Wf. destruct (shift_spec f 0 Wf) as (_ & C1 & L1).
  split; [exact C1|]. intros sd x. rewrite L1. f_equal. ring.
Qed.

Theorem shift_inverse (f : stairs Qc) (d : Qc) : wf f -> deq (shift (shift f d) (- d)) f.
Proof.
  intros Wf.
  destruct (shift_spec f d Wf) as (W1 & C1 & L1).
  destruct (shift_spec _ (- d) W1) as (_ & C2 & L2).
  split; [congruence|]. intros sd x. rewrite L2, L1. f_equal. ring.
Qed.

Lemma has_steps_shift (f : stairs Qc) d : has_steps (shift f d) = has_steps f.
Proof. unfold has_steps, shift. destruct (data f); reflexivity. Qed.

Theorem shift_distributes_over_binop (o : binop) (f g : stairs Qc) (d : Qc) :
  wf f -> wf g ->
  deq (apply_binop o (shift f d) (shift g d)) (shift (apply_binop o f g) d).
Proof.
  intros Wf Wg.
  destruct (shift_spec f d Wf) as (W1 & C1 & L1).
  destruct (shift_spec g d Wg) as (W2 & C2 & L2).
  destruct (apply_binop_spec o f g Wf Wg) as (W3 & C3 & L3).
  destruct (apply_binop_spec o _ _ W1 W2) as (_ & C4 & L4).
  destruct (shift_spec _ d W3) as (_ & C5 & L5).
  split.
  - rewrite C4, C5, C3. unfold result_side. rewrite !has_steps_shift, C1, C2. reflexivity.
  - intros sd x. rewrite L4, L1, L2, L5, L3. reflexivity.
Qed.

Theorem shift_commutes_with_negate (f : stairs Qc) (d : Qc) :
  wf f -> deq (negate (shift f d)) (shift (negate f) d).
Proof.
  intros Wf.
  destruct (shift_spec f d Wf) as (W1 & C1 & L1).
  destruct (negate_spec _ W1) as (_ & C2 & L2).
  destruct (negate_spec f Wf) as (W3 & C3 & L3).
  destruct (shift_spec _ d W3) as (_ & C4 & L4).
  split; [congruence|]. intros sd x. rewrite L2, L1, L4, L3. reflexivity.
Qed.

Print Assumptions shift_composes.
Print Assumptions shift_zero.
Print Assumptions shift_inverse.
Print Assumptions shift_distributes_over_binop.
Print Assumptions shift_commutes_with_negate.
