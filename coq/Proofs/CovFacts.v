(* Proofs/CovFacts.v — cov / corr: operands restricted to the common defined region, lag = shift, symmetry (C19) *)
From Coq Require Import List Bool Arith Lia QArith Qcanon.
Import ListNotations.
Require Import SC.Base.Ord SC.Base.Val SC.Base.Series SC.Base.QcOrd.
Require Import SC.Model.Repr SC.Model.Ops SC.Model.Masking SC.Model.Sampling SC.Model.Stats SC.Model.Slicing.
Require Import SC.Spec.Den SC.Proofs.SeriesFacts SC.Proofs.ReprFacts SC.Proofs.OpsFacts SC.Proofs.MaskFacts
               SC.Proofs.ClipFacts SC.Proofs.CanonFacts SC.Proofs.MinimalFacts SC.Proofs.IdentityFacts.
Open Scope Qc_scope.

(* ---- a non-zero lag is a shift of g by -lag; clip='pre' reduces the upper end of the window by lag *)
Definition lagged_hi (hi : option Qc) (lag : Qc) (lc : lagclip) : option Qc :=
  match lc, hi with ClipPre, Some b => Some (b - lag) | _, _ => hi end.

Theorem lag_is_shift (f g : stairsQ) lo hi lag lc : Qceqb lag 0 = false ->
  cov f g lo hi lag lc = cov f (shift g (- lag)) lo (lagged_hi hi lag lc) 0 lc /\
  corr_signed_square f g lo hi lag lc = corr_signed_square f (shift g (- lag)) lo (lagged_hi hi lag lc) 0 lc.
Proof.
  intros E. unfold cov, corr_signed_square, cov_operands. rewrite E.
  change (Qceqb 0 0) with true. cbv iota. split; reflexivity.
Qed.

(* ---- both operands are restricted to the region on which both are defined *)
Definition both_defined (a b : V) : bool := negb (is_nan a) && negb (is_nan b).

Theorem cov_operands_spec (f g f' g' : stairsQ) lo hi lc hi' : wf f -> wf g ->
  cov_operands f g lo hi 0 lc = Ok (f', g', hi') ->
  hi' = hi /\ wf f' /\ wf g' /\
  forall sd x,
    lim sd f' x = (if both_defined (lim sd f x) (lim sd g x) then lim sd f x else None) /\
    lim sd g' x = (if both_defined (lim sd f x) (lim sd g x) then lim sd g x else None).
Proof.
  intros Wf Wg. unfold cov_operands. change (Qceqb 0 0) with true. cbv iota.
  destruct (null_comparison_spec visna f Wf) as [(N1 & N2 & N3) _]. fold (isna f) in N1, N2, N3.
  destruct (null_comparison_spec visna g Wg) as [(K1 & K2 & K3) _]. fold (isna g) in K1, K2, K3.
  destruct (binop_api (BLog LOr) (OpS (isna f)) (OpS (isna g))) as [m|e] eqn:Em; [|discriminate].
  destruct (binop_api_ok (BLog LOr) (OpS (isna f)) (OpS (isna g)) m N1 K1 Em) as [Wm Lm]. cbn [lift_res].
  destruct (mask_stairs false f m) as [f1|e] eqn:E1; [|discriminate]. cbn [lift_res].
  destruct (mask_stairs false g m) as [g1|e] eqn:E2; [|discriminate]. cbn [lift_res].
  intros E. injection E as <- <- <-.
  destruct (mask_stairs_spec false f m f1 Wf Wm E1) as (W1 & _ & L1).
  destruct (mask_stairs_spec false g m g1 Wg Wm E2) as (W2 & _ & L2).
  split; [reflexivity|]. split; [exact W1|]. split; [exact W2|].
  intros sd x. rewrite L1, L2, Lm. cbn [olim]. rewrite N3, K3.
  unfold both_defined, vmaskw, vmask, visna. destruct (lim sd f x), (lim sd g x); split; reflexivity.
Qed.

(* the property's formula, mean(f'g') - mean(f') mean(g') with every mean taken over the window (definitional unfolding);
   that the centred form the code computes equals it over finite windows: Proofs/CovCentredFacts.v *)
Theorem cov_spec_formula (f' g' : stairsQ) lo hi :
  cov_masked_spec f' g' lo hi =
  lift_res (binop_api (BArith OMul) (OpS f') (OpS g')) (fun fg =>
  lift_res (clipped_mean fg lo hi) (fun mfg =>
  lift_res (clipped_mean f' lo hi) (fun mf =>
  lift_res (clipped_mean g' lo hi) (fun mg => Ok (vsub mfg (vmul mf mg)))))).
Proof. reflexivity. Qed.

(* ---- statistics of a window depend on the canonical step table only *)
Lemma im_ext (h1 h2 : stairsQ) : data h1 = data h2 -> init h1 = init h2 -> integral_and_mean h1 = integral_and_mean h2.
Proof.
  intros Ed Ei. unfold integral_and_mean, defined_pieces, get_values. rewrite Ed, Ei. reflexivity.
Qed.

Lemma rr_of_values_indep (i : V) (v : list (Qc * V)) (c c' : side) :
  data (remove_redundant (of_values i v c)) = data (remove_redundant (of_values i v c')) /\
  init (remove_redundant (of_values i v c)) = init (remove_redundant (of_values i v c')).
Proof. destruct v; split; reflexivity. Qed.

Lemma clipped_mean_canonical (f g : stairsQ) lo hi : init f = init g -> get_values f = get_values g ->
  clipped_mean f lo hi = clipped_mean g lo hi.
Proof.
  intros Ei Ev. unfold clipped_mean, clip. destruct (negb (bounds_ok lo hi)); [reflexivity|].
  destruct lo as [a|], hi as [b|]; cbn [lift_res]; rewrite ?Ev, ?Ei.
  - f_equal. f_equal. apply im_ext; apply rr_of_values_indep.
  - f_equal. f_equal. apply im_ext; apply rr_of_values_indep.
  - f_equal. f_equal. apply im_ext; apply rr_of_values_indep.
  - unfold copy. f_equal. f_equal. unfold integral_and_mean, defined_pieces. rewrite Ev.
    unfold get_values in Ev. destruct (data f) eqn:Df, (data g) eqn:Dg; try reflexivity.
    + unfold get_values. rewrite Dg. reflexivity.
    + unfold get_values. rewrite Dg, <- Ev. reflexivity.
Qed.

(* ---- symmetry *)
Lemma binop_api_stairs (o : binop) (a b r : stairsQ) : binop_api o (OpS a) (OpS b) = Ok r -> r = apply_binop o a b.
Proof. unfold binop_api. destruct (closed_ok a b); [|discriminate]. intros E. injection E as <-. reflexivity. Qed.

Lemma isna_or_comm (a b : V) : vbin (BLog LOr) (visna a) (visna b) = vbin (BLog LOr) (visna b) (visna a).
Proof. destruct a, b; reflexivity. Qed.

Lemma vmul_comm (a b : V) : vmul a b = vmul b a.
Proof. destruct a, b; cbn; try reflexivity. f_equal. ring. Qed.

Lemma operands_symmetric (f g : stairsQ) lo hi lc f1 g1 h1 g2 f2 h2 : wf f -> wf g -> minimal f -> minimal g ->
  cov_operands f g lo hi 0 lc = Ok (f1, g1, h1) -> cov_operands g f lo hi 0 lc = Ok (g2, f2, h2) ->
  h1 = h2 /\ (wf f1 /\ wf f2 /\ minimal f1 /\ minimal f2 /\ init f1 = init f2 /\ get_values f1 = get_values f2) /\
  (wf g1 /\ wf g2 /\ minimal g1 /\ minimal g2 /\ init g1 = init g2 /\ get_values g1 = get_values g2).
Proof.
  intros Wf Wg Mf Mg. unfold cov_operands. change (Qceqb 0 0) with true. cbv iota.
  destruct (null_comparison_spec visna f Wf) as [(N1 & N2 & N3) N4]. fold (isna f) in N1, N2, N3, N4.
  destruct (null_comparison_spec visna g Wg) as [(K1 & K2 & K3) K4]. fold (isna g) in K1, K2, K3, K4.
  destruct (binop_api (BLog LOr) (OpS (isna f)) (OpS (isna g))) as [m1|e] eqn:Em1; [|discriminate]. cbn [lift_res].
  destruct (binop_api (BLog LOr) (OpS (isna g)) (OpS (isna f))) as [m2|e] eqn:Em2; [|intros _; discriminate]. cbn [lift_res].
  destruct (binop_api_ok (BLog LOr) (OpS (isna f)) (OpS (isna g)) m1 N1 K1 Em1) as [Wm1 Lm1].
  destruct (binop_api_ok (BLog LOr) (OpS (isna g)) (OpS (isna f)) m2 K1 N1 Em2) as [Wm2 Lm2].
  assert (Mm1 : minimal m1).
  { rewrite (binop_api_stairs _ _ _ _ Em1). apply (proj1 (all_minimal (isna f) (isna g) N1 K1 N4 K4)). }
  assert (Mm2 : minimal m2).
  { rewrite (binop_api_stairs _ _ _ _ Em2). apply (proj1 (all_minimal (isna g) (isna f) K1 N1 K4 N4)). }
  assert (Lm : forall sd x, lim sd m1 x = lim sd m2 x).
  { intros sd x. rewrite Lm1, Lm2. cbn [olim]. rewrite N3, K3. apply isna_or_comm. }
  destruct (mask_stairs false f m1) as [f1'|e] eqn:Ef1; [|discriminate]. cbn [lift_res].
  destruct (mask_stairs false g m1) as [g1'|e] eqn:Eg1; [|discriminate]. cbn [lift_res].
  destruct (mask_stairs false g m2) as [g2'|e] eqn:Eg2; [|intros _; discriminate]. cbn [lift_res].
  destruct (mask_stairs false f m2) as [f2'|e] eqn:Ef2; [|intros _; discriminate]. cbn [lift_res].
  intros E1 E2. injection E1 as <- <- <-. injection E2 as <- <- <-.
  destruct (mask_stairs_spec false f m1 f1' Wf Wm1 Ef1) as (Wf1 & _ & Lf1).
  destruct (mask_stairs_spec false g m1 g1' Wg Wm1 Eg1) as (Wg1 & _ & Lg1).
  destruct (mask_stairs_spec false f m2 f2' Wf Wm2 Ef2) as (Wf2 & _ & Lf2).
  destruct (mask_stairs_spec false g m2 g2' Wg Wm2 Eg2) as (Wg2 & _ & Lg2).
  pose proof (all_minimal f m1 Wf Wm1 Mf Mm1) as A1. pose proof (all_minimal g m1 Wg Wm1 Mg Mm1) as A2.
  pose proof (all_minimal f m2 Wf Wm2 Mf Mm2) as A3. pose proof (all_minimal g m2 Wg Wm2 Mg Mm2) as A4.
  assert (Mf1 : minimal f1') by (apply (proj1 (proj2 (proj2 (proj2 (proj2 (proj2 (proj2 (proj2 (proj2 (proj2 A1))))))))) false f1' Ef1)).
  assert (Mg1 : minimal g1') by (apply (proj1 (proj2 (proj2 (proj2 (proj2 (proj2 (proj2 (proj2 (proj2 (proj2 A2))))))))) false g1' Eg1)).
  assert (Mf2 : minimal f2') by (apply (proj1 (proj2 (proj2 (proj2 (proj2 (proj2 (proj2 (proj2 (proj2 (proj2 A3))))))))) false f2' Ef2)).
  assert (Mg2 : minimal g2') by (apply (proj1 (proj2 (proj2 (proj2 (proj2 (proj2 (proj2 (proj2 (proj2 (proj2 A4))))))))) false g2' Eg2)).
  assert (LF : forall sd x, lim sd f1' x = lim sd f2' x) by (intros sd x; rewrite Lf1, Lf2, Lm; reflexivity).
  assert (LG : forall sd x, lim sd g1' x = lim sd g2' x) by (intros sd x; rewrite Lg1, Lg2, Lm; reflexivity).
  destruct (canonical 0 f1' f2' Wf1 Wf2 Mf1 Mf2 LF) as [Fi Fv].
  destruct (canonical 0 g1' g2' Wg1 Wg2 Mg1 Mg2 LG) as [Gi Gv].
  split; [reflexivity|]. split; repeat split; assumption.
Qed.

Lemma minimal_const (c : V) (sd : side) : minimal (@const Qc c sd).
Proof. unfold minimal, const. cbn. exact I. Qed.

(* f - c for a scalar c: well-formed, minimal, pointwise *)
Lemma sub_const_spec (f r : stairsQ) (c : V) : wf f -> minimal f ->
  binop_api (BArith OSub) (OpS f) (OpC c) = Ok r ->
  wf r /\ minimal r /\ forall sd x, lim sd r x = vsub (lim sd f x) c.
Proof.
  intros Wf Mf E. destruct (binop_api_ok (BArith OSub) (OpS f) (OpC c) r Wf I E) as [Wr Lr].
  split; [exact Wr|]. split.
  - unfold binop_api in E. injection E as <-. apply (apply_binop_minimal (BArith OSub) f (const c (closed f))); auto using wf_const, minimal_const.
  - intros sd x. rewrite Lr. reflexivity.
Qed.

Lemma cov_masked_symmetric (f1 g1 f2 g2 : stairsQ) lo hi (v v' : V) :
  wf f1 -> wf f2 -> minimal f1 -> minimal f2 -> init f1 = init f2 -> get_values f1 = get_values f2 ->
  wf g1 -> wf g2 -> minimal g1 -> minimal g2 -> init g1 = init g2 -> get_values g1 = get_values g2 ->
  cov_masked f1 g1 lo hi = Ok v -> cov_masked g2 f2 lo hi = Ok v' -> v = v'.
Proof.
  intros Wf1 Wf2 Mf1 Mf2 Fi Fv Wg1 Wg2 Mg1 Mg2 Gi Gv. unfold cov_masked.
  assert (LF : forall sd x, lim sd f1 x = lim sd f2 x) by (intros sd x; unfold lim; rewrite Fi, Fv; reflexivity).
  assert (LG : forall sd x, lim sd g1 x = lim sd g2 x) by (intros sd x; unfold lim; rewrite Gi, Gv; reflexivity).
  rewrite (clipped_mean_canonical f1 f2 lo hi Fi Fv), (clipped_mean_canonical g1 g2 lo hi Gi Gv).
  destruct (clipped_mean f2 lo hi) as [mf|e]; [|discriminate]. cbn [lift_res].
  destruct (clipped_mean g2 lo hi) as [mg|e]; [|discriminate]. cbn [lift_res].
  destruct (binop_api (BArith OSub) (OpS f1) (OpC mf)) as [fc1|e] eqn:Efc1; [|discriminate]. cbn [lift_res].
  destruct (binop_api (BArith OSub) (OpS g1) (OpC mg)) as [gc1|e] eqn:Egc1; [|discriminate]. cbn [lift_res].
  destruct (binop_api (BArith OSub) (OpS g2) (OpC mg)) as [gc2|e] eqn:Egc2; [|intros _; discriminate]. cbn [lift_res].
  destruct (binop_api (BArith OSub) (OpS f2) (OpC mf)) as [fc2|e] eqn:Efc2; [|intros _; discriminate]. cbn [lift_res].
  destruct (sub_const_spec f1 fc1 mf Wf1 Mf1 Efc1) as (Wfc1 & Mfc1 & Lfc1).
  destruct (sub_const_spec f2 fc2 mf Wf2 Mf2 Efc2) as (Wfc2 & Mfc2 & Lfc2).
  destruct (sub_const_spec g1 gc1 mg Wg1 Mg1 Egc1) as (Wgc1 & Mgc1 & Lgc1).
  destruct (sub_const_spec g2 gc2 mg Wg2 Mg2 Egc2) as (Wgc2 & Mgc2 & Lgc2).
  destruct (binop_api (BArith OMul) (OpS fc1) (OpS gc1)) as [p1|e] eqn:Ep1; [|discriminate]. cbn [lift_res].
  destruct (binop_api (BArith OMul) (OpS gc2) (OpS fc2)) as [p2|e] eqn:Ep2; [|intros _; discriminate]. cbn [lift_res].
  destruct (binop_api_ok (BArith OMul) (OpS fc1) (OpS gc1) p1 Wfc1 Wgc1 Ep1) as [Wp1 Lp1].
  destruct (binop_api_ok (BArith OMul) (OpS gc2) (OpS fc2) p2 Wgc2 Wfc2 Ep2) as [Wp2 Lp2].
  assert (Mp1 : minimal p1).
  { rewrite (binop_api_stairs _ _ _ _ Ep1). apply (proj1 (all_minimal fc1 gc1 Wfc1 Wgc1 Mfc1 Mgc1)). }
  assert (Mp2 : minimal p2).
  { rewrite (binop_api_stairs _ _ _ _ Ep2). apply (proj1 (all_minimal gc2 fc2 Wgc2 Wfc2 Mgc2 Mfc2)). }
  assert (LP : forall sd x, lim sd p1 x = lim sd p2 x).
  { intros sd x. rewrite Lp1, Lp2. cbn [olim vbin varith]. rewrite Lfc1, Lfc2, Lgc1, Lgc2, LF, LG. apply vmul_comm. }
  destruct (canonical 0 p1 p2 Wp1 Wp2 Mp1 Mp2 LP) as [Pi Pv].
  rewrite (clipped_mean_canonical p1 p2 lo hi Pi Pv).
  intros E1 E2. congruence.
Qed.

Theorem cov_symmetric (f g : stairsQ) lo hi lc (v v' : V) : wf f -> wf g -> minimal f -> minimal g ->
  cov f g lo hi 0 lc = Ok v -> cov g f lo hi 0 lc = Ok v' -> v = v'.
Proof.
  intros Wf Wg Mf Mg. unfold cov. change (Qceqb 0 0) with true. cbv iota.
  destruct (negb (closed_ok f g)); [discriminate|]. destruct (negb (closed_ok g f)); [intros _; discriminate|].
  destruct (cov_operands f g lo hi 0 lc) as [[[f1 g1] h1]|e] eqn:E1; [|discriminate]. cbn [lift_res].
  destruct (cov_operands g f lo hi 0 lc) as [[[g2 f2] h2]|e] eqn:E2; [|intros _; discriminate]. cbn [lift_res].
  destruct (operands_symmetric f g lo hi lc f1 g1 h1 g2 f2 h2 Wf Wg Mf Mg E1 E2)
    as (<- & (Wf1 & Wf2 & Mf1 & Mf2 & Fi & Fv) & (Wg1 & Wg2 & Mg1 & Mg2 & Gi & Gv)).
  apply cov_masked_symmetric; assumption.
Qed.

(* var over a window depends on the canonical step table only *)
Lemma ecdf_ext (h1 h2 : stairsQ) : data h1 = data h2 -> init h1 = init h2 -> ecdf_of h1 = ecdf_of h2.
Proof.
  intros Ed Ei. unfold ecdf_of, value_sums, defined_pieces, get_values. rewrite Ed, Ei. reflexivity.
Qed.

Lemma wf_values_nonempty (f : stairsQ) fr : wf f -> data f = Some fr -> get_values f <> [].
Proof.
  unfold wf, get_values, frame_values. intros W D. rewrite D in *. destruct W as (Hcol & Cd & Cv & _).
  destruct (vcol fr) as [v|]; [exact (proj2 Cv)|]. destruct (dcol fr) as [d|]; [|destruct Hcol; congruence].
  destruct Cd as [_ Hne]. unfold vals_of_deltas. intros E. apply Hne.
  assert (K : keys (cumsum (base (init f)) d) = keys d) by apply keys_cumsum. rewrite E in K.
  destruct d; [reflexivity|discriminate K].
Qed.

Lemma clipped_var_canonical (f g : stairsQ) lo hi : wf f -> wf g -> init f = init g -> get_values f = get_values g ->
  clipped_var f lo hi = clipped_var g lo hi.
Proof.
  intros Wf Wg Ei Ev. unfold clipped_var, clip. destruct (negb (bounds_ok lo hi)); [reflexivity|].
  assert (G : forall i v c c', 
             match ecdf_of (remove_redundant (of_values i v c)) with
             | Some ec => Ok (var_of ec (snd (integral_and_mean (remove_redundant (of_values i v c)))))
             | None => Err EOther end =
             match ecdf_of (remove_redundant (of_values i v c')) with
             | Some ec => Ok (var_of ec (snd (integral_and_mean (remove_redundant (of_values i v c')))))
             | None => @Err V EOther end).
  { intros i v c c'. destruct (rr_of_values_indep i v c c') as [Hd Hi].
    rewrite (ecdf_ext _ _ Hd Hi), (im_ext _ _ Hd Hi). reflexivity. }
  destruct lo as [a|], hi as [b|]; cbn [lift_res]; rewrite ?Ev, ?Ei; try apply G.
  unfold copy.
  assert (Hd : (data f = None <-> data g = None)).
  { unfold get_values in Ev. split; intros H.
    - destruct (data g) as [gg|] eqn:Dg; [|reflexivity]. exfalso. rewrite H in Ev.
      pose proof (wf_values_nonempty g gg Wg Dg) as Hne. unfold get_values in Hne. rewrite Dg in Hne. congruence.
    - destruct (data f) as [ff|] eqn:Df; [|reflexivity]. exfalso. rewrite H in Ev.
      pose proof (wf_values_nonempty f ff Wf Df) as Hne. unfold get_values in Hne. rewrite Df in Hne. congruence. }
  assert (Ee : ecdf_of f = ecdf_of g).
  { unfold ecdf_of, value_sums, defined_pieces. rewrite Ev.
    destruct (data f) eqn:Df, (data g) eqn:Dg; try reflexivity.
    - discriminate (proj2 Hd eq_refl). - discriminate (proj1 Hd eq_refl). }
  assert (Em : integral_and_mean f = integral_and_mean g).
  { unfold integral_and_mean, defined_pieces. rewrite Ev.
    destruct (data f) eqn:Df, (data g) eqn:Dg; try reflexivity.
    - discriminate (proj2 Hd eq_refl). - discriminate (proj1 Hd eq_refl). }
  rewrite Ee, Em. reflexivity.
Qed.

Theorem corr_symmetric (f g : stairsQ) lo hi lc (v v' : V) : wf f -> wf g -> minimal f -> minimal g ->
  corr_signed_square f g lo hi 0 lc = Ok v -> corr_signed_square g f lo hi 0 lc = Ok v' -> v = v'.
Proof.
  intros Wf Wg Mf Mg. unfold corr_signed_square. change (Qceqb 0 0) with true. cbv iota.
  destruct (negb (closed_ok f g)); [discriminate|]. destruct (negb (closed_ok g f)); [intros _; discriminate|].
  destruct (cov_operands f g lo hi 0 lc) as [[[f1 g1] h1]|e] eqn:E1; [|discriminate]. cbn [lift_res].
  destruct (cov_operands g f lo hi 0 lc) as [[[g2 f2] h2]|e] eqn:E2; [|intros _; discriminate]. cbn [lift_res].
  destruct (operands_symmetric f g lo hi lc f1 g1 h1 g2 f2 h2 Wf Wg Mf Mg E1 E2)
    as (<- & (Wf1 & Wf2 & Mf1 & Mf2 & Fi & Fv) & (Wg1 & Wg2 & Mg1 & Mg2 & Gi & Gv)).
  rewrite (clipped_var_canonical f1 f2 lo h1 Wf1 Wf2 Fi Fv), (clipped_var_canonical g1 g2 lo h1 Wg1 Wg2 Gi Gv).
  destruct (clipped_var f2 lo h1) as [vf|e]; [|discriminate]. cbn [lift_res].
  destruct (clipped_var g2 lo h1) as [vg|e]; [|discriminate]. cbn [lift_res].
  rewrite (vmul_comm vg vf).
  destruct (vmul vf vg) as [d|].
  - destruct (Qceqb d 0).
    + intros H1 H2. injection H1 as <-. injection H2 as <-. reflexivity.
    + destruct (cov_masked f1 g1 lo h1) as [c1|e] eqn:C1; [|discriminate]. cbn [lift_res].
      destruct (cov_masked g2 f2 lo h1) as [c2|e] eqn:C2; [|intros _; discriminate]. cbn [lift_res].
      assert (c1 = c2) by (eapply cov_masked_symmetric; try exact C1; try exact C2; assumption). subst c2.
      intros H1 H2. injection H1 as <-. injection H2 as <-. reflexivity.
  - destruct (cov_masked f1 g1 lo h1) as [c1|e]; [|discriminate]. cbn [lift_res].
    destruct (cov_masked g2 f2 lo h1) as [c2|e]; [|intros _; discriminate]. cbn [lift_res].
    intros H1 H2. injection H1 as <-. injection H2 as <-. reflexivity.
Qed.

(* corr of two functions with steps and opposite closed sides is rejected before anything is computed *)
Theorem corr_rejects_opposite_sides (f g : stairsQ) lo hi lc :
  has_steps f = true -> has_steps g = true -> side_eqb (closed f) (closed g) = false ->
  corr_signed_square f g lo hi 0 lc = Err EClosedMismatch.
Proof.
  intros Hf Hg Hc. unfold corr_signed_square. change (Qceqb 0 0) with true. cbv iota.
  unfold closed_ok. rewrite Hf, Hg, Hc. reflexivity.
Qed.
