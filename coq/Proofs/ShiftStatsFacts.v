(* Proofs/ShiftStatsFacts.v — translating a step function leaves its value distribution untouched: the list of
   (value, length) pairs over the finite defined pieces of f.shift(d) is literally that of f, so every statistic the
   code derives from it (integral, mean, value_sums, hence mode / ecdf / percentiles / var) is the same. *)
From Coq Require Import List Bool Arith Lia QArith Qcanon Lqa.
Import ListNotations.
Require Import SC.Base.Ord SC.Base.Val SC.Base.Series SC.Base.QcOrd SC.Model.Repr SC.Model.Ops SC.Model.Masking SC.Model.Sampling SC.Model.Stats.
Require Import SC.Spec.Den SC.Proofs.SeriesFacts SC.Proofs.ReprFacts SC.Proofs.DeltaFacts SC.Proofs.OpsFacts SC.Proofs.QcDense.
Require Import SC.Proofs.MapKeysFacts SC.Proofs.StatsFacts.
Open Scope Qc_scope.

Notation ser := (list (Qc * V)).

Lemma defined_of_fin_pieces_shift (d : Qc) : forall l : ser,
  defined_of (fin_pieces (map_keys (fun k => k + d) l)) = defined_of (fin_pieces l).
Proof.
  induction l as [|[p v] t IH]; [reflexivity|]. destruct t as [|[p' v'] t']; [reflexivity|].
  change (map_keys (fun k => k + d) ((p, v) :: (p', v') :: t'))
    with ((p + d, v) :: map_keys (fun k => k + d) ((p', v') :: t')).
  change (map_keys (fun k => k + d) ((p', v') :: t'))
    with ((p' + d, v') :: map_keys (fun k => k + d) t') in *.
  cbn [fin_pieces]. unfold defined_of in *. cbn [flat_map]. cbn [fin_pieces] in IH. rewrite IH.
  cbn [fst snd]. destruct v as [y|]; [|reflexivity]. f_equal. f_equal. f_equal. ring.
Qed.

Lemma get_values_shift (f : stairs Qc) d : get_values (shift f d) = map_keys (fun k => k + d) (get_values f).
Proof.
  destruct (shift_is_relabel f d) as [E|[Dn E]]; rewrite E.
  - apply get_values_relabel.
  - unfold get_values. rewrite Dn. reflexivity.
Qed.

Theorem shift_preserves_distribution (f : stairs Qc) (d : Qc) : defined_pieces (shift f d) = defined_pieces f.
Proof. rewrite !defined_pieces_of, get_values_shift. apply defined_of_fin_pieces_shift. Qed.

Theorem shift_preserves_total_length (f : stairs Qc) (d : Qc) : value_total (shift f d) = value_total f.
Proof. unfold value_total. rewrite shift_preserves_distribution. reflexivity. Qed.

Theorem shift_preserves_integral_and_mean (f : stairs Qc) (d : Qc) : integral_and_mean (shift f d) = integral_and_mean f.
Proof.
  unfold integral_and_mean. rewrite shift_preserves_distribution, get_values_shift.
  unfold map_keys. rewrite map_length. unfold shift. destruct (data f); reflexivity.
Qed.

Theorem shift_preserves_value_sums (f : stairs Qc) (d : Qc) : value_sums (shift f d) = value_sums f.
Proof.
  unfold value_sums. rewrite shift_preserves_distribution. unfold shift. destruct (data f); reflexivity.
Qed.

Theorem shift_preserves_mode (f : stairs Qc) (d : Qc) : mode (shift f d) = mode f.
Proof. unfold mode. rewrite shift_preserves_value_sums. reflexivity. Qed.

Print Assumptions shift_preserves_distribution.
Print Assumptions shift_preserves_total_length.
Print Assumptions shift_preserves_integral_and_mean.
Print Assumptions shift_preserves_value_sums.
Print Assumptions shift_preserves_mode.
