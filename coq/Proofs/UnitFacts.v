(* Proofs/UnitFacts.v — change of unit / origin of the domain: k |-> a k + b with a > 0 (C17).
   Lengths, value sums and integrals scale by a; mean, var and the value distribution are unchanged. *)
From Coq Require Import List Bool Arith Lia QArith Qcanon.
Import ListNotations.
Require Import SC.Base.Ord SC.Base.Val SC.Base.Series SC.Base.QcOrd.
Require Import SC.Model.Repr SC.Model.Ops SC.Model.Masking SC.Model.Sampling SC.Model.Stats SC.Model.Slicing.
Require Import SC.Spec.Den SC.Proofs.SeriesFacts SC.Proofs.ReprFacts SC.Proofs.QcDense SC.Proofs.AggFacts
               SC.Proofs.StatsFacts SC.Proofs.VarFacts SC.Proofs.DistFacts SC.Proofs.MapKeysFacts.
Open Scope Qc_scope.

Notation ser := (list (Qc * V)).

Section Unit.
Variables a b : Qc.
Hypothesis a_pos : 0 < a.

Definition affine (k : Qc) : Qc := a * k + b.

Lemma affine_mono (x y : Qc) : ltb (affine x) (affine y) = ltb x y.
Proof.
  unfold affine.
  assert (F : forall u v, u < v -> a * u + b < a * v + b).
  { intros u v H. apply Qclt_minus_iff. replace (a * v + b + - (a * u + b)) with ((v + - u) * a) by ring.
    replace 0 with (0 * a) by ring. apply Qcmult_lt_compat_r; [exact a_pos|]. apply Qclt_minus_iff in H. exact H. }
  destruct (ltb x y) eqn:E.
  - apply ltb_lt. apply F. apply ltb_lt. exact E.
  - apply ltb_nlt. intros H. apply ltb_nlt in E. apply E.
    destruct (Qc_dec x y) as [[Hlt|Hgt]|Heq]; [exact Hlt| |].
    + exfalso. apply (Qclt_not_le _ _ H). apply Qclt_le_weak. apply F. exact Hgt.
    + subst. exfalso. exact (Qclt_not_eq _ _ H eq_refl).
Qed.

Lemma fin_pieces_map_keys : forall (l : ser),
  fin_pieces (map_keys affine l) = map (fun pc => (affine (fst (fst pc)), affine (snd (fst pc)), snd pc)) (fin_pieces l).
Proof.
  induction l as [|[p v] t IH]; [reflexivity|]. destruct t as [|[p' v'] t']; [reflexivity|].
  change (map_keys affine ((p, v) :: (p', v') :: t')) with ((affine p, v) :: (affine p', v') :: map_keys affine t').
  change (fin_pieces ((affine p, v) :: (affine p', v') :: map_keys affine t'))
    with ((affine p, affine p', v) :: fin_pieces (map_keys affine ((p', v') :: t'))).
  rewrite IH. reflexivity.
Qed.

Lemma defined_of_scaled (pcs : list (Qc * Qc * V)) :
  defined_of (map (fun pc => (affine (fst (fst pc)), affine (snd (fst pc)), snd pc)) pcs)
  = map (fun vl => (fst vl, snd vl * a)) (defined_of pcs).
Proof.
  unfold defined_of. induction pcs as [|[[p p'] [v|]] t IH]; [reflexivity| |]; cbn [map flat_map fst snd app].
  - rewrite IH. f_equal. f_equal. unfold affine. ring.
  - exact IH.
Qed.

Lemma scaled_total pcs : piece_total (map (fun pc => (affine (fst (fst pc)), affine (snd (fst pc)), snd pc)) pcs) = piece_total pcs * a.
Proof.
  unfold piece_total. rewrite defined_of_scaled, map_map. cbn [snd]. apply (qsum_scale _ snd a).
Qed.

Lemma scaled_weighted (phi : Qc -> Qc) pcs :
  qsum (map (fun vl => phi (fst vl) * snd vl) (defined_of (map (fun pc => (affine (fst (fst pc)), affine (snd (fst pc)), snd pc)) pcs)))
  = qsum (map (fun vl => phi (fst vl) * snd vl) (defined_of pcs)) * a.
Proof.
  rewrite defined_of_scaled, map_map. cbn [fst snd].
  rewrite <- (qsum_scale _ (fun vl : Qc * Qc => phi (fst vl) * snd vl) a). f_equal. apply map_ext. intros vl. ring.
Qed.

Lemma scaled_integral pcs : piece_integral (map (fun pc => (affine (fst (fst pc)), affine (snd (fst pc)), snd pc)) pcs) = piece_integral pcs * a.
Proof. unfold piece_integral. apply (scaled_weighted (fun v => v)). Qed.

Lemma scaled_sqdev m pcs : piece_sqdev m (map (fun pc => (affine (fst (fst pc)), affine (snd (fst pc)), snd pc)) pcs) = piece_sqdev m pcs * a.
Proof. unfold piece_sqdev. apply (scaled_weighted (fun v => (v - m) * (v - m))). Qed.

Lemma scaled_length_where P pcs :
  length_where P (map (fun pc => (affine (fst (fst pc)), affine (snd (fst pc)), snd pc)) pcs) = length_where P pcs * a.
Proof.
  unfold length_where. rewrite defined_of_scaled.
  induction (defined_of pcs) as [|[v len] t IH]; [unfold qsum; cbn [map filter fold_left]; ring|].
  cbn [map filter fst snd]. destruct (P v); cbn [map snd]; rewrite ?qsum_cons, IH; ring.
Qed.

Lemma a_ne : a <> 0.
Proof. intros E. rewrite E in a_pos. discriminate a_pos. Qed.

Lemma pieces_relabel (f : stairsQ) :
  fin_pieces (get_values (relabel affine f))
  = map (fun pc => (affine (fst (fst pc)), affine (snd (fst pc)), snd pc)) (fin_pieces (get_values f)).
Proof. rewrite get_values_relabel. apply fin_pieces_map_keys. Qed.

(* integral scales with the unit, mean does not *)
Theorem integral_mean_relabel (f : stairsQ) :
  integral_and_mean (relabel affine f)
  = (vmul (fst (integral_and_mean f)) (Some a), snd (integral_and_mean f)).
Proof.
  unfold integral_and_mean. change (data (relabel affine f))
    with (match data f with None => None | Some fr => Some (Frame (option_map (map_keys affine) (dcol fr)) (option_map (map_keys affine) (vcol fr))) end).
  destruct (data f) as [fr|] eqn:Df; [|reflexivity].
  rewrite get_values_relabel. unfold map_keys at 1. rewrite map_length.
  destruct (Nat.ltb (length (get_values f)) 2); [reflexivity|].
  rewrite !defined_pieces_of. rewrite pieces_relabel.
  set (pcs := fin_pieces (get_values f)).
  change (qsum (map (fun vl : Qc * Qc => fst vl * snd vl) (defined_of (map (fun pc => (affine (fst (fst pc)), affine (snd (fst pc)), snd pc)) pcs))))
    with (piece_integral (map (fun pc => (affine (fst (fst pc)), affine (snd (fst pc)), snd pc)) pcs)).
  change (qsum (map snd (defined_of (map (fun pc => (affine (fst (fst pc)), affine (snd (fst pc)), snd pc)) pcs))))
    with (piece_total (map (fun pc => (affine (fst (fst pc)), affine (snd (fst pc)), snd pc)) pcs)).
  rewrite scaled_integral, scaled_total.
  change (qsum (map (fun vl : Qc * Qc => fst vl * snd vl) (defined_of pcs))) with (piece_integral pcs).
  change (qsum (map snd (defined_of pcs))) with (piece_total pcs).
  cbn [fst snd vmul vlift2]. f_equal. unfold vdiv.
  destruct (Qceqb (piece_total pcs) 0) eqn:E0.
  - apply Qc_eq_bool_correct in E0. rewrite E0. replace (0 * a) with 0 by ring. reflexivity.
  - assert (Tne : piece_total pcs <> 0) by (intros E; rewrite E in E0; discriminate E0).
    destruct (Qceqb (piece_total pcs * a) 0) eqn:E1.
    + apply Qc_eq_bool_correct in E1. apply Qcmult_integral in E1. destruct E1 as [E1|E1]; [congruence|]. destruct (a_ne E1).
    + f_equal. unfold Qcdiv. rewrite Qcinv_mult_distr.
      transitivity (piece_integral pcs * / piece_total pcs * (a * / a)); [ring|]. rewrite Qcmult_inv_r by exact a_ne. ring.
Qed.

(* value sums scale with the unit ... *)
Definition sc (vl : Qc * Qc) : Qc * Qc := (fst vl, snd vl * a).

Lemma upsert_scale k len : forall acc : list (Qc * Qc),
  upsert k (len * a) (fun x => x + len * a) (map sc acc) = map sc (upsert k len (fun x => x + len) acc).
Proof.
  induction acc as [|[k' x] t IH]; [reflexivity|].
  change (map sc ((k', x) :: t)) with ((k', x * a) :: map sc t). rewrite !upsert_cons.
  destruct (ltb k k'); [reflexivity|]. destruct (ltb k' k).
  - rewrite IH. reflexivity.
  - cbn [map sc fst snd]. unfold sc at 2. cbn [fst snd]. f_equal. f_equal. ring.
Qed.

Lemma group_sum_scale_acc : forall (l acc : list (Qc * Qc)),
  fold_left (fun acc vl => upsert (fst vl) (snd vl) (fun x => x + snd vl) acc) (map sc l) (map sc acc)
  = map sc (fold_left (fun acc vl => upsert (fst vl) (snd vl) (fun x => x + snd vl) acc) l acc).
Proof.
  induction l as [|[v len] t IH]; intros acc; [reflexivity|].
  cbn [map fold_left]. change (sc (v, len)) with (v, len * a). cbn [fst snd]. rewrite upsert_scale. apply IH.
Qed.

Lemma group_sum_scale l : group_sum (map sc l) = map sc (group_sum l).
Proof. unfold group_sum. apply (group_sum_scale_acc l []). Qed.

Lemma defined_pieces_relabel (f : stairsQ) : defined_pieces (relabel affine f) = map sc (defined_pieces f).
Proof. rewrite !defined_pieces_of, pieces_relabel. apply defined_of_scaled. Qed.

Theorem value_sums_relabel (f : stairsQ) :
  value_sums (relabel affine f) = option_map (map sc) (value_sums f).
Proof.
  unfold value_sums. change (data (relabel affine f))
    with (match data f with None => None | Some fr => Some (Frame (option_map (map_keys affine) (dcol fr)) (option_map (map_keys affine) (vcol fr))) end).
  destruct (data f); [|reflexivity]. cbn [option_map]. rewrite defined_pieces_relabel, group_sum_scale. reflexivity.
Qed.

(* ... and the value distribution (ecdf, hence percentiles, fractiles, median, var given the mean) does not change at all *)
Theorem ecdf_relabel (f : stairsQ) : ecdf_of (relabel affine f) = ecdf_of f.
Proof.
  unfold ecdf_of. rewrite value_sums_relabel. destruct (value_sums f) as [[|b0 t]|]; try reflexivity.
  cbn [option_map]. change (map sc (b0 :: t)) with (sc b0 :: map sc t). cbv beta iota.
  change (sc b0 :: map sc t) with (map sc (b0 :: t)). generalize (b0 :: t). intros g.
  assert (ET : qsum (map snd (map sc g)) = qsum (map snd g) * a).
  { rewrite map_map. unfold sc. cbn [snd]. apply (qsum_scale _ snd a). }
  rewrite ET, map_map. do 5 f_equal. apply map_ext. intros vl. unfold sc. cbn [fst snd]. f_equal. f_equal.
  unfold Qcdiv. rewrite Qcinv_mult_distr.
  transitivity (snd vl * / qsum (map snd g) * (a * / a)); [ring|]. rewrite Qcmult_inv_r by exact a_ne. ring.
Qed.
End Unit.
