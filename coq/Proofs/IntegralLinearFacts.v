(* Proofs/IntegralLinearFacts.v — the integral computed from the piece table is linear in the represented function:
   additive for two tables that are defined on the same set, homogeneous under scaling, odd under negation.
   Stated on clipped tables (undefined before the first and after the last row, as clip produces for a finite window),
   for ANY three tables whose one-sided limits are related pointwise - so in particular for the tables the model's
   add / mul-by-scalar / negate algorithms produce, whichever internal path they took. Corollaries of
   integral_over_any_refinement (RefineFacts). *)
From Coq Require Import List Bool Arith Lia QArith Qcanon.
Import ListNotations.
Require Import SC.Base.Ord SC.Base.Val SC.Base.Series SC.Base.QcOrd.
Require Import SC.Model.Repr SC.Model.Ops SC.Model.Masking SC.Model.Sampling SC.Model.Stats SC.Model.Slicing.
Require Import SC.Spec.Den SC.Proofs.SeriesFacts SC.Proofs.ReprFacts SC.Proofs.AggFacts SC.Proofs.StatsFacts
               SC.Proofs.VarFacts SC.Proofs.RefineFacts SC.Proofs.OpsFacts SC.Proofs.MaskFacts SC.Proofs.ClipFacts
               SC.Proofs.CanonFacts SC.Proofs.MinimalFacts SC.Proofs.IdentityFacts SC.Proofs.CovFacts SC.Proofs.CovSelfFacts.
Open Scope Qc_scope.

Lemma rsum_add phi psi : forall P, (forall q, In q P -> (phi q = None <-> psi q = None)) ->
  rsum (fun q => vadd (phi q) (psi q)) P = rsum phi P + rsum psi P.
Proof.
  induction P as [|p t IH]; intros Hd; [simpl; ring|]. destruct t as [|p' t']; [simpl; ring|].
  rewrite !rsum_cons2, IH by (intros q Hq; apply Hd; right; exact Hq).
  pose proof (Hd p (or_introl eq_refl)) as Hp.
  destruct (phi p) as [x|], (psi p) as [y|]; cbn [vadd vlift2 pc_contrib]; try ring.
  - exfalso. destruct Hp as [_ Hp]. specialize (Hp eq_refl). discriminate.
  - exfalso. destruct Hp as [Hp _]. specialize (Hp eq_refl). discriminate.
Qed.

Lemma rsum_scale c phi : forall P, rsum (fun q => vmul (Some c) (phi q)) P = c * rsum phi P.
Proof.
  induction P as [|p t IH]; [simpl; ring|]. destruct t as [|p' t']; [simpl; ring|].
  rewrite !rsum_cons2, IH. destruct (phi p) as [x|]; cbn [vmul vlift2 pc_contrib]; ring.
Qed.

Lemma rsum_neg phi : forall P, rsum (fun q => vneg (phi q)) P = - rsum phi P.
Proof.
  induction P as [|p t IH]; [simpl; ring|]. destruct t as [|p' t']; [simpl; ring|].
  rewrite !rsum_cons2, IH. destruct (phi p) as [x|]; cbn [vneg pc_contrib]; ring.
Qed.

Notation rl l := (lookup false None l).

Theorem integral_additive (l1 l2 l3 : ser) :
  sorted l1 -> sorted l2 -> sorted l3 -> tail_none None l1 -> tail_none None l2 -> tail_none None l3 ->
  (forall x, rl l3 x = vadd (rl l1 x) (rl l2 x)) ->
  (forall x, rl l1 x = None <-> rl l2 x = None) ->
  piece_integral (fin_pieces l3) = piece_integral (fin_pieces l1) + piece_integral (fin_pieces l2).
Proof.
  intros S1 S2 S3 T1 T2 T3 E Hd.
  set (P := usort (keys l1 ++ keys l2 ++ keys l3)).
  destruct (usort_spec (keys l1 ++ keys l2 ++ keys l3)) as [HP HinP]. fold P in HP, HinP.
  assert (I1 : incl (keys l1) P) by (intros x Hx; apply HinP; apply in_or_app; left; exact Hx).
  assert (I2 : incl (keys l2) P) by (intros x Hx; apply HinP; apply in_or_app; right; apply in_or_app; left; exact Hx).
  assert (I3 : incl (keys l3) P) by (intros x Hx; apply HinP; apply in_or_app; right; apply in_or_app; right; exact Hx).
  rewrite (integral_over_any_refinement l1 P S1 HP I1 T1), (integral_over_any_refinement l2 P S2 HP I2 T2),
          (integral_over_any_refinement l3 P S3 HP I3 T3).
  rewrite <- rsum_add by (intros q _; apply Hd). apply rsum_ext. intros q _. apply E.
Qed.

Theorem integral_homogeneous (c : Qc) (l l' : ser) :
  sorted l -> sorted l' -> tail_none None l -> tail_none None l' ->
  (forall x, rl l' x = vmul (Some c) (rl l x)) ->
  piece_integral (fin_pieces l') = c * piece_integral (fin_pieces l).
Proof.
  intros S S' T T' E.
  set (P := usort (keys l ++ keys l')).
  destruct (usort_spec (keys l ++ keys l')) as [HP HinP]. fold P in HP, HinP.
  assert (I1 : incl (keys l) P) by (intros x Hx; apply HinP; apply in_or_app; left; exact Hx).
  assert (I2 : incl (keys l') P) by (intros x Hx; apply HinP; apply in_or_app; right; exact Hx).
  rewrite (integral_over_any_refinement l P S HP I1 T), (integral_over_any_refinement l' P S' HP I2 T').
  rewrite <- rsum_scale. apply rsum_ext. intros q _. apply E.
Qed.

Theorem integral_odd (l l' : ser) :
  sorted l -> sorted l' -> tail_none None l -> tail_none None l' ->
  (forall x, rl l' x = vneg (rl l x)) ->
  piece_integral (fin_pieces l') = - piece_integral (fin_pieces l).
Proof.
  intros S S' T T' E.
  set (P := usort (keys l ++ keys l')).
  destruct (usort_spec (keys l ++ keys l')) as [HP HinP]. fold P in HP, HinP.
  assert (I1 : incl (keys l) P) by (intros x Hx; apply HinP; apply in_or_app; left; exact Hx).
  assert (I2 : incl (keys l') P) by (intros x Hx; apply HinP; apply in_or_app; right; exact Hx).
  rewrite (integral_over_any_refinement l P S HP I1 T), (integral_over_any_refinement l' P S' HP I2 T').
  rewrite <- rsum_neg. apply rsum_ext. intros q _. apply E.
Qed.

(* the same function (same right limits) has the same integral, whatever redundant rows either table carries *)
Theorem integral_depends_on_function_only (l l' : ser) :
  sorted l -> sorted l' -> tail_none None l -> tail_none None l' ->
  (forall x, rl l' x = rl l x) ->
  piece_integral (fin_pieces l') = piece_integral (fin_pieces l).
Proof.
  intros S S' T T' E.
  set (P := usort (keys l ++ keys l')).
  destruct (usort_spec (keys l ++ keys l')) as [HP HinP]. fold P in HP, HinP.
  assert (I1 : incl (keys l) P) by (intros x Hx; apply HinP; apply in_or_app; left; exact Hx).
  assert (I2 : incl (keys l') P) by (intros x Hx; apply HinP; apply in_or_app; right; exact Hx).
  rewrite (integral_over_any_refinement l P S HP I1 T), (integral_over_any_refinement l' P S' HP I2 T').
  apply rsum_ext. intros q _. apply E.
Qed.

(* non-vacuity: two clipped tables defined on the same window [0,2), [1,3) would differ in definedness; these agree on [0,3) *)
Example additive_instance :
  let l1 : ser := [(Q2Qc 0, Some (Q2Qc 2)); (Q2Qc 1, Some (Q2Qc 5)); (Q2Qc 3, None)] in
  let l2 : ser := [(Q2Qc 0, Some (Q2Qc 1)); (Q2Qc 2, Some (Q2Qc (-4))); (Q2Qc 3, None)] in
  let l3 : ser := [(Q2Qc 0, Some (Q2Qc 3)); (Q2Qc 1, Some (Q2Qc 6)); (Q2Qc 2, Some (Q2Qc 1)); (Q2Qc 3, None)] in
  piece_integral (fin_pieces l3) = piece_integral (fin_pieces l1) + piece_integral (fin_pieces l2)
  /\ piece_integral (fin_pieces l3) = Q2Qc 10.
Proof. vm_compute. split; reflexivity. Qed.

(* ---- the same at the level of Stairs objects: the integral over a finite window [a, b], as the code computes it
   (clip to the window, then sum value * length over the finite pieces of the clipped table) *)
Definition wint (c : stairsQ) : Qc := piece_integral (fin_pieces (get_values c)).

(* wint is the number the model's integral pipeline (statistic._cache_integral_and_mean) returns for the clip *)
Theorem wint_is_the_integral (c : stairsQ) fr : data c = Some fr -> (2 <= length (get_values c))%nat ->
  fst (integral_and_mean c) = Some (wint c).
Proof. intros Dc Hl. rewrite (integral_mean_spec c fr Dc Hl). reflexivity. Qed.

Lemma clipped_right_limit (f c : stairsQ) a b : wf f -> clip f (Some a) (Some b) = Ok c ->
  wf c /\ sorted (get_values c) /\ tail_none None (get_values c) /\
  forall x, lookup false None (get_values c) x = if inside false (Some a) (Some b) x then lim LimRight f x else None.
Proof.
  intros Wf E. destruct (clip_spec f c (Some a) (Some b) Wf E) as (Wc & _ & L).
  destruct (clip_window_shape f c a b E) as (Ic & Tc).
  repeat split; auto.
  - apply wf_sorted_values. exact Wc.
  - intros x. pose proof (L LimRight x) as Lx. rewrite lim_right_lookup, Ic in Lx. exact Lx.
Qed.

Theorem window_integral_additive (f g cf cg cs : stairsQ) (a b : Qc) :
  wf f -> wf g ->
  clip f (Some a) (Some b) = Ok cf -> clip g (Some a) (Some b) = Ok cg ->
  clip (add_or_sub false f g) (Some a) (Some b) = Ok cs ->
  (forall x, inside false (Some a) (Some b) x = true -> (lim LimRight f x = None <-> lim LimRight g x = None)) ->
  wint cs = wint cf + wint cg.
Proof.
  intros Wf Wg Ef Eg Es Hd.
  destruct (add_or_sub_spec false f g Wf Wg) as (Ws & _ & Ls).
  destruct (clipped_right_limit f cf a b Wf Ef) as (_ & S1 & T1 & R1).
  destruct (clipped_right_limit g cg a b Wg Eg) as (_ & S2 & T2 & R2).
  destruct (clipped_right_limit _ cs a b Ws Es) as (_ & S3 & T3 & R3).
  unfold wint. apply integral_additive; auto.
  - intros x. rewrite R1, R2, R3, Ls. destruct (inside false (Some a) (Some b) x); reflexivity.
  - intros x. rewrite R1, R2. destruct (inside false (Some a) (Some b) x) eqn:I; [apply Hd; exact I|tauto].
Qed.

Theorem window_integral_negate (f cf cn : stairsQ) (a b : Qc) :
  wf f -> clip f (Some a) (Some b) = Ok cf -> clip (negate f) (Some a) (Some b) = Ok cn ->
  wint cn = - wint cf.
Proof.
  intros Wf Ef En. destruct (negate_spec f Wf) as (Wn & _ & Ln).
  destruct (clipped_right_limit f cf a b Wf Ef) as (_ & S1 & T1 & R1).
  destruct (clipped_right_limit _ cn a b Wn En) as (_ & S2 & T2 & R2).
  unfold wint. apply integral_odd; auto.
  intros x. rewrite R1, R2, Ln. destruct (inside false (Some a) (Some b) x); reflexivity.
Qed.

Theorem window_integral_scale (f cf cm : stairsQ) (k a b : Qc) :
  wf f -> clip f (Some a) (Some b) = Ok cf ->
  clip (apply_binop (BArith OMul) (const (Some k) (closed f)) f) (Some a) (Some b) = Ok cm ->
  wint cm = k * wint cf.
Proof.
  intros Wf Ef Em.
  destruct (apply_binop_spec (BArith OMul) (const (Some k) (closed f)) f (wf_const _ _) Wf) as (Wm & _ & Lm).
  destruct (clipped_right_limit f cf a b Wf Ef) as (_ & S1 & T1 & R1).
  destruct (clipped_right_limit _ cm a b Wm Em) as (_ & S2 & T2 & R2).
  unfold wint. apply integral_homogeneous; auto.
  intros x. rewrite R1, R2, Lm, lim_const. destruct (inside false (Some a) (Some b) x); reflexivity.
Qed.

(* two objects denoting the same function have the same integral over every finite window - whatever their internal
   state and however many redundant rows either carries *)
Theorem window_integral_respects_deq (f g cf cg : stairsQ) (a b : Qc) :
  wf f -> wf g -> deq f g ->
  clip f (Some a) (Some b) = Ok cf -> clip g (Some a) (Some b) = Ok cg -> wint cf = wint cg.
Proof.
  intros Wf Wg [_ E] Ef Eg.
  destruct (clipped_right_limit f cf a b Wf Ef) as (_ & S1 & T1 & R1).
  destruct (clipped_right_limit g cg a b Wg Eg) as (_ & S2 & T2 & R2).
  unfold wint. apply integral_depends_on_function_only; auto.
  intros x. rewrite R1, R2, E. reflexivity.
Qed.

Print Assumptions integral_additive.
Print Assumptions integral_homogeneous.
Print Assumptions integral_odd.
Print Assumptions integral_depends_on_function_only.
Print Assumptions window_integral_additive.
Print Assumptions window_integral_negate.
Print Assumptions window_integral_scale.
Print Assumptions window_integral_respects_deq.
Print Assumptions wint_is_the_integral.
