(* Proofs/CanonFacts.v — minimal representations are canonical; identical() decides equality of functions *)
From Coq Require Import List Bool Arith Lia QArith Qcanon.
Import ListNotations.
Require Import SC.Base.Ord SC.Base.Val SC.Base.Series SC.Model.Repr SC.Model.Ops SC.Model.Sampling.
Require Import SC.Spec.Den SC.Proofs.SeriesFacts SC.Proofs.ReprFacts SC.Proofs.DeltaFacts SC.Proofs.OpsFacts.
Open Scope Qc_scope.

Section CanonFacts.
Context {D : Type} `{Ord D}.
Notation ser := (list (D * V)).
Notation stairs := (stairs D).

Lemma lookup_head_left (v0 : V) p v (t : ser) : lookup true v0 ((p, v) :: t) p = v0.
Proof. simpl. unfold before. rewrite ltb_irrefl. reflexivity. Qed.

Lemma lookup_head_right (v0 : V) p v (t : ser) : ksorted_from p (keys t) -> lookup false v0 ((p, v) :: t) p = v.
Proof. apply lookup_R_self. Qed.

Lemma lookup_before_first s (v0 : V) p q w (u : ser) : ltb p q = true -> lookup s v0 ((q, w) :: u) p = v0.
Proof. intros Hlt. simpl. rewrite (before_gt s _ _ Hlt). reflexivity. Qed.

(* two minimal sorted series denoting the same function are equal (the domain must have a point) *)
Theorem series_canonical (x0 : D) : forall (l1 l2 : ser) (i1 i2 : V),
  sorted l1 -> sorted l2 -> minimal_from i1 l1 -> minimal_from i2 l2 ->
  (forall s x, lookup s i1 l1 x = lookup s i2 l2 x) -> i1 = i2 /\ l1 = l2.
Proof.
  induction l1 as [|[p v] t IH]; intros l2 i1 i2 S1 S2 M1 M2 E.
  - destruct l2 as [|[q w] u].
    + split; auto. exact (E false x0).
    + exfalso. destruct M2 as [Hne _].
      pose proof (E true q) as El. pose proof (E false q) as Er.
      rewrite lookup_head_left in El. rewrite (lookup_head_right i2 q w u S2) in Er. simpl in El, Er. congruence.
  - destruct M1 as [Hne1 M1]. assert (St : sorted t) by (eapply sorted_tail; eauto).
    destruct l2 as [|[q w] u].
    + exfalso. pose proof (E true p) as El. pose proof (E false p) as Er.
      rewrite lookup_head_left in El. rewrite (lookup_head_right i1 p v t S1) in Er. simpl in El, Er. congruence.
    + destruct M2 as [Hne2 M2]. assert (Su : sorted u) by (eapply sorted_tail; eauto).
      destruct (cmpP p q) as [Hlt Hn|Heq|Hgt Hn].
      * exfalso. pose proof (E true p) as El. pose proof (E false p) as Er.
        rewrite lookup_head_left, (lookup_before_first true i2 p q w u Hlt) in El.
        rewrite (lookup_head_right i1 p v t S1), (lookup_before_first false i2 p q w u Hlt) in Er. congruence.
      * subst q. pose proof (E true p) as El. pose proof (E false p) as Er.
        rewrite !lookup_head_left in El.
        rewrite (lookup_head_right i1 p v t S1), (lookup_head_right i2 p w u S2) in Er. subst i2 w.
        destruct (IH u v v St Su M1 M2) as [_ Etl].
        { intros s x. pose proof (E s x) as Ex. simpl in Ex. destruct (before s p x) eqn:B; [exact Ex|].
          rewrite (lookup_not_before V s v p t x S1 B), (lookup_not_before V s v p u x S2 B). reflexivity. }
        subst u. auto.
      * exfalso. pose proof (E true q) as El. pose proof (E false q) as Er.
        rewrite lookup_head_left, (lookup_before_first true i1 q p v t Hgt) in El.
        rewrite (lookup_head_right i2 q w u S2), (lookup_before_first false i1 q p v t Hgt) in Er. congruence.
Qed.

Theorem canonical (x0 : D) (f g : stairs) :
  wf f -> wf g -> minimal f -> minimal g ->
  (forall sd x, lim sd f x = lim sd g x) ->
  init f = init g /\ get_values f = get_values g.
Proof.
  intros Wf Wg Mf Mg E.
  apply (series_canonical x0); auto using wf_sorted_values.
  intros s x. destruct s; [exact (E LimLeft x)|exact (E LimRight x)].
Qed.

(* ---- the two internal forms determine each other *)
Lemma cumsum_dov_some : forall (l : ser) a first, cumsum a (dov (Some a) first l) = l.
Proof.
  induction l as [|[p [y|]] t IH]; intros a first; simpl; auto.
  - replace (a + (y - a)) with y by ring. rewrite IH. reflexivity.
  - rewrite IH. reflexivity.
Qed.

Definition encodable (i : V) (l : ser) : Prop :=
  match i, l with None, (_, None) :: _ => False | _, _ => True end.

Lemma minimal_encodable i (l : ser) : minimal_from i l -> encodable i l.
Proof. destruct i, l as [|[p [y|]] t]; simpl; auto. intros [Hne _]. congruence. Qed.

Theorem forms_roundtrip i (l : ser) : encodable i l -> vals_of_deltas i (deltas_of_vals i l) = l.
Proof.
  unfold vals_of_deltas, deltas_of_vals. destruct i as [a|]; simpl; intros He.
  - apply cumsum_dov_some.
  - destruct l as [|[p [y|]] t]; simpl in *; auto; [|contradiction].
    replace (0 + y) with y by ring. rewrite cumsum_dov_some. reflexivity.
Qed.

Lemma values_from_deltas (f : stairs) : wf f -> encodable (init f) (get_values f) ->
  get_values f = vals_of_deltas (init f) (get_deltas f).
Proof.
  unfold wf, get_values, get_deltas, frame_values, frame_deltas. destruct (data f) as [fr|]; [|reflexivity].
  intros (_ & _ & _ & Hc) He. destruct (dcol fr) as [d|], (vcol fr) as [v|]; auto.
  symmetry. apply forms_roundtrip. exact He.
Qed.

(* ---- identical *)
Lemma ser_eqb_eq (a b : ser) : ser_eqb a b = true <-> a = b.
Proof.
  unfold ser_eqb. revert b. induction a as [|[p v] a IH]; intros [|[q w] b]; simpl; split; intros E; auto; try discriminate.
  - apply andb_true_iff in E. destruct E as [E1 E2]. apply andb_true_iff in E2. destruct E2 as [E2 E3].
    apply andb_true_iff in E2. destruct E2 as [E2 E4]. apply deqb_eq in E2. apply veqb_eq in E4. subst.
    f_equal. apply IH. rewrite E1. exact E3.
  - injection E as -> -> ->. rewrite deqb_refl, veqb_refl. simpl.
    apply (proj2 (IH b) eq_refl).
Qed.

(* identical() = true exactly when both denote the same function (minimal operands; closed sides are
   not compared by identical) *)
Theorem identical_sound (f g : stairs) :
  wf f -> wf g -> encodable (init f) (get_values f) -> encodable (init g) (get_values g) ->
  identical f g = true -> forall sd x, lim sd f x = lim sd g x.
Proof.
  intros Wf Wg Ef Eg. unfold identical. destruct (veqb (init f) (init g)) eqn:Ei; [|discriminate]. simpl.
  apply veqb_eq in Ei. intros Hid sd x. unfold lim. rewrite Ei.
  assert (Hv : get_values f = get_values g).
  { destruct (data f) as [ff|] eqn:Df, (data g) as [gg|] eqn:Dg; try discriminate.
    - destruct (has_v f && has_v g).
      + apply ser_eqb_eq. exact Hid.
      + apply ser_eqb_eq in Hid. rewrite (values_from_deltas f Wf Ef), (values_from_deltas g Wg Eg), Hid, Ei. reflexivity.
    - unfold get_values. rewrite Df, Dg. reflexivity. }
  rewrite Hv. reflexivity.
Qed.

Lemma dov_cumsum_some : forall (d : ser) a first, dov (Some a) first (cumsum a d) = d.
Proof.
  induction d as [|[p [y|]] t IH]; intros a first; simpl; auto.
  - replace (a + y - a) with y by ring. rewrite IH. reflexivity.
  - rewrite IH. reflexivity.
Qed.

Lemma deltas_from_values (f : stairs) : wf f -> encodable (init f) (get_values f) ->
  get_deltas f = deltas_of_vals (init f) (get_values f).
Proof.
  unfold wf, get_values, get_deltas, frame_values, frame_deltas. destruct (data f) as [fr|]; [|reflexivity].
  intros (_ & _ & _ & Hc) He. destruct (dcol fr) as [d|] eqn:Ed, (vcol fr) as [v|] eqn:Ev; auto.
  - rewrite (Hc d v eq_refl eq_refl) in *. clear Hc.
    unfold deltas_of_vals, vals_of_deltas in *. destruct (init f) as [a|]; simpl in *.
    + symmetry. apply dov_cumsum_some.
    + destruct d as [|[p [y|]] t]; simpl in *; auto; [|contradiction].
      replace (0 + y) with y by ring. rewrite dov_cumsum_some. reflexivity.
  - unfold deltas_of_vals, vals_of_deltas in *. destruct (init f) as [a|]; simpl in *.
    + symmetry. apply dov_cumsum_some.
    + destruct d as [|[p [y|]] t]; simpl in *; auto; [|contradiction].
      replace (0 + y) with y by ring. rewrite dov_cumsum_some. reflexivity.
Qed.

Theorem identical_complete (x0 : D) (f g : stairs) :
  wf f -> wf g -> minimal f -> minimal g ->
  (forall sd x, lim sd f x = lim sd g x) -> identical f g = true.
Proof.
  intros Wf Wg Mf Mg E. destruct (canonical x0 f g Wf Wg Mf Mg E) as [Ei Ev].
  pose proof (minimal_encodable _ _ Mf) as Ef. pose proof (minimal_encodable _ _ Mg) as Eg.
  unfold identical. rewrite Ei, veqb_refl. simpl.
  destruct (data f) as [ff|] eqn:Df, (data g) as [gg|] eqn:Dg.
  - destruct (has_v f && has_v g).
    + apply ser_eqb_eq. exact Ev.
    + apply ser_eqb_eq. rewrite (deltas_from_values f Wf Ef), (deltas_from_values g Wg Eg), Ev, Ei. reflexivity.
  - exfalso. pose proof (get_values_nonempty f ff Wf Df) as Hne. rewrite Ev in Hne.
    unfold get_values in Hne. rewrite Dg in Hne. congruence.
  - exfalso. pose proof (get_values_nonempty g gg Wg Dg) as Hne. rewrite <- Ev in Hne.
    unfold get_values in Hne. rewrite Df in Hne. congruence.
  - reflexivity.
Qed.

(* bool(f) is true exactly for the constant 1 *)
Theorem to_bool_spec (x0 : D) (f : stairs) : wf f -> minimal f ->
  (to_bool f = true <-> forall sd x, lim sd f x = Some 1).
Proof.
  intros Wf Mf. unfold to_bool. split.
  - intros E. apply andb_true_iff in E. destruct E as [E1 E2]. apply veqb_eq in E1.
    unfold has_steps in E2. destruct (data f) eqn:Df; [discriminate|].
    intros sd x. rewrite (lim_no_data f sd x Df). exact E1.
  - intros E.
    assert (W1 : wf (@const D (Some 1) (closed f))) by exact I.
    assert (M1 : minimal (@const D (Some 1) (closed f))) by exact I.
    destruct (canonical x0 f (const (Some 1) (closed f)) Wf W1 Mf M1) as [Ei Ev].
    { intros sd x. rewrite E. reflexivity. }
    simpl in Ei, Ev. rewrite Ei, veqb_refl. simpl. unfold has_steps.
    destruct (data f) as [fr|] eqn:Df; auto. exfalso. exact (get_values_nonempty f fr Wf Df Ev).
Qed.

End CanonFacts.
