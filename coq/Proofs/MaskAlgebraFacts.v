(* Proofs/MaskAlgebraFacts.v — algebraic laws of masking, clipping and the boolean views, as corollaries of
   their specifications: clip is idempotent and clips commute, fillna(c) is idempotent, ~~f is bool(f),
   ~isna(f) is notna(f). Up to [deq]: same closed side, same one-sided limits at every point. *)
From Coq Require Import List Bool Arith Lia QArith Qcanon.
Import ListNotations.
Require Import SC.Base.Ord SC.Base.Val SC.Base.Series SC.Model.Repr SC.Model.Ops SC.Model.Masking SC.Model.Sampling.
Require Import SC.Spec.Den SC.Proofs.SeriesFacts SC.Proofs.ReprFacts SC.Proofs.DeltaFacts SC.Proofs.OpsFacts.
Require Import SC.Proofs.MaskFacts SC.Proofs.ClipFacts.
Open Scope Qc_scope.

Lemma truthy_b2q b : truthy (b2q b) = b.
Proof. destruct b; reflexivity. Qed.

Lemma vnot_vnot a : vnot (vnot a) = vtruth a.
Proof.
  destruct a as [x|]; [|reflexivity]. unfold vnot at 2. unfold vbool, vnot, vtruth.
  rewrite truthy_b2q, negb_involutive. reflexivity.
Qed.

Lemma vnot_visna a : vnot (visna a) = vnotna a.
Proof. unfold visna, vnotna, vbool, vnot. rewrite truthy_b2q. reflexivity. Qed.

Lemma vfill_vfill a c : vfill (vfill a c) c = vfill a c.
Proof. destruct a as [x|], c as [y|]; reflexivity. Qed.

Section MaskAlgebraFacts.
Context {D : Type} `{Ord D}.
Notation stairs := (stairs D).

(* ~~f is bool(f) *)
Theorem invert_twice (f : stairs) : wf f -> deq (invert (invert f)) (make_boolean f).
Proof.
  intros Wf. unfold invert, make_boolean.
  destruct (boolean_like_spec vnot f Wf) as ((W1 & C1 & L1) & _).
  destruct (boolean_like_spec vnot _ W1) as ((_ & C2 & L2) & _).
  destruct (boolean_like_spec vtruth f Wf) as ((_ & C3 & L3) & _).
  split; [congruence|]. intros sd x. rewrite L2, L1, L3. apply vnot_vnot.
Qed.

(* ~f.isna() is f.notna() *)
Theorem invert_isna (f : stairs) : wf f -> deq (invert (isna f)) (notna f).
Proof.
  intros Wf. unfold invert, isna, notna.
  destruct (null_comparison_spec visna f Wf) as ((W1 & C1 & L1) & _).
  destruct (boolean_like_spec vnot _ W1) as ((_ & C2 & L2) & _).
  destruct (null_comparison_spec vnotna f Wf) as ((_ & C3 & L3) & _).
  split; [congruence|]. intros sd x. rewrite L2, L1, L3. apply vnot_visna.
Qed.

(* f.fillna(c).fillna(c) is f.fillna(c) *)
Theorem fillna_scalar_idempotent (f : stairs) c :
  wf f -> deq (fillna_scalar (fillna_scalar f c) c) (fillna_scalar f c).
Proof.
  intros Wf.
  destruct (fillna_scalar_spec f c Wf) as ((W1 & C1 & L1) & _).
  destruct (fillna_scalar_spec _ c W1) as ((_ & C2 & L2) & _).
  split; [congruence|]. intros sd x. rewrite L2, L1. apply vfill_vfill.
Qed.

(* clipping twice to the same window is clipping once *)
Theorem clip_idempotent (f r r' : stairs) lo hi :
  wf f -> clip f lo hi = Ok r -> clip r lo hi = Ok r' -> deq r' r.
Proof.
  intros Wf E1 E2.
  destruct (clip_spec f r lo hi Wf E1) as (W1 & C1 & L1).
  destruct (clip_spec r r' lo hi W1 E2) as (_ & C2 & L2).
  split; [congruence|]. intros sd x. rewrite L2, L1.
  destruct (inside (strict_of sd) lo hi x); reflexivity.
Qed.

(* clips commute: the result is the restriction to the intersection of the windows either way *)
Theorem clip_commutes (f r1 r2 s1 s2 : stairs) a b c d :
  wf f -> clip f a b = Ok r1 -> clip r1 c d = Ok r2 -> clip f c d = Ok s1 -> clip s1 a b = Ok s2 ->
  deq r2 s2.
Proof.
  intros Wf E1 E2 E3 E4.
  destruct (clip_spec f r1 a b Wf E1) as (W1 & C1 & L1).
  destruct (clip_spec r1 r2 c d W1 E2) as (_ & C2 & L2).
  destruct (clip_spec f s1 c d Wf E3) as (W3 & C3 & L3).
  destruct (clip_spec s1 s2 a b W3 E4) as (_ & C4 & L4).
  split; [congruence|]. intros sd x. rewrite L2, L1, L4, L3.
  destruct (inside (strict_of sd) a b x), (inside (strict_of sd) c d x); reflexivity.
Qed.

Lemma vlog_and_self a : vlog LAnd a a = vtruth a.
Proof. destruct a as [x|]; [|reflexivity]. unfold vlog, vtruth, log_holds. rewrite andb_diag. reflexivity. Qed.
Lemma vlog_or_self a : vlog LOr a a = vtruth a.
Proof. destruct a as [x|]; [|reflexivity]. unfold vlog, vtruth, log_holds. rewrite orb_diag. reflexivity. Qed.
Lemma visna_vfill a c : visna (vfill a (Some c)) = vbool false.
Proof. destruct a; reflexivity. Qed.

(* f & f and f | f are bool(f) *)
Theorem and_self (f : stairs) : wf f -> deq (logical LAnd f f) (make_boolean f).
Proof.
  intros Wf. unfold make_boolean.
  destruct (logical_spec LAnd f f Wf Wf) as (_ & C1 & L1).
  destruct (boolean_like_spec vtruth f Wf) as ((_ & C2 & L2) & _).
  split.
  - rewrite C1, C2. unfold result_side. destruct (has_steps f); reflexivity.
  - intros sd x. rewrite L1, L2. apply vlog_and_self.
Qed.

Theorem or_self (f : stairs) : wf f -> deq (logical LOr f f) (make_boolean f).
Proof.
  intros Wf. unfold make_boolean.
  destruct (logical_spec LOr f f Wf Wf) as (_ & C1 & L1).
  destruct (boolean_like_spec vtruth f Wf) as ((_ & C2 & L2) & _).
  split.
  - rewrite C1, C2. unfold result_side. destruct (has_steps f); reflexivity.
  - intros sd x. rewrite L1, L2. apply vlog_or_self.
Qed.

(* after fillna(c) with a defined c nothing is undefined: isna is the constant 0 *)
Theorem fillna_leaves_nothing_undefined (f : stairs) (c : Qc) :
  wf f -> forall sd x, lim sd (isna (fillna_scalar f (Some c))) x = vbool false.
Proof.
  intros Wf sd x. unfold isna.
  destruct (fillna_scalar_spec f (Some c) Wf) as ((W1 & _ & L1) & _).
  destruct (null_comparison_spec visna _ W1) as ((_ & _ & L2) & _).
  rewrite L2, L1. apply visna_vfill.
Qed.

End MaskAlgebraFacts.

Print Assumptions invert_twice.
Print Assumptions invert_isna.
Print Assumptions fillna_scalar_idempotent.
Print Assumptions clip_idempotent.
Print Assumptions clip_commutes.
Print Assumptions and_self.
Print Assumptions or_self.
Print Assumptions fillna_leaves_nothing_undefined.
