(* Proofs/ClosedFacts.v — the closed side of results (C15) and independence of the representation (C16) *)
From Coq Require Import List Bool Arith Lia QArith Qcanon.
Import ListNotations.
Require Import SC.Base.Ord SC.Base.Val SC.Base.Series SC.Model.Repr SC.Model.Ops SC.Model.Masking SC.Model.Sampling.
Require Import SC.Spec.Den SC.Proofs.SeriesFacts SC.Proofs.ReprFacts SC.Proofs.DeltaFacts SC.Proofs.OpsFacts
               SC.Proofs.MaskFacts SC.Proofs.ClipFacts SC.Proofs.LayerFacts SC.Proofs.CanonFacts SC.Proofs.MinimalFacts.
Open Scope Qc_scope.

Section ClosedFacts.
Context {D : Type} `{Ord D}.
Notation stairs := (stairs D).

(* the side of the operand(s) that have steps, the receiver's when none has *)
Definition side_rule (a b : operand (D := D)) : option side :=
  match a, b with
  | OpS f, OpS g => Some (result_side f g)
  | OpS f, OpC _ => Some (closed f)
  | OpC _, OpS g => Some (closed g)
  | OpC _, OpC _ => None
  end.

Theorem binop_closed_rule (o : binop) (a b : operand) (r : stairs) :
  owf a -> owf b -> binop_api o a b = Ok r -> side_rule a b = Some (closed r).
Proof.
  intros Wa Wb. unfold binop_api, side_rule. destruct a as [f|c], b as [g|c']; simpl in *.
  - destruct (closed_ok f g); [|discriminate]. intros E. injection E as <-.
    destruct (apply_binop_spec o f g Wa Wb) as (_ & H2 & _). congruence.
  - intros E. injection E as <-.
    destruct (apply_binop_spec o f (const c' (closed f)) Wa (wf_const _ _)) as (_ & H2 & _).
    rewrite H2. unfold result_side. simpl. destruct (has_steps f); reflexivity.
  - intros E. injection E as <-.
    destruct (apply_binop_spec o (const c (closed g)) g (wf_const _ _) Wb) as (_ & H2 & _).
    rewrite H2. unfold result_side. simpl. destruct (has_steps g); reflexivity.
  - discriminate.
Qed.

(* opposite sides on two operands that both have steps: an error, never a silent choice; and only then *)
Theorem binop_mismatch_iff (o : binop) (f g : stairs) :
  binop_api o (OpS f) (OpS g) = Err EClosedMismatch <->
  (has_steps f = true /\ has_steps g = true /\ closed f <> closed g).
Proof.
  unfold binop_api, closed_ok. split.
  - destruct (has_steps f), (has_steps g); simpl; try discriminate.
    destruct (closed f), (closed g); simpl; try discriminate; intros _; repeat split; congruence.
  - intros (-> & -> & Hne). simpl. destruct (closed f), (closed g); simpl; auto; congruence.
Qed.

Theorem mask_closed_rule inverse (f g r : stairs) :
  wf f -> wf g -> mask_stairs inverse f g = Ok r -> closed r = result_side f g.
Proof. intros Wf Wg E. exact (proj1 (proj2 (mask_stairs_spec inverse f g r Wf Wg E))). Qed.

Theorem mask_mismatch_iff inverse (f g : stairs) :
  mask_stairs inverse f g = Err EClosedMismatch <->
  (has_steps f = true /\ has_steps g = true /\ closed f <> closed g).
Proof.
  unfold mask_stairs, closed_ok, has_steps. destruct (data g) as [gg|]; split.
  - destruct (data f); simpl; try discriminate.
    destruct (closed f), (closed g); simpl; try discriminate; intros _; repeat split; congruence.
  - intros (Hf & _ & Hne). destruct (data f); [|discriminate]. simpl.
    destruct (closed f), (closed g); simpl; auto; congruence.
  - destruct (mask_val inverse (init g)); discriminate.
  - intros (_ & Hg & _). discriminate.
Qed.

Theorem fillna_closed_rule (f g r : stairs) :
  wf f -> wf g -> fillna_stairs f g = Ok r -> closed r = result_side f g.
Proof. intros Wf Wg E. exact (proj1 (proj2 (fillna_stairs_spec f g r Wf Wg E))). Qed.

(* unary operations, clip, scalar fills, method fills and layering keep the receiver's side *)
Theorem unary_keeps_closed (f : stairs) : wf f ->
  closed (negate f) = closed f /\ closed (invert f) = closed f /\ closed (make_boolean f) = closed f /\
  closed (isna f) = closed f /\ closed (notna f) = closed f /\
  (forall c, closed (fillna_scalar f c) = closed f) /\
  (forall m, closed (fillna_method m f) = closed f) /\
  (forall lo hi r, clip f lo hi = Ok r -> closed r = closed f) /\
  (forall a, closed (layer f a) = closed f).
Proof.
  intros Wf. repeat split.
  - exact (proj1 (proj2 (proj1 (boolean_like_spec vnot f Wf)))).
  - exact (proj1 (proj2 (proj1 (boolean_like_spec vtruth f Wf)))).
  - exact (proj1 (proj2 (proj1 (null_comparison_spec visna f Wf)))).
  - exact (proj1 (proj2 (proj1 (null_comparison_spec vnotna f Wf)))).
  - intros c. exact (proj1 (proj2 (proj1 (fillna_scalar_spec f c Wf)))).
  - intros [|]; [exact (proj1 (proj2 (ffill_spec f Wf)))|exact (proj1 (proj2 (bfill_spec f Wf)))].
  - intros lo hi r E. exact (proj1 (proj2 (clip_spec f r lo hi Wf E))).
  - intros a. exact (proj1 (proj2 (layer_spec f a Wf))).
Qed.

(* the tuple shorthands never raise a mismatch *)
Theorem tuple_forms_never_mismatch (f : stairs) lo hi : wf f ->
  mask_tuple f lo hi <> Err EClosedMismatch /\ where_tuple f lo hi <> Err EClosedMismatch.
Proof.
  intros Wf. split.
  - unfold mask_tuple. intro E. apply mask_mismatch_iff in E. destruct E as (_ & _ & Hne).
    apply Hne. symmetry. exact (proj1 (proj2 (layer_spec (const (Some 0) (closed f)) (LScalar lo hi 1) I))).
  - unfold where_tuple. intro E. destruct (clip_error f lo hi _ E) as [Hx _]. discriminate.
Qed.

(* ---- C16: results depend only on the functions denoted *)
Lemma has_steps_values (f : stairs) : wf f -> has_steps f = negb (match get_values f with [] => true | _ => false end).
Proof.
  intros Wf. unfold has_steps. destruct (data f) as [fr|] eqn:Df.
  - pose proof (get_values_nonempty f fr Wf Df). destruct (get_values f); [congruence|reflexivity].
  - unfold get_values. rewrite Df. reflexivity.
Qed.

Lemma deq_has_steps (x0 : D) (f f' : stairs) : wf f -> wf f' -> minimal f -> minimal f' -> deq f f' ->
  has_steps f = has_steps f'.
Proof.
  intros Wf Wf' Mf Mf' [_ E]. destruct (canonical x0 f f' Wf Wf' Mf Mf' E) as [_ Ev].
  rewrite (has_steps_values f Wf), (has_steps_values f' Wf'), Ev. reflexivity.
Qed.

Theorem binop_respects_deq (x0 : D) (o : binop) (f f' g g' : stairs) :
  wf f -> wf f' -> wf g -> wf g' -> minimal f -> minimal f' -> minimal g -> minimal g' ->
  deq f f' -> deq g g' ->
  deq (apply_binop o f g) (apply_binop o f' g') /\
  (closed_ok f g = closed_ok f' g').
Proof.
  intros Wf Wf' Wg Wg' Mf Mf' Mg Mg' Ef Eg.
  pose proof (deq_has_steps x0 f f' Wf Wf' Mf Mf' Ef) as Hf.
  pose proof (deq_has_steps x0 g g' Wg Wg' Mg Mg' Eg) as Hg.
  destruct Ef as [Cf Lf]. destruct Eg as [Cg Lg].
  destruct (apply_binop_spec o f g Wf Wg) as (_ & C1 & L1).
  destruct (apply_binop_spec o f' g' Wf' Wg') as (_ & C2 & L2).
  split; [split|].
  - rewrite C1, C2. unfold result_side. rewrite Hf, Hg, Cf, Cg. reflexivity.
  - intros sd x. rewrite L1, L2, Lf, Lg. reflexivity.
  - unfold closed_ok. rewrite Hf, Hg, Cf, Cg. reflexivity.
Qed.

Theorem unary_respects_deq (f f' : stairs) : wf f -> wf f' -> deq f f' ->
  deq (negate f) (negate f') /\ deq (invert f) (invert f') /\ deq (make_boolean f) (make_boolean f') /\
  deq (isna f) (isna f') /\ deq (notna f) (notna f') /\
  (forall c, deq (fillna_scalar f c) (fillna_scalar f' c)) /\
  (forall a, deq (layer f a) (layer f' a)) /\
  (forall lo hi r r', clip f lo hi = Ok r -> clip f' lo hi = Ok r' -> deq r r').
Proof.
  intros Wf Wf' [Cf Lf].
  assert (G : forall (r r' : stairs) (fn : V -> V) , spec1 r f fn (closed f) -> spec1 r' f' fn (closed f') -> deq r r').
  { intros r r' fn (_ & C1 & L1) (_ & C2 & L2). split; [congruence|]. intros sd x. rewrite L1, L2, Lf. reflexivity. }
  repeat split.
  - exact (proj1 (G _ _ _ (negate_spec f Wf) (negate_spec f' Wf'))).
  - exact (proj2 (G _ _ _ (negate_spec f Wf) (negate_spec f' Wf'))).
  - exact (proj1 (G _ _ _ (proj1 (boolean_like_spec vnot f Wf)) (proj1 (boolean_like_spec vnot f' Wf')))).
  - exact (proj2 (G _ _ _ (proj1 (boolean_like_spec vnot f Wf)) (proj1 (boolean_like_spec vnot f' Wf')))).
  - exact (proj1 (G _ _ _ (proj1 (boolean_like_spec vtruth f Wf)) (proj1 (boolean_like_spec vtruth f' Wf')))).
  - exact (proj2 (G _ _ _ (proj1 (boolean_like_spec vtruth f Wf)) (proj1 (boolean_like_spec vtruth f' Wf')))).
  - exact (proj1 (G _ _ _ (proj1 (null_comparison_spec visna f Wf)) (proj1 (null_comparison_spec visna f' Wf')))).
  - exact (proj2 (G _ _ _ (proj1 (null_comparison_spec visna f Wf)) (proj1 (null_comparison_spec visna f' Wf')))).
  - exact (proj1 (G _ _ _ (proj1 (null_comparison_spec vnotna f Wf)) (proj1 (null_comparison_spec vnotna f' Wf')))).
  - exact (proj2 (G _ _ _ (proj1 (null_comparison_spec vnotna f Wf)) (proj1 (null_comparison_spec vnotna f' Wf')))).
  - exact (proj1 (G _ _ _ (proj1 (fillna_scalar_spec f c Wf)) (proj1 (fillna_scalar_spec f' c Wf')))).
  - exact (proj2 (G _ _ _ (proj1 (fillna_scalar_spec f c Wf)) (proj1 (fillna_scalar_spec f' c Wf')))).
  - destruct (layer_spec f a Wf) as (_ & C1 & _). destruct (layer_spec f' a Wf') as (_ & C2 & _). congruence.
  - intros sd x. destruct (layer_spec f a Wf) as (_ & _ & L1). destruct (layer_spec f' a Wf') as (_ & _ & L2).
    rewrite L1, L2, Lf. reflexivity.
  - destruct (clip_spec f r lo hi Wf H0) as (_ & C1 & _). destruct (clip_spec f' r' lo hi Wf' H1) as (_ & C2 & _). congruence.
  - intros sd x. destruct (clip_spec f r lo hi Wf H0) as (_ & _ & L1). destruct (clip_spec f' r' lo hi Wf' H1) as (_ & _ & L2).
    rewrite L1, L2, Lf. reflexivity.
Qed.

End ClosedFacts.

Section Materialise.
Context {D : Type} `{Ord D}.

Lemma materialise_invisible (f : stairs D) : wf f -> minimal f ->
  (wf (with_values f) /\ deq (with_values f) f) /\ (wf (with_deltas f) /\ deq (with_deltas f) f).
Proof.
  intros Wf Mf. pose proof (minimal_encodable _ _ Mf) as Ef.
  unfold with_values, with_deltas. destruct (data f) as [fr|] eqn:Df; [|repeat split; auto; exact I].
  assert (Hv : frame_values (init f) fr = get_values f) by (unfold get_values; rewrite Df; reflexivity).
  assert (Hd : frame_deltas (init f) fr = get_deltas f) by (unfold get_deltas; rewrite Df; reflexivity).
  pose proof (wf_sorted_values f Wf) as Sv. pose proof (wf_sorted_deltas f Wf) as Sd.
  pose proof (get_values_nonempty f fr Wf Df) as Nv.
  pose proof (values_from_deltas f Wf Ef) as Evd.
  assert (Nd : get_deltas f <> []).
  { intro E. rewrite E in Evd. unfold vals_of_deltas in Evd. simpl in Evd. congruence. }
  pose proof Wf as Wf0. unfold wf in Wf0. rewrite Df in Wf0. destruct Wf0 as (Hany & Hdc & Hvc & Hc).
  rewrite Hv, Hd.
  assert (G1 : get_values (Stairs (init f) (Some (Frame (dcol fr) (Some (get_values f)))) (closed f)) = get_values f) by reflexivity.
  assert (G2 : get_values (Stairs (init f) (Some (Frame (Some (get_deltas f)) (vcol fr))) (closed f)) = get_values f).
  { unfold get_values at 1. simpl. unfold frame_values. simpl. destruct (vcol fr) as [v0|] eqn:E1.
    - unfold get_values, frame_values. rewrite Df, E1. reflexivity.
    - symmetry. exact Evd. }
  split; split.
  - unfold wf. simpl. split; [right; congruence|]. split; [exact Hdc|]. split; [split; [exact Sv|exact Nv]|].
    intros d v Ed Ev. injection Ev as <-. unfold get_values, frame_values. rewrite Df, Ed.
    destruct (vcol fr) as [v0|] eqn:E1; [apply (Hc d v0); auto|reflexivity].
  - split; [reflexivity|]. intros sd x. unfold lim. rewrite G1. reflexivity.
  - unfold wf. simpl. split; [left; congruence|]. split; [split; [exact Sd|exact Nd]|]. split; [exact Hvc|].
    intros d v Ed Ev. injection Ed as <-. rewrite <- Evd. unfold get_values, frame_values. rewrite Df, Ev. reflexivity.
  - split; [reflexivity|]. intros sd x. unfold lim. rewrite G2. reflexivity.
Qed.
End Materialise.
