(* Proofs/RangeFacts.v — values_in_range / min / max over a window respect endpoint closedness exactly (C10) *)
From Coq Require Import List Bool Arith Lia QArith Qcanon Lqa.
Import ListNotations.
Require Import SC.Base.Ord SC.Base.Val SC.Base.Series SC.Base.QcOrd.
Require Import SC.Model.Repr SC.Model.Ops SC.Model.Masking SC.Model.Sampling SC.Model.Stats SC.Model.Slicing.
Require Import SC.Spec.Den SC.Proofs.SeriesFacts SC.Proofs.SliceFacts SC.Proofs.ReprFacts SC.Proofs.OpsFacts
               SC.Proofs.SamplingFacts SC.Proofs.QcDense SC.Proofs.ClipFacts SC.Proofs.AggFacts.
Open Scope Qc_scope.

Notation ser := (list (Qc * V)).

(* the evaluation side of a function: right limits for left-closed, left limits for right-closed *)
Definition sflag (c : side) : bool := match c with CLeft => false | CRight => true end.

Lemma fn_is_val_at (f : stairsQ) x :
  fn f x = val_at V (init f) (get_values f) (count_before (sflag (closed f)) (keys (get_values f)) x).
Proof.
  unfold fn, lim. replace (strict_of (sample_side (closed f))) with (sflag (closed f)) by (destruct (closed f); reflexivity).
  symmetry. unfold val_at. apply (limit_idx_gen V).
Qed.

(* the window, with its endpoint closedness *)
Definition lo_ok (il : bool) (lo : option Qc) (x : Qc) : bool :=
  match lo with None => true | Some a => if il then leb a x else ltb a x end.
Definition hi_ok (ir : bool) (hi : option Qc) (x : Qc) : bool :=
  match hi with None => true | Some b => if ir then leb x b else ltb x b end.
Definition in_window (il ir : bool) (lo hi : option Qc) (x : Qc) : Prop :=
  lo_ok il lo x = true /\ hi_ok ir hi x = true.

(* ---- monotonicity of the bisect counts *)
Lemma count_mono_same s (ks : list Qc) a x : leb a x = true -> (count_before s ks a <= count_before s ks x)%nat.
Proof.
  intros Hax. apply count_before_impl. intros k _ Hk. destruct s; unfold before in *.
  - eapply ltb_leb_trans; eauto.
  - eapply leb_trans; eauto.
Qed.

Lemma count_le_lt (ks : list Qc) a x s : ltb a x = true -> (count_before false ks a <= count_before s ks x)%nat.
Proof.
  intros Hax. apply count_before_impl. intros k _ Hk. unfold before in Hk.
  assert (ltb k x = true) by (eapply leb_ltb_trans; eauto).
  destruct s; unfold before; auto. apply ltb_leb. auto.
Qed.

Lemma count_lt_upper (ks : list Qc) b x s : ltb x b = true -> (count_before s ks x <= count_before true ks b)%nat.
Proof.
  intros Hxb. apply count_before_impl. intros k _ Hk. unfold before.
  destruct s; unfold before in Hk.
  - eapply ltb_trans; eauto.
  - eapply leb_ltb_trans; eauto.
Qed.

Lemma count_true_le_false (ks : list Qc) x : (count_before true ks x <= count_before false ks x)%nat.
Proof. apply count_before_weaken. Qed.

Definition lower_count (ks : list Qc) (how : bool) (lo : option Qc) : nat :=
  match lo with None => O | Some a => count_before how ks a end.
Definition upper_count_k (ks : list Qc) (how : bool) (hi : option Qc) : nat :=
  match hi with None => length ks | Some b => count_before how ks b end.

(* every point of the window is evaluated at a position between the two bisect counts *)
Lemma window_position (c : side) (il ir : bool) (ks : list Qc) lo hi x :
  in_window il ir lo hi x ->
  let hows := get_lims c il ir in
  (lower_count ks (fst hows) lo <= count_before (sflag c) ks x)%nat /\
  (count_before (sflag c) ks x <= upper_count_k ks (snd hows) hi)%nat.
Proof.
  intros [Hl Hu]. unfold lo_ok in Hl. unfold hi_ok in Hu. split.
  - unfold lower_count. destruct lo as [a|]; [|lia].
    destruct c, il, ir; cbn [get_lims fst snd sflag] in *;
      first [ apply count_mono_same; exact Hl
            | apply count_mono_same; apply ltb_leb; exact Hl
            | apply count_le_lt; exact Hl
            | (eapply Nat.le_trans; [apply count_true_le_false|]; apply count_le_lt; exact Hl) ].
  - unfold upper_count_k. destruct hi as [b|]; [|apply count_before_le_length].
    destruct c, il, ir; cbn [get_lims fst snd sflag] in *;
      first [ apply count_mono_same; exact Hu
            | apply count_lt_upper; exact Hu
            | apply count_mono_same; apply ltb_leb; exact Hu ].
Qed.

(* ---- which positions values_in_range reports *)
Lemma nth_error_skipn_gen (A : Type) : forall (l : list A) n k, nth_error (skipn n l) k = nth_error l (n + k).
Proof. induction l as [|a l IH]; intros [|n] k; simpl; auto. destruct k; reflexivity. Qed.

Lemma in_firstn_skipn (A : Type) (w : A) : forall (l : list A) s m,
  In w (firstn m (skipn s l)) <-> exists p, (s <= p < s + m)%nat /\ nth_error l p = Some w.
Proof.
  intros l s m. split.
  - intros Hin. apply In_nth_error in Hin. destruct Hin as [q Hq].
    assert (Hqm : (q < m)%nat).
    { assert (Hlen : (q < length (firstn m (skipn s l)))%nat) by (apply nth_error_Some; congruence).
      rewrite firstn_length in Hlen. lia. }
    rewrite (nth_error_firstn_lt A) in Hq by exact Hqm. rewrite nth_error_skipn_gen in Hq.
    exists (s + q)%nat. split; [lia|exact Hq].
  - intros (p & [Hs Hm] & Hp).
    assert (Hq : nth_error (firstn m (skipn s l)) (p - s) = Some w).
    { rewrite (nth_error_firstn_lt A) by lia. rewrite nth_error_skipn_gen.
      replace (s + (p - s))%nat with p by lia. exact Hp. }
    eapply nth_error_In; eauto.
Qed.

Lemma in_defined_vals (l : list V) v : In v (defined_vals l) <-> In (Some v) l.
Proof.
  unfold defined_vals. rewrite in_flat_map. split.
  - intros ([y|] & Hin & Hy); simpl in Hy; [|destruct Hy]. destruct Hy as [->|[]]. exact Hin.
  - intros Hin. exists (Some v). split; simpl; auto.
Qed.

Lemma val_at_nth_error (i : V) (vs : ser) j w : (1 <= j)%nat ->
  nth_error (vals vs) (j - 1) = Some w -> val_at V i vs j = w.
Proof.
  intros Hj Hn. destruct j as [|k]; [lia|]. simpl. replace (k - 0)%nat with k in Hn by lia.
  simpl in Hn. rewrite Nat.sub_0_r in Hn. apply nth_error_nth. exact Hn.
Qed.

Theorem vir_positions (f : stairsQ) fr lo hi (hows : bool * bool) v :
  data f = Some fr ->
  let vs := get_values f in
  let li := lower_count (keys vs) (fst hows) lo in
  let ri := upper_count_k (keys vs) (snd hows) hi in
  In v (values_in_range f lo hi hows) <->
  exists j, (li <= j <= ri)%nat /\ val_at V (init f) vs j = Some v.
Proof.
  intros Df vs li ri. unfold values_in_range. rewrite Df. fold vs.
  assert (Hlen : length vs = length (keys vs)) by (unfold keys; rewrite map_length; reflexivity).
  change (match lo with Some a => count_before (fst hows) (keys vs) a | None => 0%nat end) with li.
  assert (Eri : match hi with Some b => count_before (snd hows) (keys vs) b | None => length vs end = ri)
    by (unfold ri, upper_count_k; destruct hi; [reflexivity|exact Hlen]).
  rewrite Eri.
  assert (Hri : (ri <= length (vals vs))%nat).
  { unfold ri, upper_count_k, vals. rewrite map_length, Hlen. destruct hi; [apply count_before_le_length|lia]. }
  rewrite (proj2 (usort_spec _)), in_defined_vals.
  assert (Hsl : forall w, In w (vals (firstn (ri - pred li) (skipn (pred li) vs))) <->
                          exists p, (pred li <= p < ri)%nat /\ nth_error (vals vs) p = Some w).
  { intros w. unfold vals. rewrite <- firstn_map, <- skipn_map. rewrite in_firstn_skipn.
    split; intros (p & Hp & E); exists p; split; auto; lia. }
  split.
  - intros Hin.
    assert (Hcases : (li = 0%nat /\ init f = Some v) \/ In (Some v) (vals (firstn (ri - pred li) (skipn (pred li) vs)))).
    { destruct (Nat.eqb li 0) eqn:E; [|auto]. apply Nat.eqb_eq in E. destruct Hin as [Hi|Hi]; auto. }
    destruct Hcases as [[E0 Hi]|Hs].
    + exists 0%nat. split; [lia|exact Hi].
    + apply Hsl in Hs. destruct Hs as (p & Hp & E). exists (S p). split; [lia|].
      apply val_at_nth_error; [lia|]. replace (S p - 1)%nat with p by lia. exact E.
  - intros (j & Hj & Hv). destruct j as [|k].
    + assert (li = 0%nat) by lia. rewrite H. simpl. left. exact Hv.
    + assert (Hin : In (Some v) (vals (firstn (ri - pred li) (skipn (pred li) vs)))).
      { apply Hsl. exists k. split; [lia|]. simpl in Hv.
        assert (Hk : (k < length (vals vs))%nat) by lia.
        rewrite <- Hv. apply nth_error_nth'. exact Hk. }
      destruct (Nat.eqb li 0); [right|]; exact Hin.
Qed.

(* every value the function takes at a defined point of the window is reported *)
Theorem vir_reports_every_value (f : stairsQ) (il ir : bool) lo hi x v :
  in_window il ir lo hi x -> fn f x = Some v ->
  In v (values_in_range f lo hi (get_lims (closed f) il ir)).
Proof.
  intros Hw Hv. destruct (data f) as [fr|] eqn:Df.
  - apply (vir_positions f fr lo hi _ v Df).
    exists (count_before (sflag (closed f)) (keys (get_values f)) x). split.
    + apply window_position. exact Hw.
    + rewrite <- fn_is_val_at. exact Hv.
  - unfold values_in_range. rewrite Df. unfold fn in Hv. rewrite (lim_no_data f _ x Df) in Hv. rewrite Hv. simpl. auto.
Qed.

(* ---- a point strictly between finitely many lower and upper bounds *)
Lemma Qc_lt_trans_b a b c : ltb a b = true -> ltb b c = true -> ltb a c = true.
Proof. apply ltb_trans. Qed.

Lemma exists_between (L U : list Qc) :
  (forall l u, In l L -> In u U -> ltb l u = true) ->
  exists x, (forall l, In l L -> ltb l x = true) /\ (forall u, In u U -> ltb x u = true).
Proof.
  revert U. induction L as [|l L IHL]; intros U Hp.
  - induction U as [|u U IHU].
    + exists 0. split; intros ? [].
    + destruct IHU as [x [_ Hx]]. { intros l u' []. }
      destruct (below u) as [y Hy]. destruct (ltb y x) eqn:E.
      * exists y. split; [intros ? []|]. intros u' [->|Hu']; auto. eapply ltb_trans; eauto.
      * exists (x - 1). assert (Hx1 : ltb (x - 1) x = true).
        { apply Qcltb_lt. unfold Qclt. rewrite Qc_this_minus. simpl. lra. }
        split; [intros ? []|]. intros u' [->|Hu'].
        -- eapply ltb_leb_trans; [exact Hx1|]. eapply leb_trans; [|apply ltb_leb; exact Hy]. unfold leb. rewrite E. reflexivity.
        -- eapply ltb_trans; [exact Hx1|]. auto.
  - destruct (IHL U) as [x [HL HU]]. { intros l' u Hl' Hu. apply Hp; simpl; auto. }
    destruct (ltb l x) eqn:E.
    + exists x. split; auto. intros l' [->|Hl']; auto.
    + (* x <= l: every element of L is below l; choose a point between l and every u *)
      assert (Hlx : leb x l = true) by (unfold leb; rewrite E; reflexivity).
      assert (HlU : exists z, ltb l z = true /\ forall u, In u U -> ltb z u = true).
      { clear IHL HL HU E Hlx. assert (Hl : forall u, In u U -> ltb l u = true) by (intros u Hu; apply Hp; simpl; auto).
        clear Hp. induction U as [|u U IHU].
        - destruct (above l) as [z Hz]. exists z. split; auto; intros ? [].
        - destruct IHU as [z [Hz HzU]]. { intros u' Hu'. apply Hl. simpl; auto. }
          destruct (ltb z u) eqn:Ez.
          + exists z. split; auto. intros u' [->|Hu']; auto.
          + destruct (between l u (Hl u (or_introl eq_refl))) as [w [Hw1 Hw2]].
            exists w. split; auto. intros u' [->|Hu']; auto.
            eapply ltb_trans; [exact Hw2|]. eapply leb_ltb_trans; [|apply HzU; exact Hu']. unfold leb. rewrite Ez. reflexivity. }
      destruct HlU as [z [Hz HzU]]. exists z. split; auto.
      intros l' [->|Hl']; auto. eapply ltb_trans; [|exact Hz]. eapply ltb_leb_trans; [apply HL; exact Hl'|exact Hlx].
Qed.

(* ---- the bisect count at a point strictly inside the j-th cell of the step points *)
Lemma count_exact s : forall (ks : list Qc) j x,
  (forall p k, (p < j)%nat -> nth_error ks p = Some k -> before s k x = true) ->
  (forall k, nth_error ks j = Some k -> before s k x = false) ->
  (j <= length ks)%nat -> count_before s ks x = j.
Proof.
  induction ks as [|k0 t IH]; intros j x Hb Ha Hj; simpl in *.
  - lia.
  - destruct j as [|j].
    + rewrite (Ha k0 eq_refl). reflexivity.
    + rewrite (Hb 0%nat k0 ltac:(lia) eq_refl). f_equal. apply IH.
      * intros p k Hp Hk. apply (Hb (S p) k); [lia|exact Hk].
      * intros k Hk. apply Ha. exact Hk.
      * lia.
Qed.

Lemma sorted_nth_lt : forall (ks : list Qc) p q a b, ksorted ks ->
  (p < q)%nat -> nth_error ks p = Some a -> nth_error ks q = Some b -> ltb a b = true.
Proof.
  induction ks as [|k0 t IH]; intros p q a b Hs Hpq Ha Hb.
  - destruct p; discriminate.
  - destruct q as [|q]; [lia|]. simpl in Hb. destruct p as [|p].
    + simpl in Ha. injection Ha as <-. apply (@ksorted_from_lt _ _ k0 t b Hs). eapply nth_error_In; eauto.
    + simpl in Ha. apply (IH p q a b); auto; [eapply ksorted_tail; eauto|lia].
Qed.

Lemma count_in_cell s (ks : list Qc) j x : ksorted ks -> (j <= length ks)%nat ->
  (forall a, (1 <= j)%nat -> nth_error ks (j - 1) = Some a -> ltb a x = true) ->
  (forall b, nth_error ks j = Some b -> ltb x b = true) ->
  count_before s ks x = j.
Proof.
  intros Hs Hj Hlo Hhi. apply count_exact; auto.
  - intros p k Hp Hk. apply before_lt.
    destruct (Nat.eq_dec p (j - 1)) as [->|Hne].
    + apply Hlo; [lia|exact Hk].
    + destruct (nth_error ks (j - 1)) as [a|] eqn:Ea.
      * eapply ltb_trans; [|apply (Hlo a); [lia|reflexivity]].
        apply (sorted_nth_lt ks p (j - 1) k a Hs); auto. lia.
      * exfalso. apply nth_error_None in Ea. lia.
  - intros k Hk. apply before_gt. apply Hhi. exact Hk.
Qed.

Lemma count_prefix_keys s : forall (ks : list Qc) x p k,
  (p < count_before s ks x)%nat -> nth_error ks p = Some k -> before s k x = true.
Proof.
  induction ks as [|k0 t IH]; intros x p k Hp Hk; simpl in *; [lia|].
  destruct (before s k0 x) eqn:B; rewrite ?B in Hp; [|lia]. destruct p as [|p]; simpl in Hk.
  - injection Hk as <-. exact B.
  - eapply IH; eauto. lia.
Qed.

Lemma count_suffix_keys s : forall (ks : list Qc) x p k, ksorted ks ->
  (count_before s ks x <= p)%nat -> nth_error ks p = Some k -> before s k x = false.
Proof.
  induction ks as [|k0 t IH]; intros x p k Hs Hp Hk; simpl in *; [destruct p; discriminate|].
  destruct (before s k0 x) eqn:B; rewrite ?B in Hp.
  - destruct p as [|p]; [lia|]. simpl in Hk. apply (IH x p k); [eapply ksorted_from_ksorted; exact Hs|lia|exact Hk].
  - destruct p as [|p]; simpl in Hk.
    + injection Hk as <-. exact B.
    + apply (@before_mono _ _ s k0 k x); auto.
      apply (@ksorted_from_lt _ _ k0 t k Hs). eapply nth_error_In; eauto.
Qed.

Lemma count_false_le_S_true : forall (ks : list Qc) a, ksorted ks ->
  (count_before false ks a <= S (count_before true ks a))%nat.
Proof.
  induction ks as [|k0 t IH]; intros a Hs; cbn [count_before]; [lia|].
  change (before false k0 a) with (leb k0 a). change (before true k0 a) with (ltb k0 a).
  destruct (leb k0 a) eqn:El; [|lia]. destruct (ltb k0 a) eqn:Et.
  - apply le_n_S. apply IH. eapply ksorted_tail; eauto.
  - (* k0 = a: no later key is <= a *)
    assert (k0 = a). { apply ltb_total; auto. unfold leb in El. apply negb_true_iff in El. exact El. }
    subst k0. assert (Hz : count_before false t a = 0%nat).
    { destruct t as [|k1 t']; cbn [count_before]; auto. change (before false k1 a) with (leb k1 a).
      destruct Hs as [Hlt _]. unfold leb. rewrite Hlt. reflexivity. }
    rewrite Hz. lia.
Qed.

Definition window_nonempty (lo hi : option Qc) : Prop :=
  match lo, hi with Some a, Some b => ltb a b = true | _, _ => True end.

(* every reported value is taken at some defined point of the window *)
Theorem vir_values_are_taken (f : stairsQ) (il ir : bool) lo hi v :
  wf f -> window_nonempty lo hi ->
  In v (values_in_range f lo hi (get_lims (closed f) il ir)) ->
  exists x, in_window il ir lo hi x /\ fn f x = Some v.
Proof.
  intros Wf Hne Hin.
  (* a point of the open window always exists *)
  assert (Hopen : forall L U, (forall l u, In l L -> In u U -> ltb l u = true) ->
             (forall l, In l L -> match hi with Some b => ltb l b = true | None => True end) ->
             (forall u, In u U -> match lo with Some a => ltb a u = true | None => True end) ->
             exists x, in_window il ir lo hi x /\ (forall l, In l L -> ltb l x = true) /\ (forall u, In u U -> ltb x u = true)).
  { intros L U HLU HLh HUl.
    destruct (exists_between (match lo with Some a => [a] | None => [] end ++ L) (match hi with Some b => [b] | None => [] end ++ U)) as [x [Hx1 Hx2]].
    { intros l u Hl Hu. apply in_app_or in Hl. apply in_app_or in Hu.
      destruct Hl as [Hl|Hl], Hu as [Hu|Hu].
      - destruct lo as [a|], hi as [b|]; simpl in Hl, Hu; try tauto. destruct Hl as [<-|[]], Hu as [<-|[]]. exact Hne.
      - specialize (HUl u Hu). destruct lo as [a|]; simpl in Hl; [|tauto]. destruct Hl as [<-|[]]. exact HUl.
      - specialize (HLh l Hl). destruct hi as [b|]; simpl in Hu; [|tauto]. destruct Hu as [<-|[]]. exact HLh.
      - apply HLU; auto. }
    exists x. split; [|split].
    - split.
      + unfold lo_ok. destruct lo as [a|]; auto.
        assert (Hax : ltb a x = true) by (apply Hx1; apply in_or_app; left; simpl; auto).
        destruct il; auto. apply ltb_leb; auto.
      + unfold hi_ok. destruct hi as [b|]; auto.
        assert (Hxb : ltb x b = true) by (apply Hx2; apply in_or_app; left; simpl; auto).
        destruct ir; auto. apply ltb_leb; auto.
    - intros l Hl. apply Hx1. apply in_or_app. auto.
    - intros u Hu. apply Hx2. apply in_or_app. auto. }
  destruct (data f) as [fr|] eqn:Df.
  - pose proof (wf_sorted_values f Wf) as Hs. unfold sorted in Hs.
    apply (vir_positions f fr lo hi _ v Df) in Hin. destruct Hin as (j & [Hlj Hjr] & Hv).
    set (ks := keys (get_values f)) in *.
    assert (Hjlen : (j <= length ks)%nat).
    { eapply Nat.le_trans; [exact Hjr|]. unfold upper_count_k. destruct hi; [apply count_before_le_length|lia]. }
    (* (B) the lower end point itself *)
    destruct lo as [a|] eqn:Elo.
    + destruct (Nat.ltb j (count_before false ks a)) eqn:EB.
      * apply Nat.ltb_lt in EB. unfold lower_count in Hlj.
        assert (Hhow : fst (get_lims (closed f) il ir) = true).
        { destruct (fst (get_lims (closed f) il ir)) eqn:Eh; auto. lia. }
        rewrite Hhow in Hlj. pose proof (count_false_le_S_true ks a Hs) as H1.
        assert (Ej : j = count_before true ks a) by lia.
        assert (Hc : closed f = CRight /\ il = true).
        { destruct (closed f), il, ir; simpl in Hhow; try discriminate; auto. }
        destruct Hc as [Hc ->]. exists a. split.
        -- split; [simpl; apply leb_refl|]. unfold hi_ok. destruct hi as [b|]; auto.
           simpl in Hne. destruct ir; auto. apply ltb_leb; auto.
        -- rewrite fn_is_val_at. rewrite Hc. simpl sflag. fold ks. rewrite <- Ej. exact Hv.
      * apply Nat.ltb_ge in EB.
        (* (C) the upper end point itself, or (A) an interior point of the j-th cell *)
        destruct hi as [b|] eqn:Ehi.
        -- destruct (Nat.ltb (count_before true ks b) j) eqn:EC.
           ++ apply Nat.ltb_lt in EC. unfold upper_count_k in Hjr.
              assert (Hhow : snd (get_lims (closed f) il ir) = false).
              { destruct (snd (get_lims (closed f) il ir)) eqn:Eh; auto. lia. }
              rewrite Hhow in Hjr. pose proof (count_false_le_S_true ks b Hs) as H1.
              assert (Ej : j = count_before false ks b) by lia.
              assert (Hc : closed f = CLeft /\ ir = true).
              { destruct (closed f), il, ir; simpl in Hhow; try discriminate; auto. }
              destruct Hc as [Hc ->]. exists b. split.
              ** split; [|simpl; apply leb_refl]. simpl in Hne. unfold lo_ok. destruct il; auto. apply ltb_leb; auto.
              ** rewrite fn_is_val_at. rewrite Hc. simpl sflag. fold ks. rewrite <- Ej. exact Hv.
           ++ apply Nat.ltb_ge in EC.
              destruct (Hopen (match j with O => [] | S k => match nth_error ks k with Some q => [q] | None => [] end end)
                              (match nth_error ks j with Some q => [q] | None => [] end)) as (x & Hw & HxL & HxU).
              ** intros l u Hl Hu. destruct j as [|k]; [destruct Hl|].
                 destruct (nth_error ks k) as [q|] eqn:Eq; [|destruct Hl]. destruct Hl as [<-|[]].
                 destruct (nth_error ks (S k)) as [q'|] eqn:Eq'; [|destruct Hu]. destruct Hu as [<-|[]].
                 apply (sorted_nth_lt ks k (S k) q q' Hs); auto.
              ** intros l Hl. destruct j as [|k]; [destruct Hl|].
                 destruct (nth_error ks k) as [q|] eqn:Eq; [|destruct Hl]. destruct Hl as [<-|[]].
                 apply (count_prefix_keys true ks b k q); [lia|exact Eq].
              ** intros u Hu. destruct (nth_error ks j) as [q|] eqn:Eq; [|destruct Hu]. destruct Hu as [<-|[]].
                 pose proof (count_suffix_keys false ks a j q Hs EB Eq) as Hb. unfold before, leb in Hb.
                 apply negb_false_iff in Hb. exact Hb.
              ** exists x. split; [exact Hw|]. rewrite fn_is_val_at. fold ks.
                 rewrite (count_in_cell (sflag (closed f)) ks j x Hs Hjlen); [exact Hv| |].
                 --- intros q Hj1 Eq. apply HxL. destruct j as [|k]; [lia|]. replace (S k - 1)%nat with k in Eq by lia. rewrite Eq. simpl; auto.
                 --- intros q Eq. apply HxU. rewrite Eq. simpl; auto.
        -- destruct (Hopen (match j with O => [] | S k => match nth_error ks k with Some q => [q] | None => [] end end)
                              (match nth_error ks j with Some q => [q] | None => [] end)) as (x & Hw & HxL & HxU).
           ** intros l u Hl Hu. destruct j as [|k]; [destruct Hl|].
              destruct (nth_error ks k) as [q|] eqn:Eq; [|destruct Hl]. destruct Hl as [<-|[]].
              destruct (nth_error ks (S k)) as [q'|] eqn:Eq'; [|destruct Hu]. destruct Hu as [<-|[]].
              apply (sorted_nth_lt ks k (S k) q q' Hs); auto.
           ** intros l Hl. exact I.
           ** intros u Hu. destruct (nth_error ks j) as [q|] eqn:Eq; [|destruct Hu]. destruct Hu as [<-|[]].
              pose proof (count_suffix_keys false ks a j q Hs EB Eq) as Hb. unfold before, leb in Hb.
              apply negb_false_iff in Hb. exact Hb.
           ** exists x. split; [exact Hw|]. rewrite fn_is_val_at. fold ks.
              rewrite (count_in_cell (sflag (closed f)) ks j x Hs Hjlen); [exact Hv| |].
              --- intros q Hj1 Eq. apply HxL. destruct j as [|k]; [lia|]. replace (S k - 1)%nat with k in Eq by lia. rewrite Eq. simpl; auto.
              --- intros q Eq. apply HxU. rewrite Eq. simpl; auto.
    + (* no lower bound *)
      destruct hi as [b|] eqn:Ehi.
      * destruct (Nat.ltb (count_before true ks b) j) eqn:EC.
        -- apply Nat.ltb_lt in EC. unfold upper_count_k in Hjr.
           assert (Hhow : snd (get_lims (closed f) il ir) = false).
           { destruct (snd (get_lims (closed f) il ir)) eqn:Eh; auto. lia. }
           rewrite Hhow in Hjr. pose proof (count_false_le_S_true ks b Hs) as H1.
           assert (Ej : j = count_before false ks b) by lia.
           assert (Hc : closed f = CLeft /\ ir = true).
           { destruct (closed f), il, ir; simpl in Hhow; try discriminate; auto. }
           destruct Hc as [Hc ->]. exists b. split.
           ++ split; [reflexivity|simpl; apply leb_refl].
           ++ rewrite fn_is_val_at. rewrite Hc. simpl sflag. fold ks. rewrite <- Ej. exact Hv.
        -- apply Nat.ltb_ge in EC.
           destruct (Hopen (match j with O => [] | S k => match nth_error ks k with Some q => [q] | None => [] end end)
                           (match nth_error ks j with Some q => [q] | None => [] end)) as (x & Hw & HxL & HxU).
           ++ intros l u Hl Hu. destruct j as [|k]; [destruct Hl|].
              destruct (nth_error ks k) as [q|] eqn:Eq; [|destruct Hl]. destruct Hl as [<-|[]].
              destruct (nth_error ks (S k)) as [q'|] eqn:Eq'; [|destruct Hu]. destruct Hu as [<-|[]].
              apply (sorted_nth_lt ks k (S k) q q' Hs); auto.
           ++ intros l Hl. destruct j as [|k]; [destruct Hl|].
              destruct (nth_error ks k) as [q|] eqn:Eq; [|destruct Hl]. destruct Hl as [<-|[]].
              apply (count_prefix_keys true ks b k q); [lia|exact Eq].
           ++ intros u Hu. exact I.
           ++ exists x. split; [exact Hw|]. rewrite fn_is_val_at. fold ks.
              rewrite (count_in_cell (sflag (closed f)) ks j x Hs Hjlen); [exact Hv| |].
              ** intros q Hj1 Eq. apply HxL. destruct j as [|k]; [lia|]. replace (S k - 1)%nat with k in Eq by lia. rewrite Eq. simpl; auto.
              ** intros q Eq. apply HxU. rewrite Eq. simpl; auto.
      * destruct (Hopen (match j with O => [] | S k => match nth_error ks k with Some q => [q] | None => [] end end)
                        (match nth_error ks j with Some q => [q] | None => [] end)) as (x & Hw & HxL & HxU).
        -- intros l u Hl Hu. destruct j as [|k]; [destruct Hl|].
           destruct (nth_error ks k) as [q|] eqn:Eq; [|destruct Hl]. destruct Hl as [<-|[]].
           destruct (nth_error ks (S k)) as [q'|] eqn:Eq'; [|destruct Hu]. destruct Hu as [<-|[]].
           apply (sorted_nth_lt ks k (S k) q q' Hs); auto.
        -- intros l Hl. exact I.
        -- intros u Hu. exact I.
        -- exists x. split; [exact Hw|]. rewrite fn_is_val_at. fold ks.
           rewrite (count_in_cell (sflag (closed f)) ks j x Hs Hjlen); [exact Hv| |].
           ++ intros q Hj1 Eq. apply HxL. destruct j as [|k]; [lia|]. replace (S k - 1)%nat with k in Eq by lia. rewrite Eq. simpl; auto.
           ++ intros q Eq. apply HxU. rewrite Eq. simpl; auto.
  - (* step-free *)
    unfold values_in_range in Hin. rewrite Df in Hin. simpl in Hin.
    destruct (init f) as [y|] eqn:Ei; simpl in Hin; [|destruct Hin]. destruct Hin as [<-|[]].
    destruct (Hopen [] []) as (x & Hw & _ & _).
    { intros l u []. }
    { intros l []. }
    { intros u []. }
    exists x. split; auto. unfold fn. rewrite (lim_no_data f _ x Df). exact Ei.
Qed.

(* ---- min / max: least and greatest element of the (sorted, duplicate-free) value set *)
Lemma vmin_spec (l : list Qc) : ksorted l ->
  match vmin l with
  | Some m => In m l /\ forall v, In v l -> leb m v = true
  | None => l = []
  end.
Proof.
  destruct l as [|m t]; simpl; auto. intros Hs. split; auto.
  intros v [<-|Hv]; [apply leb_refl|]. apply ltb_leb. apply (@ksorted_from_lt _ _ m t v Hs Hv).
Qed.

Lemma last_opt_cons2 (a b : Qc) t : last_opt (a :: b :: t) = last_opt (b :: t).
Proof. reflexivity. Qed.

Lemma last_opt_spec : forall (l : list Qc), ksorted l ->
  match last_opt l with
  | Some m => In m l /\ forall v, In v l -> leb v m = true
  | None => l = []
  end.
Proof.
  induction l as [|a t IH]; [simpl; auto|]. intros Hs.
  destruct t as [|b t'].
  - simpl. split; auto. intros v [<-|[]]. apply leb_refl.
  - rewrite last_opt_cons2. assert (Hs' : ksorted (b :: t')) by (eapply ksorted_from_ksorted; exact Hs).
    specialize (IH Hs'). destruct (last_opt (b :: t')) as [m|] eqn:E.
    + destruct IH as [Hin Hmax]. split; [right; exact Hin|].
      intros v [<-|Hv]; [|apply Hmax; exact Hv].
      apply ltb_leb. apply (@ksorted_from_lt _ _ a (b :: t') m Hs Hin).
    + discriminate.
Qed.

Theorem vir_sorted_unique (f : stairsQ) lo hi hows : ksorted (values_in_range f lo hi hows).
Proof.
  unfold values_in_range. destruct (data f).
  - apply usort_spec.
  - destruct (init f); simpl; exact I.
Qed.
