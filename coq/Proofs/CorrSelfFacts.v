(* Proofs/CorrSelfFacts.v — var over a window is non-negative, and the correlation of a function with itself, where
   defined, is one (C19; also what the diagonal of the corr matrix of C18 relies on). *)
From Coq Require Import List Bool Arith Lia QArith Qcanon Lqa.
Import ListNotations.
Require Import SC.Base.Ord SC.Base.Val SC.Base.Series SC.Base.QcOrd.
Require Import SC.Model.Repr SC.Model.Ops SC.Model.Masking SC.Model.Sampling SC.Model.Stats SC.Model.Slicing.
Require Import SC.Spec.Den SC.Proofs.SeriesFacts SC.Proofs.ReprFacts SC.Proofs.OpsFacts SC.Proofs.MaskFacts SC.Proofs.ClipFacts
               SC.Proofs.StatsFacts SC.Proofs.VarFacts SC.Proofs.CovFacts SC.Proofs.CovSelfFacts SC.Proofs.CorrBoundFacts
               SC.Proofs.CovCentredFacts.
Open Scope Qc_scope.

Lemma qsum_nonneg (l : list Qc) : Forall (fun x => 0 <= x) l -> 0 <= qsum l.
Proof.
  induction l as [|a t IH]; intros H.
  - unfold qsum. simpl. discriminate.
  - inversion H as [|? ? Ha Ht]; subst. rewrite qsum_cons. apply plus_nonneg; [exact Ha|apply IH; exact Ht].
Qed.

Lemma defined_of_in (pcs : list (Qc * Qc * V)) v len :
  In (v, len) (defined_of pcs) -> exists a b, In (a, b, Some v) pcs /\ len = b - a.
Proof.
  unfold defined_of. intros H. apply in_flat_map in H. destruct H as ([[a b] w] & Hin & Hx).
  cbn [snd fst] in Hx. destruct w as [y|]; [|destruct Hx]. destruct Hx as [E|[]]. injection E as <- <-.
  exists a, b. split; [exact Hin|reflexivity].
Qed.

Lemma piece_sqdev_nonneg (m : Qc) (l : ser) : sorted l -> 0 <= piece_sqdev m (fin_pieces l).
Proof.
  intros S. unfold piece_sqdev. apply qsum_nonneg. apply Forall_forall. intros x Hx.
  apply in_map_iff in Hx. destruct Hx as ([v len] & <- & Hin). cbn [fst snd].
  destruct (defined_of_in _ _ _ Hin) as (a & b & Hp & ->).
  pose proof (fin_pieces_nonempty _ _ _ _ S Hp) as Hab. apply ltb_lt in Hab.
  apply mult_nonneg; [apply sq_nonneg|]. apply Qclt_le_weak. apply Qclt_minus_iff in Hab.
  replace (b - a) with (b + - a) by ring. exact Hab.
Qed.

Theorem var_nonneg (f : stairsQ) lo hi (x : Qc) : wf f -> clipped_var f lo hi = Ok (Some x) -> 0 <= x.
Proof.
  intros Wf. unfold clipped_var.
  destruct (clip f lo hi) as [c|e] eqn:Ec; [|discriminate]. cbn [lift_res].
  destruct (ecdf_of c) as [ec|] eqn:Ee; [|discriminate].
  destruct (clip_spec f c lo hi Wf Ec) as (Wc & _ & _).
  destruct (var_about_the_mean c ec Wc Ee) as (HT & _ & Hv). cbv zeta in HT, Hv.
  rewrite Hv. intros E. injection E as <-.
  assert (S : sorted (get_values c)) by (apply wf_sorted_values; exact Wc).
  pose proof (piece_sqdev_nonneg (piece_integral (fin_pieces (get_values c)) / piece_total (fin_pieces (get_values c))) _ S) as N.
  unfold Qcdiv. apply mult_nonneg; [exact N|].
  apply Qclt_le_weak. unfold Qclt. rewrite Qc_this_inv. change (this 0) with 0%Q. apply Qinv_lt_0_compat. exact HT.
Qed.

Theorem corr_self_is_one (f : stairsQ) (a b : Qc) lc (r : Qc) : wf f -> minimal f ->
  corr_signed_square f f (Some a) (Some b) 0 lc = Ok (Some r) -> r = 1.
Proof.
  intros Wf Mf. unfold corr_signed_square. change (Qceqb 0 0) with true. cbv iota.
  destruct (negb (closed_ok f f)); [discriminate|].
  destruct (cov_operands f f (Some a) (Some b) 0 lc) as [[[f1 g1] h]|e] eqn:Eo; [|discriminate]. cbn [lift_res].
  destruct (cov_operands_self f f1 g1 (Some a) (Some b) lc h Wf Mf Eo) as (-> & (Wf1 & Mf1 & Fi & Fv) & (Wg1 & Mg1 & Gi & Gv)).
  rewrite (clipped_var_canonical f1 f (Some a) (Some b) Wf1 Wf Fi Fv), (clipped_var_canonical g1 f (Some a) (Some b) Wg1 Wf Gi Gv).
  destruct (clipped_var f (Some a) (Some b)) as [vf|e] eqn:Ev; [|discriminate]. cbn [lift_res].
  assert (Hc : forall c, cov_masked f1 g1 (Some a) (Some b) = Ok c -> c = vf).
  { intros c Ec. apply (cov_self_is_var f a b lc c vf Wf Mf); [|exact Ev]. unfold cov. change (Qceqb 0 0) with true. cbv iota. rewrite closed_ok_refl. cbn [negb]. rewrite Eo. cbn [lift_res]. exact Ec. }
  destruct vf as [x|]; cbn [vmul vlift2].
  - destruct (Qceqb (x * x) 0) eqn:Ed; [discriminate|].
    destruct (cov_masked f1 g1 (Some a) (Some b)) as [c|e] eqn:Ec; [|discriminate]. cbn [lift_res].
    rewrite (Hc c eq_refl). intros E. injection E as <-.
    assert (X0 : 0 <= x) by (apply (var_nonneg f (Some a) (Some b) x Wf Ev)).
    assert (Xne : x * x <> 0) by (intros E; rewrite E in Ed; discriminate Ed).
    unfold Qcabs_. destruct (Qcltb x 0) eqn:El.
    + exfalso. apply ltb_lt in El. apply (Qclt_not_le _ _ El). exact X0.
    + unfold Qcdiv. apply Qcmult_inv_r. exact Xne.
  - destruct (cov_masked f1 g1 (Some a) (Some b)); discriminate.
Qed.

(* the diagonal of the corr matrix over a finite window is therefore the pairwise result too *)
Require Import SC.Model.Arrays SC.Proofs.ArrayFacts.

Theorem corr_matrix_diagonal_is_pairwise (ms : list stairsQ) (a b : Qc) M i mi (v : V) :
  (forall m, In m ms -> wf m /\ minimal m) ->
  arr_corr ms (Some a) (Some b) = Ok M -> nth_error ms i = Some mi ->
  corr_signed_square mi mi (Some a) (Some b) 0 ClipPre = Ok v -> entry M i i = Some v.
Proof.
  intros Hwf H Hi Hc. rewrite (corr_matrix_diagonal ms (Some a) (Some b) M i mi v H Hi Hc). f_equal.
  destruct v as [r|]; [|reflexivity]. destruct (Hwf mi (nth_error_In _ _ Hi)) as [Wi Mi].
  rewrite (corr_self_is_one mi a b ClipPre r Wi Mi Hc). reflexivity.
Qed.
