(* Proofs/SlicingFacts.v — slicing evaluates each statistic on the function restricted to the interval (C11) *)
From Coq Require Import List Bool Arith Lia QArith Qcanon Lqa.
Import ListNotations.
Require Import SC.Base.Ord SC.Base.Val SC.Base.Series SC.Base.QcOrd.
Require Import SC.Model.Repr SC.Model.Ops SC.Model.Masking SC.Model.Sampling SC.Model.Stats SC.Model.Slicing.
Require Import SC.Spec.Den SC.Proofs.SeriesFacts SC.Proofs.ReprFacts SC.Proofs.OpsFacts SC.Proofs.SamplingFacts
               SC.Proofs.QcDense SC.Proofs.ClipFacts SC.Proofs.RangeFacts SC.Proofs.AggFacts.
Open Scope Qc_scope.

(* the slice is the restriction, and every statistic of the slicer is that statistic of the slice *)
Theorem slice_is_restriction (f : stairsQ) a b : wf f -> ltb a b = true ->
  exists sl, clip f (Some a) (Some b) = Ok sl /\ wf sl /\ closed sl = closed f /\
    forall sd x, lim sd sl x = if inside (strict_of sd) (Some a) (Some b) x then lim sd f x else None.
Proof.
  intros Wf Hab. destruct (clip f (Some a) (Some b)) as [sl|e] eqn:E.
  - exists sl. split; auto. apply (clip_spec f sl (Some a) (Some b) Wf E).
  - destruct (clip_error f _ _ e E) as (_ & a' & b' & Ea & Eb & Hn). injection Ea as <-. injection Eb as <-. congruence.
Qed.

Theorem slice_stat_unfold (st : sstat) (f : stairsQ) icl a b sl : clip f (Some a) (Some b) = Ok sl ->
  slice_stat st f icl (a, b) =
  match st with
  | SMean => Some (snd (integral_and_mean sl))
  | SIntegral => Some (fst (integral_and_mean sl))
  | SMedian => median_of sl
  | SMode => match mode sl with Some v => Some (Some v) | None => None end
  | SMax => Some (match closed f with
                  | CLeft => if incl_right icl then vfmax (whole_max sl) (sample f b) else whole_max sl
                  | CRight => if incl_left icl then vfmax (whole_max sl) (sample f a) else whole_max sl
                  end)
  | SMin => Some (match closed f with
                  | CLeft => if incl_right icl then vfmin (whole_min sl) (sample f b) else whole_min sl
                  | CRight => if incl_left icl then vfmin (whole_min sl) (sample f a) else whole_min sl
                  end)
  end.
Proof. intros E. unfold slice_stat. simpl. rewrite E. destruct st; reflexivity. Qed.

(* ---- the values taken on the slice's own half-open window *)
Definition own_il (c : side) : bool := match c with CLeft => true | CRight => false end.
Definition own_ir (c : side) : bool := match c with CLeft => false | CRight => true end.

Lemma inside_window (c : side) a b x :
  inside (sflag c) (Some a) (Some b) x = true <-> in_window (own_il c) (own_ir c) (Some a) (Some b) x.
Proof.
  unfold inside, in_window, lo_ok, hi_ok, before. destruct c; simpl sflag; simpl own_il; simpl own_ir; cbv iota.
  - unfold leb. rewrite negb_involutive. rewrite andb_true_iff. tauto.
  - unfold leb. rewrite andb_true_iff. tauto.
Qed.

Lemma own_values (f sl : stairsQ) a b v : wf f -> wf sl -> closed sl = closed f ->
  (forall sd x, lim sd sl x = if inside (strict_of sd) (Some a) (Some b) x then lim sd f x else None) ->
  (In v (values_in_range sl None None (own_lims sl)) <->
   exists x, in_window (own_il (closed f)) (own_ir (closed f)) (Some a) (Some b) x /\ fn f x = Some v).
Proof.
  intros Wf Ws Hc Hl.
  assert (Hown : own_lims sl = get_lims (closed sl) (own_il (closed sl)) (own_ir (closed sl))).
  { unfold own_lims. destruct (closed sl); reflexivity. }
  rewrite Hown.
  assert (Hfn : forall x, fn sl x = if inside (sflag (closed f)) (Some a) (Some b) x then fn f x else None).
  { intros x. unfold fn. rewrite Hc, Hl. destruct (closed f); reflexivity. }
  split.
  - intros Hin. apply (vir_values_are_taken sl _ _ None None v Ws I) in Hin.
    destruct Hin as (x & _ & Hx). rewrite Hfn in Hx.
    destruct (inside (sflag (closed f)) (Some a) (Some b) x) eqn:Ei; [|discriminate].
    exists x. split; auto. apply inside_window. exact Ei.
  - intros (x & Hw & Hx). apply (vir_reports_every_value sl _ _ None None x v).
    + split; reflexivity.
    + rewrite Hfn. apply inside_window in Hw. rewrite Hw. exact Hx.
Qed.

(* ---- greatest / least element of a set of values *)
Definition greatest (P : Qc -> Prop) (r : V) : Prop :=
  match r with
  | Some m => P m /\ forall v, P v -> leb v m = true
  | None => forall v, ~ P v
  end.
Definition least (P : Qc -> Prop) (r : V) : Prop :=
  match r with
  | Some m => P m /\ forall v, P v -> leb m v = true
  | None => forall v, ~ P v
  end.

Lemma greatest_ext (P Q : Qc -> Prop) r : (forall v, P v <-> Q v) -> greatest P r -> greatest Q r.
Proof.
  intros E. unfold greatest. destruct r as [m|].
  - intros [H1 H2]. split; [apply E; auto|]. intros v Hv. apply H2. apply E. auto.
  - intros Hn v Hv. apply (Hn v). apply E. auto.
Qed.
Lemma least_ext (P Q : Qc -> Prop) r : (forall v, P v <-> Q v) -> least P r -> least Q r.
Proof.
  intros E. unfold least. destruct r as [m|].
  - intros [H1 H2]. split; [apply E; auto|]. intros v Hv. apply H2. apply E. auto.
  - intros Hn v Hv. apply (Hn v). apply E. auto.
Qed.

Lemma greatest_union (P : Qc -> Prop) m e : greatest P m -> greatest (fun v => P v \/ e = Some v) (vfmax m e).
Proof.
  unfold greatest, vfmax. destruct m as [x|], e as [y|].
  - intros [Hx Hmax]. destruct (Qcltb x y) eqn:E.
    + split; [right; reflexivity|]. intros v [Hv|Hv].
      * eapply leb_trans; [apply Hmax; exact Hv|apply ltb_leb; exact E].
      * injection Hv as <-. apply leb_refl.
    + split; [left; exact Hx|]. intros v [Hv|Hv]; [apply Hmax; exact Hv|].
      injection Hv as <-. unfold leb. change (ltb x y) with (Qcltb x y). rewrite E. reflexivity.
  - intros [Hx Hmax]. split; [left; exact Hx|]. intros v [Hv|Hv]; [apply Hmax; exact Hv|discriminate].
  - intros Hn. split; [right; reflexivity|]. intros v [Hv|Hv]; [exfalso; exact (Hn v Hv)|].
    injection Hv as <-. apply leb_refl.
  - intros Hn v [Hv|Hv]; [exact (Hn v Hv)|discriminate].
Qed.

Lemma least_union (P : Qc -> Prop) m e : least P m -> least (fun v => P v \/ e = Some v) (vfmin m e).
Proof.
  unfold least, vfmin. destruct m as [x|], e as [y|].
  - intros [Hx Hmin]. destruct (Qcltb y x) eqn:E.
    + split; [right; reflexivity|]. intros v [Hv|Hv].
      * eapply leb_trans; [apply ltb_leb; exact E|apply Hmin; exact Hv].
      * injection Hv as <-. apply leb_refl.
    + split; [left; exact Hx|]. intros v [Hv|Hv]; [apply Hmin; exact Hv|].
      injection Hv as <-. unfold leb. change (ltb y x) with (Qcltb y x). rewrite E. reflexivity.
  - intros [Hx Hmin]. split; [left; exact Hx|]. intros v [Hv|Hv]; [apply Hmin; exact Hv|discriminate].
  - intros Hn. split; [right; reflexivity|]. intros v [Hv|Hv]; [exfalso; exact (Hn v Hv)|].
    injection Hv as <-. apply leb_refl.
  - intros Hn v [Hv|Hv]; [exact (Hn v Hv)|discriminate].
Qed.

Lemma vmax_greatest (l : list Qc) : ksorted l -> greatest (fun v => In v l) (vmax l).
Proof.
  intros Hs. pose proof (last_opt_spec l Hs) as H. unfold vmax, greatest. destruct (last_opt l); auto.
  subst l. intros v [].
Qed.
Lemma vmin_least (l : list Qc) : ksorted l -> least (fun v => In v l) (vmin l).
Proof.
  intros Hs. pose proof (vmin_spec l Hs) as H. unfold least. destruct (vmin l); auto.
  subst l. intros v [].
Qed.

(* ---- the value set of f over a window *)
Definition takes (f : stairsQ) (il ir : bool) (a b : Qc) (v : Qc) : Prop :=
  exists x, in_window il ir (Some a) (Some b) x /\ fn f x = Some v.

(* a left-closed function takes its value at a also just right of a; a right-closed one its value at b just left of b *)
Lemma left_endpoint_irrelevant (f : stairsQ) ir a b v : closed f = CLeft -> ltb a b = true ->
  (takes f true ir a b v <-> takes f false ir a b v).
Proof.
  intros Hc Hab. split.
  - intros (x & [Hl Hu] & Hx). simpl in Hl.
    destruct (cmpP a x) as [Hlt _|Heq|Hgt Hn].
    + exists x. split; [split; auto|exact Hx].
    + subst x. destruct (proj1 (lim_is_one_sided_limit f a)) as (y & Hy & _ & Hnear).
      destruct (exists_between [a] [y; b]) as (z & Hz1 & Hz2).
      { intros l u [<-|[]] [<-|[<-|[]]]; auto. }
      exists z. split.
      * split; [simpl; apply Hz1; simpl; auto|]. simpl. destruct ir; [apply ltb_leb|]; apply Hz2; simpl; auto.
      * destruct (Hnear z (Hz1 a (or_introl eq_refl)) (Hz2 y (or_introl eq_refl))) as (Hf & _).
        rewrite Hf. unfold fn in Hx. rewrite Hc in Hx. exact Hx.
    + unfold leb in Hl. rewrite Hgt in Hl. discriminate.
  - intros (x & [Hl Hu] & Hx). exists x. split; [split; auto|exact Hx]. simpl in *. apply ltb_leb. exact Hl.
Qed.

Lemma right_endpoint_irrelevant (f : stairsQ) il a b v : closed f = CRight -> ltb a b = true ->
  (takes f il true a b v <-> takes f il false a b v).
Proof.
  intros Hc Hab. split.
  - intros (x & [Hl Hu] & Hx). simpl in Hu.
    destruct (cmpP x b) as [Hlt _|Heq|Hgt Hn].
    + exists x. split; [split; auto|exact Hx].
    + subst x. destruct (proj2 (lim_is_one_sided_limit f b)) as (y & Hy & _ & Hnear).
      destruct (exists_between [y; a] [b]) as (z & Hz1 & Hz2).
      { intros l u [<-|[<-|[]]] [<-|[]]; auto. }
      exists z. split.
      * split; [|simpl; apply Hz2; simpl; auto]. simpl. destruct il; [apply ltb_leb|]; apply Hz1; simpl; auto.
      * destruct (Hnear z (Hz1 y (or_introl eq_refl)) (Hz2 b (or_introl eq_refl))) as (Hf & _).
        rewrite Hf. unfold fn in Hx. rewrite Hc in Hx. exact Hx.
    + unfold leb in Hu. rewrite Hgt in Hu. discriminate.
  - intros (x & [Hl Hu] & Hx). exists x. split; [split; auto|exact Hx]. simpl in *. apply ltb_leb. exact Hu.
Qed.

Lemma add_right_endpoint (f : stairsQ) il a b v : ltb a b = true ->
  (takes f il true a b v <-> takes f il false a b v \/ fn f b = Some v).
Proof.
  intros Hab. split.
  - intros (x & [Hl Hu] & Hx). simpl in Hu. destruct (cmpP x b) as [Hlt _|Heq|Hgt Hn].
    + left. exists x. split; [split; auto|exact Hx].
    + subst x. right. exact Hx.
    + unfold leb in Hu. rewrite Hgt in Hu. discriminate.
  - intros [(x & [Hl Hu] & Hx)|Hb].
    + exists x. split; [split; auto|exact Hx]. simpl in *. apply ltb_leb. exact Hu.
    + exists b. split; [split|exact Hb]; simpl; [destruct il; [apply ltb_leb|]; exact Hab|apply leb_refl].
Qed.

Lemma add_left_endpoint (f : stairsQ) ir a b v : ltb a b = true ->
  (takes f true ir a b v <-> takes f false ir a b v \/ fn f a = Some v).
Proof.
  intros Hab. split.
  - intros (x & [Hl Hu] & Hx). simpl in Hl. destruct (cmpP a x) as [Hlt _|Heq|Hgt Hn].
    + left. exists x. split; [split; auto|exact Hx].
    + subst x. right. exact Hx.
    + unfold leb in Hl. rewrite Hgt in Hl. discriminate.
  - intros [(x & [Hl Hu] & Hx)|Ha].
    + exists x. split; [split; auto|exact Hx]. simpl in *. apply ltb_leb. exact Hl.
    + exists a. split; [split|exact Ha]; simpl; [apply leb_refl|destruct ir; [apply ltb_leb|]; exact Hab].
Qed.

(* slicer max / min: the greatest / least value f takes at defined points of I with I's own closedness *)
Theorem slice_max_spec (f : stairsQ) icl a b r : wf f -> ltb a b = true ->
  slice_stat SMax f icl (a, b) = Some r ->
  greatest (takes f (incl_left icl) (incl_right icl) a b) r.
Proof.
  intros Wf Hab. destruct (slice_is_restriction f a b Wf Hab) as (sl & Ec & Ws & Hc & Hl).
  rewrite (slice_stat_unfold SMax f icl a b sl Ec). intros E. injection E as <-.
  assert (Hown : greatest (takes f (own_il (closed f)) (own_ir (closed f)) a b) (whole_max sl)).
  { unfold whole_max. eapply greatest_ext; [|apply vmax_greatest; apply vir_sorted_unique].
    intros v. apply (own_values f sl a b v Wf Ws Hc Hl). }
  destruct (closed f) eqn:Cf; simpl own_il in Hown; simpl own_ir in Hown.
  - (* left-closed: own window [a, b) *)
    destruct (incl_right icl) eqn:Ir.
    + eapply greatest_ext; [|apply (greatest_union _ _ (sample f b) Hown)].
      intros v. rewrite sample_is_fn. rewrite (add_right_endpoint f (incl_left icl) a b v Hab).
      destruct (incl_left icl); [tauto|]. rewrite (left_endpoint_irrelevant f false a b v Cf Hab). tauto.
    + eapply greatest_ext; [|exact Hown]. intros v.
      destruct (incl_left icl); [tauto|]. apply (left_endpoint_irrelevant f false a b v Cf Hab).
  - (* right-closed: own window (a, b] *)
    destruct (incl_left icl) eqn:Il.
    + eapply greatest_ext; [|apply (greatest_union _ _ (sample f a) Hown)].
      intros v. rewrite sample_is_fn. rewrite (add_left_endpoint f (incl_right icl) a b v Hab).
      destruct (incl_right icl); [tauto|]. rewrite <- (right_endpoint_irrelevant f false a b v Cf Hab). tauto.
    + eapply greatest_ext; [|exact Hown]. intros v.
      destruct (incl_right icl); [tauto|]. apply (right_endpoint_irrelevant f false a b v Cf Hab).
Qed.

Theorem slice_min_spec (f : stairsQ) icl a b r : wf f -> ltb a b = true ->
  slice_stat SMin f icl (a, b) = Some r ->
  least (takes f (incl_left icl) (incl_right icl) a b) r.
Proof.
  intros Wf Hab. destruct (slice_is_restriction f a b Wf Hab) as (sl & Ec & Ws & Hc & Hl).
  rewrite (slice_stat_unfold SMin f icl a b sl Ec). intros E. injection E as <-.
  assert (Hown : least (takes f (own_il (closed f)) (own_ir (closed f)) a b) (whole_min sl)).
  { unfold whole_min. eapply least_ext; [|apply vmin_least; apply vir_sorted_unique].
    intros v. apply (own_values f sl a b v Wf Ws Hc Hl). }
  destruct (closed f) eqn:Cf; simpl own_il in Hown; simpl own_ir in Hown.
  - destruct (incl_right icl) eqn:Ir.
    + eapply least_ext; [|apply (least_union _ _ (sample f b) Hown)].
      intros v. rewrite sample_is_fn. rewrite (add_right_endpoint f (incl_left icl) a b v Hab).
      destruct (incl_left icl); [tauto|]. rewrite (left_endpoint_irrelevant f false a b v Cf Hab). tauto.
    + eapply least_ext; [|exact Hown]. intros v.
      destruct (incl_left icl); [tauto|]. apply (left_endpoint_irrelevant f false a b v Cf Hab).
  - destruct (incl_left icl) eqn:Il.
    + eapply least_ext; [|apply (least_union _ _ (sample f a) Hown)].
      intros v. rewrite sample_is_fn. rewrite (add_left_endpoint f (incl_right icl) a b v Hab).
      destruct (incl_right icl); [tauto|]. rewrite <- (right_endpoint_irrelevant f false a b v Cf Hab). tauto.
    + eapply least_ext; [|exact Hown]. intros v.
      destruct (incl_right icl); [tauto|]. apply (right_endpoint_irrelevant f false a b v Cf Hab).
Qed.

(* ---- resample *)
Require Import SC.Proofs.MaskFacts SC.Proofs.LayerFacts SC.Proofs.ClosedFacts.

(* x lies in the interval (a, b) for the limit side s: a <= x < b for right limits, a < x <= b for left limits *)
Definition inb (s : bool) (iv : Qc * Qc) (x : Qc) : bool := inside s (Some (fst iv)) (Some (snd iv)) x.

Lemma contrib_indicator s a b (v : Qc) x : ltb a b = true ->
  contrib s (Some a, Some b, v) x = if inb s (a, b) x then v else 0.
Proof.
  intros Hab. unfold contrib, step_from, inb, inside. simpl.
  destruct (before s a x) eqn:Ba; destruct (before s b x) eqn:Bb; simpl; try ring.
  rewrite (before_trans s a b x Hab Bb) in Ba. discriminate.
Qed.

(* the value prescribed on the slices: the statistic of the slice containing x (0 in a gap) *)
Fixpoint slice_value (s : bool) (zs : list ((Qc * Qc) * V)) (x : Qc) : V :=
  match zs with
  | [] => Some 0
  | (iv, v) :: t => if inb s iv x then v else slice_value s t x
  end.

Definition sum_defined (s : bool) (zs : list ((Qc * Qc) * V)) (x : Qc) : Qc :=
  fold_right (fun z acc => match snd z with Some v => contrib s (Some (fst (fst z)), Some (snd (fst z)), v) x + acc | None => acc end) 0 zs.
Definition in_undefined (s : bool) (zs : list ((Qc * Qc) * V)) (x : Qc) : bool :=
  existsb (fun z => match snd z with None => inb s (fst z) x | Some _ => false end) zs.

(* increasing, non-overlapping, each slice non-empty *)
Fixpoint disjoint_from (lo : Qc) (ivs : list (Qc * Qc)) : Prop :=
  match ivs with
  | [] => True
  | (a, b) :: t => leb lo a = true /\ ltb a b = true /\ disjoint_from b t
  end.

Lemma not_in_later s : forall (ivs : list (Qc * Qc)) lo x, disjoint_from lo ivs -> before s lo x = false ->
  forall iv, In iv ivs -> inb s iv x = false.
Proof.
  induction ivs as [|[a b] t IH]; intros lo x Hd Hb iv Hin; [destruct Hin|].
  destruct Hd as (Hla & Hab & Hd).
  assert (Ha : before s a x = false).
  { destruct (before s a x) eqn:E; auto. rewrite (ClipFacts.before_of_le s a lo x Hla E) in Hb. discriminate. }
  destruct Hin as [<-|Hin].
  - unfold inb, inside. simpl. rewrite Ha. reflexivity.
  - apply (IH b x Hd); auto. destruct (before s b x) eqn:E; auto.
    rewrite (before_trans s a b x Hab E) in Ha. discriminate.
Qed.

Lemma sum_defined_cons s a b v t x :
  sum_defined s (((a, b), v) :: t) x =
  match v with Some y => contrib s (Some a, Some b, y) x + sum_defined s t x | None => sum_defined s t x end.
Proof. reflexivity. Qed.

Lemma disjoint_nonempty : forall (ivs : list (Qc * Qc)) lo, disjoint_from lo ivs ->
  forall a b, In (a, b) ivs -> ltb a b = true.
Proof.
  induction ivs as [|[a0 b0] t IH]; intros lo Hd a b Hin; [destruct Hin|].
  destruct Hd as (_ & Hab & Hd). destruct Hin as [E|Hin]; [injection E as <- <-; exact Hab|eapply IH; eauto].
Qed.

Lemma tiling_value s : forall (zs : list ((Qc * Qc) * V)) lo x, disjoint_from lo (map fst zs) ->
  (if in_undefined s zs x then None else Some (0 + sum_defined s zs x)) = slice_value s zs x.
Proof.
  induction zs as [|[[a b] v] t IH]; intros lo x Hd.
  - simpl. apply f_equal. ring.
  - destruct Hd as (Hla & Hab & Hd). fold (map (@fst (Qc * Qc) V) t) in Hd.
    cbn [slice_value].
    destruct (inb s (a, b) x) eqn:Ein.
    + (* x in this slice: in none of the later ones *)
      assert (Hb : before s b x = false).
      { unfold inb, inside in Ein. simpl in Ein. apply andb_true_iff in Ein. destruct Ein as [_ E]. apply negb_true_iff in E. exact E. }
      assert (Hlater : forall z, In z t -> inb s (fst z) x = false).
      { intros z Hz. apply (not_in_later s (map fst t) b x Hd Hb). apply in_map. exact Hz. }
      assert (Hne : forall a' b', In (a', b') (map fst t) -> ltb a' b' = true) by (apply (disjoint_nonempty _ b Hd)).
      assert (Hs0 : sum_defined s t x = 0).
      { clear IH Hd. induction t as [|[[a' b'] v'] t' IHt]; [reflexivity|].
        assert (Hz : inb s (a', b') x = false) by (apply (Hlater ((a', b'), v')); simpl; auto).
        rewrite sum_defined_cons.
        rewrite IHt; [|intros z Hzt; apply Hlater; simpl; auto|intros a2 b2 H2; apply Hne; simpl; auto].
        destruct v' as [y|]; auto.
        rewrite (contrib_indicator s a' b' y x) by (apply Hne; simpl; auto). rewrite Hz. ring. }
      assert (Hu0 : in_undefined s t x = false).
      { clear IH Hd Hs0 Hne. induction t as [|[[a' b'] v'] t' IHt]; simpl; auto.
        rewrite IHt by (intros z Hzt; apply Hlater; simpl; auto).
        destruct v'; auto. pose proof (Hlater ((a', b'), None) (or_introl eq_refl)) as Hz. simpl in Hz. rewrite Hz. reflexivity. }
      rewrite sum_defined_cons. destruct v as [y|]; cbn [in_undefined existsb snd fst orb].
      * fold (in_undefined s t x). rewrite Hu0, Hs0. rewrite (contrib_indicator s a b y x Hab), Ein. apply f_equal. ring.
      * rewrite Ein. reflexivity.
    + rewrite sum_defined_cons. destruct v as [y|]; cbn [in_undefined existsb snd fst orb].
      * fold (in_undefined s t x). rewrite (contrib_indicator s a b y x Hab), Ein. rewrite <- (IH b x Hd).
        destruct (in_undefined s t x); auto. apply f_equal. ring.
      * rewrite Ein. cbn [orb]. fold (in_undefined s t x). apply (IH b x Hd).
Qed.

(* masking the window (lo, hi): undefined inside, unchanged outside, same closed side *)
Lemma mask_tuple_window (f r : stairsQ) a b : wf f -> ltb a b = true -> mask_tuple f (Some a) (Some b) = Ok r ->
  wf r /\ closed r = closed f /\
  forall sd x, lim sd r x = if inb (strict_of sd) (a, b) x then None else lim sd f x.
Proof.
  intros Wf Hab E. destruct (mask_tuple_spec f r (Some a) (Some b) Wf E) as [W L].
  split; [exact W|]. split.
  - unfold mask_tuple in E.
    assert (W0 : wf (@const Qc (Some 0) (closed f))) by exact I.
    destruct (layer_spec (const (Some 0) (closed f)) (LScalar (Some a) (Some b) 1) W0) as (L1 & L2 & _).
    rewrite (mask_closed_rule false f _ r Wf L1 E). unfold result_side. rewrite L2. simpl.
    destruct (has_steps f); [reflexivity|]. destruct (has_steps (layer _ _)); reflexivity.
  - intros sd x. rewrite L, (contrib_indicator (strict_of sd) a b 1 x Hab).
    destruct (inb (strict_of sd) (a, b) x); reflexivity.
Qed.

Lemma contribs_defined s : forall (zs : list ((Qc * Qc) * V)) x,
  contribs s (LVector (flat_map (fun iv_v => match snd iv_v with
                                          | Some v => [(Some (fst (fst iv_v)), Some (snd (fst iv_v)), v)]
                                          | None => [] end) zs)) x = sum_defined s zs x.
Proof.
  induction zs as [|[[a b] [y|]] t IH]; intros x; [reflexivity| |].
  - rewrite sum_defined_cons. simpl flat_map. simpl app. simpl in IH. simpl contribs. rewrite <- IH. reflexivity.
  - rewrite sum_defined_cons. simpl flat_map. simpl app. apply IH.
Qed.

(* the masks of the slices whose statistic is undefined *)
Lemma undefined_masks : forall (zs : list ((Qc * Qc) * V)) lo (acc : res stairsQ) r,
  disjoint_from lo (map fst zs) ->
  fold_left (fun acc iv_v => match snd iv_v with
                             | Some _ => acc
                             | None => lift_res acc (fun r0 => mask_tuple r0 (Some (fst (fst iv_v))) (Some (snd (fst iv_v))))
                             end) zs acc = Ok r ->
  exists r0, acc = Ok r0 /\ (wf r0 -> wf r /\ closed r = closed r0 /\
    forall sd x, lim sd r x = if in_undefined (strict_of sd) zs x then None else lim sd r0 x).
Proof.
  induction zs as [|[[a b] v] t IH]; intros lo acc r Hd E.
  - simpl in E. exists r. split; auto.
  - destruct Hd as (Hla & Hab & Hd). fold (map (@fst (Qc * Qc) V) t) in Hd. simpl fold_left in E.
    destruct v as [y|]; simpl snd in E; cbv iota in E.
    + destruct (IH b acc r Hd E) as (r0 & Ea & Hr). exists r0. split; auto.
    + destruct (IH b _ r Hd E) as (r1 & Ea & Hr). destruct acc as [r0|e]; [|discriminate].
      exists r0. split; auto. intros W0. simpl in Ea.
      destruct (mask_tuple_window r0 r1 a b W0 Hab Ea) as (W1 & C1 & L1).
      destruct (Hr W1) as (W & C & L). split; [exact W|]. split; [congruence|].
      intros sd x. rewrite L, L1. cbn [in_undefined existsb snd fst]. fold (in_undefined (strict_of sd) t x).
      destruct (inb (strict_of sd) (a, b) x); simpl; [destruct (in_undefined _ t x); reflexivity|reflexivity].
Qed.

Lemma map_fst_combine_le (A B : Type) : forall (l : list A) (l' : list B), (length l <= length l')%nat -> map fst (combine l l') = l.
Proof. induction l as [|a l IH]; intros [|b l'] Hl; simpl in *; auto; try lia. f_equal. apply IH. lia. Qed.

Lemma qmin_list_spec (l : list Qc) m : qmin_list l = Some m -> In m l /\ forall x, In x l -> leb m x = true.
Proof.
  unfold qmin_list. destruct (usort_spec l) as [Hs Hm]. pose proof (vmin_spec (usort l) Hs) as Hv.
  destruct (usort l) as [|y t] eqn:E; [discriminate|]. intros Em. injection Em as <-. simpl in Hv.
  destruct Hv as [Hin Hle]. split.
  - apply Hm. exact Hin.
  - intros x Hx. apply Hle. apply Hm. exact Hx.
Qed.

Lemma qmax_list_spec (l : list Qc) m : qmax_list l = Some m -> In m l /\ forall x, In x l -> leb x m = true.
Proof.
  unfold qmax_list. destruct (usort_spec l) as [Hs Hm]. pose proof (last_opt_spec (usort l) Hs) as Hv.
  intros Em. rewrite Em in Hv. destruct Hv as [Hin Hle]. split.
  - apply Hm. exact Hin.
  - intros x Hx. apply Hle. apply Hm. exact Hx.
Qed.

Lemma inb_within s lb rb a b x : leb lb a = true -> leb b rb = true -> inb s (a, b) x = true -> inb s (lb, rb) x = true.
Proof.
  unfold inb, inside. simpl. intros Hla Hbr E. apply andb_true_iff in E. destruct E as [E1 E2].
  apply negb_true_iff in E2. rewrite (ClipFacts.before_of_le s a lb x Hla E1). simpl.
  apply negb_true_iff. destruct (before s rb x) eqn:Er; auto.
  rewrite (ClipFacts.before_of_le s rb b x Hbr Er) in E2. discriminate.
Qed.

Lemma in_undefined_none s x : forall zs : list ((Qc * Qc) * V),
  (forall z, In z zs -> inb s (fst z) x = false) -> in_undefined s zs x = false.
Proof.
  induction zs as [|[[a b] v] t IH]; intros Hn; simpl; auto.
  rewrite IH by (intros z Hz; apply Hn; simpl; auto).
  destruct v; auto. pose proof (Hn ((a, b), None) (or_introl eq_refl)) as Hz. simpl in Hz. rewrite Hz. reflexivity.
Qed.

Lemma sum_defined_none s x : forall zs : list ((Qc * Qc) * V),
  (forall z, In z zs -> inb s (fst z) x = false) ->
  (forall a b, In (a, b) (map fst zs) -> ltb a b = true) -> sum_defined s zs x = 0.
Proof.
  induction zs as [|[[a b] v] t IH]; intros Hn Hne; [reflexivity|].
  rewrite sum_defined_cons. rewrite IH; [|intros z Hz; apply Hn; simpl; auto|intros a2 b2 H2; apply Hne; simpl; auto].
  destruct v as [y|]; auto. rewrite (contrib_indicator s a b y x) by (apply Hne; simpl; auto).
  pose proof (Hn ((a, b), Some y) (or_introl eq_refl)) as Hz. simpl in Hz. rewrite Hz. ring.
Qed.

(* resample: f outside the span, the statistic of its slice on each slice (increasing, non-overlapping slices) *)
Theorem resample_spec (st : sstat) (f : stairsQ) icl ivs r lb rb vals : wf f ->
  resample st f icl ivs = Ok r ->
  slicer_stat st f icl ivs = Some vals ->
  qmin_list (map fst ivs) = Some lb -> qmax_list (map snd ivs) = Some rb ->
  disjoint_from lb ivs ->
  wf r /\ closed r = closed f /\
  forall sd x, lim sd r x =
    if inb (strict_of sd) (lb, rb) x then slice_value (strict_of sd) (combine ivs vals) x else lim sd f x.
Proof.
  intros Wf E Es Emin Emax Hd.
  destruct (qmin_list_spec _ _ Emin) as [Hlbin Hlb]. destruct (qmax_list_spec _ _ Emax) as [Hrbin Hrb].
  assert (Hlen : length vals = length ivs).
  { unfold slicer_stat in Es. clear - Es. revert vals Es. induction ivs as [|iv t IH]; intros vals Es; simpl in Es.
    - injection Es as <-. reflexivity.
    - destruct (slice_stat st f icl iv); [|discriminate]. destruct (sequence (map (slice_stat st f icl) t)) eqn:Eq; [|discriminate].
      injection Es as <-. simpl. f_equal. apply IH. reflexivity. }
  assert (Hwithin : forall a b, In (a, b) ivs -> leb lb a = true /\ leb b rb = true).
  { intros a b Hin. split; [apply Hlb|apply Hrb].
    - change a with (fst (a, b)). apply in_map. exact Hin.
    - change b with (snd (a, b)). apply in_map. exact Hin. }
  assert (Hspan : ltb lb rb = true).
  { destruct ivs as [|[a b] t]; [simpl in Hlbin; destruct Hlbin|]. destruct Hd as (_ & Hab & _).
    destruct (Hwithin a b (or_introl eq_refl)) as [H1 H2].
    eapply leb_ltb_trans; [exact H1|]. eapply ltb_leb_trans; [exact Hab|exact H2]. }
  unfold resample in E. destruct (tiling_ok icl ivs); [|discriminate]. simpl negb in E. cbv iota in E.
  rewrite Es, Emin, Emax in E.
  destruct (null_comparison_spec visna f Wf) as [(N1 & N2 & N3) _]. fold (isna f) in N1, N2, N3.
  destruct (mask_tuple (isna f) (Some lb) (Some rb)) as [m1|e1] eqn:E1; [|discriminate]. simpl lift_res in E.
  destruct (mask_tuple_window (isna f) m1 lb rb N1 Hspan E1) as (W1 & C1 & L1).
  destruct (fillna_scalar_spec m1 (Some 0) W1) as [(S1 & S2 & S3) _].
  destruct (mask_tuple f (Some lb) (Some rb)) as [m2|e2] eqn:E2; [|discriminate]. simpl lift_res in E.
  destruct (mask_tuple_window f m2 lb rb Wf Hspan E2) as (W2 & C2 & L2).
  destruct (fillna_scalar_spec m2 (Some 0) W2) as [(T1 & T2 & T3) _].
  destruct (mask_stairs false (fillna_scalar m2 (Some 0)) (fillna_scalar m1 (Some 0))) as [m3|e3] eqn:E3; [|discriminate].
  simpl lift_res in E.
  destruct (mask_stairs_spec false _ _ m3 T1 S1 E3) as (W3 & C3 & L3).
  assert (L3' : forall sd x, lim sd m3 x = if inb (strict_of sd) (lb, rb) x then Some 0 else lim sd f x).
  { intros sd x. rewrite L3, T3, S3, L2, L1, N3. unfold vmaskw, vmask.
    destruct (inb (strict_of sd) (lb, rb) x); simpl; [reflexivity|].
    destruct (lim sd f x) as [y|]; simpl; reflexivity. }
  assert (C3' : closed m3 = closed f).
  { rewrite C3. unfold result_side. rewrite T2, S2, C2, C1, N2.
    destruct (has_steps (fillna_scalar m2 (Some 0))); [reflexivity|]. destruct (has_steps (fillna_scalar m1 (Some 0))); reflexivity. }
  set (zs := combine ivs vals) in *.
  set (layered := layer m3 (LVector (flat_map (fun iv_v : Qc * Qc * V => match snd iv_v with
        | Some v => [(Some (fst (fst iv_v)), Some (snd (fst iv_v)), v)] | None => [] end) zs))) in *.
  destruct (layer_spec m3 (LVector (flat_map (fun iv_v : Qc * Qc * V => match snd iv_v with
        | Some v => [(Some (fst (fst iv_v)), Some (snd (fst iv_v)), v)] | None => [] end) zs)) W3) as (Y1 & Y2 & Y3).
  fold layered in Y1, Y2, Y3.
  assert (Hdz : disjoint_from lb (map fst zs)).
  { unfold zs. rewrite map_fst_combine_le; [exact Hd|]. rewrite Hlen. lia. }
  destruct (undefined_masks zs lb (Ok layered) r Hdz E) as (r0 & Er0 & Hr). injection Er0 as <-.
  destruct (Hr Y1) as (WR & CR & LR).
  split; [exact WR|]. split; [congruence|].
  intros sd x. rewrite LR, Y3, L3', contribs_defined. set (s := strict_of sd).
  assert (Hzin : forall z, In z zs -> inb s (fst z) x = true -> inb s (lb, rb) x = true).
  { intros [[a b] v] Hz Hi. simpl in Hi. assert (Hiv : In (a, b) ivs) by (apply (in_combine_l ivs vals (a, b) v Hz)).
    destruct (Hwithin a b Hiv) as [H1 H2]. eapply inb_within; eauto. }
  destruct (inb s (lb, rb) x) eqn:Espan.
  - apply (tiling_value s zs lb x Hdz).
  - (* outside the span: in no slice *)
    assert (Hnone : forall z, In z zs -> inb s (fst z) x = false).
    { intros z Hz. destruct (inb s (fst z) x) eqn:Ei; auto. pose proof (Hzin z Hz Ei) as Hx. congruence. }
    pose proof (in_undefined_none s x zs Hnone) as Hu.
    pose proof (sum_defined_none s x zs Hnone (disjoint_nonempty _ lb Hdz)) as Hs0.
    rewrite Hu, Hs0. destruct (lim sd f x); auto. f_equal. ring.
Qed.
