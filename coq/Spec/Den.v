(* Spec/Den.v — what a representation denotes: the left and right limits at every point of the
   domain, the value under the closed convention, well-formedness and minimality. *)
From Coq Require Import List Bool Arith QArith Qcanon.
Import ListNotations.
Require Import SC.Base.Ord SC.Base.Val SC.Base.Series SC.Model.Repr SC.Model.Ops SC.Model.Sampling.

Section Den.
Context {D : Type} `{Ord D}.
Notation ser := (list (D * V)).
Notation stairs := (stairs D).

(* the one-sided limits of the represented function at x *)
Definition lim (sd : lside) (s : stairs) (x : D) : V :=
  lookup (strict_of sd) (init s) (get_values s) x.
(* the value at x under the closed convention *)
Definition fn (s : stairs) (x : D) : V := lim (sample_side (closed s)) s x.

(* same function, same closed side *)
Definition deq (s t : stairs) : Prop :=
  closed s = closed t /\ forall sd x, lim sd s x = lim sd t x.

Definition col_ok (o : option ser) : Prop :=
  match o with Some l => sorted l /\ l <> [] | None => True end.

(* the internal invariant of a Stairs object: an existing frame has at least one valid column, columns
   have a strictly increasing non-empty index, and when both are present the value column is the one
   computed from the change column *)
Definition wf (s : stairs) : Prop :=
  match data s with
  | None => True
  | Some fr =>
      (dcol fr <> None \/ vcol fr <> None) /\ col_ok (dcol fr) /\ col_ok (vcol fr) /\
      (forall d v, dcol fr = Some d -> vcol fr = Some v -> v = vals_of_deltas (init s) d)
  end.

(* minimal form: every step is a genuine change of value or definedness *)
Fixpoint minimal_from (prev : V) (l : ser) : Prop :=
  match l with [] => True | (_, v) :: t => prev <> v /\ minimal_from v t end.
Definition minimal (s : stairs) : Prop := minimal_from (init s) (get_values s).

(* operands of the public binary operators *)
Definition olim (sd : lside) (a : operand) (x : D) : V :=
  match a with OpS s => lim sd s x | OpC c => c end.
Definition owf (a : operand) : Prop := match a with OpS s => wf s | OpC _ => True end.

End Den.
