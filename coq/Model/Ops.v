(* Model/Ops.v — negate and the binary operators, with the branch structure of
   staircase/core/ops/{arithmetic,relational,logical,common}.py (as repaired by the fix: commits).
   Operands have already been "sanitised": a scalar operand c is the step-free [const c side]
   taking the other operand's side (util._sanitize_binary_operands); [binop] does that too. *)
From Coq Require Import List Bool Arith QArith Qcanon.
Import ListNotations.
Require Import SC.Base.Ord SC.Base.Val SC.Base.Series SC.Model.Repr.
Open Scope Qc_scope.

Section Ops.
Context {D : Type} `{Ord D}.
Notation ser := (list (D * V)).
Notation stairs := (stairs D).

(* arithmetic.negate: both columns and the initial value are negated *)
Definition negate (f : stairs) : stairs :=
  Stairs (vneg (init f))
         (match data f with
          | None => None
          | Some fr => Some (Frame (option_map (map_vals vneg) (dcol fr)) (option_map (map_vals vneg) (vcol fr)))
          end)
         (closed f).

(* common._combine_stairs_via_values: union of the step points, forward-filled reindex of both value
   series, Series op (NaN-propagating; x/0 -> NaN), redundant-point removal *)
Definition combine_values (op : V -> V -> V) (i1 : V) (v1 : ser) (i2 : V) (v2 : ser) : ser :=
  map (fun p => (p, op (lookup false i1 v1 p) (lookup false i2 v2 p))) (union (keys v1) (keys v2)).

Definition via_values (op : V -> V -> V) (f g : stairs) : stairs :=
  remove_redundant
    (of_values (op (init f) (init g))
               (combine_values op (init f) (get_values f) (init g) (get_values g))
               (closed f)).

(* Series.add / Series.sub (a, b, fill_value=0): outer join, a missing or NaN side counts as 0
   unless both are missing *)
Definition fill0 (op : V -> V -> V) (a b : option V) : V :=
  match a, b with
  | Some (Some x), Some (Some y) => op (Some x) (Some y)
  | Some (Some x), _ => op (Some x) (Some 0)
  | _, Some (Some y) => op (Some 0) (Some y)
  | _, _ => None
  end.
Fixpoint align_fill0 (op : V -> V -> V) (a : ser) : ser -> ser :=
  match a with
  | [] => fun b => map (fun pv => (fst pv, fill0 op None (Some (snd pv)))) b
  | (x, u) :: a' =>
      fix inner (b : ser) : ser :=
        match b with
        | [] => map (fun pv => (fst pv, fill0 op (Some (snd pv)) None)) ((x, u) :: a')
        | (y, w) :: b' =>
            if ltb x y then (x, fill0 op (Some u) None) :: align_fill0 op a' b
            else if ltb y x then (y, fill0 op None (Some w)) :: inner b'
            else (x, fill0 op (Some u) (Some w)) :: align_fill0 op a' b'
        end
  end.

(* arithmetic._add_or_sub_deltas_no_mask *)
Definition add_sub_deltas (op : V -> V -> V) (f g : stairs) : stairs :=
  remove_redundant
    (of_deltas (op (init f) (init g)) (align_fill0 op (get_deltas f) (get_deltas g)) (closed f)).

Definition frame_has_d (s : stairs) : bool :=
  match data s with Some fr => match dcol fr with Some _ => true | None => false end | None => false end.

(* arithmetic._make_add_or_sub_func.func *)
Definition add_or_sub (sub : bool) (f g : stairs) : stairs :=
  let op := if sub then vsub else vadd in
  let rop := fun v c => op c v in       (* Series.radd / Series.rsub *)
  match data f, data g with
  | None, None => const (op (init f) (init g)) (closed f)
  | Some ff, None =>
      let c := init g in
      if is_nan c then const (op (init f) c) (closed f)
      else if is_nan (init f) then
        Stairs (op (init f) c)
               (mk_frame None (Some (map_vals (fun v => op v c) (get_values f)))) (closed f)
      else
        Stairs (op (init f) c)
               (Some (Frame (dcol ff) (option_map (map_vals (fun v => op v c)) (vcol ff)))) (closed f)
  | None, Some gg =>
      let c := init f in
      if is_nan c then const (op c (init g)) (closed g)
      else if is_nan (init g) then
        Stairs (op c (init g))
               (mk_frame None (Some (map_vals (fun v => rop v c) (get_values g)))) (closed g)
      else
        Stairs (op c (init g))
               (Some (Frame (option_map (map_vals (fun d => rop d (Some 0))) (dcol gg))
                            (option_map (map_vals (fun v => rop v c)) (vcol gg)))) (closed g)
  | Some _, Some _ =>
      if has_na f || has_na g then via_values op f g
      else if frame_has_d f || frame_has_d g then add_sub_deltas op f g
      else via_values op f g
  end.

(* op_with_scalar inside arithmetic._make_mul_div_func *)
Inductive sckind := KMul | KDiv | KRdiv.
Definition sc_apply (k : sckind) (v c : V) : V :=
  match k with KMul => vmul v c | KDiv => vdiv v c | KRdiv => vdiv c v end.
Definition op_with_scalar (k : sckind) (f : stairs) (c : V) : stairs :=
  match k, c with
  | KDiv, Some x => if Qceqb x 0 then const None (closed f) else
      remove_redundant (Stairs (sc_apply k (init f) c)
        (match data f with None => None | Some _ => mk_frame None (Some (map_vals (fun v => sc_apply k v c) (get_values f))) end)
        (closed f))
  | _, None => const None (closed f)
  | _, _ =>
      remove_redundant (Stairs (sc_apply k (init f) c)
        (match data f with None => None | Some _ => mk_frame None (Some (map_vals (fun v => sc_apply k v c) (get_values f))) end)
        (closed f))
  end.

Definition mul_or_div (div : bool) (f g : stairs) : stairs :=
  match data g, data f with
  | None, _ => op_with_scalar (if div then KDiv else KMul) f (init g)
  | _, None => op_with_scalar (if div then KRdiv else KMul) g (init f)
  | _, _ => via_values (if div then vdiv else vmul) f g
  end.

(* relational._make_relational_func.func *)
Definition relational (r : relop) (f g : stairs) : stairs :=
  let i := vrel r (init f) (init g) in
  match data f, data g with
  | None, None => const i (closed f)
  | Some _, None =>
      if is_nan (init g) then const i (closed f)
      else remove_redundant (of_values i (map_vals (fun v => vrel r v (init g)) (get_values f)) (closed f))
  | None, Some _ =>
      if is_nan (init f) then const i (closed g)
      else remove_redundant (of_values i (map_vals (fun v => vrel r (init f) v) (get_values g)) (closed g))
  | Some _, Some _ => via_values (vrel r) f g
  end.

(* logical._make_boolean_func *)
Definition boolean_like (fn : V -> V) (f : stairs) : stairs :=
  match data f with
  | None => const (fn (init f)) (closed f)
  | Some _ => remove_redundant (of_values (fn (init f)) (map_vals fn (get_values f)) (closed f))
  end.
Definition make_boolean := boolean_like vtruth.
Definition invert := boolean_like vnot.

(* logical._op_with_scalar_{and,or,xor} (repaired: the constant short-cuts keep undefined regions) *)
Definition log_with_scalar (l : logop) (f : stairs) (c : V) : stairs :=
  match c with
  | None => const None (closed f)
  | Some x =>
      let zero := Qceqb x 0 in
      match l with
      | LAnd => if zero then op_with_scalar KMul (make_boolean f) (Some 0) else make_boolean f
      | LOr => if zero then make_boolean f
               else add_or_sub false (op_with_scalar KMul (make_boolean f) (Some 0))
                                     (const (Some 1) (closed f))
      | LXor => if zero then make_boolean f else invert f
      end
  end.

Definition logical (l : logop) (f g : stairs) : stairs :=
  match data g, data f with
  | None, _ => log_with_scalar l f (init g)
  | _, None => log_with_scalar l g (init f)
  | _, _ => via_values (vlog l) f g
  end.

Definition apply_binop (o : binop) (f g : stairs) : stairs :=
  match o with
  | BArith OAdd => add_or_sub false f g
  | BArith OSub => add_or_sub true f g
  | BArith OMul => mul_or_div false f g
  | BArith ODiv => mul_or_div true f g
  | BRel r => relational r f g
  | BLog l => logical l f g
  end.

(* a binary operator as called through the public API: an operand is a Stairs or a scalar;
   requires_closed_match runs before sanitisation (a scalar never mismatches) *)
Inductive operand := OpS (s : stairs) | OpC (c : V).
Definition binop_api (o : binop) (a b : operand) : res stairs :=
  match a, b with
  | OpS f, OpS g => if closed_ok f g then Ok (apply_binop o f g) else Err EClosedMismatch
  | OpS f, OpC c => Ok (apply_binop o f (const c (closed f)))
  | OpC c, OpS g => Ok (apply_binop o (const c (closed g)) g)
  | OpC _, OpC _ => Err EOther
  end.

End Ops.
