(* Model/Stats.v — statistics and distribution queries at D := Qc
   (staircase/core/stats/statistic.py, distribution.py, util._get_lims; Stairs.shift/diff). *)
From Coq Require Import List Bool Arith ZArith QArith Qcanon.
Import ListNotations.
Require Import SC.Base.Ord SC.Base.Val SC.Base.Series SC.Base.QcOrd.
Require Import SC.Model.Repr SC.Model.Ops SC.Model.Masking SC.Model.Sampling.
Open Scope Qc_scope.

Notation ser := (list (Qc * V)).
Notation stairsQ := (stairs Qc).

Definition q_of_Z (z : Z) : Qc := Q2Qc (z # 1).

(* value_sums(group=False): np.diff(index) indexed by values[:-1] *)
Fixpoint vs_raw (l : ser) : list (V * Qc) :=
  match l with
  | (p, v) :: ((p', _) :: _) as t => (v, p' - p) :: vs_raw t
  | _ => []
  end.

Definition defined_pieces (f : stairsQ) : list (Qc * Qc) :=
  flat_map (fun vl => match fst vl with Some v => [(v, snd vl)] | None => [] end) (vs_raw (get_values f)).

(* groupby(values).sum(): sorted by value, equal values summed, NaN keys dropped *)
Definition group_sum (l : list (Qc * Qc)) : list (Qc * Qc) :=
  fold_left (fun acc vl => upsert (fst vl) (snd vl) (fun x => x + snd vl) acc) l [].

Definition value_sums (f : stairsQ) : option (list (Qc * Qc)) :=
  match data f with
  | None => None
  | Some _ => Some (group_sum (defined_pieces f))
  end.

Definition qsum (l : list Qc) : Qc := fold_left Qcplus l 0.
Definition value_total (f : stairsQ) : Qc := qsum (map snd (defined_pieces f)).

(* statistic._cache_integral_and_mean *)
Definition integral_and_mean (f : stairsQ) : V * V :=
  match data f with
  | None => (None, None)
  | Some _ =>
      if Nat.ltb (length (get_values f)) 2 then (None, None)
      else
        let ps := defined_pieces f in
        let integral := qsum (map (fun vl => fst vl * snd vl) ps) in
        let total := qsum (map snd ps) in
        (Some integral, vdiv (Some integral) (Some total))
  end.

(* idxmax of the grouped value sums: the first (smallest) value of maximal total length *)
Fixpoint argmax_first (best : Qc * Qc) (l : list (Qc * Qc)) : Qc :=
  match l with
  | [] => fst best
  | (v, s) :: t => if Qcltb (snd best) s then argmax_first (v, s) t else argmax_first best t
  end.
Definition mode (f : stairsQ) : option Qc :=
  match value_sums f with
  | Some (b :: t) => Some (argmax_first b t)
  | _ => None
  end.

(* distribution.ECDF.from_stairs: normalised value sums as step changes of a left-closed function.
   None: the code raises (no finite piece on which the function is defined) *)
Definition ecdf_of (f : stairsQ) : option stairsQ :=
  match value_sums f with
  | Some (b :: t) =>
      let total := qsum (map snd (b :: t)) in
      Some (Stairs (Some 0) (Some (Frame (Some (map (fun vl => (fst vl, Some (snd vl / total))) (b :: t))) None)) CLeft)
  | _ => None
  end.

(* distribution.Xtiles.from_ecdf *)
Definition xtiles_of (scale : Qc) (ec : stairsQ) : stairsQ :=
  let ks := keys (get_deltas ec) in
  let cum := vals (get_values ec) in
  match ks, last_opt ks with
  | k0 :: _, Some kl =>
      Stairs (Some k0)
             (Some (Frame None (Some (combine (0 :: map (fun c => base c * scale) cum)
                                             (map Some (ks ++ [kl]))))))
             CLeft
  | _, _ => const None CLeft
  end.
Definition percentiles_of := xtiles_of (q_of_Z 100).
Definition fractiles_of := xtiles_of 1.

(* Xtiles.sample: mean of the left and right limits *)
Definition xtile_sample (p : stairsQ) (x : Qc) : V :=
  vdiv (vadd (limit p LimLeft x) (limit p LimRight x)) (Some (q_of_Z 2)).

(* statistic.var: integral over [0, 100] of (percentile - mean)^2, divided by 100 *)
Definition var_of (ec : stairsQ) (mean : V) : V :=
  match mean with
  | None => None
  | Some m =>
      let p := percentiles_of ec in
      let sq := map_vals (fun v => match v with Some x => Some ((x - m) * (x - m)) | None => None end) (get_values p) in
      match clip (of_values (Some 0) sq CLeft) (Some 0) (Some (q_of_Z 100)) with
      | Ok c => vdiv (fst (integral_and_mean c)) (Some (q_of_Z 100))
      | Err _ => None
      end
  end.

(* distribution.ECDF.hist with explicit bins *)
Inductive hstat := HSum | HFrequency | HDensity | HProbability.
Definition hist (ec : stairsQ) (total : Qc) (bins : list (Qc * Qc)) (cl : side) (stat : hstat) : list V :=
  let sd := match cl with CLeft => LimLeft | CRight => LimRight end in
  let probs := map (fun b => vsub (limit ec sd (snd b)) (limit ec sd (fst b))) bins in
  let sums := map (fun v => vmul v (Some total)) probs in
  let widths := map (fun b => snd b - fst b) bins in
  match stat with
  | HProbability => probs
  | HSum => sums
  | HFrequency => map (fun vw => vdiv (fst vw) (Some (snd vw))) (combine sums widths)
  | HDensity =>
      let dot := fold_left vadd (map (fun vw => vmul (fst vw) (Some (snd vw))) (combine sums widths)) (Some 0) in
      map (fun v => vdiv v dot) sums
  end.

(* util._get_lims: (function closed side, interval closedness) -> bisect sides; true = bisect_left *)
Definition get_lims (c : side) (incl_left incl_right : bool) : bool * bool :=
  match c, incl_left, incl_right with
  | CLeft, true, true => (false, false)      (* both *)
  | CLeft, true, false => (false, true)      (* left *)
  | CLeft, false, true => (false, false)     (* right *)
  | CLeft, false, false => (false, true)     (* neither *)
  | CRight, true, true => (true, true)
  | CRight, true, false => (true, true)
  | CRight, false, true => (false, true)
  | CRight, false, false => (false, true)
  end.

Fixpoint qinsert (x : Qc) (l : list Qc) : list Qc :=
  match l with
  | [] => [x]
  | y :: t => if Qcltb x y then x :: l else if Qcltb y x then y :: qinsert x t else l
  end.
Definition usort (l : list Qc) : list Qc := fold_left (fun acc x => qinsert x acc) l [].
Definition defined_vals (l : list V) : list Qc :=
  flat_map (fun v => match v with Some x => [x] | None => [] end) l.

(* statistic.values_in_range (repaired) *)
Definition values_in_range (f : stairsQ) (lo hi : option Qc) (hows : bool * bool) : list Qc :=
  match data f with
  | None => defined_vals [init f]
  | Some _ =>
      let vs := get_values f in
      let li := match lo with None => O | Some a => count_before (fst hows) (keys vs) a end in
      let ri := match hi with None => length vs | Some b => count_before (snd hows) (keys vs) b end in
      let start := pred li in
      let sl := vals (firstn (ri - start) (skipn start vs)) in
      usort (defined_vals (if Nat.eqb li O then init f :: sl else sl))
  end.

Definition vmin (l : list Qc) : V := match l with [] => None | x :: _ => Some x end.
Definition vmax (l : list Qc) : V := last_opt l.

Inductive aggname := AIntegral | AMean | AMedian | AMode | AMin | AMax | AVar.

(* Stairs.shift / Stairs.diff *)
Definition shift (f : stairsQ) (d : Qc) : stairsQ :=
  match data f with
  | None => const (init f) (closed f)
  | Some fr =>
      Stairs (init f)
             (Some (Frame (option_map (map_keys (fun k => k + d)) (dcol fr))
                          (option_map (map_keys (fun k => k + d)) (vcol fr))))
             (closed f)
  end.
Definition diff (f : stairsQ) (d : Qc) : stairsQ := add_or_sub true f (shift f d).
