(* Model/Repr.v — the representation of a Stairs object: initial value, optional frame holding the
   step-change ("delta") and/or step-value column, and the closed side. Mirrors
   staircase/core/stairs.py: _data, _valid_deltas, _valid_values, _make_deltas_from_vals,
   _make_vals_from_deltas, _create_values/_create_deltas/_get_values/_get_deltas,
   _remove_redundant_step_points, _new, copy. *)
From Coq Require Import List Bool Arith QArith Qcanon.
Import ListNotations.
Require Import SC.Base.Ord SC.Base.Val SC.Base.Series.
Open Scope Qc_scope.

Inductive side := CLeft | CRight.
Definition side_eqb (a b : side) : bool :=
  match a, b with CLeft, CLeft | CRight, CRight => true | _, _ => false end.

Inductive err := EClosedMismatch | EValue | EOther.
Inductive res (A : Type) := Ok (a : A) | Err (e : err).
Arguments Ok {A}. Arguments Err {A}.
Definition bind {A B} (r : res A) (f : A -> res B) : res B :=
  match r with Ok a => f a | Err e => Err e end.

Section Repr.
Context {D : Type} `{Ord D}.

Notation ser := (list (D * V)).

(* a frame: which columns are present is which of _valid_deltas / _valid_values is true *)
Record frame := Frame { dcol : option ser; vcol : option ser }.
Record stairs := Stairs { init : V; data : option frame; closed : side }.

Definition const (v : V) (c : side) : stairs := Stairs v None c.

(* _make_vals_from_deltas: cumsum skipping NaN, plus base (0 when the initial value is NaN) *)
Definition base (i : V) : Qc := match i with Some a => a | None => 0 end.
Fixpoint cumsum (acc : Qc) (l : ser) : ser :=
  match l with
  | [] => []
  | (p, None) :: t => (p, None) :: cumsum acc t
  | (p, Some d) :: t => (p, Some (acc + d)) :: cumsum (acc + d) t
  end.
Definition vals_of_deltas (i : V) (ds : ser) : ser := cumsum (base i) ds.

(* _make_deltas_from_vals: difference to the last defined value; NaN stays NaN; with a NaN initial
   value the first delta is the (absolute) first value *)
Fixpoint dov (prev : V) (first : bool) (l : ser) : ser :=
  match l with
  | [] => []
  | (p, None) :: t => (p, None) :: dov prev false t
  | (p, Some v) :: t =>
      (p, match prev with
          | Some a => Some (v - a)
          | None => if first then Some v else None
          end) :: dov (Some v) false t
  end.
Definition deltas_of_vals (i : V) (vs : ser) : ser := dov i true vs.

Definition frame_values (i : V) (f : frame) : ser :=
  match vcol f with
  | Some v => v
  | None => match dcol f with Some d => vals_of_deltas i d | None => [] end
  end.
Definition frame_deltas (i : V) (f : frame) : ser :=
  match dcol f with
  | Some d => d
  | None => match vcol f with Some v => deltas_of_vals i v | None => [] end
  end.

(* _get_values / _get_deltas (the Series returned) *)
Definition get_values (s : stairs) : ser :=
  match data s with None => [] | Some f => frame_values (init s) f end.
Definition get_deltas (s : stairs) : ser :=
  match data s with None => [] | Some f => frame_deltas (init s) f end.

(* ... and their side effect on the object: the missing column is added *)
Definition with_values (s : stairs) : stairs :=
  match data s with
  | None => s
  | Some f => Stairs (init s) (Some (Frame (dcol f) (Some (frame_values (init s) f)))) (closed s)
  end.
Definition with_deltas (s : stairs) : stairs :=
  match data s with
  | None => s
  | Some f => Stairs (init s) (Some (Frame (Some (frame_deltas (init s) f)) (vcol f))) (closed s)
  end.

Definition step_points (s : stairs) : list D :=
  match data s with
  | None => []
  | Some f => match vcol f with Some v => keys v | None => match dcol f with Some d => keys d | None => [] end end
  end.
Definition number_of_steps (s : stairs) : nat := length (step_points s).
Definition has_steps (s : stairs) : bool := match data s with None => false | Some _ => true end.

Definition any_nan (l : ser) : bool := existsb (fun pv => is_nan (snd pv)) l.
Definition opt_any_nan (o : option ser) : bool := match o with Some l => any_nan l | None => false end.
(* _has_na: NaN anywhere in the frame, or NaN initial value (only called when _data exists) *)
Definition has_na (s : stairs) : bool :=
  is_nan (init s) ||
  match data s with None => false | Some f => opt_any_nan (dcol f) || opt_any_nan (vcol f) end.

(* remove_via_values: drop a row equal to its predecessor (the initial value for the first row);
   NaN counts as equal to NaN *)
Fixpoint rr (prev : V) (l : ser) : ser :=
  match l with
  | [] => []
  | (p, v) :: t => if veqb prev v then rr prev t else (p, v) :: rr v t
  end.

(* remove_via_deltas: drop a row whose delta is 0, or NaN directly after a NaN row *)
Fixpoint dflags (prevnan : bool) (l : ser) : list bool :=
  match l with
  | [] => []
  | (_, d) :: t =>
      (match d with None => prevnan | Some x => Qceqb x 0 end) :: dflags (is_nan d) t
  end.

Definition mk_frame (d v : option ser) : option frame :=
  match d, v with
  | Some [], _ => None
  | None, Some [] => None
  | None, None => None
  | _, _ => Some (Frame d v)
  end.

(* _remove_redundant_step_points *)
Definition remove_redundant (s : stairs) : stairs :=
  match data s with
  | None => s
  | Some f =>
      match dcol f with
      | Some d =>
          let m := dflags false d in
          Stairs (init s)
                 (mk_frame (Some (drop_flagged m d)) (option_map (drop_flagged m) (vcol f)))
                 (closed s)
      | None =>
          match vcol f with
          | Some v => Stairs (init s) (mk_frame None (Some (rr (init s) v))) (closed s)
          | None => Stairs (init s) None (closed s)
          end
      end
  end.

(* Stairs._new with a frame holding only step values / only step changes *)
Definition of_values (i : V) (v : ser) (c : side) : stairs := Stairs i (mk_frame None (Some v)) c.
Definition of_deltas (i : V) (d : ser) (c : side) : stairs := Stairs i (mk_frame (Some d) None) c.

(* from_values (repaired: returns a minimal function) *)
Definition from_values (i : V) (v : ser) (c : side) : stairs :=
  remove_redundant (of_values i v c).

(* _assert_closeds_equal *)
Definition closed_ok (f g : stairs) : bool :=
  negb (has_steps f && has_steps g && negb (side_eqb (closed f) (closed g))).

End Repr.

Arguments frame D : clear implicits.
Arguments stairs D : clear implicits.
