(* Model/Arrays.v — the collection layer of staircase/core/arrays/extension.py that is not an aggregation
   (aggregations: Model/Slicing.v, array_agg): element-wise StairsArray operators (_make_binary_func), negate,
   the sample / limit tables, and the cov / corr matrices (_make_corr_cov_func).

   StairsArray.<op>(other):
       other scalar or Stairs -> [stairs_func(s, other) for s in self.data]
       other list-like        -> lengths must agree; [stairs_func(s1, s2) for s1, s2 in zip(self.data, other.data)]
   the r-forms (radd, rsubtract, rmultiply, rdivide) call the reflected Stairs method, i.e. swap the operands.
   A list comprehension raises at the first member whose call raises: [all_ok].

   StairsArray.cov / corr (where): an n x n array; for i, for j >= i (+1 for corr): vals[i,j] = vals[j,i] =
   method(data[i], data[j], where); corr's diagonal is one unless method(data[i], data[i]) is NaN. *)
From Coq Require Import List Bool Arith QArith Qcanon.
Import ListNotations.
Require Import SC.Base.Ord SC.Base.Val SC.Base.Series SC.Base.QcOrd.
Require Import SC.Model.Repr SC.Model.Ops SC.Model.Masking SC.Model.Sampling SC.Model.Stats SC.Model.Slicing.
Open Scope Qc_scope.

Fixpoint all_ok {A} (l : list (res A)) : res (list A) :=
  match l with
  | [] => Ok []
  | Ok a :: t => match all_ok t with Ok r => Ok (a :: r) | Err e => Err e end
  | Err e :: _ => Err e
  end.

Inductive arr_other := AoScalar (c : V) | AoStairs (s : stairsQ) | AoArray (ys : list stairsQ).

(* stairs_func(s, other): the r-forms put [other] on the left *)
Definition member_op (o : binop) (reflected : bool) (s : stairsQ) (b : operand (D := Qc)) : res stairsQ :=
  if reflected then binop_api o b (OpS s) else binop_api o (OpS s) b.

Definition arr_binop (o : binop) (reflected : bool) (xs : list stairsQ) (other : arr_other) : res (list stairsQ) :=
  match other with
  | AoScalar c => all_ok (map (fun s => member_op o reflected s (OpC c)) xs)
  | AoStairs g => all_ok (map (fun s => member_op o reflected s (OpS g)) xs)
  | AoArray ys =>
      if Nat.eqb (length ys) (length xs)
      then all_ok (map (fun sy => member_op o reflected (fst sy) (OpS (snd sy))) (combine xs ys))
      else Err EOther   (* the code hands back a ValueError object here instead of raising it *)
  end.

Definition arr_negate (xs : list stairsQ) : list stairsQ := map negate xs.

(* one row per member, one column per sample point *)
Definition arr_sample (xs : list stairsQ) (pts : list Qc) : list (list V) := map (fun s => map (sample s) pts) xs.
Definition arr_limit (xs : list stairsQ) (sd : lside) (pts : list Qc) : list (list V) :=
  map (fun s => map (limit s sd) pts) xs.

(* ---- cov / corr matrices *)
Definition indexed {A} (l : list A) : list (nat * A) := combine (seq 0 (length l)) l.

(* the value stored at (i, j): the upper triangle is computed, the lower one copied from it *)
Definition cell (diag_ones : bool) (meth : stairsQ -> stairsQ -> res V) (a b : nat * stairsQ) : res V :=
  if Nat.ltb (fst a) (fst b) then meth (snd a) (snd b)
  else if Nat.ltb (fst b) (fst a) then meth (snd b) (snd a)
  else if diag_ones then
         match meth (snd a) (snd a) with
         | Ok None => Ok None
         | Ok (Some _) => Ok (Some 1)
         | Err e => Err e
         end
       else meth (snd a) (snd a).

(* the calls in the order the loops make them: the first one that raises decides the error *)
Definition eval_order (diag_ones : bool) (meth : stairsQ -> stairsQ -> res V) (ms : list stairsQ) : list (res V) :=
  flat_map (fun a =>
      map (fun b => meth (snd a) (snd b))
          (filter (fun b => if diag_ones then Nat.ltb (fst a) (fst b) else Nat.leb (fst a) (fst b)) (indexed ms))
      ++ (if diag_ones then [meth (snd a) (snd a)] else []))
    (indexed ms).

Definition matrix (diag_ones : bool) (meth : stairsQ -> stairsQ -> res V) (ms : list stairsQ) : res (list (list V)) :=
  match all_ok (eval_order diag_ones meth ms) with
  | Err e => Err e
  | Ok _ => all_ok (map (fun a => all_ok (map (cell diag_ones meth a) (indexed ms))) (indexed ms))
  end.

(* StairsArray.cov(where) / corr(where): lag 0, clip 'pre' (the defaults of Stairs.cov / corr) *)
Definition arr_cov (ms : list stairsQ) (lo hi : option Qc) : res (list (list V)) :=
  matrix false (fun f g => cov f g lo hi 0 ClipPre) ms.
Definition arr_corr (ms : list stairsQ) (lo hi : option Qc) : res (list (list V)) :=
  matrix true (fun f g => corr_signed_square f g lo hi 0 ClipPre) ms.

Definition entry {A} (M : list (list A)) (i j : nat) : option A :=
  match nth_error M i with Some row => nth_error row j | None => None end.
