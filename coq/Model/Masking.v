(* Model/Masking.v — clip, mask, where, isna, notna, fillna (staircase/core/ops/masking.py, repaired),
   and layering (staircase/core/layering.py, repaired). Bounds are [option D]: None is the
   -inf / +inf sentinel (or a None argument). *)
From Coq Require Import List Bool Arith QArith Qcanon.
Import ListNotations.
Require Import SC.Base.Ord SC.Base.Val SC.Base.Series SC.Model.Repr SC.Model.Ops.
Open Scope Qc_scope.

Section Masking.
Context {D : Type} `{Ord D}.
Notation ser := (list (D * V)).
Notation stairs := (stairs D).

(* Stairs.copy *)
Definition copy (f : stairs) : stairs := f.

(* lower < upper with the sentinels *)
Definition bounds_ok (lo hi : option D) : bool :=
  match lo, hi with Some a, Some b => ltb a b | _, _ => true end.

Definition relabel_first (a : D) (l : ser) : ser :=
  match l with
  | (k, v) :: t => if ltb k a then (a, v) :: t else l
  | [] => []
  end.

(* masking.clip with _get_slice_index(lower_how="right", upper_how="left") *)
Definition clip (f : stairs) (lo hi : option D) : res stairs :=
  if negb (bounds_ok lo hi) then Err EValue else
  match lo, hi with
  | None, None => Ok (copy f)
  | _, _ =>
      let vs := get_values f in
      let li := match lo with None => O | Some a => count_before false (keys vs) a end in  (* bisect_right *)
      let ri := match hi with None => length vs | Some b => count_before true (keys vs) b end in (* bisect_left *)
      let start := pred li in
      let sliced := firstn (ri - start) (skipn start vs) in
      let sliced1 := match hi with Some b => sliced ++ [(b, None)] | None => sliced end in
      let sliced2 := match lo with
                     | Some a => if Nat.eqb li O then (a, init f) :: sliced1 else relabel_first a sliced1
                     | None => sliced1
                     end in
      let i := match lo with None => init f | Some _ => None end in
      Ok (remove_redundant (of_values i sliced2 (closed f)))
  end.

(* masking._maskify (repaired: NaN initial value is masked; result minimal) *)
Definition mask_val (inverse : bool) (v : V) : V :=
  match v with
  | Some x => if xorb inverse (Qceqb x 0) then Some 0 else None
  | None => None
  end.
Definition maskify (inverse : bool) (g : stairs) : stairs :=
  remove_redundant
    (Stairs (mask_val inverse (init g))
            (match data g with
             | None => None
             | Some _ => mk_frame None (Some (map_vals (mask_val inverse) (get_values g)))
             end)
            (closed g)).

(* masking._mask_stairs (repaired) *)
Definition mask_stairs (inverse : bool) (f g : stairs) : res stairs :=
  match data g with
  | None =>
      match mask_val inverse (init g) with
      | None => Ok (const None (closed f))
      | Some _ => Ok (copy f)
      end
  | Some _ =>
      if closed_ok f g then Ok (add_or_sub false (maskify inverse g) f) else Err EClosedMismatch
  end.

(* layering: the step-change series after adding v at p (dropping an exact zero) *)
Definition dl_add (drop : bool) (p : D) (v : Qc) (l : ser) : ser :=
  let l' := upsert p (Some v) (fun d => vadd d (Some v)) l in
  if drop then
    match find p l' with
    | Some (Some x) => if Qceqb x 0 then remove_key p l' else l'
    | _ => l'
    end
  else l'.

(* layering._layer_scalar on a NaN-free receiver *)
Definition layer_scalar_plain (f : stairs) (s e : option D) (v : Qc) : stairs :=
  match s, e with
  | Some a, Some b => if deqb a b then f else
      let d1 := dl_add true a v (get_deltas f) in
      let d2 := dl_add true b (- v) d1 in
      of_deltas (init f) d2 (closed f)
  | Some a, None => of_deltas (init f) (dl_add true a v (get_deltas f)) (closed f)
  | None, Some b => of_deltas (vadd (init f) (Some v)) (dl_add true b (- v) (get_deltas f)) (closed f)
  | None, None => of_deltas (vadd (init f) (Some v)) (get_deltas f) (closed f)
  end.

(* layering.layer, vector path on a NaN-free receiver: concat, groupby(index).sum(), NaN starts folded
   into the initial value, redundant-point removal *)
Definition triple := (option D * option D * Qc)%type.
Fixpoint vec_deltas (ts : list triple) (acc : ser) : ser :=
  match ts with
  | [] => acc
  | (s, e, v) :: t =>
      let acc1 := match s with Some a => dl_add false a v acc | None => acc end in
      let acc2 := match e with Some b => dl_add false b (- v) acc1 | None => acc1 end in
      vec_deltas t acc2
  end.
Definition nan_start_mass (ts : list triple) : Qc :=
  fold_left (fun acc t => match t with (None, _, v) => acc + v | _ => acc end) ts 0.
Definition layer_vector_plain (f : stairs) (ts : list triple) : stairs :=
  remove_redundant
    (of_deltas (vadd (init f) (Some (nan_start_mass ts)))
               (vec_deltas ts (get_deltas f)) (closed f)).

Inductive layer_args := LScalar (s e : option D) (v : Qc) | LVector (ts : list triple).

Definition layer_plain (f : stairs) (a : layer_args) : stairs :=
  match a with
  | LScalar s e v => layer_scalar_plain f s e v
  | LVector ts => layer_vector_plain f ts
  end.

(* layering.layer (repaired): all-undefined step-free receiver is left alone; a receiver with
   undefined regions is layered through addition *)
Definition layer (f : stairs) (a : layer_args) : stairs :=
  match data f with
  | None => if is_nan (init f) then f else layer_plain f a
  | Some _ =>
      if has_na f then add_or_sub false f (layer_plain (const (Some 0) (closed f)) a)
      else layer_plain f a
  end.

(* tuple shorthands *)
Definition mask_tuple (f : stairs) (lo hi : option D) : res stairs :=
  mask_stairs false f (layer (const (Some 0) (closed f)) (LScalar lo hi 1)).
Definition where_tuple (f : stairs) (lo hi : option D) : res stairs := clip f lo hi.

(* masking._make_null_comparison_func *)
Definition null_comparison (fn : V -> V) (f : stairs) : stairs :=
  remove_redundant
    (Stairs (fn (init f))
            (match data f with None => None | Some _ => mk_frame None (Some (map_vals fn (get_values f))) end)
            (closed f)).
Definition isna := null_comparison visna.
Definition notna := null_comparison vnotna.

(* Series.ffill / Series.bfill *)
Fixpoint ffill_from (prev : V) (l : ser) : ser :=
  match l with
  | [] => []
  | (p, None) :: t => (p, prev) :: ffill_from prev t
  | (p, Some v) :: t => (p, Some v) :: ffill_from (Some v) t
  end.
Fixpoint bfill (l : ser) : ser :=
  match l with
  | [] => []
  | (p, v) :: t =>
      let t' := bfill t in
      (p, match v with Some _ => v | None => match t' with (_, w) :: _ => w | [] => None end end) :: t'
  end.

Inductive fill_method := FFill | BFill.

(* masking._make_data_fillna_method *)
Definition fillna_method (m : fill_method) (f : stairs) : stairs :=
  match data f with
  | None => f
  | Some _ =>
      let vs := get_values f in
      match m with
      | FFill => remove_redundant (of_values (init f) (ffill_from (init f) vs) (closed f))
      | BFill =>
          let vs' := bfill vs in
          let i := match init f with
                   | Some _ => init f
                   | None => match vs' with (_, w) :: _ => w | [] => None end
                   end in
          remove_redundant (of_values i vs' (closed f))
      end
  end.

(* masking._make_data_fillna_scalar *)
Definition fillna_scalar (f : stairs) (c : V) : stairs :=
  remove_redundant
    (Stairs (vfill (init f) c)
            (match data f with None => None | Some _ => mk_frame None (Some (map_vals (fun v => vfill v c) (get_values f))) end)
            (closed f)).

(* masking._fillna_with_stairs (repaired) *)
Definition fillna_stairs (f g : stairs) : res stairs :=
  if negb (closed_ok f g) then Err EClosedMismatch else
  let f0 := fillna_scalar f (Some 0) in
  let g0 := fillna_scalar g (Some 0) in
  let fna := isna f in
  let prod := apply_binop (BArith OMul) g0 fna in
  let filled := apply_binop (BArith OAdd) f0 prod in
  let both := apply_binop (BLog LAnd) fna (isna g) in
  match mask_stairs false filled both with
  | Err e => Err e
  | Ok r =>
      let c := if negb (has_steps f) && has_steps g then closed g else closed f in
      Ok (Stairs (init r) (data r) c)
  end.

End Masking.
