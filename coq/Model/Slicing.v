(* Model/Slicing.v — StairsSlicer (staircase/core/slicing.py, repaired), collection aggregation
   (core/arrays/extension.py, repaired), cov / corr (core/stats/statistic.py), rolling_mean and
   describe (core/stairs.py), at D := Qc. *)
From Coq Require Import List Bool Arith ZArith QArith Qcanon.
Import ListNotations.
Require Import SC.Base.Ord SC.Base.Val SC.Base.Series SC.Base.QcOrd.
Require Import SC.Model.Repr SC.Model.Ops SC.Model.Masking SC.Model.Sampling SC.Model.Stats.
Open Scope Qc_scope.

Definition Qcabs_ (x : Qc) : Qc := if Qcltb x 0 then - x else x.

Inductive ivclosed := IvLeft | IvRight | IvBoth | IvNeither.
Definition incl_left (c : ivclosed) : bool := match c with IvLeft | IvBoth => true | _ => false end.
Definition incl_right (c : ivclosed) : bool := match c with IvRight | IvBoth => true | _ => false end.

(* whole-function min / max (stats.min / stats.max with the default window and the function's own side) *)
Definition own_lims (f : stairsQ) : bool * bool :=
  match closed f with CLeft => get_lims CLeft true false | CRight => get_lims CRight false true end.
Definition whole_min (f : stairsQ) : V := vmin (values_in_range f None None (own_lims f)).
Definition whole_max (f : stairsQ) : V := vmax (values_in_range f None None (own_lims f)).

Definition median_of (f : stairsQ) : option V :=
  match ecdf_of f with Some ec => Some (xtile_sample (percentiles_of ec) (q_of_Z 50)) | None => None end.

(* np.fmax / np.fmin: NaN only when both are NaN *)
Definition vfmax (a b : V) : V :=
  match a, b with
  | Some x, Some y => Some (if Qcltb x y then y else x)
  | Some x, None => a
  | None, _ => b
  end.
Definition vfmin (a b : V) : V :=
  match a, b with
  | Some x, Some y => Some (if Qcltb y x then y else x)
  | Some x, None => a
  | None, _ => b
  end.

Inductive sstat := SMean | SIntegral | SMedian | SMode | SMin | SMax.

(* one slice: clip(f, I.left, I.right), then the statistic; None = the code raises *)
Definition slice_stat (st : sstat) (f : stairsQ) (icl : ivclosed) (iv : Qc * Qc) : option V :=
  match clip f (Some (fst iv)) (Some (snd iv)) with
  | Err _ => None
  | Ok sl =>
      match st with
      | SMean => Some (snd (integral_and_mean sl))
      | SIntegral => Some (fst (integral_and_mean sl))
      | SMedian => median_of sl
      | SMode => match mode sl with Some v => Some (Some v) | None => None end
      | SMax =>
          let r := whole_max sl in
          Some (match closed f with
                | CLeft => if incl_right icl then vfmax r (sample f (snd iv)) else r
                | CRight => if incl_left icl then vfmax r (sample f (fst iv)) else r
                end)
      | SMin =>
          let r := whole_min sl in
          Some (match closed f with
                | CLeft => if incl_right icl then vfmin r (sample f (snd iv)) else r
                | CRight => if incl_left icl then vfmin r (sample f (fst iv)) else r
                end)
      end
  end.

Fixpoint sequence {A} (l : list (option A)) : option (list A) :=
  match l with
  | [] => Some []
  | Some a :: t => match sequence t with Some r => Some (a :: r) | None => None end
  | None :: _ => None
  end.

Definition slicer_stat (st : sstat) (f : stairsQ) (icl : ivclosed) (ivs : list (Qc * Qc)) : option (list V) :=
  sequence (map (slice_stat st f icl) ivs).

(* IntervalIndex.is_non_overlapping_monotonic (increasing; closed='both' intervals sharing an end point overlap) *)
Fixpoint tiling_ok (icl : ivclosed) (ivs : list (Qc * Qc)) : bool :=
  match ivs with
  | a :: ((b :: _) as t) =>
      (match icl with IvBoth => Qcltb (snd a) (fst b) | _ => Qcleb (snd a) (fst b) end) && tiling_ok icl t
  | _ => true
  end.

Definition qmin_list (l : list Qc) : option Qc := match usort l with x :: _ => Some x | [] => None end.
Definition qmax_list (l : list Qc) : option Qc := last_opt (usort l).

Definition lift_res {A B} (r : res A) (f : A -> res B) : res B := match r with Ok a => f a | Err e => Err e end.

(* StairsSlicer.resample (repaired) *)
Definition resample (st : sstat) (f : stairsQ) (icl : ivclosed) (ivs : list (Qc * Qc)) : res stairsQ :=
  if negb (tiling_ok icl ivs) then Err EValue else
  match slicer_stat st f icl ivs, qmin_list (map fst ivs), qmax_list (map snd ivs) with
  | Some vals, Some lb, Some rb =>
      lift_res (mask_tuple (isna f) (Some lb) (Some rb)) (fun m1 =>
      let stairs_na := fillna_scalar m1 (Some 0) in
      lift_res (mask_tuple f (Some lb) (Some rb)) (fun m2 =>
      lift_res (mask_stairs false (fillna_scalar m2 (Some 0)) stairs_na) (fun m3 =>
      let defined := flat_map (fun iv_v => match snd iv_v with
                                           | Some v => [(Some (fst (fst iv_v)), Some (snd (fst iv_v)), v)]
                                           | None => [] end) (combine ivs vals) in
      let layered := layer m3 (LVector defined) in
      fold_left (fun acc iv_v =>
                   match snd iv_v with
                   | Some _ => acc
                   | None => lift_res acc (fun r => mask_tuple r (Some (fst (fst iv_v))) (Some (snd (fst iv_v))))
                   end) (combine ivs vals) (Ok layered))))
  | _, _, _ => Err EOther
  end.

(* ---- collection aggregation *)
Inductive aggf := GSum | GMean | GMedian | GMin | GMax | GOr | GAnd.

Fixpoint qsort_insert (x : Qc) (l : list Qc) : list Qc :=
  match l with [] => [x] | y :: t => if Qcltb y x then y :: qsort_insert x t else x :: l end.
Definition qsort (l : list Qc) : list Qc := fold_left (fun acc x => qsort_insert x acc) l [].

Definition reduce_defined (g : aggf) (l : list Qc) : V :=
  match l with
  | [] => None
  | _ =>
      match g with
      | GSum => Some (qsum l)
      | GMean => vdiv (Some (qsum l)) (Some (q_of_Z (Z.of_nat (length l))))
      | GMin => vmin (qsort l)
      | GMax => last_opt (qsort l)
      | GMedian =>
          let s := qsort l in
          let n := length s in
          if Nat.even n then vdiv (vadd (nth_error s (n / 2 - 1)) (nth_error s (n / 2))) (Some (q_of_Z 2))
          else nth_error s (n / 2)
      | GOr => vbool (existsb truthy l)
      | GAnd => vbool (forallb truthy l)
      end
  end.
(* numpy reductions propagate NaN *)
Definition reduce (g : aggf) (col : list V) : V :=
  if existsb is_nan col then None else reduce_defined g (defined_vals col).

Definition array_agg (g : aggf) (ms : list stairsQ) : res stairsQ :=
  match ms with
  | [] => Err EOther
  | m0 :: _ =>
      let ws := filter has_steps ms in
      match ws with
      | [] => Ok (const (reduce g (map init ms)) (closed m0))
      | w0 :: _ =>
          if negb (forallb (fun w => side_eqb (closed w) (closed w0)) ws) then Err EClosedMismatch else
          let index := usort (flat_map step_points ws) in
          let vals := map (fun p => (p, reduce g (map (fun m => limit m LimRight p) ms))) index in
          Ok (remove_redundant (of_values (reduce g (map init ms)) vals (closed w0)))
      end
  end.

(* ---- cov / corr *)
Inductive lagclip := ClipPre | ClipPost.

Definition cov_operands (f g : stairsQ) (lo hi : option Qc) (lag : Qc) (lc : lagclip)
  : res (stairsQ * stairsQ * option Qc) :=
  let hi' := if Qceqb lag 0 then hi else
             match lc, hi with ClipPre, Some b => Some (b - lag) | _, _ => hi end in
  let g1 := if Qceqb lag 0 then g else shift g (- lag) in
  lift_res (binop_api (BLog LOr) (OpS (isna f)) (OpS (isna g1))) (fun m =>
  lift_res (mask_stairs false f m) (fun f' =>
  lift_res (mask_stairs false g1 m) (fun g' => Ok (f', g', hi')))).

Definition clipped_mean (f : stairsQ) (lo hi : option Qc) : res V :=
  lift_res (clip f lo hi) (fun c => Ok (snd (integral_and_mean c))).

(* the property's formula: mean(f'g') - mean(f') mean(g'), every mean over the window *)
Definition cov_masked_spec (f' g' : stairsQ) (lo hi : option Qc) : res V :=
  lift_res (binop_api (BArith OMul) (OpS f') (OpS g')) (fun fg =>
  lift_res (clipped_mean fg lo hi) (fun mfg =>
  lift_res (clipped_mean f' lo hi) (fun mf =>
  lift_res (clipped_mean g' lo hi) (fun mg => Ok (vsub mfg (vmul mf mg)))))).

(* what statistic.cov computes (repaired, 0a511ae): the mean of the centred product
   ((f' - mean f') * (g' - mean g')).clip(where).mean(), which does not cancel when the means are large *)
Definition cov_masked (f' g' : stairsQ) (lo hi : option Qc) : res V :=
  lift_res (clipped_mean f' lo hi) (fun mf =>
  lift_res (clipped_mean g' lo hi) (fun mg =>
  lift_res (binop_api (BArith OSub) (OpS f') (OpC mf)) (fun fc =>
  lift_res (binop_api (BArith OSub) (OpS g') (OpC mg)) (fun gc =>
  lift_res (binop_api (BArith OMul) (OpS fc) (OpS gc)) (fun p =>
  clipped_mean p lo hi))))).

Definition cov_spec (f g : stairsQ) (lo hi : option Qc) (lag : Qc) (lc : lagclip) : res V :=
  lift_res (cov_operands f g lo hi lag lc) (fun fgh =>
    let '(f', g', hi') := fgh in cov_masked_spec f' g' lo hi').

(* the closed sides are compared first (explicitly, as corr does), on f and the translated g *)
Definition cov (f g : stairsQ) (lo hi : option Qc) (lag : Qc) (lc : lagclip) : res V :=
  if negb (closed_ok f (if Qceqb lag 0 then g else shift g (- lag))) then Err EClosedMismatch else
  lift_res (cov_operands f g lo hi lag lc) (fun fgh =>
    let '(f', g', hi') := fgh in cov_masked f' g' lo hi').

Definition clipped_var (f : stairsQ) (lo hi : option Qc) : res V :=
  lift_res (clip f lo hi) (fun c =>
    match ecdf_of c with
    | Some ec => Ok (var_of ec (snd (integral_and_mean c)))
    | None => Err EOther
    end).

(* corr = cov / (std_f * std_g); the model has no square root: it returns sign(cov) * corr^2 *)
Definition corr_signed_square (f g : stairsQ) (lo hi : option Qc) (lag : Qc) (lc : lagclip) : res V :=
  if negb (closed_ok f (if Qceqb lag 0 then g else shift g (- lag))) then Err EClosedMismatch else
  lift_res (cov_operands f g lo hi lag lc) (fun fgh =>
    let '(f', g', hi') := fgh in
    lift_res (clipped_var f' lo hi') (fun vf =>
    lift_res (clipped_var g' lo hi') (fun vg =>
    match vmul vf vg with
    | Some d => if Qceqb d 0 then Ok None else
        lift_res (cov_masked f' g' lo hi') (fun c =>
          Ok (match c with Some x => Some (x * Qcabs_ x / d) | None => None end))
    | None => lift_res (cov_masked f' g' lo hi') (fun _ => Ok None)
    end))).

(* ---- rolling_mean: knots and window means *)
Definition rolling_mean (f : stairsQ) (l r : Qc) (lo hi : option Qc) : res (list (Qc * V)) :=
  lift_res (clip f lo hi) (fun cl =>
    match data cl with
    | None => (* no step points inside the window: the two window ends with the (constant) value *)
        match lo, hi with
        | Some a, Some b => Ok [(a, init cl); (b, init cl)]
        | _, _ => Err EOther
        end
    | Some _ =>
        let pts := keys (get_values cl) in
        let knots := usort (map (fun p => p - l) pts ++ map (fun p => p - r) pts) in
        match slicer_stat SMean cl IvRight (map (fun k => (k + l, k + r)) knots) with
        | None => Err EValue
        | Some ms =>
            let rows := combine knots ms in
            let rows1 := match lo with Some a => filter (fun kv => Qcleb (a - l) (fst kv)) rows | None => rows end in
            let rows2 := match hi with Some b => filter (fun kv => Qcleb (fst kv) (b - r)) rows1 | None => rows1 end in
            Ok rows2
        end
    end).

(* ---- describe: [unique; mean; var (= std^2); min; percentiles...; max] of the clipped function *)
Definition describe (f : stairsQ) (lo hi : option Qc) (ps : list Qc) : res (list V) :=
  lift_res (clip f lo hi) (fun c =>
    match ecdf_of c with
    | None => Err EOther
    | Some ec =>
        let pc := percentiles_of ec in
        match clip pc (Some 0) (Some (q_of_Z 100)) with
        | Err e => Err e
        | Ok pcc =>
            let unique := q_of_Z (Z.of_nat (number_of_steps pcc) - 1) in
            let m := snd (integral_and_mean c) in
            Ok ([Some unique; m; var_of ec m; whole_min c] ++ map (xtile_sample pc) ps ++ [whole_max c])
        end
    end).
