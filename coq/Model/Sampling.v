(* Model/Sampling.v — evaluation and structural views (staircase/core/sampling.py, stairs.py views,
   relational.identical, Stairs.__bool__) *)
From Coq Require Import List Bool Arith QArith Qcanon.
Import ListNotations.
Require Import SC.Base.Ord SC.Base.Val SC.Base.Series SC.Model.Repr SC.Model.Ops.
Open Scope Qc_scope.

Section Sampling.
Context {D : Type} `{Ord D}.
Notation ser := (list (D * V)).
Notation stairs := (stairs D).

Inductive lside := LimLeft | LimRight.
Definition strict_of (sd : lside) : bool := match sd with LimLeft => true | LimRight => false end.

(* sampling.limit: amended_values[searchsorted(index, x, side) - 1] *)
Definition limit (f : stairs) (sd : lside) (x : D) : V :=
  match data f with
  | None => init f
  | Some _ => limit_idx (strict_of sd) (init f) (get_values f) x
  end.

(* sampling.sample: right limit for a left-closed function, left limit for a right-closed one *)
Definition sample_side (c : side) : lside := match c with CLeft => LimRight | CRight => LimLeft end.
Definition sample (f : stairs) (x : D) : V := limit f (sample_side (closed f)) x.

(* to_frame: rows (-inf, k1, init), (k1, k2, v1), ..., (kn, inf, vn), given as init + (start, value) rows *)
Definition to_frame (f : stairs) : V * ser := (init f, get_values f).
Definition step_values (f : stairs) : ser := get_values f.
Definition step_changes (f : stairs) : ser := get_deltas f.

(* relational.identical on sanitised operands (closed sides are not compared) *)
Definition ser_eqb (a b : ser) : bool :=
  Nat.eqb (length a) (length b) &&
  forallb (fun ab => deqb (fst (fst ab)) (fst (snd ab)) && veqb (snd (fst ab)) (snd (snd ab))) (combine a b).
Definition has_v (s : stairs) : bool :=
  match data s with Some fr => match vcol fr with Some _ => true | None => false end | None => false end.
Definition identical (f g : stairs) : bool :=
  if negb (veqb (init f) (init g)) then false else
  match data f, data g with
  | None, None => true
  | None, Some _ | Some _, None => false
  | Some _, Some _ =>
      if has_v f && has_v g then ser_eqb (get_values f) (get_values g)
      else ser_eqb (get_deltas f) (get_deltas g)
  end.

(* Stairs.__bool__ *)
Definition to_bool (f : stairs) : bool :=
  veqb (init f) (Some 1) && negb (has_steps f).

End Sampling.
