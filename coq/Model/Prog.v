(* Model/Prog.v — programs over the public API, executed on the model at D := Qc.
   A world maps registers to objects; every statement yields an observation. The correspondence
   check (Corr/Check.v + the Python harness) runs the same programs on /repo's implementation. *)
From Coq Require Import List Bool Arith QArith Qcanon.
Import ListNotations.
Require Import SC.Base.Ord SC.Base.Val SC.Base.Series SC.Base.QcOrd.
Require Import SC.Model.Repr SC.Model.Ops SC.Model.Masking SC.Model.Sampling SC.Model.Stats SC.Model.Slicing SC.Model.Arrays.
Open Scope Qc_scope.

Notation ser := (list (Qc * V)).
Notation stairsQ := (stairs Qc).

(* an object: the Stairs state plus its two caches (C14) *)
Record obj := Obj { st : stairsQ; c_im : option (V * V); c_ecdf : option (option stairsQ) }.
Definition fresh (s : stairsQ) : obj := Obj s None None.

Definition world := list (nat * obj).
Fixpoint wget (w : world) (r : nat) : option obj :=
  match w with [] => None | (k, o) :: t => if Nat.eqb k r then Some o else wget t r end.
Fixpoint wset (w : world) (r : nat) (o : obj) : world :=
  match w with
  | [] => [(r, o)]
  | (k, o') :: t => if Nat.eqb k r then (k, o) :: t else (k, o') :: wset t r o
  end.
(* update the Stairs state of an object without touching its caches (materialisation of a form) *)
Definition wtouch (w : world) (r : nat) (fn : stairsQ -> stairsQ) : world :=
  match wget w r with Some o => wset w r (Obj (fn (st o)) (c_im o) (c_ecdf o)) | None => w end.

Inductive arg := AReg (r : nat) | AConst (c : V).
Inductive unop := UNeg | UInvert | UMakeBool | UIsna | UNotna | UCopy | UFfill | UBfill.
Inductive readkind := RValues | RDeltas | RFrame.

Inductive query :=
| QLimit (sd : lside) (xs : list Qc)
| QSample (xs : list Qc)
| QIdentical (a : arg)
| QBool
| QNSteps
| QPoints
| QClosed
| QIntegral | QMean | QVar | QMedian | QMode
| QValueSums
| QEcdf (sd : lside) (ys : list Qc)
| QPercentile (ps : list Qc)
| QFractile (ps : list Qc)
| QHist (bins : list (Qc * Qc)) (cl : side) (stat : hstat)
| QVir (lo hi : option Qc) (cl : option ivclosed)
| QMin (lo hi : option Qc) (cl : option ivclosed)
| QMax (lo hi : option Qc) (cl : option ivclosed)
| QAgg (name : aggname) (lo hi : option Qc) (cl : option ivclosed)
| QSlicer (st : sstat) (icl : ivclosed) (ivs : list (Qc * Qc))
| QCov (b : nat) (lo hi : option Qc) (lag : Qc) (lc : lagclip)
| QCorr (b : nat) (lo hi : option Qc) (lag : Qc) (lc : lagclip)
| QRolling (l r : Qc) (lo hi : option Qc)
| QDescribe (lo hi : option Qc) (ps : list Qc)
(* collection-level calls on [this register :: others] (Model/Arrays.v); tables and matrices are observed row by row *)
| QArrSample (others : list nat) (xs : list Qc)
| QArrLimit (others : list nat) (sd : lside) (xs : list Qc)
| QArrCov (others : list nat) (lo hi : option Qc)
| QArrCorr (others : list nat) (lo hi : option Qc).

Inductive stmt :=
| SNew (r : nat) (i : V) (c : side)
| SFromValues (r : nat) (i : V) (rows : ser) (c : side)
| SLayer (r : nat) (a : @layer_args Qc)               (* in place; the only mutator *)
| SRead (r : nat) (k : readkind)
| SUn (r : nat) (o : unop) (a : nat)
| SBin (r : nat) (o : binop) (a b : arg)
| SClip (r a : nat) (lo hi : option Qc)
| SMask (r a : nat) (inverse : bool) (m : nat)
| SMaskT (r a : nat) (inverse : bool) (lo hi : option Qc)
| SFillS (r a : nat) (c : V)
| SFillG (r a g : nat)
| SShift (r a : nat) (d : Qc)
| SDiff (r a : nat) (d : Qc)
| SResample (r a : nat) (st : sstat) (icl : ivclosed) (ivs : list (Qc * Qc))
| SAgg (r : nat) (g : aggf) (ms : list nat)
| SQuery (r : nat) (q : query).

Inductive obs :=
| OUnit
| OErr (e : err)
| OFrame (c : side) (i : V) (rows : ser)
| OSer (rows : ser)
| ORows (rows : ser)        (* rolling_mean's sample points: computed labels, compared tolerantly in tolerant cases *)
| OVals (l : list V)
| OVal (v : V)
| OBool (b : bool)
| ONat (n : nat)
| OKeys (l : list Qc)
| OQSer (l : list (Qc * Qc))
| ONone.

Definition obs_of (s : stairsQ) : obs := OFrame (closed s) (init s) (get_values s).

Definition bind_result (w : world) (r : nat) (x : res stairsQ) : world * obs :=
  match x with
  | Ok s => (wset w r (fresh s), obs_of s)
  | Err e => (w, OErr e)
  end.

Definition operand_of (w : world) (a : arg) : option (operand (D := Qc)) :=
  match a with
  | AConst c => Some (OpC c)
  | AReg r => match wget w r with Some o => Some (OpS (st o)) | None => None end
  end.

(* which internal form the right-hand operand of a binary operator has materialised afterwards
   (the left one is copied by _sanitize_binary_operands) *)
Definition touch_rhs (o : binop) (f g : stairsQ) : stairsQ -> stairsQ :=
  match o with
  | BArith OAdd | BArith OSub =>
      if has_steps f && has_steps g then
        if has_na f || has_na g then with_values
        else if frame_has_d f || frame_has_d g then with_deltas else with_values
      else fun s => s
  | _ => if has_steps g then with_values else fun s => s
  end.

Definition vir_closed (f : stairsQ) (cl : option ivclosed) : side * bool * bool :=
  (* (function side, left endpoint included, right endpoint included) *)
  match cl with
  | None => match closed f with CLeft => (closed f, true, false) | CRight => (closed f, false, true) end
  | Some IvLeft => (closed f, true, false)
  | Some IvRight => (closed f, false, true)
  | Some IvBoth => (closed f, true, true)
  | Some IvNeither => (closed f, false, false)
  end.

Definition lims_of (f : stairsQ) (cl : option ivclosed) : bool * bool :=
  let '(_, l, r) := vir_closed f cl in get_lims (closed f) l r.

Fixpoint strictly_increasing (l : list Qc) : bool :=
  match l with
  | a :: ((b :: _) as t) => Qcltb a b && strictly_increasing t
  | _ => true
  end.

Definition members_of (w : world) (rs : list nat) : option (list stairsQ) :=
  match sequence (map (wget w) rs) with Some os => Some (map st os) | None => None end.

Definition exec_query (w : world) (r : nat) (o : obj) (q : query) : world * obs :=
  let f := st o in
  let wv := wtouch w r with_values in
  match q with
  | QLimit sd xs => (wv, OVals (map (limit f sd) xs))
  | QSample xs => (wv, OVals (map (sample f) xs))
  | QIdentical a =>
      match operand_of w a with
      | Some (OpS g) => (w, OBool (identical f g))
      | Some (OpC c) => (w, OBool (identical f (const c (closed f))))
      | None => (w, OErr EOther)
      end
  | QBool => (w, OBool (to_bool f))
  | QNSteps => (w, ONat (number_of_steps f))
  | QPoints => (w, OKeys (step_points f))
  | QClosed => (w, OBool (side_eqb (closed f) CLeft))
  | QIntegral =>
      let im := match c_im o with Some im => im | None => integral_and_mean f end in
      (wset wv r (Obj (with_values f) (Some im) (c_ecdf o)), OVal (fst im))
  | QMean =>
      let im := match c_im o with Some im => im | None => integral_and_mean f end in
      (wset wv r (Obj (with_values f) (Some im) (c_ecdf o)), OVal (snd im))
  | QValueSums =>
      (wv, match value_sums f with Some l => OQSer l | None => ONone end)
  | QMode => (wv, match mode f with Some v => OVal (Some v) | None => OErr EOther end)
  | QVar | QMedian | QEcdf _ _ | QPercentile _ | QFractile _ | QHist _ _ _ =>
      let e := match c_ecdf o with Some e => e | None => ecdf_of f end in
      let w' := wset wv r (Obj (with_values f) (c_im o) (Some e)) in
      match e with
      | None => (w', OErr EOther)
      | Some ec =>
          match q with
          | QVar =>
              let im := match c_im o with Some im => im | None => integral_and_mean f end in
              (wset wv r (Obj (with_values f) (Some im) (Some e)), OVal (var_of ec (snd im)))
          | QMedian => (w', OVal (xtile_sample (percentiles_of ec) (q_of_Z 50)))
          | QEcdf sd ys => (w', OVals (map (limit ec sd) ys))
          | QPercentile ps => (w', OVals (map (xtile_sample (percentiles_of ec)) ps))
          | QFractile ps => (w', OVals (map (xtile_sample (fractiles_of ec)) ps))
          | QHist bins cl stat => (w', OVals (hist ec (value_total f) bins cl stat))
          | _ => (w', OErr EOther)
          end
      end
  | QVir lo hi cl => (wv, OKeys (values_in_range f lo hi (lims_of f cl)))
  | QMin lo hi cl => (wv, OVal (vmin (values_in_range f lo hi (lims_of f cl))))
  | QMax lo hi cl => (wv, OVal (vmax (values_in_range f lo hi (lims_of f cl))))
  | QSlicer st icl ivs =>
      (wv, match slicer_stat st f icl ivs with Some l => OVals l | None => OErr EOther end)
  | QCov b lo hi lag lc =>
      match wget w b with
      | Some ob => (w, match cov f (st ob) lo hi lag lc with Ok v => OVal v | Err e => OErr e end)
      | None => (w, OErr EOther)
      end
  | QCorr b lo hi lag lc =>
      match wget w b with
      | Some ob => (w, match corr_signed_square f (st ob) lo hi lag lc with Ok v => OVal v | Err e => OErr e end)
      | None => (w, OErr EOther)
      end
  | QRolling l r lo hi =>
      (wv, match rolling_mean f l r lo hi with Ok rows => ORows rows | Err e => OErr e end)
  | QDescribe lo hi ps =>
      (wv, match describe f lo hi ps with Ok l => OVals l | Err e => OErr e end)
  | QArrSample others xs =>
      (w, match members_of w others with
          | Some ms => OVals (concat (arr_sample (f :: ms) xs)) | None => OErr EOther end)
  | QArrLimit others sd xs =>
      (w, match members_of w others with
          | Some ms => OVals (concat (arr_limit (f :: ms) sd xs)) | None => OErr EOther end)
  | QArrCov others lo hi =>
      (w, match members_of w others with
          | Some ms => match arr_cov (f :: ms) lo hi with Ok M => OVals (concat M) | Err e => OErr e end
          | None => OErr EOther end)
  | QArrCorr others lo hi =>
      (w, match members_of w others with
          | Some ms => match arr_corr (f :: ms) lo hi with Ok M => OVals (concat M) | Err e => OErr e end
          | None => OErr EOther end)
  | QAgg name lo hi cl =>
      if negb (bounds_ok lo hi) then (wv, OErr EValue) else      (* agg clips first: lower < upper required *)
      match name with
      | AMin => (wv, OVal (vmin (values_in_range f lo hi (lims_of f cl))))
      | AMax => (wv, OVal (vmax (values_in_range f lo hi (lims_of f cl))))
      | _ =>
          match clip f lo hi with
          | Err e => (wv, OErr e)
          | Ok g =>
              match name with
              | AIntegral => (wv, OVal (fst (integral_and_mean g)))
              | AMean => (wv, OVal (snd (integral_and_mean g)))
              | AMedian => (wv, match ecdf_of g with Some ec => OVal (xtile_sample (percentiles_of ec) (q_of_Z 50)) | None => OErr EOther end)
              | AMode => (wv, match mode g with Some v => OVal (Some v) | None => OErr EOther end)
              | AVar => (wv, match ecdf_of g with Some ec => OVal (var_of ec (snd (integral_and_mean g))) | None => OErr EOther end)
              | _ => (wv, OErr EOther)
              end
          end
      end
  end.

Definition exec (w : world) (s : stmt) : world * obs :=
  match s with
  | SNew r i c => bind_result w r (Ok (const i c))
  | SFromValues r i rows c =>      (* the index must be strictly increasing (repaired: repeated labels were accepted) *)
      bind_result w r (if strictly_increasing (map fst rows) then Ok (from_values i rows c) else Err EValue)
  | SLayer r a =>
      match wget w r with
      | None => (w, OErr EOther)
      | Some o =>
          let f := st o in
          (* the all-undefined step-free receiver returns before the caches are cleared *)
          if negb (has_steps f) && is_nan (init f) then (w, obs_of f)
          else let f' := layer f a in (wset w r (fresh f'), obs_of f')
      end
  | SRead r k =>
      match wget w r with
      | None => (w, OErr EOther)
      | Some o =>
          match k with
          | RValues => (wtouch w r with_values, OSer (step_values (st o)))
          | RDeltas => (wtouch w r with_deltas, OSer (step_changes (st o)))
          | RFrame => (wtouch w r with_values, obs_of (st o))
          end
      end
  | SUn r o a =>
      match wget w a with
      | None => (w, OErr EOther)
      | Some x =>
          let f := st x in
          let w1 := match o with UNeg | UCopy => w | _ => wtouch w a with_values end in
          bind_result w1 r
            (Ok match o with
                | UNeg => negate f | UInvert => invert f | UMakeBool => make_boolean f
                | UIsna => isna f | UNotna => notna f | UCopy => copy f
                | UFfill => fillna_method FFill f | UBfill => fillna_method BFill f
                end)
      end
  | SBin r o a b =>
      match operand_of w a, operand_of w b with
      | Some x, Some y =>
          let w1 := match x, y, b with
                    | OpS f, OpS g, AReg rb => if closed_ok f g then wtouch w rb (touch_rhs o f g) else w
                    | OpC c, OpS g, AReg rb => wtouch w rb (touch_rhs o (const c (closed g)) g)
                    | _, _, _ => w
                    end in
          bind_result w1 r (binop_api o x y)
      | _, _ => (w, OErr EOther)
      end
  | SClip r a lo hi =>
      match wget w a with
      | None => (w, OErr EOther)
      | Some x => bind_result (wtouch w a with_values) r (clip (st x) lo hi)
      end
  | SMask r a inverse m =>
      match wget w a, wget w m with
      | Some x, Some y => bind_result w r (mask_stairs inverse (st x) (st y))
      | _, _ => (w, OErr EOther)
      end
  | SMaskT r a inverse lo hi =>
      match wget w a with
      | None => (w, OErr EOther)
      | Some x => bind_result w r (if inverse then where_tuple (st x) lo hi else mask_tuple (st x) lo hi)
      end
  | SFillS r a c =>
      match wget w a with
      | None => (w, OErr EOther)
      | Some x => bind_result (wtouch w a with_values) r (Ok (fillna_scalar (st x) c))
      end
  | SFillG r a g =>
      match wget w a, wget w g with
      | Some x, Some y => bind_result w r (fillna_stairs (st x) (st y))
      | _, _ => (w, OErr EOther)
      end
  | SShift r a d =>
      match wget w a with
      | None => (w, OErr EOther)
      | Some x => bind_result w r (Ok (shift (st x) d))
      end
  | SDiff r a d =>
      match wget w a with
      | None => (w, OErr EOther)
      | Some x => bind_result w r (Ok (diff (st x) d))
      end
  | SResample r a st icl ivs =>
      match wget w a with
      | None => (w, OErr EOther)
      | Some x => bind_result w r (resample st (Prog.st x) icl ivs)
      end
  | SAgg r g ms =>
      match sequence (map (wget w) ms) with
      | None => (w, OErr EOther)
      | Some os => bind_result w r (array_agg g (map Prog.st os))
      end
  | SQuery r q =>
      match wget w r with
      | None => (w, OErr EOther)
      | Some o => exec_query w r o q
      end
  end.

Fixpoint run (w : world) (p : list stmt) : world * list obs :=
  match p with
  | [] => (w, [])
  | s :: t => let (w1, o) := exec w s in let (w2, os) := run w1 t in (w2, o :: os)
  end.
