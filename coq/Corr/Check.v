(* Corr/Check.v — the comparison run by every generated cases_*.v shard: execute the model on a
   program and compare its observations with what /repo's implementation returned. *)
From Coq Require Import List Bool Arith ZArith QArith Qcanon.
Import ListNotations.
Require Import SC.Base.Ord SC.Base.Val SC.Base.Series SC.Base.QcOrd.
Require Import SC.Model.Repr SC.Model.Ops SC.Model.Masking SC.Model.Sampling SC.Model.Stats SC.Model.Prog.
Open Scope Qc_scope.

Inductive cmpmode := Exact | Tol.

Definition Qcabs (x : Qc) : Qc := if Qcltb x 0 then - x else x.
(* |a - b| <= 1e-9 * (1 + |b|) *)
Definition close (a b : Qc) : bool :=
  Qcleb (Qcabs (a - b)) (q 1 1000000000 * (1 + Qcabs b)).
(* 'Exact' cases use dyadic data on which binary64 arithmetic is exact; the comparison nevertheless allows one part in 10^12
   so that a last-bit rounding somewhere in pandas can never be reported as a violation (step POINTS are compared exactly) *)
Definition close12 (a b : Qc) : bool :=
  Qcleb (Qcabs (a - b)) (q 1 1000000000000 * (1 + Qcabs b)).
Definition v_cmp (m : cmpmode) (a b : V) : bool :=
  match m, a, b with
  | _, None, None => true
  | Exact, Some x, Some y => close12 x y
  | Tol, Some x, Some y => close x y
  | _, _, _ => false
  end.
Definition q_cmp (m : cmpmode) (a b : Qc) : bool :=
  match m with Exact => close12 a b | Tol => close a b end.

Definition list_cmp {A} (f : A -> A -> bool) (a b : list A) : bool :=
  Nat.eqb (length a) (length b) && forallb (fun ab => f (fst ab) (snd ab)) (combine a b).
Definition ser_cmp (m : cmpmode) (a b : ser) : bool :=
  list_cmp (fun x y => Qceqb (fst x) (fst y) && v_cmp m (snd x) (snd y)) a b.
(* labels that the implementation computes (x - l, x - r for rolling_mean) rather than copies *)
Definition rows_cmp (m : cmpmode) (a b : ser) : bool :=
  list_cmp (fun x y => q_cmp m (fst x) (fst y) && v_cmp m (snd x) (snd y)) a b.
Definition err_eqb (a b : err) : bool :=
  match a, b with
  | EClosedMismatch, EClosedMismatch | EValue, EValue | EOther, EOther => true
  | _, _ => false
  end.

Definition obs_cmp (m : cmpmode) (a b : obs) : bool :=
  match a, b with
  | OUnit, OUnit => true
  | ONone, ONone => true
  | OErr x, OErr y => err_eqb x y
  | OFrame c i r, OFrame c' i' r' => side_eqb c c' && v_cmp m i i' && ser_cmp m r r'
  | OSer r, OSer r' => ser_cmp m r r'
  | ORows r, ORows r' => rows_cmp m r r'
  | OVals l, OVals l' => list_cmp (v_cmp m) l l'
  | OVal v, OVal v' => v_cmp m v v'
  | OBool x, OBool y => Bool.eqb x y
  | ONat x, ONat y => Nat.eqb x y
  | OKeys l, OKeys l' => list_cmp (q_cmp m) l l'
  | OQSer l, OQSer l' => list_cmp (fun x y => q_cmp m (fst x) (fst y) && q_cmp m (snd x) (snd y)) l l'
  | _, _ => false
  end.

Record case := Case { cid : nat; cmode : cmpmode; prog : list stmt; seen : list (option obs) }.
(* seen: None = this statement's observation is not compared *)

Definition obs_ok (m : cmpmode) (model : obs) (impl : option obs) : bool :=
  match impl with None => true | Some o => obs_cmp m model o end.

Definition case_result (c : case) : list obs := snd (run [] (prog c)).
Definition case_ok (c : case) : bool :=
  let got := case_result c in
  Nat.eqb (length got) (length (seen c)) &&
  forallb (fun ab => obs_ok (cmode c) (fst ab) (snd ab)) (combine got (seen c)).

Definition failing (cs : list case) : list nat :=
  flat_map (fun c => if case_ok c then [] else [cid c]) cs.
(* for the replay file: positions of the disagreeing observations, and the model's observations *)
Fixpoint bad_positions (m : cmpmode) (n : nat) (got : list obs) (sn : list (option obs)) : list nat :=
  match got, sn with
  | g :: got', s :: sn' => if obs_ok m g s then bad_positions m (S n) got' sn' else n :: bad_positions m (S n) got' sn'
  | _, _ => []
  end.
Definition details (cs : list case) : list (nat * list nat * list obs) :=
  flat_map (fun c => if case_ok c then [] else
     [(cid c, bad_positions (cmode c) O (case_result c) (seen c), case_result c)]) cs.

(* notations used by the generated literals *)
Definition z (n : Z) (d : positive) : Qc := q n d.
Definition sm (n : Z) (d : positive) : V := vq n d.
Definition nan : V := None.
