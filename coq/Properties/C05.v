(* C05 — Logical operators act pointwise on truthiness (non-zero = true) and propagate undefinedness;
   invert and make_boolean are the complementary 0/1 indicators of zero / non-zero. *)
From Coq Require Import QArith Qcanon Bool.
Require Import SC.Base.Ord SC.Base.Val SC.Base.Series SC.Model.Repr SC.Model.Ops SC.Model.Sampling.
Require Import SC.Spec.Den SC.Proofs.OpsFacts.

Theorem logic_pointwise :
  forall (D : Type) (O : Ord D) (L : logop) (a b : operand) (r : stairs D),
    owf a -> owf b -> binop_api (BLog L) a b = Ok r ->
    wf r /\ forall sd x, lim sd r x = vlog L (olim sd a x) (olim sd b x).
Proof. intros D O L. exact (binop_api_ok (BLog L)). Qed.
Print Assumptions logic_pointwise.

Theorem logic_defined_on_compatible_operands :
  forall (D : Type) (O : Ord D) (L : logop) (a b : operand (D := D)),
    compatible a b -> exists r, binop_api (BLog L) a b = Ok r.
Proof. intros D O L. exact (binop_api_total (BLog L)). Qed.
Print Assumptions logic_defined_on_compatible_operands.

Theorem logic_truth_table :
  forall (L : logop) (x y : V),
    (forall a b, x = Some a -> y = Some b ->
       vlog L x y = Some (if (match L with
                              | LAnd => negb (Qceqb a (Q2Qc 0)) && negb (Qceqb b (Q2Qc 0))
                              | LOr => negb (Qceqb a (Q2Qc 0)) || negb (Qceqb b (Q2Qc 0))
                              | LXor => xorb (negb (Qceqb a (Q2Qc 0))) (negb (Qceqb b (Q2Qc 0)))
                              end) then Q2Qc 1 else Q2Qc 0)) /\
    (vlog L x y = None <-> x = None \/ y = None).
Proof. exact vlog_table. Qed.
Print Assumptions logic_truth_table.

Theorem invert_pointwise :
  forall (D : Type) (O : Ord D) (f : stairs D), wf f ->
    wf (invert f) /\ closed (invert f) = closed f /\ minimal (invert f) /\
    forall sd x, lim sd (invert f) x =
      match lim sd f x with Some v => Some (if Qceqb v (Q2Qc 0) then Q2Qc 1 else Q2Qc 0) | None => None end.
Proof. intros D O. exact invert_spec. Qed.
Print Assumptions invert_pointwise.

Theorem make_boolean_pointwise :
  forall (D : Type) (O : Ord D) (f : stairs D), wf f ->
    wf (make_boolean f) /\ closed (make_boolean f) = closed f /\ minimal (make_boolean f) /\
    forall sd x, lim sd (make_boolean f) x =
      match lim sd f x with Some v => Some (if Qceqb v (Q2Qc 0) then Q2Qc 0 else Q2Qc 1) | None => None end.
Proof. intros D O. exact make_boolean_spec. Qed.
Print Assumptions make_boolean_pointwise.
