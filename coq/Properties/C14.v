(* C14 — Cached statistics never go stale across layer mutations. Model objects carry the two caches
   (the integral/mean pair, the ECDF from which percentiles/fractiles/hist derive); layer clears them,
   queries fill them. *)
From Coq Require Import List QArith Qcanon.
Import ListNotations.
Require Import SC.Base.Val SC.Model.Repr SC.Model.Stats SC.Model.Prog SC.Proofs.ProgFacts.

(* invariant: a filled cache always equals the value recomputed from the object's current function *)
Theorem every_statement_keeps_the_caches_valid :
  forall (w : world) (s : stmt), caches_ok w -> caches_ok (fst (exec w s)).
Proof. exact exec_preserves_caches. Qed.
Print Assumptions every_statement_keeps_the_caches_valid.

Theorem caches_valid_after_any_history :
  forall (p : list stmt), caches_ok (fst (run [] p)).
Proof. intros p. exact (reachable_caches_ok p [] caches_ok_nil). Qed.
Print Assumptions caches_valid_after_any_history.

(* hence, after any interleaving of layer calls and queries, a query gives the answer of a fresh equal function *)
Theorem answers_never_stale :
  forall (p : list stmt) (r : nat) (o : obj) (q : query),
    wget (fst (run [] p)) r = Some o ->
    snd (exec_query (fst (run [] p)) r o q) = snd (exec_query (fst (run [] p)) r (fresh (st o)) q).
Proof. exact ProgFacts.answers_never_stale. Qed.
Print Assumptions answers_never_stale.

(* queries never change the function (nor, by the theorem above, later answers) *)
Theorem queries_change_no_function :
  forall (w : world) (r : nat) (o : obj) (q : query) (k : nat),
    wget w r = Some o -> den_rel (wget w k) (wget (fst (exec_query w r o q)) k).
Proof. exact query_preserves_every_function. Qed.
Print Assumptions queries_change_no_function.
