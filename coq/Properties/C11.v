(* C11 — Slicing evaluates each statistic on the function restricted to each interval. *)
From Coq Require Import List QArith Qcanon.
Require Import SC.Base.Ord SC.Base.Val SC.Base.QcOrd SC.Model.Repr SC.Model.Masking SC.Model.Sampling SC.Model.Stats SC.Model.Slicing.
Require Import SC.Spec.Den SC.Proofs.ClipFacts SC.Proofs.RangeFacts SC.Proofs.SlicingFacts.

(* each slice is f restricted to the interval: equal to f between its end points, undefined elsewhere *)
Theorem a_slice_is_the_restriction :
  forall (f : stairsQ) (a b : Qc), wf f -> ltb a b = true ->
    exists sl, clip f (Some a) (Some b) = Ok sl /\ wf sl /\ closed sl = closed f /\
      forall sd x, lim sd sl x = if inside (strict_of sd) (Some a) (Some b) x then lim sd f x else None.
Proof. exact slice_is_restriction. Qed.
Print Assumptions a_slice_is_the_restriction.

(* mean, integral, median, mode of the slicer are those statistics of the slice (for every interval of the index,
   whatever their order or overlap: the slicer maps over the intervals) *)
Theorem slicer_statistics_are_statistics_of_the_slice :
  forall (st : sstat) (f : stairsQ) (icl : ivclosed) (a b : Qc) (sl : stairsQ),
    clip f (Some a) (Some b) = Ok sl ->
    slice_stat st f icl (a, b) =
    match st with
    | SMean => Some (snd (integral_and_mean sl))
    | SIntegral => Some (fst (integral_and_mean sl))
    | SMedian => median_of sl
    | SMode => match mode sl with Some v => Some (Some v) | None => None end
    | SMax => Some (match closed f with
                    | CLeft => if incl_right icl then vfmax (whole_max sl) (sample f b) else whole_max sl
                    | CRight => if incl_left icl then vfmax (whole_max sl) (sample f a) else whole_max sl
                    end)
    | SMin => Some (match closed f with
                    | CLeft => if incl_right icl then vfmin (whole_min sl) (sample f b) else whole_min sl
                    | CRight => if incl_left icl then vfmin (whole_min sl) (sample f a) else whole_min sl
                    end)
    end.
Proof. exact slice_stat_unfold. Qed.
Print Assumptions slicer_statistics_are_statistics_of_the_slice.

Theorem slicer_maps_over_the_intervals :
  forall (st : sstat) (f : stairsQ) (icl : ivclosed) (ivs : list (Qc * Qc)),
    slicer_stat st f icl ivs = sequence (map (slice_stat st f icl) ivs).
Proof. reflexivity. Qed.
Print Assumptions slicer_maps_over_the_intervals.

(* max / min honour the interval's own end point closedness and ignore undefined points: the greatest / least
   value f takes at a defined point of the interval (NaN when there is none) *)
Theorem slicer_max_is_the_greatest_value_on_the_interval :
  forall (f : stairsQ) (icl : ivclosed) (a b : Qc) (r : V), wf f -> ltb a b = true ->
    slice_stat SMax f icl (a, b) = Some r ->
    match r with
    | Some m => (exists x, in_window (incl_left icl) (incl_right icl) (Some a) (Some b) x /\ fn f x = Some m) /\
                forall v x, in_window (incl_left icl) (incl_right icl) (Some a) (Some b) x -> fn f x = Some v -> leb v m = true
    | None => forall v x, in_window (incl_left icl) (incl_right icl) (Some a) (Some b) x -> fn f x <> Some v
    end.
Proof.
  intros f icl a b r Wf Hab E. pose proof (slice_max_spec f icl a b r Wf Hab E) as G. unfold greatest, takes in G.
  destruct r as [m|].
  - destruct G as [G1 G2]. split; auto. intros v x Hw Hv. apply G2. eauto.
  - intros v x Hw Hv. apply (G v). eauto.
Qed.
Print Assumptions slicer_max_is_the_greatest_value_on_the_interval.

Theorem slicer_min_is_the_least_value_on_the_interval :
  forall (f : stairsQ) (icl : ivclosed) (a b : Qc) (r : V), wf f -> ltb a b = true ->
    slice_stat SMin f icl (a, b) = Some r ->
    match r with
    | Some m => (exists x, in_window (incl_left icl) (incl_right icl) (Some a) (Some b) x /\ fn f x = Some m) /\
                forall v x, in_window (incl_left icl) (incl_right icl) (Some a) (Some b) x -> fn f x = Some v -> leb m v = true
    | None => forall v x, in_window (incl_left icl) (incl_right icl) (Some a) (Some b) x -> fn f x <> Some v
    end.
Proof.
  intros f icl a b r Wf Hab E. pose proof (slice_min_spec f icl a b r Wf Hab E) as G. unfold least, takes in G.
  destruct r as [m|].
  - destruct G as [G1 G2]. split; auto. intros v x Hw Hv. apply G2. eauto.
  - intros v x Hw Hv. apply (G v). eauto.
Qed.
Print Assumptions slicer_min_is_the_least_value_on_the_interval.

(* resample on increasing non-overlapping slices: f outside the span; on each slice the constant statistic of
   that slice (undefined where the statistic is); [slice_value] picks the slice containing the point *)
Theorem resample_is_piecewise_the_statistic :
  forall (st : sstat) (f : stairsQ) (icl : ivclosed) (ivs : list (Qc * Qc)) (r : stairsQ) (lb rb : Qc) (vals : list V),
    wf f -> resample st f icl ivs = Ok r -> slicer_stat st f icl ivs = Some vals ->
    qmin_list (map fst ivs) = Some lb -> qmax_list (map snd ivs) = Some rb -> disjoint_from lb ivs ->
    wf r /\ closed r = closed f /\
    forall sd x, lim sd r x =
      if inb (strict_of sd) (lb, rb) x then slice_value (strict_of sd) (combine ivs vals) x else lim sd f x.
Proof. exact resample_spec. Qed.
Print Assumptions resample_is_piecewise_the_statistic.
