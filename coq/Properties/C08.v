(* C08 — integral, mean, var, value_sums are length-weighted over the finite pieces on which the function is defined.
   (std = numpy.sqrt(var) is an irrational-valued float operation outside the rational model: it is tied to var by the
   correspondence check only.) *)
From Coq Require Import List QArith Qcanon.
Require Import SC.Base.Ord SC.Base.Val SC.Base.Series SC.Base.QcOrd SC.Model.Repr SC.Model.Ops SC.Model.Masking SC.Model.Sampling SC.Model.Stats.
Require Import SC.Spec.Den SC.Proofs.StatsFacts SC.Proofs.VarFacts.
Open Scope Qc_scope.

(* the pieces the statistics range over really are the finite pieces of the represented function: each is non-empty and
   the function takes the listed value throughout it (right limits on [a, b), left limits on (a, b]); the two unbounded
   pieces are not among them *)
Theorem listed_pieces_are_pieces_of_the_function :
  forall (f : stairsQ) (a b : Qc) (v : V), wf f -> In (a, b, v) (fin_pieces (get_values f)) ->
    ltb a b = true /\
    (forall x, leb a x = true -> ltb x b = true -> lim LimRight f x = v) /\
    (forall x, ltb a x = true -> leb x b = true -> lim LimLeft f x = v).
Proof. exact pieces_denote. Qed.
Print Assumptions listed_pieces_are_pieces_of_the_function.

(* value_sums: sorted by value, each value mapped to the total length of the finite pieces taking it
   (pieces on which the function is undefined contribute nothing) *)
Theorem value_sums_maps_each_value_to_its_total_length :
  forall (f : stairsQ) (g : list (Qc * Qc)), value_sums f = Some g ->
    sorted g /\ forall y, total_at y g = length_with_value y (fin_pieces (get_values f)).
Proof. exact value_sums_spec. Qed.
Print Assumptions value_sums_maps_each_value_to_its_total_length.

(* integral = sum of value x length over the finite defined pieces; mean = integral / their total length *)
Theorem integral_and_mean_are_length_weighted :
  forall (f : stairsQ) (fr : frame Qc), data f = Some fr -> (2 <= length (get_values f))%nat ->
    integral_and_mean f =
    (Some (piece_integral (fin_pieces (get_values f))),
     vdiv (Some (piece_integral (fin_pieces (get_values f)))) (Some (piece_total (fin_pieces (get_values f))))).
Proof. exact integral_mean_spec. Qed.
Print Assumptions integral_and_mean_are_length_weighted.

(* var: whenever the function has a finite piece on which it is defined (the value distribution exists), the total
   length is positive, the mean is integral / total length, and var - computed by the code as the integral over
   [0, 100] of (percentile function - mean)^2 divided by 100 - is the length-weighted mean squared deviation *)
Theorem var_is_the_weighted_mean_squared_deviation :
  forall (f ec : stairsQ), wf f -> ecdf_of f = Some ec ->
    let pcs := fin_pieces (get_values f) in
    let mu := piece_integral pcs / piece_total pcs in
    0 < piece_total pcs /\
    integral_and_mean f = (Some (piece_integral pcs), Some mu) /\
    var_of ec (snd (integral_and_mean f)) = Some (piece_sqdev mu pcs / piece_total pcs).
Proof. exact var_about_the_mean. Qed.
Print Assumptions var_is_the_weighted_mean_squared_deviation.

(* ... and about any centre m (the code passes the mean) *)
Theorem var_about_any_centre :
  forall (f ec : stairsQ) (m : Qc), wf f -> ecdf_of f = Some ec ->
    0 < piece_total (fin_pieces (get_values f)) /\
    var_of ec (Some m) = Some (piece_sqdev m (fin_pieces (get_values f)) / piece_total (fin_pieces (get_values f))).
Proof. exact var_spec. Qed.
Print Assumptions var_about_any_centre.
