(* C18 — Collection aggregations are pointwise over the members (aggregation part; the element-wise
   StairsArray operators, tables and matrices are list comprehensions over the Stairs methods of C01-C05, C19
   and are not modelled). *)
From Coq Require Import List QArith Qcanon.
Import ListNotations.
Require Import SC.Base.Val SC.Base.QcOrd SC.Model.Repr SC.Model.Sampling SC.Model.Stats SC.Model.Slicing.
Require Import SC.Spec.Den SC.Proofs.AggFacts.

(* sum, mean, median, min, max, logical_or, logical_and: the value at each point is that aggregate of the
   members' values there, undefined where any member is undefined ([reduce] propagates None); the result is
   well-formed, minimal, and takes the side of the members that have steps (the first member's when none has) *)
Theorem aggregation_is_pointwise :
  forall (g : aggf) (ms : list stairsQ) (r : stairsQ),
    (forall m, In m ms -> wf m) -> array_agg g ms = Ok r ->
    wf r /\ minimal r /\ closed r = agg_side ms /\
    forall sd x, lim sd r x = reduce g (map (fun m => lim sd m x) ms).
Proof. exact array_agg_spec. Qed.
Print Assumptions aggregation_is_pointwise.

Theorem reduce_propagates_undefinedness :
  forall (g : aggf) (col : list V), In None col -> reduce g col = None.
Proof.
  intros g col Hin. unfold reduce.
  assert (E : existsb is_nan col = true) by (apply existsb_exists; exists None; auto). rewrite E. reflexivity.
Qed.
Print Assumptions reduce_propagates_undefinedness.

Theorem sum_is_folding_plus :
  forall (col : list V), col <> [] -> reduce GSum col = fold_right vadd (Some (Q2Qc 0)) col.
Proof. exact reduce_sum_is_fold. Qed.
Print Assumptions sum_is_folding_plus.

Theorem aggregation_rejects_exactly_mixed_sides :
  forall (g : aggf) (ms : list stairsQ),
    array_agg g ms = Err EClosedMismatch <->
    exists w0 ws, filter has_steps ms = w0 :: ws /\ exists w, In w (w0 :: ws) /\ closed w <> closed w0.
Proof. exact array_agg_mismatch_iff. Qed.
Print Assumptions aggregation_rejects_exactly_mixed_sides.
