(* C18 — Collection aggregations are pointwise over the members; the element-wise StairsArray operators, the
   sample / limit tables and the cov / corr matrices (Model/Arrays.v) are, entry by entry, the Stairs methods of
   C01-C05, C12, C19 applied to the members. *)
From Coq Require Import List QArith Qcanon.
Import ListNotations.
Require Import SC.Base.Val SC.Base.QcOrd SC.Model.Repr SC.Model.Sampling SC.Model.Stats SC.Model.Slicing.
Require Import SC.Spec.Den SC.Proofs.AggFacts.

(* sum, mean, median, min, max, logical_or, logical_and: the value at each point is that aggregate of the
   members' values there, undefined where any member is undefined ([reduce] propagates None); the result is
   well-formed, minimal, and takes the side of the members that have steps (the first member's when none has) *)
Theorem aggregation_is_pointwise :
  forall (g : aggf) (ms : list stairsQ) (r : stairsQ),
    (forall m, In m ms -> wf m) -> array_agg g ms = Ok r ->
    wf r /\ minimal r /\ closed r = agg_side ms /\
    forall sd x, lim sd r x = reduce g (map (fun m => lim sd m x) ms).
Proof. exact array_agg_spec. Qed.
Print Assumptions aggregation_is_pointwise.

Theorem reduce_propagates_undefinedness :
  forall (g : aggf) (col : list V), In None col -> reduce g col = None.
Proof.
  intros g col Hin. unfold reduce.
  assert (E : existsb is_nan col = true) by (apply existsb_exists; exists None; auto). rewrite E. reflexivity.
Qed.
Print Assumptions reduce_propagates_undefinedness.

Theorem sum_is_folding_plus :
  forall (col : list V), col <> [] -> reduce GSum col = fold_right vadd (Some (Q2Qc 0)) col.
Proof. exact reduce_sum_is_fold. Qed.
Print Assumptions sum_is_folding_plus.

Theorem aggregation_rejects_exactly_mixed_sides :
  forall (g : aggf) (ms : list stairsQ),
    array_agg g ms = Err EClosedMismatch <->
    exists w0 ws, filter has_steps ms = w0 :: ws /\ exists w, In w (w0 :: ws) /\ closed w <> closed w0.
Proof. exact array_agg_mismatch_iff. Qed.
Print Assumptions aggregation_rejects_exactly_mixed_sides.

(* ---- element-wise operators, tables, matrices (Model/Arrays.v) *)
Require Import SC.Model.Ops SC.Model.Arrays SC.Proofs.ArrayFacts.

(* StairsArray <op> StairsArray: same length, and member i of the result is the Stairs operator applied to the i-th
   members (the r-forms with the operands swapped: [member_op]); a different length is refused *)
Theorem array_operator_is_the_stairs_operator_pair_by_pair :
  forall (o : binop) (reflected : bool) (xs ys rs : list stairsQ),
    arr_binop o reflected xs (AoArray ys) = Ok rs ->
    length ys = length xs /\ length rs = length xs /\
    forall i x y, nth_error xs i = Some x -> nth_error ys i = Some y ->
      exists r, nth_error rs i = Some r /\ member_op o reflected x (OpS y) = Ok r.
Proof. exact arr_binop_array. Qed.
Print Assumptions array_operator_is_the_stairs_operator_pair_by_pair.

Theorem array_operator_fails_only_where_a_member_operator_fails :
  forall (o : binop) (reflected : bool) (xs ys : list stairsQ) e,
    length ys = length xs -> arr_binop o reflected xs (AoArray ys) = Err e ->
    exists i x y, nth_error xs i = Some x /\ nth_error ys i = Some y /\ member_op o reflected x (OpS y) = Err e.
Proof. exact arr_binop_array_error. Qed.
Print Assumptions array_operator_fails_only_where_a_member_operator_fails.

Theorem array_operator_against_a_broadcast_scalar :
  forall (o : binop) (reflected : bool) (xs : list stairsQ) (c : V) (rs : list stairsQ),
    arr_binop o reflected xs (AoScalar c) = Ok rs ->
    length rs = length xs /\
    forall i x, nth_error xs i = Some x -> exists r, nth_error rs i = Some r /\ member_op o reflected x (OpC c) = Ok r.
Proof. exact arr_binop_scalar. Qed.
Print Assumptions array_operator_against_a_broadcast_scalar.

Theorem array_operator_against_a_broadcast_stairs :
  forall (o : binop) (reflected : bool) (xs : list stairsQ) (g : stairsQ) (rs : list stairsQ),
    arr_binop o reflected xs (AoStairs g) = Ok rs ->
    length rs = length xs /\
    forall i x, nth_error xs i = Some x -> exists r, nth_error rs i = Some r /\ member_op o reflected x (OpS g) = Ok r.
Proof. exact arr_binop_stairs. Qed.
Print Assumptions array_operator_against_a_broadcast_stairs.

(* sample / limit tables: row i, column j is member i sampled at point j *)
Theorem sample_table_agrees_with_per_member_calls :
  forall (xs : list stairsQ) (pts : list Qc) i j x p,
    nth_error xs i = Some x -> nth_error pts j = Some p -> entry (arr_sample xs pts) i j = Some (sample x p).
Proof. exact arr_sample_entry. Qed.
Print Assumptions sample_table_agrees_with_per_member_calls.

Theorem limit_table_agrees_with_per_member_calls :
  forall (xs : list stairsQ) sd (pts : list Qc) i j x p,
    nth_error xs i = Some x -> nth_error pts j = Some p -> entry (arr_limit xs sd pts) i j = Some (limit x sd p).
Proof. exact arr_limit_entry. Qed.
Print Assumptions limit_table_agrees_with_per_member_calls.

(* cov / corr matrices: n x n, symmetric, entries the pairwise Stairs results *)
Theorem matrices_are_square_and_symmetric :
  forall diag_ones meth (ms : list stairsQ) M,
    matrix diag_ones meth ms = Ok M ->
    (length M = length ms /\ forall row, In row M -> length row = length ms) /\
    forall i j, (i < length ms)%nat -> (j < length ms)%nat -> entry M i j = entry M j i.
Proof.
  intros d meth ms M H. split; [exact (matrix_shape d meth ms M H)|].
  intros i j Hi Hj. exact (matrix_symmetric d meth ms M i j H Hi Hj).
Qed.
Print Assumptions matrices_are_square_and_symmetric.

Theorem cov_matrix_entries_are_the_pairwise_cov :
  forall (ms : list stairsQ) lo hi M i j mi mj (v : V),
    (forall m, In m ms -> wf m /\ minimal m) ->
    arr_cov ms lo hi = Ok M -> nth_error ms i = Some mi -> nth_error ms j = Some mj ->
    cov mi mj lo hi 0%Qc ClipPre = Ok v -> entry M i j = Some v.
Proof. exact cov_matrix_entries. Qed.
Print Assumptions cov_matrix_entries_are_the_pairwise_cov.

Theorem corr_matrix_entries_are_the_pairwise_corr :
  forall (ms : list stairsQ) lo hi M i j mi mj (v : V),
    (forall m, In m ms -> wf m /\ minimal m) -> i <> j ->
    arr_corr ms lo hi = Ok M -> nth_error ms i = Some mi -> nth_error ms j = Some mj ->
    corr_signed_square mi mj lo hi 0%Qc ClipPre = Ok v -> entry M i j = Some v.
Proof. exact corr_matrix_off_diagonal. Qed.
Print Assumptions corr_matrix_entries_are_the_pairwise_corr.

(* the diagonal of corr: one, unless the member's correlation with itself is undefined (constant on the window) *)
Theorem corr_matrix_diagonal_is_one_or_undefined :
  forall (ms : list stairsQ) lo hi M i mi (v : V),
    arr_corr ms lo hi = Ok M -> nth_error ms i = Some mi ->
    corr_signed_square mi mi lo hi 0%Qc ClipPre = Ok v ->
    entry M i i = Some (match v with Some _ => Some 1%Qc | None => None end).
Proof. exact corr_matrix_diagonal. Qed.
Print Assumptions corr_matrix_diagonal_is_one_or_undefined.

(* ... and over a finite window that is the pairwise result as well: corr(m, m), where defined, is one (C19) *)
Require Import SC.Proofs.CorrSelfFacts.

Theorem corr_matrix_diagonal_is_the_self_correlation :
  forall (ms : list stairsQ) (a b : Qc) M i mi (v : V),
    (forall m, In m ms -> wf m /\ minimal m) ->
    arr_corr ms (Some a) (Some b) = Ok M -> nth_error ms i = Some mi ->
    corr_signed_square mi mi (Some a) (Some b) 0%Qc ClipPre = Ok v -> entry M i i = Some v.
Proof. exact corr_matrix_diagonal_is_pairwise. Qed.
Print Assumptions corr_matrix_diagonal_is_the_self_correlation.
