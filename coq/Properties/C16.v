(* C16 — Results depend only on the functions denoted (and their closed side), not on the internal
   representation of the operands. [deq f f']: same closed side and same one-sided limits everywhere.
   The hypotheses wf / minimal hold for every object reachable through the public API (C12). *)
From Coq Require Import List QArith Qcanon.
Require Import SC.Base.Ord SC.Base.Val SC.Base.Series SC.Model.Repr SC.Model.Ops SC.Model.Masking SC.Model.Sampling.
Require Import SC.Spec.Den SC.Proofs.OpsFacts SC.Proofs.ClosedFacts.

Theorem binary_operators_respect_denotation :
  forall (D : Type) (O : Ord D) (x0 : D) (o : binop) (f f' g g' : stairs D),
    wf f -> wf f' -> wf g -> wf g' -> minimal f -> minimal f' -> minimal g -> minimal g' ->
    deq f f' -> deq g g' ->
    deq (apply_binop o f g) (apply_binop o f' g') /\ closed_ok f g = closed_ok f' g'.
Proof. intros D O. exact binop_respects_deq. Qed.
Print Assumptions binary_operators_respect_denotation.

Theorem one_operand_operations_respect_denotation :
  forall (D : Type) (O : Ord D) (f f' : stairs D), wf f -> wf f' -> deq f f' ->
    deq (negate f) (negate f') /\ deq (invert f) (invert f') /\ deq (make_boolean f) (make_boolean f') /\
    deq (isna f) (isna f') /\ deq (notna f) (notna f') /\
    (forall c, deq (fillna_scalar f c) (fillna_scalar f' c)) /\
    (forall a, deq (layer f a) (layer f' a)) /\
    (forall lo hi r r', clip f lo hi = Ok r -> clip f' lo hi = Ok r' -> deq r r').
Proof. intros D O. exact unary_respects_deq. Qed.
Print Assumptions one_operand_operations_respect_denotation.

(* which internal forms are materialised does not matter: with_values / with_deltas (the effect of reading
   step_values / step_changes) leave the denotation and well-formedness unchanged *)
Theorem materialisation_is_invisible :
  forall (D : Type) (O : Ord D) (f : stairs D), wf f -> minimal f ->
    (wf (with_values f) /\ deq (with_values f) f) /\ (wf (with_deltas f) /\ deq (with_deltas f) f).
Proof. intros D O. exact materialise_invisible. Qed.
Print Assumptions materialisation_is_invisible.
