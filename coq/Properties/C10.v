(* C10 — min / max / values_in_range over a window respect endpoint closedness exactly.
   [in_window il ir lo hi x]: x lies in the window whose left / right end point is included iff il / ir
   (a missing bound is unbounded); [get_lims c il ir] is the 4 x 2 table of bisect sides of the code;
   [fn f x] is the value of f at x under f's own closed convention. *)
From Coq Require Import List QArith Qcanon.
Require Import SC.Base.Ord SC.Base.Val SC.Base.QcOrd SC.Model.Repr SC.Model.Sampling SC.Model.Stats.
Require Import SC.Spec.Den SC.Proofs.RangeFacts.

Theorem values_in_range_is_exactly_the_value_set :
  forall (f : stairsQ) (il ir : bool) (lo hi : option Qc) (v : Qc),
    wf f -> window_nonempty lo hi ->
    (In v (values_in_range f lo hi (get_lims (closed f) il ir)) <->
     exists x, in_window il ir lo hi x /\ fn f x = Some v).
Proof.
  intros f il ir lo hi v Wf Hne. split.
  - apply vir_values_are_taken; auto.
  - intros (x & Hw & Hv). eapply vir_reports_every_value; eauto.
Qed.
Print Assumptions values_in_range_is_exactly_the_value_set.

Theorem window_membership :
  forall (il ir : bool) (lo hi : option Qc) (x : Qc),
    in_window il ir lo hi x <->
    (match lo with None => True | Some a => if il then leb a x = true else ltb a x = true end) /\
    (match hi with None => True | Some b => if ir then leb x b = true else ltb x b = true end).
Proof.
  intros il ir lo hi x. unfold in_window, lo_ok, hi_ok.
  destruct lo, hi, il, ir; simpl; tauto.
Qed.
Print Assumptions window_membership.

Theorem values_in_range_is_sorted_without_duplicates :
  forall (f : stairsQ) (lo hi : option Qc) (hows : bool * bool), ksorted (values_in_range f lo hi hows).
Proof. exact vir_sorted_unique. Qed.
Print Assumptions values_in_range_is_sorted_without_duplicates.

(* min / max / agg('min'/'max', where, closed): the least / greatest element of that set; NaN when it is empty *)
Theorem min_is_the_least_value :
  forall (l : list Qc), ksorted l ->
    match vmin l with Some m => In m l /\ (forall v, In v l -> leb m v = true) | None => l = nil end.
Proof. exact vmin_spec. Qed.
Print Assumptions min_is_the_least_value.

Theorem max_is_the_greatest_value :
  forall (l : list Qc), ksorted l ->
    match vmax l with Some m => In m l /\ (forall v, In v l -> leb v m = true) | None => l = nil end.
Proof. exact last_opt_spec. Qed.
Print Assumptions max_is_the_greatest_value.
