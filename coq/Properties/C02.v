(* C02 — Layering builds initial value + sum of the layered intervals. *)
From Coq Require Import List QArith Qcanon Permutation.
Import ListNotations.
Require Import SC.Base.Ord SC.Base.Val SC.Base.Series SC.Model.Repr SC.Model.Ops SC.Model.Masking SC.Model.Sampling.
Require Import SC.Spec.Den SC.Proofs.LayerFacts.

(* contrib s (start, end, value) x = (value if start is at or before x) - (value if end is at or before x),
   a missing start meaning -infinity and a missing end +infinity; "at or before" is <= for the right limit
   (s = false) and < for the left limit (s = true). One call, scalar or vector form: *)
Theorem layer_adds_its_triples :
  forall (D : Type) (O : Ord D) (f : stairs D) (a : layer_args), wf f ->
    wf (layer f a) /\ closed (layer f a) = closed f /\
    forall sd x, lim sd (layer f a) x =
      match lim sd f x with None => None | Some y => Some (y + contribs (strict_of sd) a x)%Qc end.
Proof. intros D O. exact layer_spec. Qed.
Print Assumptions layer_adds_its_triples.

Theorem contrib_meaning :
  forall (D : Type) (O : Ord D) (s : bool) (st en : option D) (v : Qc) (x : D),
    contrib s (st, en, v) x =
    ((match st with None => v | Some a => if before s a x then v else Q2Qc 0 end) -
     (match en with None => Q2Qc 0 | Some b => if before s b x then v else Q2Qc 0 end))%Qc.
Proof. reflexivity. Qed.
Print Assumptions contrib_meaning.

(* any finite history of layer calls *)
Theorem layer_history :
  forall (D : Type) (O : Ord D) (calls : list layer_args) (f : stairs D), wf f ->
    let r := fold_left layer calls f in
    wf r /\ closed r = closed f /\
    forall sd x, lim sd r x =
      match lim sd f x with
      | None => None
      | Some y => Some (y + fold_right (fun a acc => contribs (strict_of sd) a x + acc) (Q2Qc 0) calls)%Qc
      end.
Proof. intros D O. exact LayerFacts.layer_history. Qed.
Print Assumptions layer_history.

Theorem layer_order_irrelevant :
  forall (D : Type) (O : Ord D) (calls calls' : list layer_args) (f : stairs D),
    wf f -> Permutation calls calls' -> deq (fold_left layer calls f) (fold_left layer calls' f).
Proof. intros D O. exact LayerFacts.layer_order_irrelevant. Qed.
Print Assumptions layer_order_irrelevant.

Theorem scalar_and_vector_forms_agree :
  forall (D : Type) (O : Ord D) (f : stairs D) (st en : option D) (v : Qc), wf f ->
    deq (layer f (LScalar st en v)) (layer f (LVector [(st, en, v)])).
Proof. intros D O. exact LayerFacts.scalar_vs_vector. Qed.
Print Assumptions scalar_and_vector_forms_agree.
