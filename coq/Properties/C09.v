(* C09 — ecdf, percentiles, median, mode, hist follow the length-weighted value distribution over the finite pieces on
   which the function is defined. *)
From Coq Require Import List QArith Qcanon.
Require Import SC.Base.Ord SC.Base.Val SC.Base.Series SC.Base.QcOrd SC.Model.Repr SC.Model.Ops SC.Model.Masking
               SC.Model.Sampling SC.Model.Stats SC.Model.Slicing.
Require Import SC.Spec.Den SC.Proofs.StatsFacts SC.Proofs.VarFacts SC.Proofs.DistFacts.
Open Scope Qc_scope.

(* ecdf(y) - the right limit, which is what sampling the left-closed ecdf returns - is the fraction of length on which
   f <= y; its left limit is the fraction on which f < y *)
Theorem ecdf_is_the_fraction_of_length_at_or_below :
  forall (f ec : stairsQ) (sd : lside) (y : Qc), wf f -> ecdf_of f = Some ec ->
    limit ec sd y =
    Some (length_where (fun v => before (strict_of sd) v y) (fin_pieces (get_values f)) / piece_total (fin_pieces (get_values f))).
Proof. exact ecdf_spec. Qed.
Print Assumptions ecdf_is_the_fraction_of_length_at_or_below.

(* hist: for each bin, with the requested closed side, 'probability' is the ecdf difference over the bin and 'sum' the
   corresponding length ... *)
Theorem hist_probability_and_sum :
  forall (f ec : stairsQ) (bins : list (Qc * Qc)) (cl : side), wf f -> ecdf_of f = Some ec ->
    let pcs := fin_pieces (get_values f) in
    let L := fun y => length_where (fun v => before (strict_of (bin_side cl)) v y) pcs in
    hist ec (value_total f) bins cl HProbability = map (fun b => Some (L (snd b) / piece_total pcs - L (fst b) / piece_total pcs)) bins /\
    hist ec (value_total f) bins cl HSum = map (fun b => Some (L (snd b) - L (fst b))) bins.
Proof. exact hist_spec. Qed.
Print Assumptions hist_probability_and_sum.

(* ... which is the total length of the values falling in the bin: [a, b) for left-closed bins, (a, b] for right-closed *)
Theorem bin_difference_is_the_length_of_values_in_the_bin :
  forall (sd : lside) (a b : Qc) (pcs : list (Qc * Qc * V)), leb a b = true ->
    length_where (fun v => before (strict_of sd) v b) pcs - length_where (fun v => before (strict_of sd) v a) pcs
    = length_where (fun v => before (strict_of sd) v b && negb (before (strict_of sd) v a)) pcs.
Proof. exact bin_length. Qed.
Print Assumptions bin_difference_is_the_length_of_values_in_the_bin.

(* mode: a value of maximal total length *)
Theorem mode_is_a_value_of_maximal_total_length :
  forall (f : stairsQ) (v : Qc), mode f = Some v ->
    exists g sv, value_sums f = Some g /\ In (v, sv) g /\ forall k s, In (k, s) g -> s <= sv.
Proof. exact mode_spec. Qed.
Print Assumptions mode_is_a_value_of_maximal_total_length.

(* percentile(p) is the midpoint of the lower and upper p-quantiles (qtl ... true / false); the minimum at 0, the
   maximum at 100 *)
Theorem percentile_is_the_midpoint_of_the_lower_and_upper_quantiles :
  forall (f ec : stairsQ), wf f -> ecdf_of f = Some ec ->
    let G := group_sum (defined_pieces f) in
    let T := piece_total (fin_pieces (get_values f)) in
    exists k1 kl, hd_error (map fst G) = Some k1 /\ last_opt (map fst G) = Some kl /\
      (forall x, ltb 0 x = true ->
         xtile_sample (percentiles_of ec) x = Some ((qtl T true 0 G x kl + qtl T false 0 G x kl) / q_of_Z 2)) /\
      xtile_sample (percentiles_of ec) 0 = Some k1 /\
      xtile_sample (percentiles_of ec) (q_of_Z 100) = Some kl.
Proof. exact percentile_spec. Qed.
Print Assumptions percentile_is_the_midpoint_of_the_lower_and_upper_quantiles.

(* what qtl is: the least value whose ecdf (times 100) is >= x (lower, strict = true) resp. > x (upper, strict = false);
   the greatest value when there is none; F is the ecdf (next theorem) *)
Theorem quantiles_are_least_values_reaching_the_share :
  forall (f ec : stairsQ) (strict : bool) (x kl : Qc), wf f -> ecdf_of f = Some ec ->
    let G := group_sum (defined_pieces f) in
    let T := piece_total (fin_pieces (get_values f)) in
    let F := fun k => cum_before T false 0 G k in
    let q := qtl T strict 0 G x kl in
    (q = kl /\ forall k s, In (k, s) G -> before strict (F k * q_of_Z 100) x = true)
    \/
    (exists s, In (q, s) G /\ before strict (F q * q_of_Z 100) x = false /\
       forall k s', In (k, s') G -> ltb k q = true -> before strict (F k * q_of_Z 100) x = true).
Proof. exact quantile_characterisation. Qed.
Print Assumptions quantiles_are_least_values_reaching_the_share.

Theorem the_cumulative_share_is_the_ecdf :
  forall (f ec : stairsQ) (k : Qc), wf f -> ecdf_of f = Some ec ->
    limit ec LimRight k = Some (cum_before (piece_total (fin_pieces (get_values f))) false 0 (group_sum (defined_pieces f)) k).
Proof. exact ecdf_is_cum_share. Qed.
Print Assumptions the_cumulative_share_is_the_ecdf.

(* fractile(p) = percentile(100 p); median = percentile(50) by definition of the model's median query *)
Theorem fractile_is_percentile_of_100p :
  forall (f ec : stairsQ) (p : Qc), wf f -> ecdf_of f = Some ec ->
    xtile_sample (fractiles_of ec) p = xtile_sample (percentiles_of ec) (p * q_of_Z 100).
Proof. exact fractile_is_percentile. Qed.
Print Assumptions fractile_is_percentile_of_100p.

Theorem median_is_percentile_50 :
  forall (f : stairsQ), median_of f = match ecdf_of f with Some ec => Some (xtile_sample (percentiles_of ec) (q_of_Z 50)) | None => None end.
Proof. reflexivity. Qed.
Print Assumptions median_is_percentile_50.

(* ---- the other normalisations of hist, and describe (Proofs/DescribeFacts.v) *)
Require Import SC.Model.Slicing SC.Proofs.DescribeFacts.
Import ListNotations.

(* 'frequency' is the bin's sum divided by its width; 'density' the sum divided by the total area sum_i sum_i * width_i *)
Theorem hist_frequency_is_sum_over_width :
  forall (ec : stairsQ) (total : Qc) (bins : list (Qc * Qc)) (cl : side),
    hist ec total bins cl HSum = map (bin_sum ec total cl) bins /\
    hist ec total bins cl HFrequency = map (fun b => vdiv (bin_sum ec total cl b) (Some (snd b - fst b))) bins.
Proof. intros. split; [apply hist_sum_bins|apply hist_frequency]. Qed.
Print Assumptions hist_frequency_is_sum_over_width.

Theorem hist_density_is_sum_over_area :
  forall (ec : stairsQ) (total : Qc) (bins : list (Qc * Qc)) (cl : side),
    hist ec total bins cl HDensity = map (fun b => vdiv (bin_sum ec total cl b) (hist_area ec total cl bins)) bins.
Proof. exact hist_density. Qed.
Print Assumptions hist_density_is_sum_over_area.

(* ... so densities x_i / d with d = sum_i x_i w_i <> 0 integrate to one over the bins *)
Theorem densities_integrate_to_one :
  forall (xs ws : list Qc) (d : Qc),
    length xs = length ws -> d = qsum (map (fun xw => fst xw * snd xw) (combine xs ws)) -> d <> 0 ->
    qsum (map (fun xw => fst xw / d * snd xw) (combine xs ws)) = 1.
Proof. exact density_integrates_to_one. Qed.
Print Assumptions densities_integrate_to_one.

(* describe(where, percentiles): the statistics of the function restricted to the window, in the order the code reports them *)
Theorem describe_is_the_statistics_of_the_restriction :
  forall (f : stairsQ) lo hi (ps : list Qc) (l : list V),
    describe f lo hi ps = Ok l ->
    exists c ec pcc,
      clip f lo hi = Ok c /\ ecdf_of c = Some ec /\ clip (percentiles_of ec) (Some 0) (Some (q_of_Z 100)) = Ok pcc /\
      l = [Some (q_of_Z (Z.of_nat (number_of_steps pcc) - 1)); snd (integral_and_mean c); var_of ec (snd (integral_and_mean c)); whole_min c]
          ++ map (xtile_sample (percentiles_of ec)) ps ++ [whole_max c].
Proof. exact describe_reports_the_statistics_of_the_restriction. Qed.
Print Assumptions describe_is_the_statistics_of_the_restriction.

(* describe's 'unique' row: the number of distinct values the restricted function takes on its finite defined pieces
   (Proofs/UniqueFacts.v: the percentile table of strictly increasing values has no redundant row, and clipping it to
   [0, 100] closes it with one undefined row) *)
Require Import SC.Proofs.UniqueFacts.

Theorem the_percentile_function_has_one_step_per_distinct_value_and_a_closing_one :
  forall (c ec pcc : stairsQ) (g : list (Qc * Qc)), wf c ->
    value_sums c = Some g -> ecdf_of c = Some ec ->
    clip (percentiles_of ec) (Some 0) (Some (q_of_Z 100)) = Ok pcc ->
    number_of_steps pcc = S (length g).
Proof. exact unique_counts_distinct_values. Qed.
Print Assumptions the_percentile_function_has_one_step_per_distinct_value_and_a_closing_one.

Theorem describe_unique_is_the_number_of_distinct_values :
  forall (f c : stairsQ) lo hi (ps : list Qc) (l : list V) (g : list (Qc * Qc)), wf f ->
    describe f lo hi ps = Ok l -> clip f lo hi = Ok c -> value_sums c = Some g ->
    hd_error l = Some (Some (q_of_Z (Z.of_nat (length g)))).
Proof. exact describe_unique. Qed.
Print Assumptions describe_unique_is_the_number_of_distinct_values.
