(* C07 — fillna only ever changes undefined points, and fills them as specified. *)
From Coq Require Import List QArith Qcanon.
Require Import SC.Base.Ord SC.Base.Val SC.Base.Series SC.Model.Repr SC.Model.Ops SC.Model.Masking SC.Model.Sampling.
Require Import SC.Spec.Den SC.Proofs.OpsFacts SC.Proofs.MaskFacts.

Theorem fillna_scalar_pointwise :
  forall (D : Type) (O : Ord D) (f : stairs D) (c : V), wf f ->
    wf (fillna_scalar f c) /\ closed (fillna_scalar f c) = closed f /\ minimal (fillna_scalar f c) /\
    forall sd x, lim sd (fillna_scalar f c) x = match lim sd f x with Some v => Some v | None => c end.
Proof.
  intros D O f c Wf. destruct (fillna_scalar_spec f c Wf) as [(H1 & H2 & H3) H4].
  repeat split; auto. intros sd x. rewrite H3. destruct (lim sd f x); reflexivity.
Qed.
Print Assumptions fillna_scalar_pointwise.

(* fillna by a step function g: g(x) where f is undefined (undefined only where g is undefined too) *)
Theorem fillna_function_pointwise :
  forall (D : Type) (O : Ord D) (f g r : stairs D),
    wf f -> wf g -> fillna_stairs f g = Ok r ->
    wf r /\ closed r = result_side f g /\
    forall sd x, lim sd r x = match lim sd f x with Some v => Some v | None => lim sd g x end.
Proof.
  intros D O f g r Wf Wg E. destruct (fillna_stairs_spec f g r Wf Wg E) as (H1 & H2 & H3).
  split; [exact H1|split; [exact H2|]]. intros sd x. rewrite H3. destruct (lim sd f x); reflexivity.
Qed.
Print Assumptions fillna_function_pointwise.

(* 'ffill' / 'pad': a defined point keeps its value; an undefined point takes the last defined value among the
   pieces up to it (last_defined), undefined when there is none *)
Theorem ffill_fills_from_the_left :
  forall (D : Type) (O : Ord D) (f : stairs D), wf f ->
    let r := fillna_method FFill f in
    wf r /\ closed r = closed f /\ minimal r /\
    (forall sd x, lim sd r x = last_defined (strict_of sd) (init f) (get_values f) x) /\
    (forall sd x w, lim sd f x = Some w -> lim sd r x = Some w).
Proof. intros D O. exact ffill_spec. Qed.
Print Assumptions ffill_fills_from_the_left.

(* 'bfill' / 'backfill': a defined point keeps its value; an undefined point takes the next defined value *)
Theorem bfill_fills_from_the_right :
  forall (D : Type) (O : Ord D) (f : stairs D), wf f ->
    let r := fillna_method BFill f in
    wf r /\ closed r = closed f /\ minimal r /\
    (forall sd x, lim sd r x = lookup_next (strict_of sd) (vfill (init f) (next_defined (get_values f))) (get_values f) x) /\
    (forall sd x w, lim sd f x = Some w -> lim sd r x = Some w).
Proof. intros D O. exact bfill_spec. Qed.
Print Assumptions bfill_fills_from_the_right.
