(* C06 — clip / mask / where restrict the domain exactly; isna / notna report it. *)
From Coq Require Import List QArith Qcanon.
Require Import SC.Base.Ord SC.Base.Val SC.Base.Series SC.Model.Repr SC.Model.Ops SC.Model.Masking SC.Model.Sampling.
Require Import SC.Spec.Den SC.Proofs.OpsFacts SC.Proofs.MaskFacts SC.Proofs.ClipFacts SC.Proofs.LayerFacts.

(* f.clip(a, b): f between a and b, undefined elsewhere; a missing bound leaves that side unrestricted.
   [inside s lo hi x]: lo <= x < hi for the right limit (s = false), lo < x <= hi for the left limit *)
Theorem clip_restricts_exactly :
  forall (D : Type) (O : Ord D) (f r : stairs D) (lo hi : option D),
    wf f -> clip f lo hi = Ok r ->
    wf r /\ closed r = closed f /\
    forall sd x, lim sd r x = if inside (strict_of sd) lo hi x then lim sd f x else None.
Proof. intros D O. exact clip_spec. Qed.
Print Assumptions clip_restricts_exactly.

Theorem clip_rejects_only_reversed_bounds :
  forall (D : Type) (O : Ord D) (f : stairs D) (lo hi : option D) (e : err),
    clip f lo hi = Err e -> e = EValue /\ exists a b, lo = Some a /\ hi = Some b /\ ltb a b = false.
Proof. intros D O. exact clip_error. Qed.
Print Assumptions clip_rejects_only_reversed_bounds.

(* f.mask(g) = f where g is defined and zero; f.where(g) = f where g is defined and non-zero *)
Theorem mask_where_pointwise :
  forall (D : Type) (O : Ord D) (inverse : bool) (f g r : stairs D),
    wf f -> wf g -> mask_stairs inverse f g = Ok r ->
    wf r /\ closed r = result_side f g /\
    forall sd x, lim sd r x =
      match lim sd g x with
      | Some y => if xorb inverse (Qceqb y (Q2Qc 0)) then lim sd f x else None
      | None => None
      end.
Proof.
  intros D O inverse f g r Wf Wg E. destruct (mask_stairs_spec inverse f g r Wf Wg E) as (H1 & H2 & H3).
  split; [exact H1|split; [exact H2|]]. intros sd x. rewrite H3.
  unfold vmaskw, vmask, vwhere. destruct inverse, (lim sd g x) as [y|]; simpl; auto; destruct (Qceqb y 0); reflexivity.
Qed.
Print Assumptions mask_where_pointwise.

(* where((a, b)) is clip(a, b) by definition; mask((a, b)) masks by the indicator of [a, b) *)
Theorem where_tuple_is_clip :
  forall (D : Type) (O : Ord D) (f : stairs D) (lo hi : option D), where_tuple f lo hi = clip f lo hi.
Proof. reflexivity. Qed.
Print Assumptions where_tuple_is_clip.

(* mask((a, b)): undefined where the indicator of [a, b) (built by layering value 1) is non-zero *)
Theorem mask_tuple_masks_the_interval :
  forall (D : Type) (O : Ord D) (f r : stairs D) (lo hi : option D), wf f -> mask_tuple f lo hi = Ok r ->
    wf r /\ forall sd x, lim sd r x =
      if Qceqb (contrib (strict_of sd) (lo, hi, Q2Qc 1) x) (Q2Qc 0) then lim sd f x else None.
Proof. intros D O. exact mask_tuple_spec. Qed.
Print Assumptions mask_tuple_masks_the_interval.

Theorem isna_notna_indicators :
  forall (D : Type) (O : Ord D) (f : stairs D), wf f ->
    (wf (isna f) /\ closed (isna f) = closed f /\ minimal (isna f) /\
     forall sd x, lim sd (isna f) x = Some (match lim sd f x with None => Q2Qc 1 | Some _ => Q2Qc 0 end)) /\
    (wf (notna f) /\ closed (notna f) = closed f /\ minimal (notna f) /\
     forall sd x, lim sd (notna f) x = Some (match lim sd f x with None => Q2Qc 0 | Some _ => Q2Qc 1 end)).
Proof.
  intros D O f Wf. split.
  - destruct (null_comparison_spec visna f Wf) as [(H1 & H2 & H3) H4]. fold (isna f) in *.
    repeat split; auto. intros sd x. rewrite H3. destruct (lim sd f x); reflexivity.
  - destruct (null_comparison_spec vnotna f Wf) as [(H1 & H2 & H3) H4]. fold (notna f) in *.
    repeat split; auto. intros sd x. rewrite H3. destruct (lim sd f x); reflexivity.
Qed.
Print Assumptions isna_notna_indicators.
