(* C19 — cov and corr are the length-weighted moments over the common defined window.
   Proved here: how the operands are restricted (to the region where both are defined), the formulas the results are
   computed by (unfoldings of the model, which mirrors the code), lag = shift of g by -lag with the clip='pre' / 'post'
   window rule, and symmetry in f and g. The means and variances that occur are the length-weighted ones of C08.
   corr itself involves a square root: the model returns sign(cov) * cov^2 / (var_f * var_g), and the theorems (symmetry,
   the bound) are stated for that signed square; numpy's sqrt is tied to it by the correspondence check. *)
From Coq Require Import List QArith Qcanon.
Require Import SC.Base.Ord SC.Base.Val SC.Base.Series SC.Base.QcOrd SC.Model.Repr SC.Model.Ops SC.Model.Masking
               SC.Model.Sampling SC.Model.Stats SC.Model.Slicing.
Require Import SC.Spec.Den SC.Proofs.CovFacts.
Open Scope Qc_scope.

Theorem operands_are_restricted_to_the_common_defined_region :
  forall (f g f' g' : stairsQ) lo hi lc hi', wf f -> wf g ->
    cov_operands f g lo hi 0 lc = Ok (f', g', hi') ->
    hi' = hi /\ wf f' /\ wf g' /\
    forall sd x,
      lim sd f' x = (if both_defined (lim sd f x) (lim sd g x) then lim sd f x else None) /\
      lim sd g' x = (if both_defined (lim sd f x) (lim sd g x) then lim sd g x else None).
Proof. exact cov_operands_spec. Qed.
Print Assumptions operands_are_restricted_to_the_common_defined_region.

(* The code (repaired, 0a511ae) computes the mean of the CENTRED product (f' - mean f')(g' - mean g') over the window, which does
   not cancel when the means are large relative to the spread. Over every finite window that is the property's formula:
   mean(f' g') - mean(f') mean(g'), f' and g' being f and g restricted to the region on which both are defined, every mean
   taken over the window. (Proofs/CovCentredFacts.v: the four clipped tables as Riemann sums over a common refinement.) *)
Require Import SC.Proofs.CovCentredFacts.

Theorem cov_is_mean_of_product_minus_product_of_means :
  forall (f g : stairsQ) (a b : Qc) lc (v : V), wf f -> wf g ->
    cov f g (Some a) (Some b) 0 lc = Ok v ->
    exists f' g' cf cg cp,
      cov_operands f g (Some a) (Some b) 0 lc = Ok (f', g', Some b) /\
      clip f' (Some a) (Some b) = Ok cf /\ clip g' (Some a) (Some b) = Ok cg /\
      clip (apply_binop (BArith OMul) f' g') (Some a) (Some b) = Ok cp /\
      v = vsub (snd (integral_and_mean cp)) (vmul (snd (integral_and_mean cf)) (snd (integral_and_mean cg))).
Proof. exact cov_formula. Qed.
Print Assumptions cov_is_mean_of_product_minus_product_of_means.

(* ... and, where the sides of the restricted operands agree, the expression written with the public operators evaluates to
   the same value *)
Theorem the_centred_form_is_the_formula :
  forall (f' g' : stairsQ) (a b : Qc) (v : V), wf f' -> wf g' ->
    (forall x, lim LimRight f' x = None <-> lim LimRight g' x = None) -> closed_ok f' g' = true ->
    cov_masked f' g' (Some a) (Some b) = Ok v -> cov_masked_spec f' g' (Some a) (Some b) = Ok v.
Proof. exact cov_centred_eq_spec. Qed.
Print Assumptions the_centred_form_is_the_formula.

(* cov rejects operands with steps and opposite sides before anything is computed, as corr does *)
Theorem cov_of_opposite_sides_is_rejected :
  forall (f g : stairsQ) lo hi lc,
    has_steps f = true -> has_steps g = true -> side_eqb (closed f) (closed g) = false ->
    cov f g lo hi 0 lc = Err EClosedMismatch.
Proof.
  intros f g lo hi lc Hf Hg Hc. unfold cov. change (Qceqb 0 0) with true. cbv iota.
  unfold closed_ok. rewrite Hf, Hg, Hc. reflexivity.
Qed.
Print Assumptions cov_of_opposite_sides_is_rejected.

Theorem a_lag_is_a_shift_of_g_with_the_window_rule :
  forall (f g : stairsQ) lo hi lag lc, Qceqb lag 0 = false ->
    cov f g lo hi lag lc = cov f (shift g (- lag)) lo (lagged_hi hi lag lc) 0 lc /\
    corr_signed_square f g lo hi lag lc = corr_signed_square f (shift g (- lag)) lo (lagged_hi hi lag lc) 0 lc.
Proof. exact lag_is_shift. Qed.
Print Assumptions a_lag_is_a_shift_of_g_with_the_window_rule.

Theorem cov_is_symmetric :
  forall (f g : stairsQ) lo hi lc (v v' : V), wf f -> wf g -> minimal f -> minimal g ->
    cov f g lo hi 0 lc = Ok v -> cov g f lo hi 0 lc = Ok v' -> v = v'.
Proof. exact cov_symmetric. Qed.
Print Assumptions cov_is_symmetric.

Theorem corr_is_symmetric :
  forall (f g : stairsQ) lo hi lc (v v' : V), wf f -> wf g -> minimal f -> minimal g ->
    corr_signed_square f g lo hi 0 lc = Ok v -> corr_signed_square g f lo hi 0 lc = Ok v' -> v = v'.
Proof. exact corr_symmetric. Qed.
Print Assumptions corr_is_symmetric.

Theorem corr_of_opposite_sides_is_rejected :
  forall (f g : stairsQ) lo hi lc,
    has_steps f = true -> has_steps g = true -> side_eqb (closed f) (closed g) = false ->
    corr_signed_square f g lo hi 0 lc = Err EClosedMismatch.
Proof. exact corr_rejects_opposite_sides. Qed.
Print Assumptions corr_of_opposite_sides_is_rejected.

(* cov(f, f) over a finite window is var(f) over that window (whenever both are computed: var needs a finite piece on
   which f is defined). Rests on: the integral of a step table is a Riemann sum over any refinement of its step points
   (Proofs/RefineFacts.v), so length-weighted sums depend only on the represented function. *)
Require Import SC.Proofs.RefineFacts SC.Proofs.CovSelfFacts SC.Proofs.CovCentredFacts.

Theorem weighted_sums_depend_only_on_the_represented_function :
  forall (g1 g2 : Qc -> Qc) (l1 l2 : list (Qc * V)),
    sorted l1 -> sorted l2 -> tail_none None l1 -> tail_none None l2 ->
    (forall x, vmap g1 (lookup false None l1 x) = vmap g2 (lookup false None l2 x)) ->
    wsum_pieces g1 l1 = wsum_pieces g2 l2.
Proof. exact weighted_sums_depend_on_the_function. Qed.
Print Assumptions weighted_sums_depend_only_on_the_represented_function.

Theorem cov_of_f_with_itself_is_var :
  forall (f : stairsQ) (a b : Qc) lc (v v' : V), wf f -> minimal f ->
    cov f f (Some a) (Some b) 0 lc = Ok v -> clipped_var f (Some a) (Some b) = Ok v' -> v = v'.
Proof. exact cov_self_is_var. Qed.
Print Assumptions cov_of_f_with_itself_is_var.

(* corr lies in [-1, 1]: the model returns the signed square sign(cov) cov^2 / (var_f var_g), which lies in [-1, 1] exactly
   when cov / (std_f std_g) does. Cauchy-Schwarz over the common refinement of the three clipped tables. *)
Require Import SC.Proofs.CorrBoundFacts SC.Proofs.CovCentredFacts.

Theorem corr_lies_between_minus_one_and_one :
  forall (f g : stairsQ) (a b : Qc) lc (r : Qc), wf f -> wf g ->
    corr_signed_square f g (Some a) (Some b) 0 lc = Ok (Some r) -> - (1) <= r /\ r <= 1.
Proof. exact corr_bounded. Qed.
Print Assumptions corr_lies_between_minus_one_and_one.

(* var over a window is non-negative, and wherever corr(f, f) is defined it is one *)
Require Import SC.Proofs.CorrSelfFacts.

Theorem var_over_a_window_is_non_negative :
  forall (f : stairsQ) lo hi (x : Qc), wf f -> clipped_var f lo hi = Ok (Some x) -> 0 <= x.
Proof. exact var_nonneg. Qed.
Print Assumptions var_over_a_window_is_non_negative.

Theorem corr_of_f_with_itself_is_one :
  forall (f : stairsQ) (a b : Qc) lc (r : Qc), wf f -> minimal f ->
    corr_signed_square f f (Some a) (Some b) 0 lc = Ok (Some r) -> r = 1.
Proof. exact corr_self_is_one. Qed.
Print Assumptions corr_of_f_with_itself_is_one.
