(* C15 — The closed side is preserved, and opposite sides are never silently merged. *)
From Coq Require Import List QArith Qcanon.
Require Import SC.Base.Ord SC.Base.Val SC.Base.Series SC.Model.Repr SC.Model.Ops SC.Model.Masking SC.Model.Sampling.
Require Import SC.Spec.Den SC.Proofs.OpsFacts SC.Proofs.ClosedFacts.

(* every binary operator (arithmetic, relational, logical; scalars on either side): the result takes the
   side of the operand(s) that have steps, the receiver's when none has *)
Theorem binary_operators_follow_the_side_rule :
  forall (D : Type) (O : Ord D) (o : binop) (a b : operand) (r : stairs D),
    owf a -> owf b -> binop_api o a b = Ok r -> side_rule a b = Some (closed r).
Proof. intros D O. exact binop_closed_rule. Qed.
Print Assumptions binary_operators_follow_the_side_rule.

Theorem side_rule_meaning :
  forall (D : Type) (O : Ord D) (f g : stairs D),
    result_side f g = if has_steps f then closed f else if has_steps g then closed g else closed f.
Proof. reflexivity. Qed.
Print Assumptions side_rule_meaning.

Theorem binary_operators_reject_exactly_mixed_sides :
  forall (D : Type) (O : Ord D) (o : binop) (f g : stairs D),
    binop_api o (OpS f) (OpS g) = Err EClosedMismatch <->
    (has_steps f = true /\ has_steps g = true /\ closed f <> closed g).
Proof. intros D O. exact binop_mismatch_iff. Qed.
Print Assumptions binary_operators_reject_exactly_mixed_sides.

Theorem scalars_combine_with_either_side :
  forall (D : Type) (O : Ord D) (o : binop) (f : stairs D) (c : V),
    (exists r, binop_api o (OpS f) (OpC c) = Ok r) /\ (exists r, binop_api o (OpC c) (OpS f) = Ok r).
Proof. intros D O o f c. split; apply binop_api_total; exact I. Qed.
Print Assumptions scalars_combine_with_either_side.

Theorem mask_where_fillna_follow_the_side_rule :
  forall (D : Type) (O : Ord D) (f g r : stairs D), wf f -> wf g ->
    (forall inverse, mask_stairs inverse f g = Ok r -> closed r = result_side f g) /\
    (fillna_stairs f g = Ok r -> closed r = result_side f g).
Proof.
  intros D O f g r Wf Wg. split.
  - intros inverse. apply mask_closed_rule; auto.
  - apply fillna_closed_rule; auto.
Qed.
Print Assumptions mask_where_fillna_follow_the_side_rule.

Theorem mask_where_reject_exactly_mixed_sides :
  forall (D : Type) (O : Ord D) (inverse : bool) (f g : stairs D),
    mask_stairs inverse f g = Err EClosedMismatch <->
    (has_steps f = true /\ has_steps g = true /\ closed f <> closed g).
Proof. intros D O. exact mask_mismatch_iff. Qed.
Print Assumptions mask_where_reject_exactly_mixed_sides.

Theorem one_operand_operations_keep_the_side :
  forall (D : Type) (O : Ord D) (f : stairs D), wf f ->
    closed (negate f) = closed f /\ closed (invert f) = closed f /\ closed (make_boolean f) = closed f /\
    closed (isna f) = closed f /\ closed (notna f) = closed f /\
    (forall c, closed (fillna_scalar f c) = closed f) /\
    (forall m, closed (fillna_method m f) = closed f) /\
    (forall lo hi r, clip f lo hi = Ok r -> closed r = closed f) /\
    (forall a, closed (layer f a) = closed f).
Proof. intros D O. exact unary_keeps_closed. Qed.
Print Assumptions one_operand_operations_keep_the_side.

Theorem tuple_shorthands_never_raise_a_mismatch :
  forall (D : Type) (O : Ord D) (f : stairs D) (lo hi : option D), wf f ->
    mask_tuple f lo hi <> Err EClosedMismatch /\ where_tuple f lo hi <> Err EClosedMismatch.
Proof. intros D O. exact tuple_forms_never_mismatch. Qed.
Print Assumptions tuple_shorthands_never_raise_a_mismatch.
