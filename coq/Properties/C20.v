(* C20 — shift and diff are exact translations; rolling_mean returns exactly the points at which a window edge meets a
   step point, each with the mean of f over its window; linear interpolation between consecutive points reproduces the
   rolling mean of a function defined throughout the windows. *)
From Coq Require Import List QArith Qcanon.
Require Import SC.Base.Ord SC.Base.Val SC.Base.Series SC.Base.QcOrd SC.Model.Repr SC.Model.Ops SC.Model.Sampling SC.Model.Stats.
Require Import SC.Spec.Den SC.Proofs.MapKeysFacts.

Theorem shift_translates :
  forall (f : stairs Qc) (d : Qc), wf f ->
    wf (shift f d) /\ closed (shift f d) = closed f /\
    forall sd x, lim sd (shift f d) x = lim sd f (x - d)%Qc.
Proof. exact shift_spec. Qed.
Print Assumptions shift_translates.

Theorem diff_is_f_minus_shifted_f :
  forall (f : stairs Qc) (d : Qc), wf f ->
    diff f d = add_or_sub true f (shift f d) /\
    wf (diff f d) /\ closed (diff f d) = closed f /\
    forall sd x, lim sd (diff f d) x = vsub (lim sd f x) (lim sd f (x - d)%Qc).
Proof. exact diff_spec. Qed.
Print Assumptions diff_is_f_minus_shifted_f.

(* ---- rolling_mean *)
Require Import SC.Model.Masking SC.Model.Slicing SC.Proofs.ClipFacts SC.Proofs.SlicingFacts SC.Proofs.RollingFacts.
Open Scope Qc_scope.

(* the rows are exactly the (x, y) with: x + l or x + r is a step point of f restricted to `where`, x lies in
   [lower - l, upper - r], and y is the slicer mean of that restriction over (x + l, x + r] *)
Theorem rolling_mean_returns_the_window_means_at_the_knots :
  forall (f cl : stairsQ) (l r : Qc) (lo hi : option Qc) (rows : list (Qc * V)),
    clip f lo hi = Ok cl -> data cl <> None -> rolling_mean f l r lo hi = Ok rows ->
    forall k y, In (k, y) rows <->
      ((In (k + l) (keys (get_values cl)) \/ In (k + r) (keys (get_values cl))) /\
       knot_in_range l r lo hi k = true /\ slice_stat SMean cl IvRight (k + l, k + r) = Some y).
Proof.
  intros f cl l r lo hi rows Ec Hd E k y. rewrite (rolling_mean_rows f cl l r lo hi rows Ec Hd E k y).
  rewrite knot_meets_a_step_point. tauto.
Qed.
Print Assumptions rolling_mean_returns_the_window_means_at_the_knots.

(* ... and that slicer mean is the length-weighted mean (C08) of the function restricted to the window *)
Theorem the_window_mean_is_the_mean_of_the_restriction :
  forall (cl : stairsQ) (a b : Qc), wf cl -> ltb a b = true ->
    exists sl, clip cl (Some a) (Some b) = Ok sl /\ wf sl /\
      (forall sd x, lim sd sl x = if inside (strict_of sd) (Some a) (Some b) x then lim sd cl x else None) /\
      slice_stat SMean cl IvRight (a, b) = Some (snd (integral_and_mean sl)).
Proof.
  intros cl a b W Hab. destruct (slice_is_restriction cl a b W Hab) as (sl & E & Wsl & _ & L).
  exists sl. split; [exact E|]. split; [exact Wsl|]. split; [exact L|].
  rewrite (slice_stat_unfold SMean cl IvRight a b sl E). reflexivity.
Qed.
Print Assumptions the_window_mean_is_the_mean_of_the_restriction.

(* ---- linear interpolation between consecutive sample points reproduces the rolling mean: with no other sample point (knot)
   strictly between x1 and x2 and f (restricted to `where`) defined throughout the windows, the window mean at every x in
   [x1, x2] is the linear interpolation of the means at x1 and x2. Rests on the window integral W (additive, constant where
   no step point is crossed) of Proofs/InterpFacts.v. *)
Require Import SC.Proofs.InterpFacts.

Theorem linear_interpolation_reproduces_the_rolling_mean :
  forall (cl : stairsQ) (l r x1 x2 x : Qc),
    wf cl -> ltb l r = true -> ltb x1 x2 = true -> leb x1 x = true -> leb x x2 = true ->
    (forall k, In k (rolling_knots cl l r) -> ltb x1 k = true -> ltb k x2 = true -> False) ->
    (forall t, leb (x1 + l) t = true -> ltb t (x2 + r) = true -> lim LimRight cl t <> None) ->
    exists y1 y2,
      slice_stat SMean cl IvRight (x1 + l, x1 + r) = Some (Some y1) /\
      slice_stat SMean cl IvRight (x2 + l, x2 + r) = Some (Some y2) /\
      slice_stat SMean cl IvRight (x + l, x + r) = Some (Some (y1 + (x - x1) * (y2 - y1) / (x2 - x1))).
Proof. exact interpolation_between_consecutive_knots. Qed.
Print Assumptions linear_interpolation_reproduces_the_rolling_mean.
