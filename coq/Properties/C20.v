(* C20 — shift and diff are exact translations (rolling_mean: see DESIGN.md, decided by the
   correspondence check; its model composes clip, slicing and mean). *)
From Coq Require Import List QArith Qcanon.
Require Import SC.Base.Ord SC.Base.Val SC.Base.Series SC.Base.QcOrd SC.Model.Repr SC.Model.Ops SC.Model.Sampling SC.Model.Stats.
Require Import SC.Spec.Den SC.Proofs.MapKeysFacts.

Theorem shift_translates :
  forall (f : stairs Qc) (d : Qc), wf f ->
    wf (shift f d) /\ closed (shift f d) = closed f /\
    forall sd x, lim sd (shift f d) x = lim sd f (x - d)%Qc.
Proof. exact shift_spec. Qed.
Print Assumptions shift_translates.

Theorem diff_is_f_minus_shifted_f :
  forall (f : stairs Qc) (d : Qc), wf f ->
    diff f d = add_or_sub true f (shift f d) /\
    wf (diff f d) /\ closed (diff f d) = closed f /\
    forall sd x, lim sd (diff f d) x = vsub (lim sd f x) (lim sd f (x - d)%Qc).
Proof. exact diff_spec. Qed.
Print Assumptions diff_is_f_minus_shifted_f.
