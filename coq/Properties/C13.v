(* C13 — Only layer mutates: operands are never changed (model part). On the model, a statement changes no
   register other than the one it binds or (for layer) mutates; reads and queries change no function at
   all. [den_rel a b]: both unbound, or both bound to objects with the same initial value, closed side and
   step table (materialising an internal form is allowed). That results never share mutable state with
   operands in the implementation (numpy / pandas views) cannot be exhibited by a functional model: that
   half is decided by the mutate-then-observe programs of the correspondence check. *)
From Coq Require Import List QArith Qcanon.
Require Import SC.Base.Val SC.Base.QcOrd SC.Model.Repr SC.Model.Prog SC.Proofs.ProgFacts.

Theorem a_statement_changes_only_its_target :
  forall (w : world) (s : stmt) (k : nat), target s <> Some k -> den_rel (wget w k) (wget (fst (exec w s)) k).
Proof. exact frame_rule. Qed.
Print Assumptions a_statement_changes_only_its_target.

Theorem reads_and_queries_change_no_function :
  forall (w : world) (s : stmt) (k : nat), target s = None -> den_rel (wget w k) (wget (fst (exec w s)) k).
Proof. exact observations_do_not_mutate. Qed.
Print Assumptions reads_and_queries_change_no_function.

Theorem untargeted_registers_survive_any_program :
  forall (p : list stmt) (w : world) (k : nat),
    (forall s, In s p -> target s <> Some k) -> den_rel (wget w k) (wget (fst (run w p)) k).
Proof. exact untargeted_register_is_unchanged. Qed.
Print Assumptions untargeted_registers_survive_any_program.

Theorem same_observations_give_same_limits :
  forall (f g : stairsQ) sd x, same_obs f g -> SC.Spec.Den.lim sd f x = SC.Spec.Den.lim sd g x.
Proof. exact same_obs_lim. Qed.
Print Assumptions same_observations_give_same_limits.
