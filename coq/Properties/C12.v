(* C12 — Results are in minimal form, so identical() decides equality of functions. *)
From Coq Require Import List QArith Qcanon.
Require Import SC.Base.Ord SC.Base.Val SC.Base.Series SC.Model.Repr SC.Model.Ops SC.Model.Masking SC.Model.Sampling.
Require Import SC.Spec.Den SC.Proofs.ReprFacts SC.Proofs.OpsFacts SC.Proofs.MaskFacts SC.Proofs.ClipFacts SC.Proofs.CanonFacts SC.Proofs.SamplingFacts
               SC.Proofs.MinimalFacts SC.Proofs.IdentityFacts.

(* redundant-point removal returns a minimal form denoting the same function *)
Theorem remove_redundant_canonicalises :
  forall (D : Type) (O : Ord D) (i : V) (v : list (D * V)) (c : side), sorted v ->
    let r := remove_redundant (of_values i v c) in
    wf r /\ minimal r /\ closed r = c /\ init r = i /\ forall sd x, lim sd r x = lookup (strict_of sd) i v x.
Proof. intros D O. exact canon_values. Qed.
Print Assumptions remove_redundant_canonicalises.

(* every operator, negation, clip, mask / where, fills, isna / notna, boolean views and from_values
   return minimal results from minimal operands *)
Theorem every_operation_returns_a_minimal_result :
  forall (D : Type) (O : Ord D) (f g : stairs D), wf f -> wf g -> minimal f -> minimal g ->
    (forall o, minimal (apply_binop o f g)) /\
    minimal (negate f) /\ minimal (invert f) /\ minimal (make_boolean f) /\ minimal (isna f) /\ minimal (notna f) /\
    (forall c, minimal (fillna_scalar f c)) /\ (forall m, minimal (fillna_method m f)) /\
    (forall lo hi r, clip f lo hi = Ok r -> minimal r) /\
    (forall inverse r, mask_stairs inverse f g = Ok r -> minimal r) /\
    (forall i v c, sorted v -> minimal (from_values i v c)).
Proof. intros D O. exact all_minimal. Qed.
Print Assumptions every_operation_returns_a_minimal_result.

(* a minimal form is unique: two minimal representations of the same function coincide *)
Theorem minimal_form_is_canonical :
  forall (D : Type) (O : Ord D) (x0 : D) (f g : stairs D),
    wf f -> wf g -> minimal f -> minimal g -> (forall sd x, lim sd f x = lim sd g x) ->
    init f = init g /\ get_values f = get_values g /\ number_of_steps f = number_of_steps g.
Proof.
  intros D O x0 f g Wf Wg Mf Mg E. destruct (canonical x0 f g Wf Wg Mf Mg E) as [Ei Ev].
  repeat split; auto. unfold number_of_steps. rewrite !SamplingFacts.step_points_keys by auto. rewrite Ev. reflexivity.
Qed.
Print Assumptions minimal_form_is_canonical.

(* identical() is true exactly when both sides denote the same function *)
Theorem identical_decides_equality :
  forall (D : Type) (O : Ord D) (x0 : D) (f g : stairs D),
    wf f -> wf g -> minimal f -> minimal g ->
    (identical f g = true <-> forall sd x, lim sd f x = lim sd g x).
Proof.
  intros D O x0 f g Wf Wg Mf Mg. split.
  - apply identical_sound; auto using minimal_encodable.
  - apply (identical_complete x0); auto.
Qed.
Print Assumptions identical_decides_equality.

Theorem bool_is_true_exactly_for_the_constant_one :
  forall (D : Type) (O : Ord D) (x0 : D) (f : stairs D), wf f -> minimal f ->
    (to_bool f = true <-> forall sd x, lim sd f x = Some (Q2Qc 1)).
Proof. intros D O. exact to_bool_spec. Qed.
Print Assumptions bool_is_true_exactly_for_the_constant_one.

(* identities of pointwise algebra hold up to identical() *)
Theorem algebraic_identities_up_to_identical :
  forall (D : Type) (O : Ord D) (x0 : D) (f g h : stairs D),
    wf f -> wf g -> wf h -> minimal f -> minimal g -> minimal h ->
    identical (add_or_sub false f g) (add_or_sub false g f) = true /\
    identical (mul_or_div false f g) (mul_or_div false g f) = true /\
    identical (add_or_sub false (add_or_sub false f g) h) (add_or_sub false f (add_or_sub false g h)) = true /\
    identical (mul_or_div false f (add_or_sub false g h)) (add_or_sub false (mul_or_div false f g) (mul_or_div false f h)) = true /\
    identical (invert (logical LAnd f g)) (logical LOr (invert f) (invert g)) = true /\
    identical (add_or_sub true f f) (mul_or_div false f (const (Some (Q2Qc 0)) (closed f))) = true /\
    identical (invert (invert f)) (make_boolean f) = true.
Proof. intros D O. exact identities. Qed.
Print Assumptions algebraic_identities_up_to_identical.
