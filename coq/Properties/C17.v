(* C17 — re-labelling the domain by a strictly increasing map commutes with evaluation and with the
   pointwise operations (the order-only part of the property; every theorem of C01-C07, C12, C15, C16 is
   moreover stated for an arbitrary ordered domain, so it holds verbatim in each concrete domain).
   That pandas' datetime64 / tz-aware / Timedelta indexes behave as such order-isomorphic images is
   what the correspondence check replays in seven domain flavours. *)
From Coq Require Import List QArith Qcanon.
Require Import SC.Base.Ord SC.Base.Val SC.Base.Series SC.Model.Repr SC.Model.Ops SC.Model.Sampling.
Require Import SC.Spec.Den SC.Proofs.MapKeysFacts.

Theorem relabelling_preserves_wellformedness :
  forall (D E : Type) (OD : Ord D) (OE : Ord E) (phi : D -> E),
    (forall a b, ltb (phi a) (phi b) = ltb a b) ->
    forall f : stairs D, wf f -> wf (relabel phi f).
Proof. intros D E OD OE phi Hm. exact (relabel_wf phi Hm). Qed.
Print Assumptions relabelling_preserves_wellformedness.

Theorem evaluation_commutes_with_relabelling :
  forall (D E : Type) (OD : Ord D) (OE : Ord E) (phi : D -> E),
    (forall a b, ltb (phi a) (phi b) = ltb a b) ->
    forall (f : stairs D) sd x,
      lim sd (relabel phi f) (phi x) = lim sd f x /\ limit (relabel phi f) sd (phi x) = limit f sd x /\
      closed (relabel phi f) = closed f /\ init (relabel phi f) = init f.
Proof.
  intros D E OD OE phi Hm f sd x. repeat split.
  - apply (relabel_lim phi Hm).
  - apply (relabel_limit phi Hm).
Qed.
Print Assumptions evaluation_commutes_with_relabelling.

Theorem operators_commute_with_relabelling :
  forall (D E : Type) (OD : Ord D) (OE : Ord E) (phi : D -> E),
    (forall a b, ltb (phi a) (phi b) = ltb a b) ->
    forall (o : binop) (f g : stairs D) sd x, wf f -> wf g ->
      lim sd (apply_binop o (relabel phi f) (relabel phi g)) (phi x) = lim sd (relabel phi (apply_binop o f g)) (phi x).
Proof. intros D E OD OE phi Hm. exact (relabel_commutes_binop phi Hm). Qed.
Print Assumptions operators_commute_with_relabelling.
