(* C17 — re-labelling the domain by a strictly increasing map commutes with evaluation and with the
   pointwise operations (the order-only part of the property; every theorem of C01-C07, C12, C15, C16 is
   moreover stated for an arbitrary ordered domain, so it holds verbatim in each concrete domain).
   That pandas' datetime64 / tz-aware / Timedelta indexes behave as such order-isomorphic images is
   what the correspondence check replays in seven domain flavours. *)
From Coq Require Import List QArith Qcanon.
Require Import SC.Base.Ord SC.Base.Val SC.Base.Series SC.Model.Repr SC.Model.Ops SC.Model.Sampling.
Require Import SC.Spec.Den SC.Proofs.MapKeysFacts.

Theorem relabelling_preserves_wellformedness :
  forall (D E : Type) (OD : Ord D) (OE : Ord E) (phi : D -> E),
    (forall a b, ltb (phi a) (phi b) = ltb a b) ->
    forall f : stairs D, wf f -> wf (relabel phi f).
Proof. intros D E OD OE phi Hm. exact (relabel_wf phi Hm). Qed.
Print Assumptions relabelling_preserves_wellformedness.

Theorem evaluation_commutes_with_relabelling :
  forall (D E : Type) (OD : Ord D) (OE : Ord E) (phi : D -> E),
    (forall a b, ltb (phi a) (phi b) = ltb a b) ->
    forall (f : stairs D) sd x,
      lim sd (relabel phi f) (phi x) = lim sd f x /\ limit (relabel phi f) sd (phi x) = limit f sd x /\
      closed (relabel phi f) = closed f /\ init (relabel phi f) = init f.
Proof.
  intros D E OD OE phi Hm f sd x. repeat split.
  - apply (relabel_lim phi Hm).
  - apply (relabel_limit phi Hm).
Qed.
Print Assumptions evaluation_commutes_with_relabelling.

Theorem operators_commute_with_relabelling :
  forall (D E : Type) (OD : Ord D) (OE : Ord E) (phi : D -> E),
    (forall a b, ltb (phi a) (phi b) = ltb a b) ->
    forall (o : binop) (f g : stairs D) sd x, wf f -> wf g ->
      lim sd (apply_binop o (relabel phi f) (relabel phi g)) (phi x) = lim sd (relabel phi (apply_binop o f g)) (phi x).
Proof. intros D E OD OE phi Hm. exact (relabel_commutes_binop phi Hm). Qed.
Print Assumptions operators_commute_with_relabelling.

(* ---- change of unit / origin on the rational domain: k |-> a k + b, a > 0 (e.g. nanoseconds since the epoch vs days) *)
Require Import SC.Base.QcOrd SC.Model.Masking SC.Model.Stats SC.Proofs.StatsFacts SC.Proofs.UnitFacts.
Open Scope Qc_scope.

Theorem a_change_of_unit_is_a_relabelling :
  forall (a b : Qc), 0 < a -> forall x y, ltb (affine a b x) (affine a b y) = ltb x y.
Proof. exact affine_mono. Qed.
Print Assumptions a_change_of_unit_is_a_relabelling.

(* lengths and integrals are measured in the unit of the domain: the integral scales by a, the mean does not change *)
Theorem integral_scales_with_the_unit_and_mean_does_not :
  forall (a b : Qc), 0 < a -> forall f : stairsQ,
    integral_and_mean (relabel (affine a b) f) = (vmul (fst (integral_and_mean f)) (Some a), snd (integral_and_mean f)).
Proof. exact integral_mean_relabel. Qed.
Print Assumptions integral_scales_with_the_unit_and_mean_does_not.

Theorem value_sums_scale_with_the_unit :
  forall (a b : Qc) (f : stairsQ),
    value_sums (relabel (affine a b) f) = option_map (map (sc a)) (value_sums f).
Proof. exact value_sums_relabel. Qed.
Print Assumptions value_sums_scale_with_the_unit.

(* the value distribution - hence ecdf, percentiles, fractiles, median, hist probabilities, and var given the mean - is
   the same object *)
Theorem the_value_distribution_does_not_depend_on_the_unit :
  forall (a b : Qc), 0 < a -> forall f : stairsQ, ecdf_of (relabel (affine a b) f) = ecdf_of f.
Proof. exact ecdf_relabel. Qed.
Print Assumptions the_value_distribution_does_not_depend_on_the_unit.
