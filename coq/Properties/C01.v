(* C01 — Arithmetic (+, -, *, /, unary -) is pointwise on the common domain.
   Stated on both one-sided limits at every point of an arbitrary totally ordered domain, for every
   well-formed internal state of the operands (either or both internal forms materialised), for
   scalar operands on either side, and for both closed conventions.  [varith o] is None (undefined)
   exactly when an argument is None or (o = / and the divisor is 0); V has no infinite value. *)
From Coq Require Import QArith Qcanon.
Require Import SC.Base.Ord SC.Base.Val SC.Base.Series SC.Model.Repr SC.Model.Ops SC.Model.Sampling.
Require Import SC.Spec.Den SC.Proofs.OpsFacts.

Theorem arith_pointwise :
  forall (D : Type) (O : Ord D) (o : arith) (a b : operand) (r : stairs D),
    owf a -> owf b -> binop_api (BArith o) a b = Ok r ->
    wf r /\ forall sd x, lim sd r x = varith o (olim sd a x) (olim sd b x).
Proof. intros D O o. exact (binop_api_ok (BArith o)). Qed.
Print Assumptions arith_pointwise.

Theorem arith_defined_on_compatible_operands :
  forall (D : Type) (O : Ord D) (o : arith) (a b : operand (D := D)),
    compatible a b -> exists r, binop_api (BArith o) a b = Ok r.
Proof. intros D O o. exact (binop_api_total (BArith o)). Qed.
Print Assumptions arith_defined_on_compatible_operands.

Theorem arith_undefined_exactly :
  forall (o : arith) (x y : V),
    varith o x y = None <-> x = None \/ y = None \/ (o = ODiv /\ y = Some (Q2Qc 0)).
Proof. exact varith_none_iff. Qed.
Print Assumptions arith_undefined_exactly.

Theorem arith_value :
  forall (o : arith) (x y : Qc), (o = ODiv -> y <> Q2Qc 0) ->
    varith o (Some x) (Some y) = Some (match o with OAdd => x + y | OSub => x - y | OMul => x * y | ODiv => x / y end)%Qc.
Proof. exact varith_some. Qed.
Print Assumptions arith_value.

Theorem negate_pointwise :
  forall (D : Type) (O : Ord D) (f : stairs D), wf f ->
    wf (negate f) /\ closed (negate f) = closed f /\ forall sd x, lim sd (negate f) x = vneg (lim sd f x).
Proof. intros D O. exact negate_spec. Qed.
Print Assumptions negate_pointwise.
