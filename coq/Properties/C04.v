(* C04 — Relational operators are pointwise 0/1 indicators on the common domain; the result is an
   ordinary (well-formed, minimal) step function. *)
From Coq Require Import QArith Qcanon.
Require Import SC.Base.Ord SC.Base.Val SC.Base.Series SC.Model.Repr SC.Model.Ops SC.Model.Sampling.
Require Import SC.Spec.Den SC.Proofs.OpsFacts.

Theorem rel_pointwise :
  forall (D : Type) (O : Ord D) (R : relop) (a b : operand) (r : stairs D),
    owf a -> owf b -> binop_api (BRel R) a b = Ok r ->
    wf r /\ forall sd x, lim sd r x = vrel R (olim sd a x) (olim sd b x).
Proof. intros D O R. exact (binop_api_ok (BRel R)). Qed.
Print Assumptions rel_pointwise.

Theorem rel_defined_on_compatible_operands :
  forall (D : Type) (O : Ord D) (R : relop) (a b : operand (D := D)),
    compatible a b -> exists r, binop_api (BRel R) a b = Ok r.
Proof. intros D O R. exact (binop_api_total (BRel R)). Qed.
Print Assumptions rel_defined_on_compatible_operands.

(* vrel is the 0/1 indicator where both are defined and undefined exactly where either is undefined *)
Theorem rel_indicator :
  forall (R : relop) (x y : V),
    (forall a b, x = Some a -> y = Some b -> vrel R x y = Some (if rel_holds R a b then Q2Qc 1 else Q2Qc 0)) /\
    (vrel R x y = None <-> x = None \/ y = None).
Proof. exact vrel_indicator. Qed.
Print Assumptions rel_indicator.

Theorem rel_holds_meaning :
  forall (a b : Qc),
    (rel_holds RLt a b = true <-> a < b)%Qc /\ (rel_holds RLe a b = true <-> a <= b)%Qc /\
    (rel_holds RGt a b = true <-> b < a)%Qc /\ (rel_holds RGe a b = true <-> b <= a)%Qc /\
    (rel_holds REq a b = true <-> a = b) /\ (rel_holds RNe a b = true <-> a <> b).
Proof. exact rel_holds_spec. Qed.
Print Assumptions rel_holds_meaning.

(* results of the stairs/stairs and stairs/scalar comparisons are minimal (usable by identical()) *)
Theorem rel_result_minimal :
  forall (D : Type) (O : Ord D) (R : relop) (f g : stairs D),
    wf f -> wf g -> minimal (relational R f g).
Proof. intros D O R f g Wf Wg. exact (proj2 (relational_spec R f g Wf Wg)). Qed.
Print Assumptions rel_result_minimal.
