(* C03 — Evaluation honours one-sided limits and the closed side; all views agree. *)
From Coq Require Import List QArith Qcanon.
Require Import SC.Base.Ord SC.Base.Val SC.Base.Series SC.Model.Repr SC.Model.Ops SC.Model.Sampling.
Require Import SC.Spec.Den SC.Proofs.SamplingFacts.

(* limit(x, side) as computed (searchsorted - 1 into the values extended by the initial value) is the
   denotation lim; sample / call is the value under the closed convention *)
Theorem limit_is_lim :
  forall (D : Type) (O : Ord D) (f : stairs D) (sd : lside) (x : D), limit f sd x = lim sd f x.
Proof. intros D O. exact SamplingFacts.limit_is_lim. Qed.
Print Assumptions limit_is_lim.

Theorem sample_is_fn :
  forall (D : Type) (O : Ord D) (f : stairs D) (x : D),
    sample f x = fn f x /\
    fn f x = match closed f with CLeft => lim LimRight f x | CRight => lim LimLeft f x end.
Proof. intros D O f x. split; [apply SamplingFacts.sample_is_fn|unfold fn; destruct (closed f); reflexivity]. Qed.
Print Assumptions sample_is_fn.

(* vector forms are the scalar form element by element (map), so they agree by construction in
   the model; include_index only re-labels. The denotation really is the one-sided limit: *)
Theorem lim_is_one_sided_limit :
  forall (D : Type) (O : Ord D) (DO : DenseOrd D) (f : stairs D) (x : D),
  (exists y, ltb x y = true /\ (exists z, ltb x z = true /\ ltb z y = true) /\
             forall z, ltb x z = true -> ltb z y = true ->
               fn f z = lim LimRight f x /\ lim LimLeft f z = lim LimRight f x /\ lim LimRight f z = lim LimRight f x) /\
  (exists y, ltb y x = true /\ (exists z, ltb y z = true /\ ltb z x = true) /\
             forall z, ltb y z = true -> ltb z x = true ->
               fn f z = lim LimLeft f x /\ lim LimLeft f z = lim LimLeft f x /\ lim LimRight f z = lim LimLeft f x).
Proof. intros D O DO. exact SamplingFacts.lim_is_one_sided_limit. Qed.
Print Assumptions lim_is_one_sided_limit.

Theorem limits_coincide_away_from_step_points :
  forall (D : Type) (O : Ord D) (f : stairs D) (x : D),
    ~ In x (step_points f) -> wf f -> lim LimLeft f x = lim LimRight f x.
Proof. intros D O. exact limits_agree_off_steps. Qed.
Print Assumptions limits_coincide_away_from_step_points.

(* step points strictly increase (so the to_frame rows tile (-inf, inf)), step_values are the right
   limits at the step points, number_of_steps == len(step_points), step_changes is indexed by the step
   points, the first to_frame value is the initial value *)
Theorem views_agree :
  forall (D : Type) (O : Ord D) (f : stairs D), wf f ->
    ksorted (step_points f) /\
    step_values f = map (fun p => (p, lim LimRight f p)) (step_points f) /\
    number_of_steps f = length (step_points f) /\
    keys (step_changes f) = step_points f /\
    fst (to_frame f) = init f /\ snd (to_frame f) = step_values f.
Proof. intros D O. exact SamplingFacts.views_agree. Qed.
Print Assumptions views_agree.

Theorem changes_sum_to_values :
  forall (D : Type) (O : Ord D) (f : stairs D) (a : Qc),
    wf f -> has_na f = false -> init f = Some a -> step_values f = cumsum a (step_changes f).
Proof. intros D O. exact SamplingFacts.changes_sum_to_values. Qed.
Print Assumptions changes_sum_to_values.
