#!/usr/bin/env python3
"""One-off: apply the repairs of DESIGN.md section 6 to /repo as separate `fix:` commits.
Kept for reference only (it has been run; it is not part of the machinery)."""
import subprocess, sys, pathlib

REPO = pathlib.Path("/repo")


def rep(path, old, new, count=1):
    p = REPO / path
    s = p.read_text()
    assert s.count(old) == count, (path, old, s.count(old))
    p.write_text(s.replace(old, new))


def commit(msg):
    subprocess.check_call(["git", "-C", str(REPO), "commit", "-qam", msg])
    print("committed:", msg.splitlines()[0])


FIXES = []


def fix(f):
    FIXES.append(f)
    return f


@fix
def D1_D2():
    rep("staircase/core/ops/arithmetic.py",
        "                    data = data.replace(np.inf, np.nan)\n",
        "                    data = data.replace([np.inf, -np.inf], np.nan)\n")
    commit("fix: scalar division never yields -inf (c / f with c < 0 where f is 0)\n\n"
           "op_with_scalar replaced only +inf by NaN, so (-1) / f was -inf on pieces where f is 0.")
    rep("staircase/core/ops/arithmetic.py",
        "                data=data,\n                closed=self.closed,\n            )\n\n        self, other = _sanitize_binary_operands(self, other)\n        if other._data is None:\n            return op_with_scalar(",
        "                data=data,\n                closed=self.closed,\n            )._remove_redundant_step_points()\n\n        self, other = _sanitize_binary_operands(self, other)\n        if other._data is None:\n            return op_with_scalar(")
    commit("fix: multiplication/division by a scalar removes redundant step points\n\n"
           "f * 0, 0 / f and c / f kept steps between pieces of equal value, so the result was not\n"
           "minimal and identical() gave false negatives.")


@fix
def D3():
    rep("staircase/core/layering.py",
        "        self._data = deltas.sort_index().to_frame()\n        self._valid_deltas = True\n    self._valid_values = False\n",
        "        self._data = deltas.sort_index().to_frame()\n        self._valid_deltas = True\n    else:\n        self._data = None\n        self._valid_deltas = False\n    self._valid_values = False\n")
    commit("fix: scalar layer that cancels every step leaves a step-free function\n\n"
           "Stairs().layer(1, 2).layer(1, 2, -1) kept the stale frame of the first call and\n"
           "evaluated to -1 on [2, inf).")


@fix
def D28():
    rep("staircase/core/layering.py",
        "    start_series = pd.Series(value, index=df.iloc[:, 0])\n    self.initial_value += ",
        "    start_series = pd.Series(value, index=df.iloc[:, 0])\n    existing_deltas = None if self._data is None else self._get_deltas()\n    self.initial_value += ")
    rep("staircase/core/layering.py",
        "            pd.Series(-value, index=df.iloc[:, 1]),\n            self._get_deltas(),\n",
        "            pd.Series(-value, index=df.iloc[:, 1]),\n            existing_deltas,\n")
    commit("fix: vector layer reads the step changes before bumping the initial value\n\n"
           "With only step values materialised, from_values(1, {1: 2}).layer([None], [1], [1]) derived\n"
           "the step changes from the already increased initial value and lost the layer on [1, inf).")


@fix
def D4():
    rep("staircase/core/layering.py",
        "    self._clear_cache()\n    start, end, value = _preprocess_layer_args(frame, start, end, value)\n",
        "    self._clear_cache()\n    if self._data is not None and self._has_na():\n"
        "        # step changes cannot express layering inside undefined regions\n"
        "        result = self + self.__class__(closed=self.closed).layer(start, end, value, frame)\n"
        "        self.initial_value = result.initial_value\n"
        "        self._data = result._data\n"
        "        self._valid_deltas = result._valid_deltas\n"
        "        self._valid_values = result._valid_values\n"
        "        return self\n"
        "    start, end, value = _preprocess_layer_args(frame, start, end, value)\n")
    commit("fix: layering onto a partly undefined function keeps undefined regions and values\n\n"
           "The step-change encoding of undefined regions cannot absorb new changes inside or across\n"
           "them: m.layer(2.5, 6, 1) with m undefined on [2, 3) re-defined the region and shifted later\n"
           "values. Such receivers are now layered through addition of the layered intervals.")


@fix
def D5():
    rep("staircase/core/ops/relational.py",
        "                new_values = numpy_relational(values, other.initial_value)\n",
        "                new_values = numpy_relational(values, other.initial_value).astype(float)\n")
    rep("staircase/core/ops/relational.py",
        "                new_values = numpy_relational(self.initial_value, values)\n",
        "                new_values = numpy_relational(self.initial_value, values).astype(float)\n")
    commit("fix: comparison with a scalar or step-free function yields float values\n\n"
           "Inserting NaN into the boolean result produced object dtype, on which a later layer or\n"
           "addition raised TypeError, e.g. (m < 1).layer(0, 1) for m with an undefined region.")


@fix
def D18():
    rep("staircase/core/ops/relational.py",
        "                closed=other.closed if np.isnan(self.initial_value) else self.closed,\n",
        "                closed=other.closed\n                if (self._data is None and other._data is not None)\n                else self.closed,\n")
    rep("staircase/core/ops/relational.py",
        "                new_index = self._data.index\n",
        "                new_index = self._data.index\n                closed = self.closed\n")
    rep("staircase/core/ops/relational.py",
        "                new_index = other._data.index\n",
        "                new_index = other._data.index\n                closed = other.closed\n")
    rep("staircase/core/ops/relational.py",
        "                    index=new_index,\n                ),\n                closed=self.closed,\n",
        "                    index=new_index,\n                ),\n                closed=closed,\n")
    commit("fix: relational result takes the closed side of the operand that has steps\n\n"
           "Stairs(initial_value=1) < right_closed_f was left-closed, and comparing with an\n"
           "all-undefined step-free operand took that operand's side.")


@fix
def D6():
    rep("staircase/core/ops/logical.py",
        "        elif other == 0:\n            return sc.Stairs._new(0, None, closed=self.closed)\n",
        "        elif other == 0:\n            return self.make_boolean() * 0\n")
    rep("staircase/core/ops/logical.py",
        "        else:\n            return sc.Stairs._new(1, None, closed=self.closed)\n",
        "        else:\n            return self.make_boolean() * 0 + 1\n")
    commit("fix: f & 0 and f | c keep f's undefined regions\n\n"
           "The constant short-cuts returned an everywhere-defined constant, so m | 1 and m & 0 were\n"
           "defined where m is not, unlike the step/step code path and the documentation.")


@fix
def D7_D8():
    rep("staircase/core/ops/masking.py",
        "        initial_value=np.nan if op(self.initial_value, 0) else 0,\n        data=data,\n        closed=self.closed,\n    )\n",
        "        initial_value=np.nan\n        if (op(self.initial_value, 0) or np.isnan(self.initial_value))\n        else 0,\n        data=data,\n        closed=self.closed,\n    )\n")
    commit("fix: where(g) is undefined where g is undefined towards -infinity\n\n"
           "_maskify compared the NaN initial value with 0, so f.where(g) kept f on the unbounded\n"
           "piece on which g is undefined.")
    rep("staircase/core/ops/masking.py",
        "        else 0,\n        data=data,\n        closed=self.closed,\n    )\n",
        "        else 0,\n        data=data,\n        closed=self.closed,\n    )._remove_redundant_step_points()\n")
    commit("fix: mask/where by a function returns a minimal result\n\n"
           "The {NaN, 0}-valued masker kept the masker's steps between equal pieces, so masking a\n"
           "step-free function left redundant step points.")


@fix
def D30():
    rep("staircase/core/ops/masking.py",
        "    full_mask_comparator = is_full_inverse_mask if inverse else float(0).__ne__\n",
        "    def is_full_mask(initial_value):\n        return bool(initial_value != 0)\n\n"
        "    full_mask_comparator = is_full_inverse_mask if inverse else is_full_mask\n")
    commit("fix: mask by a constant-0 function with a numpy integer value keeps f\n\n"
           "float(0).__ne__(np.int64(0)) is NotImplemented (truthy), so f.mask(g >= np.float64(.5))\n"
           "with a constant-0 masker was undefined everywhere.")


@fix
def D10():
    rep("staircase/core/ops/masking.py",
        "            return sc.Stairs(initial_value=np.nan)\n",
        "            return sc.Stairs(initial_value=np.nan, closed=self.closed)\n")
    commit("fix: mask/where by a constant keeps the receiver's closed side\n\n"
           "right_closed_f.mask(Stairs(initial_value=1)) was left-closed.")


@fix
def D9():
    rep("staircase/core/ops/masking.py",
        "        return _mask_stairs(\n            self, sc.Stairs().layer(start=left, end=right), inverse=False\n        )\n",
        "        return _mask_stairs(\n            self,\n            sc.Stairs(closed=self.closed).layer(start=left, end=right),\n            inverse=False,\n        )\n")
    commit("fix: mask((a, b)) works on right-closed functions\n\n"
           "The tuple shorthand built a left-closed indicator, so it raised ClosedMismatchError for\n"
           "every right-closed function with steps (and so did StairsSlicer.resample).")


@fix
def D15():
    rep("staircase/core/ops/masking.py",
        "    if lower == -inf and upper == inf:\n        return self\n",
        "    if lower == -inf and upper == inf:\n        return self.copy()\n")
    commit("fix: clip without bounds returns a copy, not the receiver\n\n"
           "f.clip(None, None) is f, so layering onto the result silently edited f.")


@fix
def D11():
    rep("staircase/core/ops/masking.py",
        "    return self.fillna(0) + value * self.isna()\n",
        "    filled = self.fillna(0) + value.fillna(0) * self.isna()\n"
        "    result = filled.mask(self.isna() & value.isna())\n"
        "    if not self.number_of_steps and value.number_of_steps:\n"
        "        result._closed = value.closed\n"
        "    else:\n"
        "        result._closed = self.closed\n"
        "    return result\n")
    commit("fix: fillna with a step function only changes undefined points\n\n"
           "fillna(0) + g * isna(f) is undefined wherever g is, even where f is defined. The filler's\n"
           "undefined regions are now filled before combining and re-applied only where f is undefined\n"
           "too; the result keeps the closed side of the operand that has steps.")


@fix
def D12():
    rep("staircase/core/stairs.py",
        '                    "mean": stairs.mean,\n                    "std": stairs.std,\n                    "min": stairs.min,\n',
        '                    "mean": stairs.mean(),\n                    "std": stairs.std(),\n                    "min": stairs.min(),\n')
    rep("staircase/core/stairs.py",
        '                **{"max": stairs.max},\n',
        '                **{"max": stairs.max()},\n')
    commit("fix: describe reports numbers for mean, std, min and max\n\n"
           "The four entries were bound methods, not their values.")


@fix
def D16():
    rep("staircase/core/stairs.py",
        "        if self._data is None:\n            return Stairs(initial_value=self.initial_value)\n        return Stairs._new(\n            initial_value=self.initial_value,\n            data=self._data.set_index(",
        "        if self._data is None:\n            return Stairs(initial_value=self.initial_value, closed=self.closed)\n        return Stairs._new(\n            initial_value=self.initial_value,\n            data=self._data.set_index(")
    commit("fix: shift of a step-free function keeps its closed side\n\n"
           "Stairs(initial_value=1, closed='right').shift(1) was left-closed.")


@fix
def D27():
    rep("staircase/core/stairs.py",
        "        new_instance._valid_values = True\n        return new_instance\n\n    def _has_na",
        "        new_instance._valid_values = True\n        return new_instance._remove_redundant_step_points()\n\n    def _has_na")
    commit("fix: from_values returns a minimal step function\n\n"
           "from_values(0, Series([0, 0, 1, 1])) kept 4 steps, so it was not identical to the same\n"
           "function built by layering and number_of_steps counted non-changes.")


@fix
def D29():
    rep("staircase/core/stairs.py",
        '    class_name = "Stairs"\n\n    @Appender(docstrings.Stairs_docstring, join="\\n", indents=2)\n',
        '    class_name = "Stairs"\n\n    # numpy scalars on the left-hand side must defer to the reflected operators\n    __array_ufunc__ = None\n\n    @Appender(docstrings.Stairs_docstring, join="\\n", indents=2)\n')
    commit("fix: numpy scalars on the left of an operator defer to Stairs\n\n"
           "np.float64(0.5) > f was evaluated by numpy's own dispatch and returned numpy.bool_\n"
           "instead of a step function.")


@fix
def D19():
    rep("staircase/core/ops/arithmetic.py",
        "                data = self._data.copy()\n                if self._valid_values:\n                    data[\"value\"] = series_op(data[\"value\"], other.initial_value)\n",
        "                if np.isnan(self.initial_value):\n"
        "                    # first step change is absolute when undefined towards -inf\n"
        "                    data = pd.DataFrame(\n"
        "                        {\"value\": series_op(self._get_values(), other.initial_value)}\n"
        "                    )\n"
        "                else:\n"
        "                    data = self._data.copy()\n"
        "                    if self._valid_values:\n"
        "                        data[\"value\"] = series_op(data[\"value\"], other.initial_value)\n")
    rep("staircase/core/ops/arithmetic.py",
        "                data = other._data.copy()\n                if other._valid_values:\n                    data[\"value\"] = series_rop(data[\"value\"], self.initial_value)\n                if other._valid_deltas:\n                    data[\"delta\"] = series_rop(data[\"delta\"], 0)\n",
        "                if np.isnan(other.initial_value):\n"
        "                    data = pd.DataFrame(\n"
        "                        {\"value\": series_rop(other._get_values(), self.initial_value)}\n"
        "                    )\n"
        "                else:\n"
        "                    data = other._data.copy()\n"
        "                    if other._valid_values:\n"
        "                        data[\"value\"] = series_rop(data[\"value\"], self.initial_value)\n"
        "                    if other._valid_deltas:\n"
        "                        data[\"delta\"] = series_rop(data[\"delta\"], 0)\n")
    commit("fix: adding a constant to a function undefined towards -infinity shifts its values\n\n"
           "With only step changes materialised, t + 5 copied the changes unchanged; the first change\n"
           "is absolute when the initial value is NaN, so the result equalled t.")


@fix
def D23():
    rep("staircase/core/stats/statistic.py",
        "    if right_index == -1:\n        return np.array([self.initial_value])\n",
        "    if right_index == -1:\n        initial = np.array([self.initial_value], dtype=float)\n        return initial[~np.isnan(initial)]\n")
    rep("staircase/core/stats/statistic.py",
        "    return min(self.values_in_range(where, closed))\n",
        "    values = self.values_in_range(where, closed)\n    return min(values) if len(values) else np.nan\n")
    rep("staircase/core/stats/statistic.py",
        "    return max(self.values_in_range(where, closed))\n",
        "    values = self.values_in_range(where, closed)\n    return max(values) if len(values) else np.nan\n")
    commit("fix: values_in_range drops NaN for step-free functions; min/max of no values is NaN\n\n"
           "Stairs(initial_value=nan).values_in_range((1, 2)) returned [nan], and f.agg('max', w)\n"
           "raised ValueError when f is undefined on all of w although f.clip(*w).max() is NaN.")


@fix
def D13():
    for a, b in (("np.maximum", "np.fmax"), ("np.minimum", "np.fmin")):
        rep("staircase/core/slicing.py", a + "(result, self._stairs(self._interval_index.right))",
            b + "(result, self._stairs(self._interval_index.right))")
        rep("staircase/core/slicing.py", a + "(result, self._stairs(self._interval_index.left))",
            b + "(result, self._stairs(self._interval_index.left))")
    commit("fix: slicer min/max ignore an undefined endpoint sample\n\n"
           "np.maximum/np.minimum propagate NaN, so a closed endpoint at which f is undefined made\n"
           "the whole slice's min/max NaN.")


@fix
def D24():
    rep("staircase/core/slicing.py",
        "        return (\n            self._stairs.mask((left_bound, right_bound))\n            .fillna(0)\n            .mask(stairs_na)\n            .layer(new_values.index.left, new_values.index.right, new_values.values)\n        )\n",
        "        defined = new_values.notna().values\n"
        "        result = (\n            self._stairs.mask((left_bound, right_bound))\n            .fillna(0)\n            .mask(stairs_na)\n"
        "            .layer(\n                new_values.index.left[defined],\n                new_values.index.right[defined],\n                new_values.values[defined],\n            )\n        )\n"
        "        # a slice without a defined statistic stays undefined\n"
        "        for interval in new_values.index[~defined]:\n"
        "            result = result.mask((interval.left, interval.right))\n"
        "        return result\n")
    commit("fix: resample leaves a slice undefined when its statistic is undefined\n\n"
           "A slice on which f has no defined piece has a NaN statistic; layering it raised\n"
           "AssertionError.")


@fix
def D17_D20():
    rep("staircase/core/arrays/extension.py",
        "from staircase.core.arrays import docstrings\nfrom staircase.core.stairs import Stairs\n",
        "from staircase.core.arrays import docstrings\nfrom staircase.core.ops.common import _assert_closeds_equal\nfrom staircase.core.stairs import Stairs\n")
    rep("staircase/core/arrays/extension.py",
        "    def agg(self, func):\n        index = pd.Index(\n",
        "    def agg(self, func):\n"
        "        with_steps = [sf for sf in self.data if sf.number_of_steps]\n"
        "        for sf in with_steps[1:]:\n"
        "            _assert_closeds_equal(with_steps[0], sf)\n"
        "        closed = with_steps[0].closed if with_steps else self.data[0].closed\n"
        "        index = pd.Index(\n")
    rep("staircase/core/arrays/extension.py",
        "            closed=self.data[0].closed,\n        )._remove_redundant_step_points()\n",
        "            closed=closed,\n        )._remove_redundant_step_points()\n")
    commit("fix: collection aggregation takes the side of members with steps and rejects mixed sides\n\n"
           "sc.sum([left_closed_constant, right_closed_f]) was left-closed, and aggregating left- and\n"
           "right-closed functions that both have steps silently chose the first member's side.")
    rep("staircase/core/arrays/extension.py",
        "        closed = with_steps[0].closed if with_steps else self.data[0].closed\n",
        "        closed = with_steps[0].closed if with_steps else self.data[0].closed\n"
        "        if not with_steps:\n"
        "            return Stairs(\n"
        "                initial_value=func([s.initial_value for s in self.data]) * 1,\n"
        "                closed=closed,\n"
        "            )\n")
    commit("fix: aggregating step-free functions returns the aggregated constant\n\n"
           "sc.max([Stairs(initial_value=1), Stairs(initial_value=2)]) raised ValueError from\n"
           "np.concatenate([]).")


if __name__ == "__main__":
    for f in FIXES:
        f()
