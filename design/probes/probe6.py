import warnings; warnings.simplefilter("ignore")
import numpy as np, pandas as pd, itertools
import staircase as sc
from staircase import Stairs
def tf(s): 
    fr=s.to_frame(); return (s.closed, [(str(a),str(b),None if pd.isna(v) else float(v)) for a,b,v in zip(fr.start,fr.end,fr.value)])
# C14: query; layer; query vs fresh
Q={"integral":lambda s:s.integral(),"mean":lambda s:s.mean(),"var":lambda s:s.var(),"min":lambda s:s.min(),"max":lambda s:s.max(),
   "value_sums":lambda s:s.value_sums().to_dict(),"ecdf":lambda s:float(s.ecdf(1)),"percentile":lambda s:float(s.percentile(30)),
   "fractile":lambda s:float(s.fractile(0.3)),"median":lambda s:s.median(),"mode":lambda s:s.mode(),"hist":lambda s:s.hist().to_dict(),"describe50":lambda s:s.describe()["50%"]}
bad=[]
for qn,q in Q.items():
    for mut in [lambda s:s.layer(2,6,3), lambda s:s.layer([2],[6],[3]), lambda s:s.layer(None,3,2), lambda s: s.layer(1,3,-2)]:
        s=Stairs().layer(1,3,2).layer(2,5,-1)
        a=q(s); mut(s); b=q(s); fresh=q(s.copy())
        if str(b)!=str(fresh): bad.append((qn,b,fresh))
print("C14 stale:",bad)
# C13: op; mutate result (scalar layer at existing point); observe operands
f=lambda: Stairs().layer(1,3,2).layer(2,5,-1)
g=lambda: Stairs().layer(2,4,1)
OPS={"neg":lambda a,b:-a,"add":lambda a,b:a+b,"add_c":lambda a,b:a+1,"radd_c":lambda a,b:1+a,"mul_c":lambda a,b:a*2,"lt":lambda a,b:a<b,"lt_c":lambda a,b:a<1,
 "or":lambda a,b:a|b,"invert":lambda a,b:~a,"clip":lambda a,b:a.clip(0,10),"clipnone":lambda a,b:a.clip(None,None),"mask":lambda a,b:a.mask(b),"mask_c0":lambda a,b:a.mask(Stairs(initial_value=0)),
 "where_t":lambda a,b:a.where((None,None)),"fillna":lambda a,b:a.fillna(0),"fillna_m":lambda a,b:a.fillna("ffill"),"isna":lambda a,b:a.isna(),"shift":lambda a,b:a.shift(0),"shift1":lambda a,b:a.shift(1),
 "copy":lambda a,b:a.copy(),"sum":lambda a,b:sc.sum([a,b]),"sum1":lambda a,b:sc.sum([a]),"diff":lambda a,b:a.diff(1),"make_boolean":lambda a,b:a.make_boolean(),"arr":lambda a,b:(sc.StairsArray([a,b])+1)[0],
 "slice_apply":lambda a,b:a.slice([0,10]).apply(lambda s:s)[0] if False else a.slice(pd.IntervalIndex.from_tuples([(0,10)])).apply(lambda s:s).iloc[0]}
for mat in ("d","dv"):
  for on,op in OPS.items():
    a=f(); b=g()
    if mat=="dv": a.step_values; b.step_values
    a0,b0=tf(a),tf(b)
    r=op(a,b)
    if tf(a)!=a0 or tf(b)!=b0: print("C13 operand changed by op",on,mat)
    r0=tf(r)
    for mname,mut in [("scalar@existing",lambda s:s.layer(2,3,5)),("scalar@new",lambda s:s.layer(2.5,3.5,5)),("vector",lambda s:s.layer([2],[3],[5]))]:
        a=f(); b=g()
        if mat=="dv": a.step_values; b.step_values
        r=op(a,b); mut(r)
        if tf(a)!=a0 or tf(b)!=b0: print("C13 operand changed after mutating result:",on,mat,mname, "is:", r is a)
        a=f(); b=g()
        if mat=="dv": a.step_values; b.step_values
        r=op(a,b); r0=tf(r); mut(a); mut(b)
        if tf(r)!=r0: print("C13 result changed after mutating operand:",on,mat,mname)
print("C13 done")
