# exploratory reference oracle (piece tables), for probing only
import warnings; warnings.simplefilter("ignore")
import math, random, itertools, operator, sys
import numpy as np, pandas as pd
import staircase as sc
from staircase import Stairs
NAN = None
class PF:  # piece function: pts sorted, vals len(pts)+1, closed
    def __init__(s, pts, vals, closed="left"):
        s.pts=list(pts); s.vals=list(vals); s.closed=closed
    def canon(s):
        pts=[];vals=[s.vals[0]]
        for p,v in zip(s.pts,s.vals[1:]):
            if v!=vals[-1]: pts.append(p); vals.append(v)
        return PF(pts,vals,s.closed)
    def __repr__(s): return f"PF({s.pts},{s.vals},{s.closed})"
def from_stairs(st):
    fr=st.to_frame()
    vals=[None if (isinstance(v,float) and math.isnan(v)) or pd.isna(v) else float(v) for v in fr["value"]]
    pts=[float(x) for x in fr["start"].iloc[1:]]
    return PF(pts,vals,st.closed)
def build(pf):
    """build a Stairs from a PF via from_values / or const"""
    if not pf.pts:
        return Stairs(initial_value=np.nan if pf.vals[0] is None else pf.vals[0], closed=pf.closed)
    s=pd.Series([np.nan if v is None else v for v in pf.vals[1:]], index=pf.pts, dtype=float)
    return Stairs.from_values(np.nan if pf.vals[0] is None else pf.vals[0], s, closed=pf.closed)
def merge(a,b,op):
    pts=sorted(set(a.pts)|set(b.pts))
    def val(pf,i,pts):
        # value of piece i of merged (piece i is before pts[i], i in 0..len)
        # find piece in pf: number of pf.pts <= left boundary
        if i==0: return pf.vals[0]
        lb=pts[i-1]
        k=sum(1 for p in pf.pts if p<=lb)
        return pf.vals[k]
    vals=[op(val(a,i,pts),val(b,i,pts)) for i in range(len(pts)+1)]
    return PF(pts,vals,a.closed if a.pts or not b.pts else b.closed).canon()
def lift(f):
    def g(x,y):
        if x is None or y is None: return None
        return f(x,y)
    return g
def div(x,y):
    if x is None or y is None or y==0: return None
    return x/y
OPS={"add":lift(operator.add),"sub":lift(operator.sub),"mul":lift(operator.mul),"div":div,
 "lt":lift(lambda x,y: float(x<y)),"le":lift(lambda x,y: float(x<=y)),"gt":lift(lambda x,y: float(x>y)),"ge":lift(lambda x,y: float(x>=y)),
 "eq":lift(lambda x,y: float(x==y)),"ne":lift(lambda x,y: float(x!=y)),
 "and":lift(lambda x,y: float(bool(x) and bool(y))),"or":lift(lambda x,y: float(bool(x) or bool(y))),"xor":lift(lambda x,y: float(bool(x)!=bool(y)))}
PYOPS={"add":operator.add,"sub":operator.sub,"mul":operator.mul,"div":operator.truediv,"lt":operator.lt,"le":operator.le,"gt":operator.gt,"ge":operator.ge,
 "eq":operator.eq,"ne":operator.ne,"and":operator.and_,"or":operator.or_,"xor":operator.xor}
def same(pf, st):
    got=from_stairs(st)
    return got.canon().pts==pf.pts and got.canon().vals==pf.vals, got
def rand_pf(rng, closed="left", maxn=4, allow_nan=True):
    n=rng.choice([0,0,1,2,3,maxn])
    pts=sorted(rng.sample([0,1,2,3,4,5],n))
    pool=[-2.0,-1.0,0.0,0.0,1.0,2.0]+([None,None] if allow_nan else [])
    vals=[rng.choice(pool) for _ in range(n+1)]
    return PF(pts,vals,closed).canon()
