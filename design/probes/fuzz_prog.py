from ref import *
from fuzz_un import restrict, ffill, bfill, pw
import collections
rng=random.Random(21)
fails=collections.defaultdict(list)
N=int(sys.argv[1]) if len(sys.argv)>1 else 2000
def build_variant(pf, rng):
    route=rng.choice(["from_values","layer","layer_vec"]) if all(v is not None for v in pf.vals) else "from_values"
    if route=="from_values" or not pf.pts:
        s=build(pf)
    else:
        s=Stairs(initial_value=pf.vals[0],closed=pf.closed)
        starts=pf.pts; ends=[None]*len(pf.pts); vals=[pf.vals[i+1]-pf.vals[i] for i in range(len(pf.pts))]
        if route=="layer":
            for a,v in zip(starts,vals): s.layer(a,None,v)
        else: s.layer(starts,ends,vals)
    r=rng.random()
    if r<0.3: s.step_values
    elif r<0.6: s.step_changes
    elif r<0.7: s.step_values; s.step_changes
    return s,route
def rnd_expr(depth):
    if depth==0 or rng.random()<0.2:
        return ("leaf", rand_pf(rng, CL))
    k=rng.choice(["bin","bin","bin","un","clip","mask","where","fillna_s","fillna_m","fillna_st","shift","scal"])
    if k=="bin": return ("bin", rng.choice(list(OPS)), rnd_expr(depth-1), rnd_expr(depth-1))
    if k=="scal": return ("scal", rng.choice(list(OPS)), rnd_expr(depth-1), rng.choice([0.0,1.0,-2.0,0.5,None]), rng.random()<0.5)
    if k=="un": return ("un", rng.choice(["neg","invert","bool","isna","notna"]), rnd_expr(depth-1))
    if k=="clip":
        lo=rng.choice([None,0,1,1.5,2]); hi=rng.choice([None,2.5,3,4,6])
        return ("clip",lo,hi,rnd_expr(depth-1))
    if k in("mask","where","fillna_st"): return (k, rnd_expr(depth-1), rnd_expr(depth-1))
    if k=="fillna_s": return (k, rnd_expr(depth-1))
    if k=="fillna_m": return (k, rng.choice(["ffill","bfill"]), rnd_expr(depth-1))
    if k=="shift": return (k, rng.choice([-1,0.5,2]), rnd_expr(depth-1))
def ev_ref(e):
    t=e[0]
    if t=="leaf": return e[1]
    if t=="bin": r=merge(ev_ref(e[2]),ev_ref(e[3]),OPS[e[1]]); r.closed=CL; return r
    if t=="scal":
        a=ev_ref(e[2]); c=PF([],[e[3]],CL)
        r=merge(c,a,OPS[e[1]]) if e[4] else merge(a,c,OPS[e[1]]); r.closed=CL; return r
    if t=="un":
        f={"neg":lambda v: None if v is None else -v,"invert":lambda v: None if v is None else float(v==0),"bool":lambda v: None if v is None else float(v!=0),
           "isna":lambda v: 1.0 if v is None else 0.0,"notna":lambda v: 0.0 if v is None else 1.0}[e[1]]
        return pw(ev_ref(e[2]),f)
    if t=="clip": return restrict(ev_ref(e[3]),e[1],e[2])
    if t=="mask": r=merge(ev_ref(e[1]),ev_ref(e[2]),lambda x,y: None if (y is None or y!=0) else x); r.closed=CL; return r
    if t=="where": r=merge(ev_ref(e[1]),ev_ref(e[2]),lambda x,y: None if (y is None or y==0) else x); r.closed=CL; return r
    if t=="fillna_st": r=merge(ev_ref(e[1]),ev_ref(e[2]),lambda x,y: y if x is None else x); r.closed=CL; return r
    if t=="fillna_s": return pw(ev_ref(e[1]),lambda v: 7.0 if v is None else v)
    if t=="fillna_m": return ffill(ev_ref(e[2])) if e[1]=="ffill" else bfill(ev_ref(e[2]))
    if t=="shift": a=ev_ref(e[2]); return PF([p+e[1] for p in a.pts],a.vals,CL)
def ev_py(e):
    t=e[0]
    if t=="leaf": return build_variant(e[1],rng)[0]
    if t=="bin": return PYOPS[e[1]](ev_py(e[2]),ev_py(e[3]))
    if t=="scal":
        c=np.nan if e[3] is None else rng.choice([float,np.float64,lambda x:int(x) if x==int(x) else x])(e[3])
        a=ev_py(e[2]); return PYOPS[e[1]](c,a) if e[4] else PYOPS[e[1]](a,c)
    if t=="un":
        a=ev_py(e[2]); return {"neg":lambda:-a,"invert":lambda:~a,"bool":lambda:a.make_boolean(),"isna":lambda:a.isna(),"notna":lambda:a.notna()}[e[1]]()
    if t=="clip": return ev_py(e[3]).clip(e[1],e[2])
    if t=="mask": return ev_py(e[1]).mask(ev_py(e[2]))
    if t=="where": return ev_py(e[1]).where(ev_py(e[2]))
    if t=="fillna_st": return ev_py(e[1]).fillna(ev_py(e[2]))
    if t=="fillna_s": return ev_py(e[1]).fillna(7)
    if t=="fillna_m": return ev_py(e[2]).fillna(e[1])
    if t=="shift": return ev_py(e[2]).shift(e[1])
def valid(e):
    t=e[0]
    if t=="clip": return (e[1] is None or e[2] is None or e[1]<e[2]) and valid(e[3])
    return all(valid(x) for x in e[1:] if isinstance(x,tuple))
def inexact(pf): return any(v is not None and abs(v*64-round(v*64))>1e-12 for v in pf.vals)
for it in range(N):
    CL=rng.choice(["left","right"])
    e=rnd_expr(3)
    if not valid(e): continue
    exp=ev_ref(e).canon()
    if inexact(exp) : continue
    try:
        R=ev_py(e)
        ok,got=same(exp,R)
        if not ok: fails[("value",e[0])].append((e,exp,got))
        elif got.pts!=got.canon().pts: fails[("nonminimal",e[0])].append((e,exp,got))
        if R.closed!=CL: fails[("closed",e[0])].append((e,R.closed))
    except Exception as ex:
        fails[("exc",type(ex).__name__,str(ex)[:50])].append((e,))
for k,v in sorted(fails.items(), key=lambda kv: str(kv[0])):
    print(k,len(v)); v=sorted(v,key=lambda t: len(str(t))); print("   e.g.",v[0])
print("done")
