from ref import *
import collections
rng=random.Random(5)
fails=collections.defaultdict(list)
N=int(sys.argv[1]) if len(sys.argv)>1 else 1500
def fn(a,x):
    if a.closed=="left": k=sum(1 for p in a.pts if p<=x)
    else: k=sum(1 for p in a.pts if p<x)
    return a.vals[k]
def vir(a, lo, hi, cl):
    cands=set()
    allp=sorted(set(a.pts)|{lo,hi})
    ext=[allp[0]-1]+allp+[allp[-1]+1]
    for i in range(len(ext)):
        cands.add(ext[i])
        if i+1<len(ext): cands.add((ext[i]+ext[i+1])/2)
    def inside(x):
        if x<lo or (x==lo and cl not in("left","both")): return False
        if x>hi or (x==hi and cl not in("right","both")): return False
        return True
    return sorted({fn(a,x) for x in cands if inside(x) and fn(a,x) is not None})
def pieces_in(a,lo,hi):
    pts=sorted(set(a.pts)|{lo,hi}); out=[]
    for i in range(len(pts)-1):
        if pts[i]>=lo and pts[i+1]<=hi:
            k=sum(1 for p in a.pts if p<=pts[i]); v=a.vals[k]
            if v is not None: out.append((pts[i+1]-pts[i],v))
    return out
def close(x,y):
    if isinstance(x,float) and math.isnan(x): return y is None or (isinstance(y,float) and math.isnan(y))
    if y is None: return False
    return abs(x-y)<=1e-9*(1+abs(y))
for it in range(N):
    closed=rng.choice(["left","right"])
    a=rand_pf(rng,closed,maxn=5)
    A=build(a)
    icl=rng.choice(["left","right","both","neither"])
    kind=rng.choice(["breaks","overlap"])
    if kind=="breaks":
        br=sorted(rng.sample([0,1,2,2.5,3,4,5,6],rng.choice([2,3,4])))
        ii=pd.IntervalIndex.from_breaks(br,closed=icl)
    else:
        ls=[rng.choice([0,1,2,3]) for _ in range(3)]; rs=[l+rng.choice([1,2,2.5]) for l in ls]
        ii=pd.IntervalIndex.from_arrays(ls,rs,closed=icl)
    try:
        sl=A.slice(ii)
        for stat in ["mean","integral","min","max","median","mode"]:
            try:
                res=getattr(sl,stat)()
            except Exception as ex:
                fails[(stat,"exc",type(ex).__name__,str(ex)[:40])].append((a,ii)); continue
            for iv,got in zip(ii,res):
                ps=pieces_in(a,iv.left,iv.right)
                if stat in("min","max"):
                    vs=vir(a,iv.left,iv.right,icl)
                    exp=(min(vs) if stat=="min" else max(vs)) if vs else None
                elif not ps: exp=None
                elif stat=="integral": exp=sum(l*v for l,v in ps)
                elif stat=="mean": exp=sum(l*v for l,v in ps)/sum(l for l,v in ps)
                else: continue
                if not close(float(got),exp): fails[(stat,"value",closed,icl)].append((a,iv,exp,got))
        if kind=="breaks":
            try:
                R=sl.resample("mean")
                # expected
                pts=sorted(set(a.pts)|set(br)); 
                def val(lb):
                    if lb>=br[0] and lb<br[-1]:
                        j=max(i for i in range(len(br)-1) if br[i]<=lb)
                        ps=pieces_in(a,br[j],br[j+1])
                        return sum(l*v for l,v in ps)/sum(l for l,v in ps) if ps else None
                    k=sum(1 for p in a.pts if p<=lb); return a.vals[k]
                exp=PF(pts,[val(-math.inf)]+[val(p) for p in pts],closed).canon()
                got=from_stairs(R).canon()
                okv=len(got.vals)==len(exp.vals) and got.pts==exp.pts and all((x is None and y is None) or (x is not None and y is not None and abs(x-y)<1e-9) for x,y in zip(got.vals,exp.vals))
                if not okv: fails[("resample","value","nan" if None in a.vals else "plain")].append((a,br,exp,got))
            except Exception as ex:
                fails[("resample","exc",type(ex).__name__,closed)].append((a,br,str(ex)[:50]))
    except Exception as ex:
        fails[("exc",type(ex).__name__,str(ex)[:40])].append((a,ii))
for k,v in sorted(fails.items(), key=lambda kv: str(kv[0])):
    print(k,len(v)); 
    v=sorted(v,key=lambda t: len(str(t)))
    print("   e.g.",v[0])
