from ref import *
import collections
rng=random.Random(6)
fails=collections.defaultdict(list)
N=int(sys.argv[1]) if len(sys.argv)>1 else 1500
def pieces_common(a,b,lo,hi):
    pts=sorted(set(a.pts)|set(b.pts)|{lo,hi}); out=[]
    for i in range(len(pts)-1):
        if pts[i]>=lo and pts[i+1]<=hi:
            ka=sum(1 for p in a.pts if p<=pts[i]); kb=sum(1 for p in b.pts if p<=pts[i])
            va=a.vals[ka]; vb=b.vals[kb]
            if va is not None and vb is not None: out.append((pts[i+1]-pts[i],va,vb))
    return out
def close(x,y):
    if isinstance(x,float) and math.isnan(x): return y is None
    if y is None: return False
    return abs(x-y)<=1e-9*(1+abs(y))
def shift(a,d): return PF([p+d for p in a.pts],a.vals,a.closed)
for it in range(N):
    closed=rng.choice(["left","right"])
    a=rand_pf(rng,closed,maxn=5); b=rand_pf(rng,closed,maxn=5)
    A=build(a); B=build(b)
    lo=rng.choice([0,1,1.5]); hi=rng.choice([3,4,6])
    lag=rng.choice([0,0,1,-1,0.5]); clip=rng.choice(["pre","post"])
    try:
        b2=shift(b,-lag) if lag else b
        hi2=hi-lag if (lag and clip=="pre") else hi
        if lo>=hi2: continue
        ps=pieces_common(a,b2,lo,hi2)
        if ps:
            T=sum(l for l,_,_ in ps); ea=sum(l*x for l,x,_ in ps)/T; eb=sum(l*y for l,_,y in ps)/T; eab=sum(l*x*y for l,x,y in ps)/T
            cov=eab-ea*eb; va=sum(l*(x-ea)**2 for l,x,_ in ps)/T; vb=sum(l*(y-eb)**2 for l,_,y in ps)/T
            corr=None if va*vb==0 else cov/math.sqrt(va*vb)
        else: cov=None; corr=None
        got=A.cov(B,where=(lo,hi),lag=lag,clip=clip)
        if not close(float(got),cov): fails[("cov","lag" if lag else "nolag",clip if lag else "")].append((a,b,lo,hi,lag,clip,cov,got))
        try:
            gotc=A.corr(B,where=(lo,hi),lag=lag,clip=clip)
            if not close(float(gotc),corr): fails[("corr","lag" if lag else "nolag")].append((a,b,lo,hi,lag,clip,corr,gotc))
        except Exception as ex: fails[("corr","exc",type(ex).__name__,str(ex)[:40], "nodata" if not ps else "")].append((a,b,lo,hi,lag,clip))
    except Exception as ex:
        fails[("exc",type(ex).__name__,str(ex)[:40],"nodata" if not ps else "")].append((a,b,lo,hi,lag,clip))
for k,v in sorted(fails.items(), key=lambda kv: str(kv[0])):
    print(k,len(v)); 
    v=sorted(v,key=lambda t: len(str(t)))
    print("   e.g.",v[0])
