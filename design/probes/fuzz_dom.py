import warnings; warnings.simplefilter("ignore")
import math, random, sys, collections
import numpy as np, pandas as pd
import staircase as sc
from staircase import Stairs
rng=random.Random(11)
DOMS={
 "float": (lambda q: float(q), lambda d: float(d)),
 "int4": (lambda q: int(round(q*4)), lambda d: int(round(d*4))),
 "naive": (lambda q: pd.Timestamp("2020-03-01")+pd.Timedelta(hours=q), lambda d: pd.Timedelta(hours=d)),
 "utc": (lambda q: pd.Timestamp("2020-03-01",tz="UTC")+pd.Timedelta(hours=q), lambda d: pd.Timedelta(hours=d)),
 "syd": (lambda q: pd.Timestamp("2020-04-04 20:00",tz="Australia/Sydney")+pd.Timedelta(hours=q), lambda d: pd.Timedelta(hours=d)),
 "td": (lambda q: pd.Timedelta(hours=q), lambda d: pd.Timedelta(hours=d)),
}
def back(name, x):
    if name=="float": return float(x)
    if name=="int4": return x/4
    if name=="naive": return (pd.Timestamp(x)-pd.Timestamp("2020-03-01"))/pd.Timedelta(hours=1)
    if name=="utc": return (pd.Timestamp(x)-pd.Timestamp("2020-03-01",tz="UTC"))/pd.Timedelta(hours=1)
    if name=="syd":
        x=pd.Timestamp(x)
        if x.tzinfo is None: x=x.tz_localize("UTC")
        return (x-pd.Timestamp("2020-04-04 20:00",tz="Australia/Sydney"))/pd.Timedelta(hours=1)
    if name=="td": return pd.Timedelta(x)/pd.Timedelta(hours=1)
def lenback(name,x):
    if name=="float": return float(x)
    if name=="int4": return x/4
    return pd.Timedelta(x)/pd.Timedelta(hours=1)
def canon(name, st):
    fr=st.to_frame(); out=[]
    for s,v in zip(fr["start"].iloc[1:], fr["value"].iloc[1:]): out.append((round(back(name,s),9), None if pd.isna(v) else float(v)))
    v0=fr["value"].iloc[0]
    return (st.closed, None if pd.isna(v0) else float(v0), out)
def num(x):
    if x is None: return None
    try:
        if pd.isna(x): return None
    except Exception: pass
    return round(float(x),9)
fails=collections.defaultdict(list)
def build(name, closed, ivs):
    P,Dl=DOMS[name]
    s=Stairs(closed=closed)
    for (a,b,v) in ivs: s.layer(None if a is None else P(a), None if b is None else P(b), v)
    return s
PROGS={
 "add": lambda n,f,g,P,Dl: canon(n,f+g),
 "mul": lambda n,f,g,P,Dl: canon(n,f*g),
 "lt": lambda n,f,g,P,Dl: canon(n,f<g),
 "or": lambda n,f,g,P,Dl: canon(n,f|g),
 "clip": lambda n,f,g,P,Dl: canon(n,f.clip(P(1),P(3.5))),
 "masktuple": lambda n,f,g,P,Dl: canon(n,f.mask((P(1),P(3)))),
 "wheretuple": lambda n,f,g,P,Dl: canon(n,f.where((P(1),None))),
 "mask": lambda n,f,g,P,Dl: canon(n,f.mask(g)),
 "fillna": lambda n,f,g,P,Dl: canon(n,f.mask((P(1),P(2))).fillna("ffill")),
 "fillna_st": lambda n,f,g,P,Dl: canon(n,f.mask((P(1),P(2))).fillna(g)),
 "shift": lambda n,f,g,P,Dl: canon(n,f.shift(Dl(1.5))),
 "diff": lambda n,f,g,P,Dl: canon(n,f.diff(Dl(1))),
 "sample": lambda n,f,g,P,Dl: [num(x) for x in f.sample([P(0),P(1),P(2.5),P(7)])],
 "limit": lambda n,f,g,P,Dl: [num(f.limit(P(2),"left")), num(f.limit(P(2),"right"))],
 "vir": lambda n,f,g,P,Dl: [num(x) for x in f.values_in_range((P(1),P(3)),"both")],
 "minmax": lambda n,f,g,P,Dl: [num(f.agg("min",(P(1),P(3)))), num(f.agg("max",(P(1),P(3)),"right"))],
 "integral": lambda n,f,g,P,Dl: num(lenback(n,f.integral())) if f.number_of_steps>1 else None,
 "mean": lambda n,f,g,P,Dl: num(f.mean()),
 "var": lambda n,f,g,P,Dl: num(f.var()) if f.number_of_steps>1 else None,
 "aggmean": lambda n,f,g,P,Dl: num(f.agg("mean",(P(0),P(4)))),
 "value_sums": lambda n,f,g,P,Dl: sorted((num(k),num(lenback(n,v))) for k,v in f.value_sums().items()) if f.number_of_steps>1 else None,
 "percentile": lambda n,f,g,P,Dl: [num(f.percentile(p)) for p in (0,25,50,100)] if f.number_of_steps>1 else None,
 "hist": lambda n,f,g,P,Dl: [num(lenback(n,x)) for x in f.hist(bins=[-3,0,1,4]).values] if f.number_of_steps>1 else None,
 "slice_mean": lambda n,f,g,P,Dl: [num(x) for x in f.slice([P(0),P(2),P(4)]).mean()],
 "slice_max": lambda n,f,g,P,Dl: [num(x) for x in f.slice([P(0),P(2),P(4)],closed="right").max()],
 "resample": lambda n,f,g,P,Dl: canon(n,f.slice([P(0),P(2),P(4)]).resample("mean")),
 "rolling": lambda n,f,g,P,Dl: [(round(back(n,k),9),num(v)) for k,v in f.rolling_mean(window=(Dl(-1),Dl(1)),where=(P(0),P(6))).items()],
 "cov": lambda n,f,g,P,Dl: num(f.cov(g,where=(P(0),P(6)))),
 "covlag": lambda n,f,g,P,Dl: num(f.cov(g,where=(P(0),P(6)),lag=Dl(1))),
 "corr": lambda n,f,g,P,Dl: num(f.corr(g,where=(P(0),P(6)))),
 "sum": lambda n,f,g,P,Dl: canon(n,sc.sum([f,g])),
 "max": lambda n,f,g,P,Dl: canon(n,sc.max([f,g])),
 "arrsample": lambda n,f,g,P,Dl: [[num(x) for x in row] for row in sc.sample([f,g],[P(1),P(2)]).values],
 "describe": lambda n,f,g,P,Dl: None,
 "identical": lambda n,f,g,P,Dl: (f+g).identical(g+f),
}
N=int(sys.argv[1]) if len(sys.argv)>1 else 150
for it in range(N):
    closed=rng.choice(["left","right"])
    def ivs():
        return [(rng.choice([None,0,0.5,1,2,3]), rng.choice([None,2,3,4,5,5.5]), rng.choice([1,-1,2])) for _ in range(rng.choice([1,2,3]))]
    I1,I2=ivs(),ivs()
    for pname,prog in PROGS.items():
        res={}
        for d in DOMS:
            P,Dl=DOMS[d]
            try:
                f=build(d,closed,I1); g=build(d,closed,I2)
                res[d]=prog(d,f,g,P,Dl)
            except Exception as ex:
                res[d]=("EXC",type(ex).__name__,str(ex)[:60])
        ref=res["float"]
        for d in DOMS:
            if res[d]!=ref: fails[(pname,d, res[d][1] if isinstance(res[d],tuple) and res[d] and res[d][0]=="EXC" else "value")].append((closed,I1,I2,ref,res[d]))
for k,v in sorted(fails.items()):
    print(k,len(v)); v=sorted(v,key=lambda t: len(str(t))); print("   e.g.",v[0])
print("done; failing keys:",len(fails)); print("sample float results:", {p: str(PROGS[p]("float",build("float","left",[(0,2,1),(1,None,2)]),build("float","left",[(1,3,-1)]),*DOMS["float"]))[:80] for p in ("add","rolling","covlag","hist","resample")})
print("sample syd results:", {p: str(PROGS[p]("syd",build("syd","left",[(0,2,1),(1,None,2)]),build("syd","left",[(1,3,-1)]),*DOMS["syd"]))[:80] for p in ("add","rolling","covlag","hist","resample")})
