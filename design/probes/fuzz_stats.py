from ref import *
import collections
from fractions import Fraction
rng=random.Random(4)
fails=collections.defaultdict(list)
N=int(sys.argv[1]) if len(sys.argv)>1 else 3000
def pieces(a):
    # finite defined pieces: (len, val)
    out=[]
    for i in range(len(a.pts)-1):
        v=a.vals[i+1]
        if v is not None: out.append((a.pts[i+1]-a.pts[i], v))
    return out
def close(x,y):
    if x is None or y is None: return False
    if isinstance(x,float) and math.isnan(x) and isinstance(y,float) and math.isnan(y): return True
    return abs(x-y)<=1e-9*(1+abs(y))
def fn(a,x):  # value at x under closed convention
    if a.closed=="left": k=sum(1 for p in a.pts if p<=x)
    else: k=sum(1 for p in a.pts if p<x)
    return a.vals[k]
def vir(a, lo, hi, cl):
    # set of values taken at defined points of interval
    # candidate points: endpoints, pts, midpoints, far
    cands=set()
    allp=sorted(set(a.pts)|({lo} if lo is not None else set())|({hi} if hi is not None else set()))
    if not allp: allp=[0]
    ext=[allp[0]-1]+allp+[allp[-1]+1]
    for i in range(len(ext)):
        cands.add(ext[i])
        if i+1<len(ext): cands.add((ext[i]+ext[i+1])/2)
    def inside(x):
        if lo is not None:
            if x<lo or (x==lo and cl not in("left","both")): return False
        if hi is not None:
            if x>hi or (x==hi and cl not in("right","both")): return False
        return True
    return sorted({fn(a,x) for x in cands if inside(x) and fn(a,x) is not None})
for it in range(N):
    closed=rng.choice(["left","right"])
    a=rand_pf(rng,closed,maxn=5)
    A=build(a)
    if rng.random()<0.5: A.step_changes
    ps=pieces(a)
    try:
        # values_in_range
        lo=rng.choice([None,0,1,1.5,2,3]); hi=rng.choice([None,2,2.5,3,4,6]); cl=rng.choice(["left","right","both","neither",None])
        if lo is None or hi is None or lo<hi:
            exp=vir(a,lo,hi,cl if cl else closed)
            got=sorted(float(x) for x in (A.values_in_range((lo,hi),cl) if cl else A.values_in_range((lo,hi))))
            if exp!=got: fails[("vir",closed,cl,"lo_on_step" if lo in a.pts else "", "hi_on_step" if hi in a.pts else "")].append((a,lo,hi,cl,exp,got))
            if exp:
                try:
                    mn=A.agg("min",(lo,hi),cl); mx=A.agg("max",(lo,hi),cl)
                    if mn!=exp[0] or mx!=exp[-1]: fails[("minmax",)].append((a,lo,hi,cl,exp,mn,mx))
                except Exception as ex: fails[("minmax","exc",type(ex).__name__)].append((a,lo,hi,cl,str(ex)[:50]))
        if ps:
            tot=sum(l for l,v in ps); integ=sum(l*v for l,v in ps); mean=integ/tot
            var=sum(l*(v-mean)**2 for l,v in ps)/tot
            if not close(A.integral(),integ): fails[("integral",)].append((a,integ,A.integral()))
            if not close(A.mean(),mean): fails[("mean",)].append((a,mean,A.mean()))
            if not close(A.var(),var): fails[("var",)].append((a,var,A.var()))
            if not close(A.std(),math.sqrt(var)): fails[("std",)].append((a,var,A.std()))
            vs=collections.defaultdict(float)
            for l,v in ps: vs[v]+=l
            got=A.value_sums(); 
            if dict(vs)!={float(k):float(v) for k,v in got.items()}: fails[("value_sums",)].append((a,dict(vs),got.to_dict()))
            # ecdf
            for y in [-3,-2,-1,-0.5,0,1,2,3]:
                e=sum(l for l,v in ps if v<=y)/tot; el=sum(l for l,v in ps if v<y)/tot
                if not close(A.ecdf(y),e): fails[("ecdf",)].append((a,y,e,A.ecdf(y)))
                if not close(A.ecdf.limit(y,"left"),el): fails[("ecdf_left",)].append((a,y,el,A.ecdf.limit(y,"left")))
            # percentile
            sv=sorted(vs)
            for p in [0,10,25,50,75,100]+[100*sum(vs[v] for v in sv[:i])/tot for i in range(1,len(sv))]:
                fr=p/100
                # lower quantile: smallest v with ecdf(v)>=fr ; upper: smallest v with ecdf(v)>fr (or max)
                cum=0;lowq=None;upq=None
                for v in sv:
                    cum+=vs[v]/tot
                    if lowq is None and cum>=fr-1e-12: lowq=v
                    if upq is None and cum>fr+1e-12: upq=v
                if upq is None: upq=sv[-1]
                if fr<=1e-12: lowq=sv[0]
                exp=(lowq+upq)/2
                if not close(A.percentile(p),exp): fails[("percentile",)].append((a,p,exp,A.percentile(p)))
            mode=A.mode(); 
            if vs[mode]!=max(vs.values()): fails[("mode",)].append((a,mode))
    except Exception as ex:
        fails[("exc",type(ex).__name__,str(ex)[:40])].append((a,))
for k,v in sorted(fails.items(), key=lambda kv: str(kv[0])):
    print(k,len(v)); 
    v=sorted(v,key=lambda t: len(str(t)))
    print("   e.g.",v[0])
print("---- filtered")
c=0
for (a,p,exp,got) in fails.get(("percentile",),[]):
    tot=sum(l for l,v in pieces(a))
    if tot in (1,2,4,8):
        c+=1
        if c<8: print(a,p,exp,got)
print("percentile failures with dyadic total:",c)
c=0
for k,v in fails.items():
    if k[0]=="vir":
        for t in v:
            if t[0].pts or t[0].vals!=[None]:
                c+=1; print(k,t)
print("vir other:",c)
