from ref import *
import collections
rng=random.Random(3)
fails=collections.defaultdict(list)
N=int(sys.argv[1]) if len(sys.argv)>1 else 3000
def layer_ref(a, s, e, v):
    # a: PF; add v on [s,e) (s None=-inf, e None=inf); s>e reversed => +v at s, -v at e
    ind_pts=sorted(set(([s] if s is not None else [])+([e] if e is not None else [])))
    def contrib(lb):  # lb: left boundary of a piece (or -inf)
        c=0.0
        if s is None or lb>=s: c+=v
        if e is not None and lb>=e: c-=v
        return c
    pts=sorted(set(a.pts)|set(ind_pts))
    vals=[]
    for i in range(len(pts)+1):
        lb=-math.inf if i==0 else pts[i-1]
        k=sum(1 for p in a.pts if p<=lb)
        av=a.vals[k]
        vals.append(None if av is None else av+contrib(lb))
    return PF(pts,vals,a.closed).canon()
for it in range(N):
    closed=rng.choice(["left","right"])
    nanrecv=rng.random()<0.3
    a=rand_pf(rng,closed,allow_nan=nanrecv)
    A=build(a)
    mode=rng.choice(["v","dv"])
    if mode=="dv": A.step_changes
    hist=[]
    exp=a
    try:
        for _ in range(rng.choice([1,2,2,3])):
            if rng.random()<0.6:
                s=rng.choice([None,0,1,2,3]); e=rng.choice([None,1,2,3,4]); v=rng.choice([1,-1,2,None])
                hist.append(("scalar",s,e,v))
                r=A.layer(s,e,v); assert r is A
                exp=layer_ref(exp,s,e,1.0 if v is None else float(v))
            else:
                n=rng.choice([1,2,3])
                ss=[rng.choice([None,0,1,2,3]) for _ in range(n)]; ee=[rng.choice([None,1,2,3,4]) for _ in range(n)]; vv=[rng.choice([1,-1,2]) for _ in range(n)]
                hist.append(("vector",ss,ee,vv))
                r=A.layer(ss,ee,vv); assert r is A
                for s,e,v in zip(ss,ee,vv):
                    s=None if s is None else s; exp=layer_ref(exp,s,e,float(v))
            ok,got=same(exp,A)
            kind="nanrecv" if any(v is None for v in a.vals) else "plain"
            if not ok: fails[(kind,hist[-1][0],"value")].append((a,mode,list(hist),exp,got)); break
            elif got.pts!=got.canon().pts: fails[(kind,hist[-1][0],"nonminimal")].append((a,mode,list(hist),exp,got)); break
    except Exception as ex:
        fails[("exc",type(ex).__name__)].append((a,hist,str(ex)[:80]))
for k,v in sorted(fails.items(), key=lambda kv: str(kv[0])):
    print(k,len(v)); 
    v=sorted(v,key=lambda t: len(str(t)))
    print("   e.g.",v[0])
print("---- plain vector failures not explained by (mode v & None start)")
c=0
for (a,mode,hist,exp,got) in fails.get(("plain","vector","value"),[]):
    last=hist[-1]
    prior_layers=len(hist)>1
    if mode=="v" and not prior_layers and any(s is None for s in last[1]): continue
    c+=1
    if c<6: print(a,mode,hist,exp,got)
print(c)
