from ref import *
import collections, statistics
rng=random.Random(7)
fails=collections.defaultdict(list)
N=int(sys.argv[1]) if len(sys.argv)>1 else 1500
def mergeN(ms, f, closed):
    pts=sorted(set().union(*[set(m.pts) for m in ms]))
    vals=[]
    for i in range(len(pts)+1):
        lb=-math.inf if i==0 else pts[i-1]
        xs=[m.vals[sum(1 for p in m.pts if p<=lb)] for m in ms]
        vals.append(None if any(x is None for x in xs) else float(f(xs)))
    return PF(pts,vals,closed).canon()
AGG={"sum":sum,"mean":lambda xs: sum(xs)/len(xs),"median":statistics.median,"min":min,"max":max,
     "logical_or":lambda xs: any(x!=0 for x in xs),"logical_and":lambda xs: all(x!=0 for x in xs)}
for it in range(N):
    closed=rng.choice(["left","right"])
    n=rng.choice([1,2,3,4])
    ms=[rand_pf(rng,closed) for _ in range(n)]
    Ms=[build(m) for m in ms]
    name=rng.choice(list(AGG))
    cont=rng.choice(["list","tuple","dict","array","series"])
    coll={"list":Ms,"tuple":tuple(Ms),"dict":{i:m for i,m in enumerate(Ms)},"array":sc.StairsArray(Ms),"series":pd.Series(Ms)}[cont]
    try:
        R=getattr(sc,name)(coll)
        exp=mergeN(ms,AGG[name],closed)
        ok,got=same(exp,R)
        anysteps=any(m.pts for m in ms)
        if not ok: fails[(name,"value")].append((ms,exp,got))
        elif got.pts!=got.canon().pts: fails[(name,"nonminimal")].append((ms,exp,got))
        if R.closed!=closed: fails[("closed","first has steps" if ms[0].pts else "first const")].append((ms,R.closed))
    except Exception as ex:
        fails[("exc",type(ex).__name__,str(ex)[:40],"allconst" if not any(m.pts for m in ms) else "", cont)].append((ms,))
for k,v in sorted(fails.items(), key=lambda kv: str(kv[0])):
    print(k,len(v)); 
    v=sorted(v,key=lambda t: len(str(t)))
    print("   e.g.",v[0])
