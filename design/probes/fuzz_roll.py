from ref import *
import collections
rng=random.Random(8)
fails=collections.defaultdict(list)
N=int(sys.argv[1]) if len(sys.argv)>1 else 800
def mean_between(a,lo,hi):
    pts=sorted(set(a.pts)|{lo,hi}); num=0;den=0
    for i in range(len(pts)-1):
        if pts[i]>=lo and pts[i+1]<=hi:
            v=a.vals[sum(1 for p in a.pts if p<=pts[i])]
            if v is not None: num+=v*(pts[i+1]-pts[i]); den+=pts[i+1]-pts[i]
    return None if den==0 else num/den
def close(x,y):
    if isinstance(x,float) and math.isnan(x): return y is None
    if y is None: return False
    return abs(x-y)<=1e-9*(1+abs(y))
for it in range(N):
    closed=rng.choice(["left","right"])
    a=rand_pf(rng,closed,maxn=5,allow_nan=rng.random()<0.4)
    A=build(a)
    l,r=rng.choice([(-1,0),(0,1),(-1,1),(-0.5,1.5),(-2,0)])
    wh=rng.choice([None,(0,5),(1,4),(None,4),(0.5,None)])
    try:
        res=A.rolling_mean(window=(l,r)) if wh is None else A.rolling_mean(window=(l,r),where=wh)
        lo=-math.inf if wh is None or wh[0] is None else wh[0]; hi=math.inf if wh is None or wh[1] is None else wh[1]
        for x,y in res.items():
            if not isinstance(x,(int,float)): continue
            wl=max(x+l,lo); wr=min(x+r,hi)
            exp=mean_between(a,wl,wr) if wl<wr else None
            if not close(float(y),exp): fails[("value","nan" if None in a.vals else "plain","where" if wh else "")].append((a,(l,r),wh,x,exp,y)); break
        # knot completeness: every x where window edge meets a step point of clipped f, within where
        ap=[p for p in a.canon().pts]
        exp_knots=sorted({p-l for p in ap}|{p-r for p in ap})
        if wh is None:
            got=[float(x) for x in res.index] if a.pts else None
            if a.pts and got!=exp_knots: fails[("knots",)].append((a,(l,r),exp_knots,got))
    except Exception as ex:
        fails[("exc",type(ex).__name__,str(ex)[:50],"const" if not a.pts else "")].append((a,(l,r),wh))
for k,v in sorted(fails.items(), key=lambda kv: str(kv[0])):
    print(k,len(v)); 
    v=sorted(v,key=lambda t: len(str(t)))
    print("   e.g.",v[0])
