from ref import *
import collections
rng=random.Random(2)
fails=collections.defaultdict(list)
N=int(sys.argv[1]) if len(sys.argv)>1 else 3000
def pw(a,f):  # pointwise unary
    return PF(a.pts,[f(v) for v in a.vals],a.closed).canon()
def restrict(a, lo, hi):
    # keep a on [lo,hi) (closed semantic irrelevant at piece level), None elsewhere
    pts=sorted(set(a.pts)|({lo} if lo is not None else set())|({hi} if hi is not None else set()))
    def val(i):
        if i==0: lb=-math.inf
        else: lb=pts[i-1]
        k=sum(1 for p in a.pts if p<=lb)
        inside=(lo is None or lb>=lo) and (hi is None or lb<hi)
        return a.vals[k] if inside else None
    return PF(pts,[val(i) for i in range(len(pts)+1)],a.closed).canon()
def ffill(a):
    out=[];last=None
    for v in a.vals:
        if v is not None: last=v
        out.append(last if v is None else v)
    return PF(a.pts,out,a.closed).canon()
def bfill(a):
    r=ffill(PF(a.pts,a.vals[::-1],a.closed)); 
    out=[];last=None
    for v in a.vals[::-1]:
        if v is not None: last=v
        out.append(last if v is None else v)
    return PF(a.pts,out[::-1],a.closed).canon()
def check(name, desc, exp, R, closed):
    ok,got=same(exp,R)
    if not ok: fails[(name,"value")].append((desc,exp,got))
    elif got.pts!=got.canon().pts: fails[(name,"nonminimal")].append((desc,exp,got))
    if R.closed!=closed: fails[(name,"closed")].append((desc,R.closed))
if __name__=='__main__':
    for it in range(N):
        closed=rng.choice(["left","right"])
        a=rand_pf(rng,closed); b=rand_pf(rng,closed)
        A=build(a); B=build(b)
        if rng.random()<0.5: A.step_changes
        which=rng.choice(["clip","mask","where","masktuple","wheretuple","isna","notna","fillna_s","fillna_m","fillna_st","invert","bool","neg","shift"])
        try:
            if which=="clip":
                lo=rng.choice([None,0,1,1.5,2,3]); hi=rng.choice([None,2,2.5,3,4,6])
                if lo is not None and hi is not None and lo>=hi: continue
                check(which,(a,lo,hi),restrict(a,lo,hi),A.clip(lo,hi),closed)
            elif which in("mask","where"):
                if which=="mask": f=lambda x,y: None if (y is None or y!=0) else x
                else: f=lambda x,y: None if (y is None or y==0) else x
                exp=merge(a,b,f); exp.closed=closed
                check(which,(a,b),exp,getattr(A,which)(B),closed)
            elif which in("masktuple","wheretuple"):
                lo=rng.choice([None,0,1,1.5,2,3]); hi=rng.choice([None,2,2.5,3,4,6])
                if lo is not None and hi is not None and lo>=hi: continue
                if which=="wheretuple": exp=restrict(a,lo,hi)
                else:
                    ind=restrict(PF([],[1.0],closed),lo,hi); ind=PF(ind.pts,[0.0 if v is None else 1.0 for v in ind.vals],closed)
                    exp=merge(a,ind,lambda x,y: None if y!=0 else x); exp.closed=closed
                check(which,(a,lo,hi),exp,getattr(A,which[:-5])((lo,hi)),closed)
            elif which=="isna": check(which,a,pw(a,lambda v: 1.0 if v is None else 0.0),A.isna(),closed)
            elif which=="notna": check(which,a,pw(a,lambda v: 0.0 if v is None else 1.0),A.notna(),closed)
            elif which=="fillna_s": check(which,a,pw(a,lambda v: 7.0 if v is None else v),A.fillna(7),closed)
            elif which=="fillna_m":
                m=rng.choice(["ffill","pad","bfill","backfill"])
                check(which+m[0],(a,m),ffill(a) if m in("ffill","pad") else bfill(a),A.fillna(m),closed)
            elif which=="fillna_st":
                exp=merge(a,b,lambda x,y: y if x is None else x); exp.closed=closed
                check(which,(a,b),exp,A.fillna(B),closed)
            elif which=="invert": check(which,a,pw(a,lambda v: None if v is None else float(v==0)),~A,closed)
            elif which=="bool": check(which,a,pw(a,lambda v: None if v is None else float(v!=0)),A.make_boolean(),closed)
            elif which=="neg": check(which,a,pw(a,lambda v: None if v is None else -v),-A,closed)
            elif which=="shift":
                d=rng.choice([-1.5,0,2]); check(which,(a,d),PF([p+d for p in a.pts],a.vals,closed),A.shift(d),closed)
        except Exception as e:
            fails[(which,"exc",type(e).__name__)].append((a,b,str(e)[:80]))
    for k,v in sorted(fails.items(), key=lambda kv: str(kv[0])):
        print(k,len(v)); print("   e.g.",v[0])
