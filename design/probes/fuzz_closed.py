import warnings; warnings.simplefilter("ignore")
import numpy as np, pandas as pd, itertools, collections, operator
import staircase as sc
from staircase import Stairs
from staircase.core.exceptions import ClosedMismatchError
def mk(kind, closed):
    if kind=="steps": return Stairs(closed=closed).layer(1,3,2)
    if kind=="stepsnan": return Stairs(closed=closed).layer(1,3,2).clip(0,None)
    if kind=="const": return Stairs(initial_value=1, closed=closed)
    if kind=="const0": return Stairs(initial_value=0, closed=closed)
    if kind=="nan": return Stairs(initial_value=np.nan, closed=closed)
BIN={"add":operator.add,"sub":operator.sub,"mul":operator.mul,"div":operator.truediv,"lt":operator.lt,"ge":operator.ge,"eq":operator.eq,"ne":operator.ne,
 "and":operator.and_,"or":operator.or_,"xor":operator.xor,"mask":lambda a,b:a.mask(b),"where":lambda a,b:a.where(b),"fillna":lambda a,b:a.fillna(b),
 "sum":lambda a,b:sc.sum([a,b]),"max":lambda a,b:sc.max([a,b]),"logical_or":lambda a,b:sc.logical_or([a,b]),"arr_add":lambda a,b:(sc.StairsArray([a])+sc.StairsArray([b]))[0],
 "cov":lambda a,b:a.cov(b,where=(0,5))}
UN={"neg":lambda a:-a,"invert":lambda a:~a,"make_boolean":lambda a:a.make_boolean(),"clip":lambda a:a.clip(0,2),"clipnone":lambda a:a.clip(None,None),"masktuple":lambda a:a.mask((0,2)),"wheretuple":lambda a:a.where((0,2)),
 "isna":lambda a:a.isna(),"notna":lambda a:a.notna(),"fillna0":lambda a:a.fillna(0),"ffill":lambda a:a.fillna("ffill"),"shift":lambda a:a.shift(1),"diff":lambda a:a.diff(1),"copy":lambda a:a.copy(),
 "resample":lambda a:a.slice([0,2,4]).resample("mean"),"add_c":lambda a:a+1,"radd_c":lambda a:1+a,"lt_c":lambda a:a<1,"rlt_c":lambda a:1<a,"or_c":lambda a:a|1,"ror_c":lambda a:0|a,"mul_nan":lambda a:a*np.nan,"div0":lambda a:a/0,
 "slice_apply":lambda a:a.slice([0,2]).apply(lambda s:s).iloc[0]}
fails=collections.defaultdict(list)
kinds=["steps","stepsnan","const","const0","nan"]
for on,op in UN.items():
    for k in kinds:
        for c in ("left","right"):
            try:
                r=op(mk(k,c))
                if r.closed!=c: fails[("un",on,"closed")].append((k,c,r.closed))
            except Exception as e: fails[("un",on,"exc",type(e).__name__)].append((k,c,str(e)[:50]))
for on,op in BIN.items():
    for k1,k2 in itertools.product(kinds,kinds):
        for c1,c2 in itertools.product(("left","right"),repeat=2):
            a,b=mk(k1,c1),mk(k2,c2)
            s1=k1.startswith("steps"); s2=k2.startswith("steps")
            expect_err = s1 and s2 and c1!=c2
            exp_closed = c1 if s1 else (c2 if s2 else c1)
            try:
                r=op(a,b)
                if expect_err: fails[("bin",on,"no-mismatch-error")].append((k1,c1,k2,c2)); continue
                if isinstance(r,Stairs) and r.closed!=exp_closed: fails[("bin",on,"closed")].append((k1,c1,k2,c2,r.closed,exp_closed))
            except ClosedMismatchError:
                if not expect_err: fails[("bin",on,"spurious-mismatch")].append((k1,c1,k2,c2))
            except Exception as e: fails[("bin",on,"exc",type(e).__name__)].append((k1,c1,k2,c2,str(e)[:50]))
for k,v in sorted(fails.items()): print(k,len(v),"e.g.",v[0])
print("done")
