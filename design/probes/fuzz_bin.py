from ref import *
import collections
rng=random.Random(1)
fails=collections.defaultdict(list)
N=int(sys.argv[1]) if len(sys.argv)>1 else 3000
for it in range(N):
    closed=rng.choice(["left","right"])
    a=rand_pf(rng,closed); b=rand_pf(rng,closed)
    opn=rng.choice(list(OPS))
    scal=rng.random()<0.25
    mat=rng.choice(["v","d","dv"]); matb=rng.choice(["v","d","dv"])
    try:
        A=build(a); B=build(b)
        if mat!="v": A.step_changes
        if matb!="v": B.step_changes
        # 'd' only: cannot drop values via public API here; emulate through layer(…) no-op? skip
        if scal:
            c=b.vals[0]; cc=np.nan if c is None else c
            if rng.random()<0.5:
                R=PYOPS[opn](A,cc); exp=merge(a,PF([],[c],closed),OPS[opn]); desc=(opn,a,"scalar",c)
            else:
                R=PYOPS[opn](cc,A); exp=merge(PF([],[c],closed),a,OPS[opn]); desc=(opn,"scalar",c,a)
                exp.closed=closed
        else:
            R=PYOPS[opn](A,B); exp=merge(a,b,OPS[opn]); desc=(opn,a,b)
        ok,got=same(exp,R)
        minimal = (got.pts==got.canon().pts)
        if not ok: fails[(opn,"value", "scalar" if scal else "stairs")].append((desc,exp,got))
        elif not minimal: fails[(opn,"nonminimal","scalar" if scal else "stairs")].append((desc,exp,got))
        if R.closed!=closed: fails[(opn,"closed")].append((desc,R.closed))
        # follow-up op
        try: (R+1).to_frame(); R.copy().layer(0,1)
        except Exception as e: fails[(opn,"followup",type(e).__name__)].append((desc,str(e)[:60]))
    except Exception as e:
        fails[(opn,"exc",type(e).__name__)].append((desc if 'desc' in dir() else None,str(e)[:80]))
for k,v in sorted(fails.items(), key=lambda kv: str(kv[0])):
    print(k,len(v)); print("   e.g.",v[0])
